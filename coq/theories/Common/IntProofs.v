(* strconv round trip: ParseInt(FormatInt(z)) = z on int64, and the shape of printed numbers. *)
From Coq Require Import List NArith ZArith Bool Lia.
Import ListNotations.
From Emu.Common Require Import Bytes Str StrProofs.
Local Open Scope Z_scope.

Lemma parse_digits_app l1 : forall a l2,
  parse_digits a (l1 ++ l2) = match parse_digits a l1 with Some v => parse_digits v l2 | None => None end.
Proof.
  induction l1 as [|c r IH]; intros a l2; cbn [app parse_digits]; [reflexivity|].
  destruct (is_digit c); [apply IH|reflexivity].
Qed.

Lemma print_pos_fuel_app fuel : forall z acc, print_pos_fuel fuel z acc = print_pos_fuel fuel z [] ++ acc.
Proof.
  induction fuel as [|f IH]; intros z acc; cbn [print_pos_fuel]; [reflexivity|].
  destruct (z <? 10); [reflexivity|].
  rewrite (IH (z / 10) (_ :: acc)), (IH (z / 10) [_]), <- app_assoc. reflexivity.
Qed.

Lemma digit_char z : 0 <= z < 10 ->
  is_digit (48 + Z.to_N z)%N = true /\ Z.of_N (48 + Z.to_N z - 48)%N = z.
Proof. intros H. unfold is_digit. split; [apply andb_true_intro; split; apply N.leb_le; lia|lia]. Qed.

Lemma print_pos_value fuel : forall z a,
  0 <= z < 10 ^ Z.of_nat fuel ->
  exists k, 0 <= k /\ parse_digits a (print_pos_fuel fuel z []) = Some (a * 10 ^ k + z).
Proof.
  induction fuel as [|f IH]; intros z a Hz.
  - exists 0. cbn in *. split; [lia|]. f_equal. lia.
  - cbn [print_pos_fuel]. rewrite Nat2Z.inj_succ, Z.pow_succ_r in Hz by lia.
    assert (Hmod : 0 <= z mod 10 < 10) by (apply Z.mod_pos_bound; lia).
    destruct (digit_char (z mod 10) Hmod) as [Hd Hv].
    destruct (Z.ltb_spec z 10) as [Hlt|Hge].
    + exists 1. split; [lia|]. cbn [parse_digits]. rewrite Hd, Hv. f_equal. rewrite Z.mod_small by lia. lia.
    + rewrite print_pos_fuel_app.
      assert (Hq : 0 <= z / 10 < 10 ^ Z.of_nat f).
      { split; [apply Z.div_pos; lia|apply Z.div_lt_upper_bound; lia]. }
      destruct (IH (z / 10) a Hq) as [k [Hk Hp]]. exists (k + 1). split; [lia|].
      rewrite parse_digits_app, Hp. cbn [parse_digits]. rewrite Hd, Hv. f_equal.
      rewrite Z.pow_add_r by lia. pose proof (Z.div_mod z 10). lia.
Qed.

Lemma print_pos_head fuel : forall z, (1 <= fuel)%nat -> 0 <= z ->
  exists h t, print_pos_fuel fuel z [] = h :: t /\ is_digit h = true.
Proof.
  induction fuel as [|f IH]; intros z Hf Hz; [lia|]. cbn [print_pos_fuel].
  assert (Hmod : 0 <= z mod 10 < 10) by (apply Z.mod_pos_bound; lia).
  destruct (digit_char (z mod 10) Hmod) as [Hd _].
  destruct (z <? 10); [eauto|]. rewrite print_pos_fuel_app.
  destruct f as [|f'].
  - cbn. eauto.
  - destruct (IH (z / 10)) as [h [t [E Hh]]]; [lia|apply Z.div_pos; lia|]. rewrite E. cbn. eauto.
Qed.

Lemma parse_int_digit_head h t : is_digit h = true ->
  parse_int (h :: t) = match parse_digits 0 (h :: t) with
                       | None => None
                       | Some v => if (int64_min <=? v) && (v <=? int64_max) then Some v else None
                       end.
Proof.
  intros Hd. unfold is_digit in Hd. apply andb_prop in Hd. destruct Hd as [H1 H2].
  apply N.leb_le in H1, H2.
  assert (E : (h = 48 \/ h = 49 \/ h = 50 \/ h = 51 \/ h = 52 \/ h = 53 \/ h = 54 \/ h = 55 \/ h = 56 \/ h = 57)%N) by lia.
  destruct E as [->|[->|[->|[->|[->|[->|[->|[->|[->| ->]]]]]]]]]; reflexivity.
Qed.

Lemma pow10_20 : 10 ^ Z.of_nat 20 = 100000000000000000000.
Proof. reflexivity. Qed.

Theorem parse_print_int_roundtrip z : int64_min <= z <= int64_max -> parse_int (print_int z) = Some z.
Proof.
  unfold int64_min, int64_max. intros Hz. unfold print_int.
  destruct (Z.ltb_spec z 0) as [Hneg|Hpos].
  - assert (Hr : 0 <= - z < 10 ^ Z.of_nat 20) by (rewrite pow10_20; lia).
    destruct (print_pos_value 20 (- z) 0 Hr) as [k [_ Hp]].
    destruct (print_pos_head 20 (- z)) as [h [t [E _]]]; [lia|lia|].
    rewrite E in *. unfold parse_int. rewrite Hp. replace (- (0 * 10 ^ k + - z)) with z by lia.
    unfold int64_min, int64_max.
    destruct (Z.leb_spec (-9223372036854775808) z); [|lia].
    destruct (Z.leb_spec z 9223372036854775807); [|lia]. reflexivity.
  - assert (Hr : 0 <= z < 10 ^ Z.of_nat 20) by (rewrite pow10_20; lia).
    destruct (print_pos_value 20 z 0 Hr) as [k [_ Hp]].
    destruct (print_pos_head 20 z) as [h [t [E Hh]]]; [lia|lia|].
    rewrite E in *. rewrite (parse_int_digit_head h t Hh), Hp. replace (0 * 10 ^ k + z) with z by lia.
    unfold int64_min, int64_max.
    destruct (Z.leb_spec (-9223372036854775808) z); [|lia].
    destruct (Z.leb_spec z 9223372036854775807); [|lia]. reflexivity.
Qed.

Lemma print_pos_all_digits fuel : forall z acc, 0 <= z ->
  forallb is_digit acc = true -> forallb is_digit (print_pos_fuel fuel z acc) = true.
Proof.
  induction fuel as [|f IH]; intros z acc Hz Hacc; cbn [print_pos_fuel]; [exact Hacc|].
  assert (Hmod : 0 <= z mod 10 < 10) by (apply Z.mod_pos_bound; lia).
  destruct (digit_char (z mod 10) Hmod) as [Hd _].
  assert (Hacc' : forallb is_digit ((48 + Z.to_N (z mod 10))%N :: acc) = true) by (cbn [forallb]; rewrite Hd, Hacc; reflexivity).
  destruct (z <? 10); [exact Hacc'|]. apply IH; [apply Z.div_pos; lia|exact Hacc'].
Qed.

(* a non-negative number prints as a non-empty string of decimal digits *)
Lemma print_int_digits z : 0 <= z ->
  forallb is_digit (print_int z) = true /\ exists h t, print_int z = h :: t /\ is_digit h = true.
Proof.
  intros Hz. unfold print_int. destruct (Z.ltb_spec z 0) as [Hneg|_]; [lia|].
  split; [apply print_pos_all_digits; [exact Hz|reflexivity]|apply print_pos_head; [lia|exact Hz]].
Qed.

From Coq Require Import List Arith Lia Bool.
Import ListNotations.
From Emu.Common Require Import Mutex.

Section P.
Variables St Loc : Type.
Notation tstate := (tstate St Loc).
Notation state := (state St Loc).
Notation In_ := (@In St Loc).
Notation Out_ := (@Out St Loc).
Notation is_in := (@is_in St Loc).

Definition cnt (ts : list tstate) := length (filter is_in ts).

Lemma cnt_upd ts t old new : nth_error ts t = Some old ->
  cnt (upd ts t new) + (if is_in old then 1 else 0) = cnt ts + (if is_in new then 1 else 0).
Proof.
  unfold cnt. revert t. induction ts as [|x xs IH]; intros [|t] H; simpl in *; try discriminate.
  - injection H as ->. destruct (is_in old), (is_in new); simpl; lia.
  - specialize (IH t H). destruct (is_in x); simpl; lia.
Qed.

Lemma existsb_cnt ts : existsb is_in ts = false <-> cnt ts = 0.
Proof.
  unfold cnt. induction ts as [|x xs IH]; simpl; [tauto|].
  destruct (is_in x); simpl; [split; [discriminate|lia]|exact IH].
Qed.

Lemma complete_noin σ ts : cnt ts = 0 -> complete_thr σ ts = (σ, ts).
Proof.
  unfold cnt. induction ts as [|x xs IH]; simpl; intros H; auto.
  destruct x; simpl in *; [|lia]. rewrite IH by lia. reflexivity.
Qed.

Lemma complete_at ts : forall t l ms secs σ,
  nth_error ts t = Some (In_ l ms secs) -> cnt ts <= 1 ->
  complete_thr σ ts = (let '(σ', l') := run_ms ms σ l in (σ', upd ts t (Out_ l' secs))).
Proof.
  induction ts as [|x xs IH]; intros [|t] l ms secs σ H Hc; simpl in *; try discriminate.
  - injection H as ->. simpl. destruct (run_ms ms σ l). reflexivity.
  - assert (Hpos : 0 < cnt xs).
    { pose proof (cnt_upd xs t _ (Out_ l secs) H) as Hu. simpl in Hu. lia. }
    unfold cnt in *. destruct x; simpl in *; [|lia].
    rewrite (IH t l ms secs σ H) by lia. destruct (run_ms ms σ l). reflexivity.
Qed.

Lemma upd_upd {A} (l : list A) t a b : upd (upd l t a) t b = upd l t b.
Proof. revert t. induction l; intros [|t]; simpl; auto. f_equal. auto. Qed.
Lemma nth_upd_same {A} (l : list A) t v old : nth_error l t = Some old -> nth_error (upd l t v) t = Some v.
Proof. revert t. induction l; intros [|t] H; simpl in *; try discriminate; auto. Qed.

Definition lockinv (s : state) := cnt (thr s) <= 1.

Lemma fstep_spec (s : state) t : lockinv s ->
  let '(s', acq) := fstep s t in
  lockinv s' /\ complete s' = (if acq then sstep (complete s) t else complete s).
Proof.
  intros Hinv. unfold fstep, lockinv in *.
  destruct (nth_error (thr s) t) as [[l [|sec secs]|l [|m ms] secs]|] eqn:Ht; simpl; auto.
  - (* Out, try acquire *)
    unfold lock_free. destruct (existsb is_in (thr s)) eqn:Ex; simpl; auto.
    apply existsb_cnt in Ex. split.
    + pose proof (cnt_upd _ _ _ (In_ l sec secs) Ht) as Hu. simpl in Hu. lia.
    + unfold complete at 2. simpl. rewrite complete_noin by assumption.
      unfold complete. simpl.
      rewrite (complete_at _ t l sec secs (sh s) (nth_upd_same _ _ _ _ Ht)).
      2:{ pose proof (cnt_upd _ _ _ (In_ l sec secs) Ht) as Hu. simpl in Hu. lia. }
      unfold sstep. simpl. rewrite Ht. destruct (run_ms sec (sh s) l). rewrite upd_upd. reflexivity.
  - (* In, release *)
    split.
    + pose proof (cnt_upd _ _ _ (Out_ l secs) Ht) as Hu. simpl in Hu. lia.
    + unfold complete. simpl. rewrite (complete_at _ t l [] secs (sh s) Ht Hinv). simpl.
      rewrite complete_noin; auto.
      pose proof (cnt_upd _ _ _ (Out_ l secs) Ht) as Hu. simpl in Hu. lia.
  - (* In, micro-step *)
    destruct (m (sh s) l) as [σ' l'] eqn:Hm. split.
    + simpl. pose proof (cnt_upd _ _ _ (In_ l' ms secs) Ht) as Hu. simpl in Hu. lia.
    + unfold complete. simpl.
      rewrite (complete_at _ t l (m :: ms) secs (sh s) Ht Hinv). simpl. rewrite Hm.
      rewrite (complete_at _ t l' ms secs σ' (nth_upd_same _ _ _ _ Ht)).
      2:{ pose proof (cnt_upd _ _ _ (In_ l' ms secs) Ht) as Hu. simpl in Hu. lia. }
      destruct (run_ms ms σ' l'). rewrite upd_upd. reflexivity.
Qed.

Theorem mutex_serialises (sched : list nat) : forall s : state, lockinv s ->
  let '(s', log) := frun s sched in
  lockinv s' /\ complete s' = srun (complete s) log.
Proof.
  induction sched as [|t rest IH]; intros s Hinv; simpl.
  - split; auto.
  - pose proof (fstep_spec s t Hinv) as Hs. destruct (fstep s t) as [s1 acq].
    destruct Hs as [Hinv1 Hc1]. specialize (IH s1 Hinv1).
    destruct (frun s1 rest) as [s2 log]. destruct IH as [Hinv2 Hc2]. split; auto.
    rewrite Hc2, Hc1. destruct acq; reflexivity.
Qed.

(* at quiescence the completed state is the state itself *)
Corollary mutex_serialises_quiescent sched (s : state) :
  cnt (thr s) = 0 ->
  let '(s', log) := frun s sched in
  cnt (thr s') = 0 -> s' = srun s log.
Proof.
  intros H0. pose proof (mutex_serialises sched s ltac:(unfold lockinv; lia)) as H.
  destruct (frun s sched) as [s' log]. destruct H as [_ Hc]. intros Hq.
  unfold complete in Hc. rewrite !complete_noin in Hc by assumption.
  destruct s, s'. simpl in *. exact Hc.
Qed.
End P.
Print Assumptions mutex_serialises_quiescent.

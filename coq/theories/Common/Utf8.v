(* UTF-8 validity of a byte string, as unicode/utf8.ValidString decides it (RFC 3629: no
   overlong forms, no surrogates, nothing above U+10FFFF). *)
From Coq Require Import List NArith Bool Lia.
Import ListNotations.
From Emu.Common Require Import Bytes.

Definition in_range (lo hi x : N) : bool := (lo <=? x)%N && (x <=? hi)%N.
Definition cont (x : N) : bool := in_range 128 191 x.      (* 0x80..0xBF *)

(* [utf8_valid_fuel]: structural on the fuel (the length of the string suffices: every step
   consumes at least one byte) *)
Fixpoint utf8_valid_fuel (fuel : nat) (s : bytes) : bool :=
  match fuel with
  | O => match s with [] => true | _ => false end
  | S fuel' =>
    match s with
    | [] => true
    | a :: r =>
      if (a <? 128)%N then utf8_valid_fuel fuel' r
      else if in_range 194 223 a then                          (* C2..DF *)
        match r with b :: r' => cont b && utf8_valid_fuel fuel' r' | _ => false end
      else if in_range 224 239 a then                          (* E0..EF *)
        match r with
        | b :: c :: r' =>
            (if (a =? 224)%N then in_range 160 191 b           (* E0: A0..BF *)
             else if (a =? 237)%N then in_range 128 159 b      (* ED: 80..9F *)
             else cont b)
            && cont c && utf8_valid_fuel fuel' r'
        | _ => false
        end
      else if in_range 240 244 a then                          (* F0..F4 *)
        match r with
        | b :: c :: d :: r' =>
            (if (a =? 240)%N then in_range 144 191 b           (* F0: 90..BF *)
             else if (a =? 244)%N then in_range 128 143 b      (* F4: 80..8F *)
             else cont b)
            && cont c && cont d && utf8_valid_fuel fuel' r'
        | _ => false
        end
      else false
    end
  end.

Definition utf8_valid (s : bytes) : bool := utf8_valid_fuel (length s) s.

Definition ascii (s : bytes) : Prop := Forall (fun x => (x < 128)%N) s.

Lemma utf8_valid_nil : utf8_valid [] = true.
Proof. reflexivity. Qed.

Lemma ascii_valid_fuel s : ascii s -> forall fuel, length s <= fuel -> utf8_valid_fuel fuel s = true.
Proof.
  induction 1 as [|x l Hx Hl IH]; intros fuel Hf.
  - destruct fuel; reflexivity.
  - destruct fuel as [|fuel]; [simpl in Hf; lia|].
    cbn [utf8_valid_fuel]. apply N.ltb_lt in Hx. rewrite Hx. apply IH. simpl in Hf. lia.
Qed.

(* every ASCII string is valid *)
Lemma ascii_valid s : ascii s -> utf8_valid s = true.
Proof. intros H. apply ascii_valid_fuel; auto. Qed.

(* a string containing a byte that never occurs in UTF-8 (C0, C1, F5..FF) is invalid *)
Definition never_byte (x : N) : bool := in_range 192 193 x || (245 <=? x)%N.

(* witnesses (vm_compute): the classical traps *)
Example utf8_ok_2 : utf8_valid ([195; 169]%N : bytes) = true.  Proof. reflexivity. Qed.          (* e-acute *)
Example utf8_ok_3 : utf8_valid ([226; 130; 172]%N : bytes) = true.  Proof. reflexivity. Qed.     (* euro sign *)
Example utf8_ok_4 : utf8_valid ([240; 159; 152; 128]%N : bytes) = true.  Proof. reflexivity. Qed.
Example utf8_ok_fffd : utf8_valid ([239; 191; 189]%N : bytes) = true.  Proof. reflexivity. Qed.  (* U+FFFD *)
Example utf8_bad_ff : utf8_valid ([97; 255; 98]%N : bytes) = false.  Proof. reflexivity. Qed.
Example utf8_bad_overlong : utf8_valid ([192; 175]%N : bytes) = false.  Proof. reflexivity. Qed.
Example utf8_bad_overlong3 : utf8_valid ([224; 128; 175]%N : bytes) = false.  Proof. reflexivity. Qed.
Example utf8_bad_surrogate : utf8_valid ([237; 160; 128]%N : bytes) = false.  Proof. reflexivity. Qed.
Example utf8_bad_truncated : utf8_valid ([226; 130]%N : bytes) = false.  Proof. reflexivity. Qed.
Example utf8_bad_lone_cont : utf8_valid ([128]%N : bytes) = false.  Proof. reflexivity. Qed.
Example utf8_bad_above_max : utf8_valid ([244; 144; 128; 128]%N : bytes) = false.  Proof. reflexivity. Qed.

(* Executable string/byte-slice helpers mirroring the Go standard-library
   functions the emulators use (strings.HasPrefix, TrimPrefix, Index, Split,
   Contains, HasSuffix, bytes.Compare, strconv.ParseInt).  No proofs here. *)
From Coq Require Import List NArith ZArith Bool.
Import ListNotations.
From Emu.Common Require Import Bytes.

Definition str := bytes.

Fixpoint beqb (a b : bytes) : bool :=
  match a, b with
  | [], [] => true
  | x :: xs, y :: ys => N.eqb x y && beqb xs ys
  | _, _ => false
  end.

Definition lex_ltb (a b : bytes) : bool := match lex_cmp a b with Lt => true | _ => false end.
Definition lex_leb (a b : bytes) : bool := match lex_cmp a b with Gt => false | _ => true end.
Definition lex_gtb (a b : bytes) : bool := lex_ltb b a.
Definition lex_geb (a b : bytes) : bool := lex_leb b a.

Fixpoint has_prefix (s p : bytes) : bool :=
  match p, s with
  | [], _ => true
  | _ :: _, [] => false
  | y :: ps, x :: ss => N.eqb x y && has_prefix ss ps
  end.

Definition has_suffix (s p : bytes) : bool := has_prefix (rev s) (rev p).

Definition trim_prefix (s p : bytes) : bytes :=
  if has_prefix s p then skipn (length p) s else s.

(* strings.Index: position of the first occurrence of sep in s ([] occurs at 0) *)
Fixpoint index_of (s sep : bytes) : option nat :=
  if has_prefix s sep then Some 0
  else match s with
       | [] => None
       | _ :: r => match index_of r sep with Some n => Some (S n) | None => None end
       end.

Definition contains (s sep : bytes) : bool :=
  match index_of s sep with Some _ => true | None => false end.

(* strings.Split(s, sep) for a non-empty sep: fuel-free structural version.
   [cur] accumulates the current piece in reverse. *)
Fixpoint split_go (sep : bytes) (skip : nat) (cur : bytes) (s : bytes) : list bytes :=
  match s with
  | [] => [rev cur]
  | c :: r =>
      match skip with
      | S k => split_go sep k cur r            (* inside a matched separator *)
      | O => if has_prefix s sep
             then rev cur :: split_go sep (length sep - 1) [] r
             else split_go sep 0 (c :: cur) r
      end
  end.
Definition split (s sep : bytes) : list bytes := split_go sep 0 [] s.

(* strconv.ParseInt(s, 10, 64) *)
Definition is_digit (c : N) : bool := (48 <=? c)%N && (c <=? 57)%N.
Fixpoint parse_digits (acc : Z) (s : bytes) : option Z :=
  match s with
  | [] => Some acc
  | c :: r => if is_digit c then parse_digits (acc * 10 + Z.of_N (c - 48)) r else None
  end.
Definition int64_min : Z := (- 9223372036854775808)%Z.
Definition int64_max : Z := 9223372036854775807%Z.
Definition parse_int (s : bytes) : option Z :=
  let '(neg, ds) := match s with
                    | 45%N :: r => (true, r)
                    | 43%N :: r => (false, r)
                    | _ => (false, s)
                    end in
  match ds with
  | [] => None
  | _ => match parse_digits 0 ds with
         | None => None
         | Some v => let v' := if neg then (- v)%Z else v in
                     if (int64_min <=? v')%Z && (v' <=? int64_max)%Z then Some v' else None
         end
  end.

(* decimal printing (strconv.FormatInt(z, 10)) with explicit fuel = number of digits *)
Fixpoint print_pos_fuel (fuel : nat) (z : Z) (acc : bytes) : bytes :=
  match fuel with
  | O => acc
  | S f => let d := Z.to_N (z mod 10) in
           let acc' := (48 + d)%N :: acc in
           if (z <? 10)%Z then acc' else print_pos_fuel f (z / 10) acc'
  end.
Definition print_int (z : Z) : bytes :=
  if (z <? 0)%Z then 45%N :: print_pos_fuel 20 (- z) [] else print_pos_fuel 20 z [].

Definition wrap64 (z : Z) : Z :=
  ((z + 9223372036854775808) mod 18446744073709551616 - 9223372036854775808)%Z.

(* association lists keyed by bytes, kept sorted by key, one entry per key *)
Section AList.
  Context {V : Type}.
  Fixpoint alookup (k : bytes) (l : list (bytes * V)) : option V :=
    match l with
    | [] => None
    | (k', v) :: r => if beqb k k' then Some v else alookup k r
    end.
  Fixpoint ainsert (k : bytes) (v : V) (l : list (bytes * V)) : list (bytes * V) :=
    match l with
    | [] => [(k, v)]
    | (k', v') :: r =>
        match lex_cmp k k' with
        | Lt => (k, v) :: l
        | Eq => (k, v) :: r
        | Gt => (k', v') :: ainsert k v r
        end
    end.
  Fixpoint aremove (k : bytes) (l : list (bytes * V)) : list (bytes * V) :=
    match l with
    | [] => []
    | (k', v') :: r => if beqb k k' then r else (k', v') :: aremove k r
    end.
End AList.

(* Compact literals for the correspondence check: a byte string is written as one
   hexadecimal numeral with a leading sentinel byte 01 (so leading zero bytes survive). *)
Fixpoint H_fuel (fuel : nat) (n : N) (acc : bytes) : bytes :=
  match fuel with
  | O => acc
  | S f => if (n <=? 1)%N then acc
           else H_fuel f (N.shiftr n 8) (N.land n 255 :: acc)
  end.
Definition H (n : N) : bytes := H_fuel (S (N.to_nat (N.size n) / 8)) n [].
Definition E : bytes := [].
Arguments H n%N.

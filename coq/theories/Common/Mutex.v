From Coq Require Import List Arith Lia Bool.
Import ListNotations.
Set Implicit Arguments.

Section Mutex.
Variables St Loc : Type.
Definition mstep := St -> Loc -> St * Loc.
Definition section := list mstep.

Inductive tstate :=
| Out (l : Loc) (secs : list section)
| In  (l : Loc) (ms : list mstep) (secs : list section).

Record state := { sh : St; thr : list tstate }.

Fixpoint upd {A} (l : list A) (n : nat) (v : A) : list A :=
  match l, n with
  | [], _ => []
  | _ :: xs, 0 => v :: xs
  | x :: xs, S n => x :: upd xs n v
  end.

Definition is_in (t : tstate) : bool := match t with In _ _ _ => true | _ => false end.
Definition lock_free (s : state) : bool := negb (existsb is_in (thr s)).

Fixpoint run_ms (ms : list mstep) (σ : St) (l : Loc) : St * Loc :=
  match ms with [] => (σ, l) | m :: ms' => let '(σ', l') := m σ l in run_ms ms' σ' l' end.

(* fine-grained semantics: thread t tries to take one step; disabled = stutter.
   Returns the new state and whether this step was an acquisition. *)
Definition fstep (s : state) (t : nat) : state * bool :=
  match nth_error (thr s) t with
  | Some (Out l (sec :: secs)) =>
      if lock_free s then ({| sh := sh s; thr := upd (thr s) t (In l sec secs) |}, true) else (s, false)
  | Some (In l (m :: ms) secs) =>
      let '(σ', l') := m (sh s) l in ({| sh := σ'; thr := upd (thr s) t (In l' ms secs) |}, false)
  | Some (In l [] secs) => ({| sh := sh s; thr := upd (thr s) t (Out l secs) |}, false)
  | _ => (s, false)
  end.

(* serial semantics: thread t runs its whole next section atomically *)
Definition sstep (s : state) (t : nat) : state :=
  match nth_error (thr s) t with
  | Some (Out l (sec :: secs)) =>
      let '(σ', l') := run_ms sec (sh s) l in {| sh := σ'; thr := upd (thr s) t (Out l' secs) |}
  | _ => s
  end.

Fixpoint frun (s : state) (sched : list nat) : state * list nat (* acquisition log *) :=
  match sched with
  | [] => (s, [])
  | t :: rest => let '(s', acq) := fstep s t in
                 let '(s'', log) := frun s' rest in (s'', if acq then t :: log else log)
  end.

Definition srun (s : state) (order : list nat) : state := fold_left sstep order s.

(* completion: finish the holder's section *)
Fixpoint complete_thr (σ : St) (ts : list tstate) : St * list tstate :=
  match ts with
  | [] => (σ, [])
  | In l ms secs :: rest => let '(σ', l') := run_ms ms σ l in (σ', Out l' secs :: rest)
  | x :: rest => let '(σ', rest') := complete_thr σ rest in (σ', x :: rest')
  end.
Definition complete (s : state) : state :=
  let '(σ', ts') := complete_thr (sh s) (thr s) in {| sh := σ'; thr := ts' |}.

Definition at_most_one_in (ts : list tstate) : Prop := length (filter is_in ts) <= 1.

End Mutex.
Arguments Out {St Loc}.
Arguments In {St Loc}.


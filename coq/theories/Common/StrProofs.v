From Coq Require Import List NArith ZArith Bool Lia.
Import ListNotations.
From Emu.Common Require Import Bytes Str.

Lemma beqb_refl a : beqb a a = true.
Proof. induction a; cbn; auto. rewrite N.eqb_refl. auto. Qed.

Lemma beqb_eq a : forall b, beqb a b = true <-> a = b.
Proof.
  induction a as [|x xs IH]; intros [|y ys]; cbn; split; intros H; try discriminate; auto.
  - apply andb_prop in H. destruct H as [H1 H2]. apply N.eqb_eq in H1. apply IH in H2. congruence.
  - injection H as -> ->. rewrite N.eqb_refl. apply beqb_refl.
Qed.

Lemma beqb_neq a b : beqb a b = false <-> a <> b.
Proof.
  split; intros H.
  - intros ->. rewrite beqb_refl in H. discriminate.
  - destruct (beqb a b) eqn:E; auto. apply beqb_eq in E. contradiction.
Qed.

Lemma beqb_sym a b : beqb a b = beqb b a.
Proof.
  destruct (beqb a b) eqn:E1, (beqb b a) eqn:E2; auto.
  - apply beqb_eq in E1. subst. rewrite beqb_refl in E2. discriminate.
  - apply beqb_eq in E2. subst. rewrite beqb_refl in E1. discriminate.
Qed.

Lemma lex_cmp_eq_iff a b : lex_cmp a b = Eq <-> a = b.
Proof. split; [apply lex_eq|intros ->; apply lex_refl]. Qed.

Section AListProofs.
  Context {V : Type}.
  Implicit Types l : list (bytes * V).

  Lemma alookup_ainsert_same k v l : alookup k (ainsert k v l) = Some v.
  Proof.
    induction l as [|[k' v'] r IH]; cbn.
    - rewrite beqb_refl. reflexivity.
    - destruct (lex_cmp k k') eqn:E; cbn.
      + rewrite beqb_refl. reflexivity.
      + rewrite beqb_refl. reflexivity.
      + destruct (beqb k k') eqn:Eb.
        * apply beqb_eq in Eb. subst. rewrite lex_refl in E. discriminate.
        * exact IH.
  Qed.

  Lemma alookup_ainsert_other k k' v l : k' <> k -> alookup k' (ainsert k v l) = alookup k' l.
  Proof.
    intros Hne. induction l as [|[k0 v0] r IH]; cbn.
    - apply beqb_neq in Hne. rewrite Hne. reflexivity.
    - destruct (lex_cmp k k0) eqn:E; cbn.
      + apply lex_eq in E. subst k0. apply beqb_neq in Hne. rewrite Hne. reflexivity.
      + apply beqb_neq in Hne. rewrite Hne. reflexivity.
      + rewrite IH. reflexivity.
  Qed.

  Lemma alookup_aremove_other k k' l : k' <> k -> alookup k' (aremove k l) = alookup k' l.
  Proof.
    intros Hne. induction l as [|[k0 v0] r IH]; cbn; auto.
    destruct (beqb k k0) eqn:E.
    - apply beqb_eq in E. subst k0. apply beqb_neq in Hne. rewrite Hne. reflexivity.
    - cbn. rewrite IH. reflexivity.
  Qed.

  (* keys strictly ascending *)
  Inductive asorted : list (bytes * V) -> Prop :=
  | as_nil : asorted []
  | as_one k v : asorted [(k, v)]
  | as_cons k v k' v' r : lex_lt k k' -> asorted ((k', v') :: r) -> asorted ((k, v) :: (k', v') :: r).

  Lemma asorted_tail kv l : asorted (kv :: l) -> asorted l.
  Proof. intros H. inversion H; subst; auto. constructor. Qed.

  Lemma asorted_lookup_lt k v r k' : asorted ((k, v) :: r) -> lex_lt k' k -> alookup k' ((k, v) :: r) = None.
  Proof.
    revert k v. induction r as [|[k1 v1] r IH]; intros k v Hs Hlt; cbn.
    - destruct (beqb k' k) eqn:E; auto. apply beqb_eq in E. subst. unfold lex_lt in Hlt. rewrite lex_refl in Hlt. discriminate.
    - destruct (beqb k' k) eqn:E.
      + apply beqb_eq in E. subst. unfold lex_lt in Hlt. rewrite lex_refl in Hlt. discriminate.
      + inversion Hs; subst. apply IH; auto. eapply lex_lt_trans; eauto.
  Qed.

  Lemma ainsert_sorted k v l : asorted l -> asorted (ainsert k v l).
  Proof.
    induction l as [|[k0 v0] r IH]; intros Hs; cbn.
    - constructor.
    - destruct (lex_cmp k k0) eqn:E.
      + apply lex_eq in E. subst k0. inversion Hs; subst; constructor; auto.
      + constructor; auto.
      + assert (Hlt : lex_lt k0 k).
        { unfold lex_lt. rewrite (lex_antisym k k0), E. reflexivity. }
        specialize (IH (asorted_tail _ _ Hs)).
        destruct r as [|[k1 v1] r']; cbn in *.
        * repeat constructor; auto.
        * inversion Hs; subst. destruct (lex_cmp k k1) eqn:E1; constructor; auto.
  Qed.

  Lemma asorted_head_lt k v l : asorted ((k, v) :: l) -> forall k' v', In (k', v') l -> lex_lt k k'.
  Proof.
    revert k v. induction l as [|[k1 v1] r IH]; intros k v Hs k' v' Hin; [destruct Hin|].
    inversion Hs; subst. destruct Hin as [Heq|Hin].
    - injection Heq as <- <-. auto.
    - eapply lex_lt_trans; eauto.
  Qed.

  Lemma asorted_cons_intro k v l : asorted l -> (forall k' v', In (k', v') l -> lex_lt k k') -> asorted ((k, v) :: l).
  Proof. intros Hs Hall. destruct l as [|[k1 v1] r]; constructor; auto. apply (Hall k1 v1). left. reflexivity. Qed.

  Lemma aremove_in k l kv : In kv (aremove k l) -> In kv l.
  Proof.
    induction l as [|[k0 v0] r IH]; cbn; auto. destruct (beqb k k0); cbn; intros H; auto.
    destruct H; auto.
  Qed.

  Lemma aremove_sorted k l : asorted l -> asorted (aremove k l).
  Proof.
    induction l as [|[k0 v0] r IH]; intros Hs; cbn; auto.
    destruct (beqb k k0).
    - eapply asorted_tail; eauto.
    - apply asorted_cons_intro.
      + apply IH. eapply asorted_tail; eauto.
      + intros k' v' Hin. apply aremove_in in Hin. eapply asorted_head_lt; eauto.
  Qed.

  Lemma alookup_aremove_same k l : asorted l -> alookup k (aremove k l) = None.
  Proof.
    induction l as [|[k0 v0] r IH]; intros Hs; cbn; auto.
    destruct (beqb k k0) eqn:E.
    - apply beqb_eq in E. subst k0. destruct r as [|[k1 v1] r']; auto.
      inversion Hs; subst. apply asorted_lookup_lt; auto.
    - cbn. rewrite E. apply IH. eapply asorted_tail; eauto.
  Qed.
End AListProofs.

From Coq Require Import List NArith Lia Bool.
Import ListNotations.

Definition bytes := list N.

Fixpoint lex_cmp (a b : bytes) : comparison :=
  match a, b with
  | [], [] => Eq
  | [], _ :: _ => Lt
  | _ :: _, [] => Gt
  | x :: xs, y :: ys => match N.compare x y with Eq => lex_cmp xs ys | c => c end
  end.

Definition lex_lt (a b : bytes) := lex_cmp a b = Lt.
Definition lex_le (a b : bytes) := lex_cmp a b <> Gt.

Lemma lex_refl a : lex_cmp a a = Eq.
Proof. induction a; simpl; auto. rewrite N.compare_refl. auto. Qed.

Lemma lex_eq a : forall b, lex_cmp a b = Eq -> a = b.
Proof.
  induction a as [|x xs IH]; intros [|y ys] H; simpl in *; try discriminate; auto.
  destruct (N.compare x y) eqn:E; try discriminate. apply N.compare_eq in E. subst. f_equal. auto.
Qed.

Lemma lex_antisym a : forall b, lex_cmp b a = CompOpp (lex_cmp a b).
Proof.
  induction a as [|x xs IH]; intros [|y ys]; simpl; auto.
  rewrite (N.compare_antisym x y). destruct (N.compare x y); simpl; auto.
Qed.

Lemma lex_lt_trans a : forall b c, lex_lt a b -> lex_lt b c -> lex_lt a c.
Proof.
  unfold lex_lt. induction a as [|x xs IH]; intros [|y ys] [|z zs] H1 H2; simpl in *; try discriminate; auto.
  destruct (N.compare x y) eqn:E1; try discriminate.
  - apply N.compare_eq in E1. subst y. destruct (N.compare x z) eqn:E2; try discriminate; auto. eapply IH; eauto.
  - destruct (N.compare y z) eqn:E2; try discriminate.
    + apply N.compare_eq in E2. subst z. rewrite E1. auto.
    + assert (N.compare x z = Lt) by (rewrite N.compare_lt_iff in *; lia). rewrite H. auto.
Qed.

Lemma lex_le_lt_trans a b c : lex_le a b -> lex_lt b c -> lex_lt a c.
Proof.
  unfold lex_le. intros H1 H2. destruct (lex_cmp a b) eqn:E; try congruence.
  - apply lex_eq in E. subst. auto.
  - eapply lex_lt_trans; eauto.
Qed.
Lemma lex_lt_le_trans a b c : lex_lt a b -> lex_le b c -> lex_lt a c.
Proof.
  unfold lex_le. intros H1 H2. destruct (lex_cmp b c) eqn:E; try congruence.
  - apply lex_eq in E. subst. auto.
  - eapply lex_lt_trans; eauto.
Qed.
Lemma lex_le_trans a b c : lex_le a b -> lex_le b c -> lex_le a c.
Proof.
  intros H1 H2. destruct (lex_cmp a b) eqn:E.
  - apply lex_eq in E. subst. auto.
  - assert (lex_lt a c) by (eapply lex_lt_le_trans; eauto). unfold lex_lt, lex_le in *. congruence.
  - unfold lex_le in H1. congruence.
Qed.
Lemma lex_lt_le a b : lex_lt a b -> lex_le a b.
Proof. unfold lex_lt, lex_le. congruence. Qed.
Lemma lex_not_lt_le a b : ~ lex_lt a b -> lex_le b a.
Proof. unfold lex_lt, lex_le. rewrite (lex_antisym a b). destruct (lex_cmp a b); simpl; congruence. Qed.
Lemma lex_lt_not_le a b : lex_lt a b -> ~ lex_le b a.
Proof. unfold lex_lt, lex_le. rewrite (lex_antisym a b). intros H. rewrite H. simpl. auto. Qed.
Lemma lex_le_refl a : lex_le a a.
Proof. unfold lex_le. rewrite lex_refl. discriminate. Qed.
Lemma lex_le_total a b : lex_le a b \/ lex_le b a.
Proof. unfold lex_le. rewrite (lex_antisym a b). destruct (lex_cmp a b); simpl; [left|left|right]; discriminate. Qed.
Lemma lex_le_nil a : lex_le [] a.
Proof. unfold lex_le. destruct a; simpl; discriminate. Qed.

(* k ++ [0] is the least key strictly above k *)
Lemma succ_key k : forall x, lex_lt k x <-> lex_le (k ++ [0%N]) x.
Proof.
  unfold lex_lt, lex_le. induction k as [|a k IH]; intros [|y ys]; simpl.
  - split; intros H; [discriminate H|exfalso; apply H; reflexivity].
  - split; [|reflexivity]. intros _. destruct y; [destruct ys|]; simpl; discriminate.
  - split; intros H; [discriminate H|exfalso; apply H; reflexivity].
  - destruct (N.compare a y).
    + apply IH.
    + split; intros _; [discriminate|reflexivity].
    + split; intros H; [discriminate H|exfalso; apply H; reflexivity].
Qed.

From Coq Require Import List NArith ZArith Bool Lia.
Import ListNotations.
From Emu.Common Require Import Bytes Str.
From Emu.GCS Require Import Model CondsSpec CondsProofs StoreProofs.
Local Open Scope Z_scope.

Definition is_success (code : Z) : bool := Z.eqb code 200 || Z.eqb code 204 || Z.eqb code 308.

(* destruct an innermost match/if scrutinee (one that contains no further match) *)
Ltac break_match :=
  match goal with
  | |- context [match ?x with _ => _ end] =>
      lazymatch x with
      | context [match _ with _ => _ end] => fail
      | _ => destruct x eqn:?
      end
  end.

Lemma finish_upload_frame s b n ct md meta data c :
  let '(s', rsp) := finish_upload s b n ct md meta data c in
  is_success (r_status rsp) = false -> s_buckets s' = s_buckets s /\ s_clock s' = s_clock s.
Proof.
  unfold finish_upload, resp_meta.
  destruct md as [|p]; [|destruct p as [p|p|]; try destruct p; cbn; auto];
  (destruct (validate_conds _ c); cbn; auto; rewrite find_obj_store_add_same; cbn; intros; discriminate).
Qed.

Lemma status_of_vres_not_success v : v <> VPass -> is_success (status_of_vres v) = false.
Proof. destruct v; cbn; auto; congruence. Qed.

(* A request that is answered with an error leaves every bucket and object exactly as it was
   (content, metadata, generation, metageneration), and hands out no generation. *)
Theorem failed_request_frame s r :
  let '(s', rsp) := handle s r in
  is_success (r_status rsp) = false -> s_buckets s' = s_buckets s /\ s_clock s' = s_clock s.
Proof.
  destruct r as [b n ctype data cp | b m data cp | b cp | b bad m cp | id crange data | b n | b n | b n cp
                | b n p cp | b prefix delim cursor maxres | b | b dst bad srcs dm cp | b1 n1 b2 n2 | b | b | b cp];
    cbn [handle].
  all: try (repeat break_match; cbn; intros; try discriminate; auto; fail).
  - destruct (resolve_conds s cp); [|cbn; auto]. destruct n; [cbn; auto|].
    apply finish_upload_frame.
  - destruct (resolve_conds s cp); [|cbn; auto]. destruct (um_name m); [cbn; auto|].
    apply finish_upload_frame.
  - (* resumable put *)
    destruct (alookup id (s_uploads s)) as [u|]; [|cbn; auto].
    destruct crange as [cr|]; [|cbn; auto].
    destruct (parse_byte_range cr) as [br|]; [|cbn; auto].
    destruct (resume_apply (up_data u) br data) as [data'|]; [|cbn; auto].
    destruct (resume_done br data'); [|cbn; auto].
    match goal with
    | |- context [finish_upload ?s1 ?b ?n ?ct ?md ?meta ?data ?c] =>
        pose proof (finish_upload_frame s1 b n ct md meta data c) as HF;
        destruct (finish_upload s1 b n ct md meta data c) as [s2 rsp]
    end.
    cbn in HF. destruct (Z.eqb_spec (r_status rsp) 200) as [E|E]; cbn.
    + intros H. unfold is_success in H. rewrite E in H. discriminate H.
    + exact HF.
  - (* compose *)
    destruct (resolve_conds s cp); [|cbn; auto]. destruct bad; [cbn; auto|].
    destruct (split _ _) as [|d0 [|d1 [|d2 ds]]]; cbn; auto.
    destruct d0 as [|d00 d0']; [cbn; auto|]. set (d0 := d00 :: d0').
    destruct (_ >? _); [cbn; auto|].
    destruct (fold_left _ srcs _) as [[code data]|]; [|cbn; auto].
    destruct code; cbn; auto.
    destruct (validate_conds _ c); cbn; auto.
    destruct dm as [m|]; cbn; unfold resp_meta; rewrite find_obj_store_add_same; cbn; intros; discriminate.
  - (* copy *)
    destruct (contains _ _); [cbn; auto|].
    destruct (split _ _) as [|f1 [|rest [|x xs]]]; cbn; auto.
    destruct (split2 _ _) as [|b2' [|f2 [|y ys]]]; cbn; auto.
    destruct f2 as [|f20 f2']; [cbn; auto|]. set (f2 := f20 :: f2').
    destruct (find_obj s b1 f1) as [o|]; cbn; auto.
    rewrite find_obj_store_add_same. cbn. intros; discriminate.
Qed.

(* ---- the precondition gate of each mutating handler ---- *)

Definition gate (s : state) (cp : cparams) (o : option obj) : option vres :=
  match resolve_conds s cp with
  | Some c => Some (validate_conds (obj_gens o) c)
  | None => None
  end.

Definition status_of_gate (g : option vres) : Z :=
  match g with None => 400 | Some v => status_of_vres v end.

Lemma gate_upload_media s b n ct data cp : n <> [] ->
  let '(s', rsp) := handle s (RUploadMedia b n ct data cp) in
  match gate s cp (find_obj s b n) with
  | Some VPass => r_status rsp = 200
                  /\ find_obj s' b n = Some (mkObj data ct (s_clock s + 1) 1 true [])
  | g => r_status rsp = status_of_gate g /\ s' = s
  end.
Proof.
  intros Hn. cbn [handle]. unfold gate. destruct (resolve_conds s cp) as [c|]; [|cbn; auto].
  destruct n; [congruence|]. unfold finish_upload.
  destruct (validate_conds _ c); cbn; auto.
  unfold resp_meta. rewrite find_obj_store_add_same. cbn. auto.
Qed.

Lemma gate_upload_multipart s b m data cp : (um_md5 m = 0 \/ um_md5 m = 1)%N -> um_name m <> [] ->
  let '(s', rsp) := handle s (RUploadMultipart b m data cp) in
  match gate s cp (find_obj s b (um_name m)) with
  | Some VPass => r_status rsp = 200
                  /\ find_obj s' b (um_name m) = Some (mkObj data (um_ctype m) (s_clock s + 1) 1 true (merge_meta [] (um_meta m)))
  | g => r_status rsp = status_of_gate g /\ s' = s
  end.
Proof.
  intros Hmd Hn. cbn [handle]. unfold gate. destruct (resolve_conds s cp) as [c|]; [|cbn; auto].
  destruct (um_name m) as [|n0 nm] eqn:En; [congruence|]. rewrite <- En.
  unfold finish_upload. destruct Hmd as [-> | ->];
    (destruct (validate_conds _ c); cbn; auto; unfold resp_meta; rewrite find_obj_store_add_same; cbn; auto).
Qed.

Lemma gate_delete s b n cp :
  let '(s', rsp) := handle s (RDelete b n cp) in
  match gate s cp (find_obj s b n) with
  | Some VPass => match find_obj s b n with
                  | Some _ => r_status rsp = 204
                  | None => r_status rsp = 404 /\ s' = s
                  end
  | g => r_status rsp = status_of_gate g /\ s' = s
  end.
Proof.
  cbn [handle]. unfold gate. destruct (resolve_conds s cp) as [c|]; [|cbn; auto].
  destruct (validate_conds _ c); cbn; auto.
  unfold store_delete_obj, find_obj. destruct (get_bucket s b) as [bk|]; cbn; auto.
  destruct (alookup n bk); cbn; auto.
Qed.

Lemma gate_patch s b n p cp o : find_obj s b n = Some o -> pt_bad p = false ->
  let '(s', rsp) := handle s (RPatch b n p cp) in
  match gate s cp (Some o) with
  | Some VPass =>
      r_status rsp = 200 /\
      r_body rsp = BMeta (view b n (mkObj (o_data o)
                                 (match pt_ctype p with Some t => t | None => o_ctype o end)
                                 (o_gen o) (o_metagen o + 1) (o_md5 o)
                                 (match pt_meta p with Some kv => merge_meta (o_meta o) kv | None => o_meta o end)))
  | g => r_status rsp = status_of_gate g /\ s' = s
  end.
Proof.
  intros Ho Hb. cbn [handle]. unfold gate. destruct (resolve_conds s cp) as [c|]; [|cbn; auto].
  rewrite Ho. cbn [obj_gens]. destruct (validate_conds _ c); cbn; auto. rewrite Hb. cbn. auto.
Qed.

(* Layer B for C04: what it means for the supplied preconditions to hold. *)
From Coq Require Import List NArith ZArith Bool.
Import ListNotations.
From Emu.GCS Require Import Model.
Local Open Scope Z_scope.

(* which of the four parameters *)
Inductive ckind := KGenMatch | KGenNotMatch | KMetaMatch | KMetaNotMatch.

(* one supplied parameter against the object's (generation, metageneration);
   an absent object satisfies only "no condition" and ifGenerationMatch=0 *)
Definition cond_holds (k : ckind) (v : cval) (o : option (Z * Z)) : bool :=
  match v with
  | VAbsent => true
  | VBad => false
  | VNum z =>
      match k, o with
      | KGenMatch, None => Z.eqb z 0
      | KGenMatch, Some (g, _) => negb (Z.eqb z 0) && Z.eqb g z
      | KGenNotMatch, None => false
      | KGenNotMatch, Some (g, _) => negb (Z.eqb g z)
      | KMetaMatch, None => false
      | KMetaMatch, Some (_, m) => Z.eqb m z
      | KMetaNotMatch, None => false
      | KMetaNotMatch, Some (_, m) => negb (Z.eqb m z)
      end
  end.

Definition holds (p1 p2 p3 p4 : cval) (o : option (Z * Z)) : bool :=
  cond_holds KGenMatch p1 o && cond_holds KGenNotMatch p2 o
  && cond_holds KMetaMatch p3 o && cond_holds KMetaNotMatch p4 o.

Definition is_bad (v : cval) : bool := match v with VBad => true | _ => false end.
Definition any_bad (p1 p2 p3 p4 : cval) : bool := is_bad p1 || is_bad p2 || is_bad p3 || is_bad p4.

(* the guard of the partial theorem: a literal zero is supplied only for ifGenerationMatch *)
Definition is_zero (v : cval) : bool := match v with VNum 0 => true | _ => false end.
Definition no_zero_but_genmatch (p2 p3 p4 : cval) : bool :=
  negb (is_zero p2) && negb (is_zero p3) && negb (is_zero p4).

(* which failure codes the property allows *)
Definition allowed_code (p1 p2 p3 p4 : cval) (o : option (Z * Z)) (v : vres) : Prop :=
  match v with
  | VPass => True
  | VFail304 => cond_holds KGenNotMatch p2 o = false \/ cond_holds KMetaNotMatch p4 o = false
  | VFail412 => o = None \/ cond_holds KGenMatch p1 o = false \/ cond_holds KMetaMatch p3 o = false
  end.

(* Executable model of storage/gcsemu/parse.go (ParseGcsUrl).  No proofs here.

   ParseGcsUrl(u) runs four UNANCHORED Go regular expressions over the decoded path u.Path,
   in this order, and answers with the submatches of the first one that matches anywhere:

     1. gcsObjectPathRegex    /storage/v1/b/([^\/]+)/o(?:/(.+))?
     2. gcsBucketPathRegex    /storage/v1/b(?:/([^\/]+))?
     3. gcsObjectPathRegex2   /b/([^\/]+)/o(?:/(.+))?
     4. gcsStoragePathRegex   /([^\/]+)/(.+)                       (IsPublic = true)

   regexp.FindStringSubmatch: the LEFTMOST start position at which the pattern matches; at that
   position the leftmost-first (Perl) choice: greedy `+`, greedy `?` (the optional group is
   tried first and skipped only if it fails).  A group that does not take part yields "".

   Strings are byte lists.  Go matches runes, not bytes, but for these patterns the two agree:
   the only bytes the patterns distinguish are ASCII ('/', '\n' and the literal letters), an
   ASCII byte is never part of a multi-byte rune (an invalid UTF-8 byte decodes as a one-byte
   U+FFFD), and every other rune is matched by both `[^\/]` and `.`; so every match boundary
   falls on a rune boundary.
   `[^\/]` is any byte but '/' (47) -- it DOES match newline (Go's Perl flags include ClassNL);
   `.` is any byte but newline (10).

   Determinism used below: `[^\/]+` is always followed by the literal '/' or by the end of the
   pattern, so the greedy choice (the maximal run of non-'/' bytes) is the only one that can
   succeed -- no shorter run is followed by '/'.  `(.+)` is last in every pattern, so it takes
   the maximal run of non-newline bytes. *)
From Coq Require Import List NArith Bool.
Import ListNotations.
From Emu.Common Require Import Bytes Str.
Local Open Scope N_scope.

(* ---- literals ---- *)
Definition s_api_b    : str := [47; 115; 116; 111; 114; 97; 103; 101; 47; 118; 49; 47; 98].  (* "/storage/v1/b"  *)
Definition s_api_b_sl : str := s_api_b ++ [47].                                             (* "/storage/v1/b/" *)
Definition s_b_sl     : str := [47; 98; 47].                                                (* "/b/"            *)
Definition s_sl_o     : str := [47; 111].                                                   (* "/o"             *)

Definition not_slash (c : N) : bool := negb (c =? 47).   (* [^\/] *)
Definition not_nl    (c : N) : bool := negb (c =? 10).   (* .     *)

(* ---- regex fragments ---- *)
Fixpoint take_while (p : N -> bool) (s : str) : str :=
  match s with
  | c :: r => if p c then c :: take_while p r else []
  | [] => []
  end.
Fixpoint drop_while (p : N -> bool) (s : str) : str :=
  match s with
  | c :: r => if p c then drop_while p r else s
  | [] => []
  end.

(* `([^\/]+)` (followed by '/' or by the end of the pattern): the maximal run of non-'/' bytes,
   at least one; returns (submatch, remaining input) *)
Definition seg_plus (s : str) : option (str * str) :=
  match take_while not_slash s with
  | [] => None
  | seg => Some (seg, drop_while not_slash s)
  end.

(* `(.+)` at the end of a pattern: the maximal run of non-newline bytes, at least one *)
Definition dot_plus (s : str) : option str :=
  match take_while not_nl s with
  | [] => None
  | n => Some n
  end.

(* `(?:/(.+))?` at the end of a pattern: try the group; if it fails (next byte is not '/', or
   no non-newline byte follows the '/') the group is skipped and the submatch is "" *)
Definition opt_object (s : str) : str :=
  match s with
  | c :: r => if c =? 47
              then match dot_plus r with Some n => n | None => [] end
              else []
  | [] => []
  end.

(* `(?:/([^\/]+))?` at the end of a pattern *)
Definition opt_bucket (s : str) : str :=
  match s with
  | c :: r => if c =? 47
              then match seg_plus r with Some (bkt, _) => bkt | None => [] end
              else []
  | [] => []
  end.

(* ---- one attempt at a given start position (the input is the suffix starting there) ---- *)

(* lit `([^\/]+)/o(?:/(.+))?`   with lit = "/storage/v1/b/" (pattern 1) or "/b/" (pattern 3) *)
Definition object_at (lit : str) (s : str) : option (str * str) :=
  if has_prefix s lit then
    match seg_plus (skipn (length lit) s) with
    | Some (bkt, rest) =>
        if has_prefix rest s_sl_o then Some (bkt, opt_object (skipn 2 rest)) else None
    | None => None
    end
  else None.

(* `/storage/v1/b(?:/([^\/]+))?`  -- one submatch only: Object stays "" *)
Definition bucket_at (s : str) : option str :=
  if has_prefix s s_api_b then Some (opt_bucket (skipn (length s_api_b) s)) else None.

(* `/([^\/]+)/(.+)` *)
Definition public_at (s : str) : option (str * str) :=
  match s with
  | c :: r =>
      if c =? 47 then
        match seg_plus r with
        | Some (bkt, rest) =>
            match rest with
            | d :: r2 => if d =? 47
                         then match dot_plus r2 with Some n => Some (bkt, n) | None => None end
                         else None
            | [] => None
            end
        | None => None
        end
      else None
  | [] => None
  end.

(* ---- unanchored search: leftmost start position (structural recursion on the path);
        the empty suffix is tried too, as the regexp engine does ---- *)
Fixpoint find_first {A : Type} (f : str -> option A) (s : str) : option A :=
  match f s with
  | Some r => Some r
  | None => match s with
            | [] => None
            | _ :: r => find_first f r
            end
  end.

Definition match_object  : str -> option (str * str) := find_first (object_at s_api_b_sl).
Definition match_bucket  : str -> option str         := find_first bucket_at.
Definition match_object2 : str -> option (str * str) := find_first (object_at s_b_sl).
Definition match_public  : str -> option (str * str) := find_first public_at.

(* ParseGcsUrl: (Bucket, Object, IsPublic), None for (nil, false) *)
Definition parse_gcs_url (p : str) : option (str * str * bool) :=
  match match_object p with
  | Some (b, o) => Some (b, o, false)
  | None =>
  match match_bucket p with
  | Some b => Some (b, [], false)
  | None =>
  match match_object2 p with
  | Some (b, o) => Some (b, o, false)
  | None =>
  match match_public p with
  | Some (b, o) => Some (b, o, true)
  | None => None
  end end end end.

(* ---- correspondence checker: pairs (path, observed result of the real ParseGcsUrl);
        answers (index, 0) for every pair on which the model disagrees ---- *)
Definition res_eqb (a b : option (str * str * bool)) : bool :=
  match a, b with
  | None, None => true
  | Some (b1, o1, p1), Some (b2, o2, p2) => beqb b1 b2 && beqb o1 o2 && Bool.eqb p1 p2
  | _, _ => false
  end.

Fixpoint check_urls_from (i : N) (l : list (str * option (str * str * bool))) : list (N * N) :=
  match l with
  | [] => []
  | (p, r) :: t =>
      if res_eqb (parse_gcs_url p) r then check_urls_from (i + 1) t
      else (i, 0) :: check_urls_from (i + 1) t
  end.
Definition check_urls := check_urls_from 0.

(* C10 — generation / metageneration laws of the GCS model. *)
From Coq Require Import List NArith ZArith Bool Lia Sorted.
Import ListNotations.
From Emu.Common Require Import Bytes Str StrProofs.
From Emu.Gen Require Import Consts.
From Emu.GCS Require Import Model StoreProofs HandlerProofs UploadProofs ComposeProofs.
Local Open Scope Z_scope.

(* ================================================================== *)
(* 1. Every stored generation is at most the clock                      *)

(* a property of every object physically present in the bucket lists *)
Definition objs_all (Q : obj -> Prop) (bs : list (str * bucket)) : Prop :=
  forall b bk n o, In (b, bk) bs -> In (n, o) bk -> Q o.

Definition gens_bounded (s : state) : Prop := objs_all (fun o => o_gen o <= s_clock s) (s_buckets s).

Lemma objs_all_weaken (Q Q' : obj -> Prop) bs : (forall o, Q o -> Q' o) -> objs_all Q bs -> objs_all Q' bs.
Proof. unfold objs_all. eauto. Qed.

Lemma objs_all_insert Q bs b bk :
  objs_all Q bs -> (forall n o, In (n, o) bk -> Q o) -> objs_all Q (ainsert b bk bs).
Proof.
  intros Hall Hbk b' bk' n o Hin Hino. apply ainsert_in in Hin.
  destruct Hin as [E|Hin]; [injection E as -> ->; eauto|eapply Hall; eauto].
Qed.

Lemma objs_all_remove Q bs b : objs_all Q bs -> objs_all Q (aremove b bs).
Proof. intros Hall b' bk' n o Hin Hino. apply aremove_in in Hin. eapply Hall; eauto. Qed.

Lemma objs_all_bucket Q bs b bk : objs_all Q bs -> alookup b bs = Some bk -> forall n o, In (n, o) bk -> Q o.
Proof. intros Hall Hl n o Hin. apply alookup_in in Hl. eapply Hall; eauto. Qed.

Lemma bounded_bucket bs b bk z :
  objs_all (fun o => o_gen o <= z) bs -> alookup b bs = Some bk -> forall n o, In (n, o) bk -> o_gen o <= z.
Proof. intros Hall Hl n o Hin. exact (objs_all_bucket _ bs b bk Hall Hl n o Hin). Qed.

Lemma objs_all_find Q s b n o : objs_all Q (s_buckets s) -> find_obj s b n = Some o -> Q o.
Proof.
  unfold find_obj, get_bucket. intros Hall Hf. destruct (alookup b (s_buckets s)) as [bk|] eqn:E; [|discriminate].
  apply alookup_in in Hf. exact (objs_all_bucket Q _ b bk Hall E n o Hf).
Qed.

Lemma gens_bounded_find s b n o : gens_bounded s -> find_obj s b n = Some o -> o_gen o <= s_clock s.
Proof. intros H Hf. exact (objs_all_find _ s b n o H Hf). Qed.

Lemma gens_bounded_init : gens_bounded init_state.
Proof. intros b bk n o []. Qed.

Lemma objs_all_create_bucket Q s b : objs_all Q (s_buckets s) -> objs_all Q (s_buckets (create_bucket s b)).
Proof.
  intros H. unfold create_bucket. destruct (get_bucket s b); [exact H|]. cbn.
  apply objs_all_insert; [exact H|]. intros n o [].
Qed.

Lemma store_add_gens s b n data ct md meta : gens_bounded s -> gens_bounded (store_add s b n data ct md meta).
Proof.
  intros H. unfold gens_bounded, store_add. cbn [s_buckets s_clock]. rewrite create_bucket_clock.
  assert (H1 : objs_all (fun o => o_gen o <= s_clock s + 1) (s_buckets (create_bucket s b))).
  { apply objs_all_create_bucket. eapply objs_all_weaken; [|exact H]. cbn. intros; lia. }
  apply objs_all_insert; [exact H1|]. intros n' o' Hin. apply ainsert_in in Hin.
  destruct Hin as [E|Hin]; [injection E as _ ->; cbn; lia|].
  destruct (get_bucket (create_bucket s b) b) as [bk|] eqn:E; [|destruct Hin].
  eapply bounded_bucket; eauto.
Qed.

Lemma finish_upload_gens s b n ct md meta data c :
  gens_bounded s -> gens_bounded (fst (finish_upload s b n ct md meta data c)).
Proof.
  intros H. unfold finish_upload.
  destruct md as [|p]; [|destruct p as [p|p|]; try destruct p; cbn; auto];
    (destruct (validate_conds _ c); cbn [fst]; auto using store_add_gens).
Qed.

Lemma finish_upload_clock s b n ct md meta data c :
  let s' := fst (finish_upload s b n ct md meta data c) in
  let rsp := snd (finish_upload s b n ct md meta data c) in
  (r_status rsp = 200 /\ s_clock s' = s_clock s + 1) \/ (r_status rsp <> 200 /\ s' = s).
Proof.
  cbn zeta. destruct (Z.eq_dec (r_status (snd (finish_upload s b n ct md meta data c))) 200) as [E|E].
  - left. split; [exact E|]. apply finish_upload_200 in E. destruct E as [-> _]. apply store_add_clock.
  - right. split; [exact E|]. apply finish_upload_not200. exact E.
Qed.

Theorem gens_bounded_preserved s r : gens_bounded s -> gens_bounded (fst (handle s r)).
Proof.
  intros Hok.
  destruct r as [b n ctype data cp | b m data cp | b cp | b bad m cp | id crange data | b n | b n | b n cp
                | b n p cp | b prefix delim cursor maxres | b | b dst bad srcs dm cp | b1 n1 b2 n2 | b | b | b cp];
    cbn [handle].
  - destruct (resolve_conds s cp); [|exact Hok]. destruct n; [exact Hok|]. apply finish_upload_gens. exact Hok.
  - destruct (resolve_conds s cp); [|exact Hok]. destruct (um_name m); [exact Hok|]. apply finish_upload_gens. exact Hok.
  - destruct (resolve_conds s cp); exact Hok.
  - destruct (resolve_conds s cp); [|exact Hok]. destruct bad; [exact Hok|]. destruct (um_name m); exact Hok.
  - destruct (alookup id (s_uploads s)) as [u|]; [|exact Hok].
    destruct crange as [cr|]; [|exact Hok].
    destruct (parse_byte_range cr) as [br|]; [|exact Hok].
    destruct (resume_apply (up_data u) br data) as [data'|]; [|exact Hok].
    match goal with |- context [set_uploads s ?c ?ups] => set (s1 := set_uploads s c ups) end.
    assert (Hok1 : gens_bounded s1) by exact Hok.
    destruct (resume_done br data'); [|exact Hok1].
    match goal with
    | |- context [finish_upload s1 ?b ?n ?ct ?md ?meta ?d ?c] =>
        pose proof (finish_upload_gens s1 b n ct md meta d c Hok1) as HF;
        destruct (finish_upload s1 b n ct md meta d c) as [s2 rsp]
    end.
    cbn [fst] in HF. destruct (Z.eqb (r_status rsp) 200); cbn [fst]; exact HF.
  - destruct (find_obj s b n); exact Hok.
  - destruct (find_obj s b n); exact Hok.
  - destruct (resolve_conds s cp); [|exact Hok].
    destruct (validate_conds _ c); try exact Hok.
    unfold store_delete_obj. destruct (get_bucket s b) as [bk|] eqn:E; [|exact Hok].
    destruct (alookup n bk); [|exact Hok]. cbn [fst]. unfold gens_bounded. cbn [set_buckets s_buckets s_clock].
    apply objs_all_insert; [exact Hok|]. intros n' o' Hin. apply aremove_in in Hin.
    eapply bounded_bucket; eauto.
  - destruct (resolve_conds s cp); [|exact Hok].
    destruct (find_obj s b n) as [o|] eqn:Ef; [|exact Hok].
    destruct (validate_conds _ c); try exact Hok.
    destruct (pt_bad p); [exact Hok|]. cbn [fst].
    unfold store_put_obj. destruct (get_bucket s b) as [bk|] eqn:E; [|exact Hok].
    unfold gens_bounded. cbn [set_buckets s_buckets s_clock].
    apply objs_all_insert; [exact Hok|]. intros n' o' Hin. apply ainsert_in in Hin.
    destruct Hin as [E'|Hin].
    + injection E' as _ ->. cbn [o_gen]. eapply gens_bounded_find; eauto.
    + eapply bounded_bucket; eauto.
  - destruct maxres as [ms|].
    + destruct (parse_int ms) as [z|]; [|exact Hok]. destruct (z <? 1); [exact Hok|].
      destruct (get_bucket s b); [|exact Hok]. destruct (list_walk _ _ _ _ _) as [[[f p] m] lst]. exact Hok.
    + destruct (get_bucket s b); [|exact Hok]. destruct (list_walk _ _ _ _ _) as [[[f p] m] lst]. exact Hok.
  - exact Hok.
  - destruct (resolve_conds s cp); [|exact Hok]. destruct bad; [exact Hok|].
    destruct (split _ _) as [|d0 [|d1 [|d2 ds]]]; try exact Hok.
    destruct d0 as [|d00 d0']; [exact Hok|]. set (d0 := d00 :: d0').
    destruct (_ >? _); [exact Hok|].
    destruct (fold_left _ srcs _) as [[code data]|]; [|exact Hok].
    destruct code; try exact Hok.
    destruct (validate_conds _ c); try exact Hok.
    destruct dm as [m|]; cbn [fst]; apply store_add_gens; exact Hok.
  - destruct (contains _ _); [exact Hok|].
    destruct (split _ _) as [|f1 [|rest [|x xs]]]; try exact Hok.
    destruct (split2 _ _) as [|b2' [|f2 [|y ys]]]; try exact Hok.
    destruct f2 as [|f20 f2']; [exact Hok|]. set (f2 := f20 :: f2').
    destruct (find_obj s b1 f1) as [o|]; [|exact Hok].
    destruct (find_obj _ b2' f2); cbn [fst]; apply store_add_gens; exact Hok.
  - cbn [fst]. unfold gens_bounded. rewrite create_bucket_clock. apply objs_all_create_bucket. exact Hok.
  - destruct (get_bucket s b); exact Hok.
  - destruct (resolve_conds s cp); [|exact Hok].
    destruct (validate_conds _ c); try exact Hok.
    unfold store_delete_bucket. destruct (get_bucket s b); [|exact Hok].
    cbn [fst]. unfold gens_bounded. cbn [set_buckets s_buckets s_clock]. apply objs_all_remove. exact Hok.
Qed.

(* ================================================================== *)
(* 2. The clock                                                         *)

(* one request hands out at most one generation *)
Theorem clock_step s r : s_clock (fst (handle s r)) = s_clock s \/ s_clock (fst (handle s r)) = s_clock s + 1.
Proof.
  destruct r as [b n ctype data cp | b m data cp | b cp | b bad m cp | id crange data | b n | b n | b n cp
                | b n p cp | b prefix delim cursor maxres | b | b dst bad srcs dm cp | b1 n1 b2 n2 | b | b | b cp];
    cbn [handle].
  - destruct (resolve_conds s cp); [|auto]. destruct n; [auto|].
    match goal with |- context [finish_upload ?s1 ?b ?n ?ct ?md ?meta ?d ?c] =>
      destruct (finish_upload_clock s1 b n ct md meta d c) as [[_ H]|[_ H]] end; [auto|rewrite H; auto].
  - destruct (resolve_conds s cp); [|auto]. destruct (um_name m) as [|n0 nm] eqn:En; [auto|]. rewrite <- En.
    match goal with |- context [finish_upload ?s1 ?b ?n ?ct ?md ?meta ?d ?c] =>
      destruct (finish_upload_clock s1 b n ct md meta d c) as [[_ H]|[_ H]] end; [auto|rewrite H; auto].
  - destruct (resolve_conds s cp); auto.
  - destruct (resolve_conds s cp); [|auto]. destruct bad; [auto|]. destruct (um_name m); auto.
  - destruct (alookup id (s_uploads s)) as [u|]; [|auto].
    destruct crange as [cr|]; [|auto].
    destruct (parse_byte_range cr) as [br|]; [|auto].
    destruct (resume_apply (up_data u) br data) as [data'|]; [|auto].
    destruct (resume_done br data'); [|auto].
    match goal with |- context [finish_upload ?s1 ?b ?n ?ct ?md ?meta ?d ?c] =>
      pose proof (finish_upload_clock s1 b n ct md meta d c) as HF;
      destruct (finish_upload s1 b n ct md meta d c) as [s2 rsp] end.
    cbn [fst snd] in HF. destruct (Z.eqb (r_status rsp) 200); cbn [fst set_uploads s_clock];
      (destruct HF as [[_ H]|[_ H]]; [right; exact H|left; rewrite H; reflexivity]).
  - destruct (find_obj s b n); auto.
  - destruct (find_obj s b n); auto.
  - destruct (resolve_conds s cp); [|auto].
    destruct (validate_conds _ c); auto.
    unfold store_delete_obj. destruct (get_bucket s b) as [bk|]; [|auto]. destruct (alookup n bk); auto.
  - destruct (resolve_conds s cp); [|auto].
    destruct (find_obj s b n) as [o|]; [|auto].
    destruct (validate_conds _ c); auto.
    destruct (pt_bad p); [auto|]. cbn [fst].
    unfold store_put_obj. destruct (get_bucket s b); auto.
  - destruct maxres as [ms|].
    + destruct (parse_int ms) as [z|]; [|auto]. destruct (z <? 1); [auto|].
      destruct (get_bucket s b); [|auto]. destruct (list_walk _ _ _ _ _) as [[[f p] m] lst]. auto.
    + destruct (get_bucket s b); [|auto]. destruct (list_walk _ _ _ _ _) as [[[f p] m] lst]. auto.
  - auto.
  - destruct (resolve_conds s cp); [|auto]. destruct bad; [auto|].
    destruct (split _ _) as [|d0 [|d1 [|d2 ds]]]; auto.
    destruct d0 as [|d00 d0']; [auto|]. set (d0 := d00 :: d0').
    destruct (_ >? _); [auto|].
    destruct (fold_left _ srcs _) as [[code data]|]; [|auto].
    destruct code; auto.
    destruct (validate_conds _ c); auto.
    destruct dm as [m|]; cbn [fst]; right; apply store_add_clock.
  - destruct (contains _ _); [auto|].
    destruct (split _ _) as [|f1 [|rest [|x xs]]]; auto.
    destruct (split2 _ _) as [|b2' [|f2 [|y ys]]]; auto.
    destruct f2 as [|f20 f2']; [auto|]. set (f2 := f20 :: f2').
    destruct (find_obj s b1 f1) as [o|]; [|auto].
    destruct (find_obj _ b2' f2); cbn [fst]; right; apply store_add_clock.
  - cbn [fst]. left. apply create_bucket_clock.
  - destruct (get_bucket s b); auto.
  - destruct (resolve_conds s cp); [|auto].
    destruct (validate_conds _ c); auto.
    unfold store_delete_bucket. destruct (get_bucket s b); auto.
Qed.

Theorem clock_monotone s r : s_clock s <= s_clock (fst (handle s r)).
Proof. destruct (clock_step s r) as [H|H]; rewrite H; lia. Qed.

Theorem clock_monotone_run rs : forall s, s_clock s <= s_clock (fst (run s rs)).
Proof.
  induction rs as [|r rest IH]; intros s; cbn [run]; [cbn; lia|].
  pose proof (clock_monotone s r) as H1. destruct (handle s r) as [s1 rsp]. cbn [fst] in H1.
  specialize (IH s1). destruct (run s1 rest) as [s2 rsps]. cbn [fst] in *. lia.
Qed.

Theorem gens_bounded_run rs : forall s, gens_bounded s -> gens_bounded (fst (run s rs)).
Proof.
  induction rs as [|r rest IH]; intros s Hok; cbn [run]; [exact Hok|].
  pose proof (gens_bounded_preserved s r Hok) as H1. destruct (handle s r) as [s1 rsp]. cbn [fst] in H1.
  specialize (IH s1 H1). destruct (run s1 rest) as [s2 rsps]. exact IH.
Qed.

Lemma run_app rs1 : forall s rs2,
  fst (run s (rs1 ++ rs2)) = fst (run (fst (run s rs1)) rs2).
Proof.
  induction rs1 as [|r rest IH]; intros s rs2; cbn [app run]; [reflexivity|].
  destruct (handle s r) as [s1 rsp]. specialize (IH s1 rs2).
  destruct (run s1 (rest ++ rs2)) as [s2 rsps]. destruct (run s1 rest) as [s3 rsps3]. cbn [fst] in *. exact IH.
Qed.

(* ================================================================== *)
(* 3. Content writes get a fresh generation and metageneration 1        *)

(* the requests that store new content when answered 200 *)
Definition is_content_write (r : req) : bool :=
  match r with
  | RUploadMedia _ _ _ _ _ | RUploadMultipart _ _ _ _ | RResumablePut _ _ _
  | RCompose _ _ _ _ _ _ | RCopy _ _ _ _ => true
  | _ => false
  end.

Theorem content_write_fresh_generation s r :
  is_content_write r = true -> r_status (snd (handle s r)) = 200 ->
  exists b n o, targets s r = [(b, n)]
    /\ find_obj (fst (handle s r)) b n = Some o
    /\ o_gen o = s_clock s + 1 /\ o_metagen o = 1
    /\ s_clock (fst (handle s r)) = s_clock s + 1.
Proof.
  destruct r as [b n ctype data cp | b m data cp | b cp | b bad m cp | id crange data | b n | b n | b n cp
                | b n p cp | b prefix delim cursor maxres | b | b dst bad srcs dm cp | b1 n1 b2 n2 | b | b | b cp];
    cbn [is_content_write]; try discriminate; intros _.
  - cbn [handle targets].
    destruct (resolve_conds s cp); [|cbn; discriminate]. destruct n as [|x n]; [cbn; discriminate|].
    intros H. apply finish_upload_200 in H. destruct H as [-> _].
    eexists _, _, _. split; [reflexivity|]. rewrite find_obj_store_add_same, store_add_clock. cbn. auto.
  - cbn [handle targets]. destruct (resolve_conds s cp); [|cbn; discriminate].
    destruct (um_name m) as [|n0 nm] eqn:En; [cbn; discriminate|]. rewrite <- En.
    intros H. apply finish_upload_200 in H. destruct H as [-> _].
    eexists _, _, _. split; [reflexivity|]. rewrite find_obj_store_add_same, store_add_clock. cbn. auto.
  - cbn [handle targets]. destruct (alookup id (s_uploads s)) as [u|]; [|cbn; discriminate].
    destruct crange as [cr|]; [|cbn; discriminate].
    destruct (parse_byte_range cr) as [br|]; [|cbn; discriminate].
    destruct (resume_apply (up_data u) br data) as [data'|]; [|cbn; discriminate].
    destruct (resume_done br data'); [|cbn; discriminate].
    match goal with |- context [finish_upload ?s1 ?b ?n ?ct ?md ?meta ?d ?c] =>
      pose proof (finish_upload_200 s1 b n ct md meta d c) as HF;
      destruct (finish_upload s1 b n ct md meta d c) as [s2 rsp] end.
    cbn [fst snd] in HF. destruct (Z.eqb_spec (r_status rsp) 200) as [E|E]; cbn [fst snd]; [|intros; contradiction].
    intros _. destruct (HF E) as [-> _].
    eexists _, _, _. split; [reflexivity|]. rewrite find_obj_set_uploads, find_obj_store_add_same.
    cbn [set_uploads s_clock]. rewrite store_add_clock. cbn. auto.
  - intros H. destruct (compose_200_inv s b dst bad srcs dm cp H) as [dn [x [Hs [_ Hst]]]].
    rewrite Hst. cbn [targets]. rewrite Hs.
    eexists _, _, _. split; [reflexivity|]. rewrite find_obj_store_add_same, store_add_clock. cbn. auto.
  - intros H. destruct (copy_200_inv s b1 n1 b2 n2 H) as [f1 [rest [b2' [f2 [o [Hs1 [Hs2 [_ Hst]]]]]]]].
    rewrite Hst. cbn [targets]. rewrite Hs1, Hs2.
    eexists _, _, _. split; [reflexivity|]. rewrite find_obj_store_add_same, store_add_clock. cbn. auto.
Qed.

(* hence the new generation is strictly above every generation in the state before *)
Theorem fresh_generation_exceeds_all s r :
  gens_bounded s -> is_content_write r = true -> r_status (snd (handle s r)) = 200 ->
  exists b n o, targets s r = [(b, n)] /\ find_obj (fst (handle s r)) b n = Some o /\ o_metagen o = 1
    /\ forall b0 n0 o0, find_obj s b0 n0 = Some o0 -> o_gen o0 < o_gen o.
Proof.
  intros Hgb Hw H200. destruct (content_write_fresh_generation s r Hw H200) as [b [n [o [Ht [Hf [Hg [Hm _]]]]]]].
  exists b, n, o. repeat split; auto. intros b0 n0 o0 Hf0.
  pose proof (gens_bounded_find s b0 n0 o0 Hgb Hf0). lia.
Qed.

(* ... and above everything any earlier state of the run held *)
Theorem fresh_generation_exceeds_history s0 rs r :
  gens_bounded s0 ->
  let s := fst (run s0 rs) in
  is_content_write r = true -> r_status (snd (handle s r)) = 200 ->
  exists b n o, targets s r = [(b, n)] /\ find_obj (fst (handle s r)) b n = Some o
    /\ forall rsA rsB, rs = rsA ++ rsB ->
       forall b0 n0 o0, find_obj (fst (run s0 rsA)) b0 n0 = Some o0 -> o_gen o0 < o_gen o.
Proof.
  intros Hgb s Hw H200. destruct (content_write_fresh_generation s r Hw H200) as [b [n [o [Ht [Hf [Hg _]]]]]].
  exists b, n, o. repeat split; auto. intros rsA rsB Hrs b0 n0 o0 Hf0.
  pose proof (gens_bounded_run rsA s0 Hgb) as HgA.
  pose proof (gens_bounded_find _ b0 n0 o0 HgA Hf0) as Hle.
  pose proof (clock_monotone_run rsB (fst (run s0 rsA))) as Hmono.
  rewrite <- run_app, <- Hrs in Hmono. fold s in Hmono. lia.
Qed.

(* the generation a request writes, if it is a content write answered 200 *)
Definition written_gen (s : state) (r : req) : option Z :=
  if is_content_write r && Z.eqb (r_status (snd (handle s r))) 200
  then match targets s r with
       | [(b, n)] => match find_obj (fst (handle s r)) b n with Some o => Some (o_gen o) | None => None end
       | _ => None
       end
  else None.

Lemma written_gen_spec s r :
  match written_gen s r with
  | Some g => g = s_clock s + 1 /\ s_clock (fst (handle s r)) = g
  | None => is_content_write r = false \/ r_status (snd (handle s r)) <> 200
  end.
Proof.
  unfold written_gen. destruct (is_content_write r) eqn:Hw; [|cbn; auto].
  destruct (Z.eqb_spec (r_status (snd (handle s r))) 200) as [E|E]; [|cbn; auto]. cbn [andb].
  destruct (content_write_fresh_generation s r Hw E) as [b [n [o [Ht [Hf [Hg [_ Hc]]]]]]].
  rewrite Ht, Hf. split; lia.
Qed.

(* all generations written during a run, in order *)
Fixpoint run_gens (s : state) (rs : list req) : list Z :=
  match rs with
  | [] => []
  | r :: rest => match written_gen s r with Some g => [g] | None => [] end
                 ++ run_gens (fst (handle s r)) rest
  end.

Lemma run_gens_above rs : forall s, Forall (fun g => s_clock s < g) (run_gens s rs).
Proof.
  induction rs as [|r rest IH]; intros s; cbn [run_gens]; [constructor|].
  pose proof (written_gen_spec s r) as Hw. pose proof (clock_monotone s r) as Hm.
  specialize (IH (fst (handle s r))).
  assert (Hrest : Forall (fun g => s_clock s < g) (run_gens (fst (handle s r)) rest)).
  { eapply Forall_impl; [|exact IH]. cbn. intros g Hg. lia. }
  destruct (written_gen s r) as [g|]; cbn [app]; [|exact Hrest].
  constructor; [lia|exact Hrest].
Qed.

(* the generations handed out along any run are strictly increasing *)
Theorem generations_strictly_increasing rs : forall s, StronglySorted Z.lt (run_gens s rs).
Proof.
  induction rs as [|r rest IH]; intros s; cbn [run_gens]; [constructor|].
  pose proof (written_gen_spec s r) as Hw.
  destruct (written_gen s r) as [g|]; cbn [app]; [|apply IH].
  constructor; [apply IH|]. destruct Hw as [_ Hc]. rewrite <- Hc. apply run_gens_above.
Qed.

Corollary generations_from_init rs :
  StronglySorted Z.lt (run_gens init_state rs) /\ Forall (fun g => clock0 < g) (run_gens init_state rs)
  /\ gens_bounded (fst (run init_state rs)).
Proof.
  split; [apply generations_strictly_increasing|]. split; [apply (run_gens_above rs init_state)|].
  apply gens_bounded_run. apply gens_bounded_init.
Qed.

(* ================================================================== *)
(* 4. Patch                                                             *)

Theorem patch_bumps_metagen_only s b n p cp :
  r_status (snd (handle s (RPatch b n p cp))) = 200 ->
  exists o, find_obj s b n = Some o
    /\ find_obj (fst (handle s (RPatch b n p cp))) b n
       = Some (mkObj (o_data o)
                     (match pt_ctype p with Some t => t | None => o_ctype o end)
                     (o_gen o) (o_metagen o + 1) (o_md5 o)
                     (match pt_meta p with Some kv => merge_meta (o_meta o) kv | None => o_meta o end))
    /\ s_clock (fst (handle s (RPatch b n p cp))) = s_clock s
    /\ forall b' n', (b', n') <> (b, n) ->
         find_obj (fst (handle s (RPatch b n p cp))) b' n' = find_obj s b' n'.
Proof.
  cbn [handle]. destruct (resolve_conds s cp); [|cbn; discriminate].
  destruct (find_obj s b n) as [o|] eqn:Ef; [|cbn; discriminate].
  destruct (validate_conds _ c); try (cbn; discriminate).
  destruct (pt_bad p); [cbn; discriminate|]. cbn [fst snd]. intros _.
  exists o. split; [reflexivity|].
  assert (Hb : get_bucket s b <> None).
  { unfold find_obj in Ef. destruct (get_bucket s b); [discriminate|discriminate Ef]. }
  split; [apply find_obj_put_same; exact Hb|]. split.
  - unfold store_put_obj. destruct (get_bucket s b); reflexivity.
  - intros b' n' Hne. apply find_obj_put_other. exact Hne.
Qed.

(* ================================================================== *)
(* 5. Reads                                                             *)

Definition is_read (r : req) : bool :=
  match r with
  | RGetMedia _ _ | RGetMeta _ _ | RList _ _ _ _ _ | RListBadToken _ | RGetBucket _ => true
  | _ => false
  end.

Theorem reads_change_nothing s r : is_read r = true -> fst (handle s r) = s.
Proof.
  destruct r as [b n ctype data cp | b m data cp | b cp | b bad m cp | id crange data | b n | b n | b n cp
                | b n p cp | b prefix delim cursor maxres | b | b dst bad srcs dm cp | b1 n1 b2 n2 | b | b | b cp];
    cbn [is_read]; try discriminate; intros _; cbn [handle].
  - destruct (find_obj s b n); reflexivity.
  - destruct (find_obj s b n); reflexivity.
  - destruct maxres as [ms|].
    + destruct (parse_int ms) as [z|]; [|reflexivity]. destruct (z <? 1); [reflexivity|].
      destruct (get_bucket s b); [|reflexivity]. destruct (list_walk _ _ _ _ _) as [[[f p] m] lst]. reflexivity.
    + destruct (get_bucket s b); [|reflexivity]. destruct (list_walk _ _ _ _ _) as [[[f p] m] lst]. reflexivity.
  - reflexivity.
  - destruct (get_bucket s b); reflexivity.
Qed.

(* ================================================================== *)
(* non-vacuity: a run with an upload, an overwrite, a compose, a copy and a patch *)
Example generations_example :
  let cp := mkCP (PRaw []) (PRaw []) (PRaw []) (PRaw []) in
  let bk := [98]%N in
  let rs := [RUploadMedia bk [120]%N [116]%N [1; 2; 3]%N cp;
             RUploadMedia bk [120]%N [116]%N [4]%N cp;
             RGetMeta bk [120]%N;
             RCompose bk [122]%N false [([120]%N, PRaw [])] None cp;
             RCopy bk [120]%N bk [121]%N;
             RPatch bk [120]%N (mkPatch false (Some [117]%N) None None None None) cp] in
  run_gens init_state rs = [clock0 + 1; clock0 + 2; clock0 + 3; clock0 + 4]
  /\ map r_status (snd (run init_state rs)) = [200; 200; 200; 200; 200; 200]
  /\ option_map o_metagen (find_obj (fst (run init_state rs)) bk [120]%N) = Some 2
  /\ option_map o_gen (find_obj (fst (run init_state rs)) bk [120]%N) = Some (clock0 + 2).
Proof. cbn zeta. repeat split; timeout 60 vm_compute; reflexivity. Qed.

(* The file store's Walk visits the bucket directory tree; the entries of a directory are visited in
   the order of the object names they stand for (a directory "foo" sorts as "foo/"), so the names
   come in bytewise order, as in the memory store, preceded by the directories that lead to them.
   handle_fs = handle with that walk (directory entries included) in RList.
   [segs_cmp] is the order filepath.Walk would give (per-directory lexical order); it is kept to
   state what the walk used to do (GCS-2). *)
From Coq Require Import List NArith ZArith Bool.
Import ListNotations.
From Emu.Common Require Import Bytes Str.
From Emu.Gen Require Import Consts.
From Emu.GCS Require Import Model.
Local Open Scope Z_scope.

Fixpoint segs_cmp (a b : list bytes) : comparison :=
  match a, b with
  | [], [] => Eq
  | [], _ => Lt
  | _, [] => Gt
  | x :: xs, y :: ys => match lex_cmp x y with Eq => segs_cmp xs ys | c => c end
  end.

Definition segs (n : str) : list bytes := split n s_sep.

Fixpoint sinsert (n : str) (l : list str) : list str :=
  match l with
  | [] => [n]
  | m :: r => match lex_cmp n m with
              | Gt => m :: sinsert n r
              | _ => n :: l
              end
  end.
Definition fs_sort (names : list str) : list str := fold_right sinsert [] names.

(* the order of filepath.Walk (what the walk did before it was repaired) *)
Fixpoint sinsert_walk (n : str) (l : list str) : list str :=
  match l with
  | [] => [n]
  | m :: r => match segs_cmp (segs n) (segs m) with
              | Gt => m :: sinsert_walk n r
              | _ => n :: l
              end
  end.
Definition fs_sort_walk (names : list str) : list str := fold_right sinsert_walk [] names.

Fixpoint join_segs (l : list bytes) : str :=
  match l with
  | [] => []
  | [x] => x
  | x :: r => x ++ s_sep ++ join_segs r
  end.

(* proper directory prefixes of a name, outermost first: a/b/c -> [a; a/b] *)
Fixpoint dir_prefixes (acc : list bytes) (ss : list bytes) : list str :=
  match ss with
  | [] | [_] => []
  | x :: r => let acc' := acc ++ [x] in join_segs acc' :: dir_prefixes acc' r
  end.

(* walk entries: the root, then every name in walk order preceded by the directories not yet entered *)
Fixpoint fs_entries_go (seen : list str) (names : list str) : list (str * bool) :=
  match names with
  | [] => []
  | n :: r =>
      let ds := filter (fun d => negb (existsb (beqb d) seen)) (dir_prefixes [] (segs n)) in
      map (fun d => (d, true)) ds ++ (n, false) :: fs_entries_go (ds ++ seen) r
  end.
Definition fs_entries (bk : bucket) : list (str * bool) :=
  ([], true) :: fs_entries_go [] (fs_sort (map fst bk)).

Definition handle_fs (s : state) (r : req) : state * resp :=
  match r with
  | RList b prefix delim cursor maxres =>
      let mr := match maxres with
                | None => Some gcsDefaultMaxResults
                | Some ms => match parse_int ms with
                             | Some z => if z <? 1 then None else Some z
                             | None => None
                             end
                end in
      match mr with
      | None => (s, err 400)
      | Some m =>
        match get_bucket s b with
        | None => (s, err 404)
        | Some bk =>
            let cur := match cursor with Some c => c | None => [] end in
            let '(found, prefixes, more, last) := list_walk delim cur prefix (Z.to_nat m) (fs_entries bk) in
            let items := flat_map (fun n => match alookup n bk with
                                            | Some o => [view b n o] | None => [] end) found in
            let next := if more then last else None in
            (s, mkResp 200 (BList items prefixes next))
        end
      end
  | _ => handle s r
  end.

Fixpoint run_fs (s : state) (rs : list req) : state * list resp :=
  match rs with
  | [] => (s, [])
  | r :: rest => let '(s1, rsp) := handle_fs s r in
                 let '(s2, rsps) := run_fs s1 rest in (s2, rsp :: rsps)
  end.
Definition run_fs_canon (rs : list req) : list resp := canon (snd (run_fs init_state rs)).

(* Interleaving model of concurrent GCS requests at the granularity of the yield points
   instrumented in the handlers (build tag verif).  Every mutating handler runs
       lock(bucket/name); GetMeta; validateConds; [yield]; store mutation; GetMeta; unlock
   (copy: lock; [yield]; Copy; GetMeta; unlock); a GET takes no object lock: one store call, [yield],
   then the response built from what that call returned.  A thread parks holding the object lock only at that yield; a
   scheduler step of a thread that needs a held lock is "blocked" and changes nothing.
   Compose reads its sources BEFORE the yield: the model captures their contents at that step. *)
From Coq Require Import List NArith ZArith Bool.
Import ListNotations.
From Emu.Common Require Import Bytes Str.
From Emu.GCS Require Import Model.
Local Open Scope Z_scope.

Inductive outcome :=
| OAt
| OBlocked
| ODone (r : resp)
| OIdle.

Inductive gprogress :=
| GNew
| GHold (captured : option obj)    (* parked holding the lock; compose: the object to be stored *)
| GRead (answer : resp).           (* a GET parked between its store read and its response *)

(* metadata / media GET of an object and bucket GET: one store read, a yield, then the response built
   from what was read *)
Definition is_get (r : req) : bool :=
  match r with RGetMedia _ _ | RGetMeta _ _ | RGetBucket _ => true | _ => false end.

Record gthread := mkGThread { gt_todo : list req; gt_prog : gprogress }.

Record gstate := mkGState {
  g_store : state;
  g_holders : list ((str * str) * nat);     (* object lock -> holding thread *)
  g_threads : list gthread }.

Fixpoint upd_nth {A} (l : list A) (n : nat) (v : A) : list A :=
  match l, n with
  | [], _ => []
  | _ :: xs, O => v :: xs
  | x :: xs, S k => x :: upd_nth xs k v
  end.

Definition key_eqb (a b : str * str) : bool := beqb (fst a) (fst b) && beqb (snd a) (snd b).

Definition holder_of (hs : list ((str * str) * nat)) (k : str * str) : option nat :=
  match find (fun p => key_eqb (fst p) k) hs with Some p => Some (snd p) | None => None end.

(* a resumable PUT reaches finishUpload (and there the object lock of the session's object) iff the
   session exists, the Content-Range parses and fits, the upload is complete and the declared MD5 is
   not refused; everything before that point touches only the session *)
Definition resumable_target (s : state) (id : str) (crange : option str) (data : bytes) : option (str * str) :=
  match alookup id (s_uploads s), crange with
  | Some u, Some cr =>
      match parse_byte_range cr with
      | Some br =>
          match resume_apply (up_data u) br data with
          | Some data' =>
              if resume_done br data'
              then match up_md5 u with
                   | 2%N | 3%N => None
                   | _ => Some (up_bucket u, up_name u)
                   end
              else None
          | None => None
          end
      | None => None
      end
  | _, _ => None
  end.

(* the object lock a request takes (the parsed destination for compose and copy; the session's
   object for the PUT that completes a resumable upload) *)
Definition lock_key (s : state) (r : req) : option (str * str) :=
  match r with
  | RUploadMedia b n _ _ _ => Some (b, n)
  | RResumablePut id crange data => resumable_target s id crange data
  | RUploadMultipart b m _ _ => match um_name m with [] => None | _ => Some (b, um_name m) end   (* no name: 400 before the lock *)
  | RDelete b n _ => Some (b, n)
  | RPatch b n _ _ => Some (b, n)
  | RCompose b dst _ _ _ _ =>
      match split (dst ++ s_compose) s_compose with
      | [d; _] => match d with [] => None | _ => Some (b, d) end       (* no destination name: 400 before the lock *)
      | _ => None
      end
  | RCopy b1 n1 b2 n2 =>
      if contains (n1 ++ s_rewrite_b ++ b2 ++ s_o ++ n2) s_compose then None else
      match split (n1 ++ s_rewrite_b ++ b2 ++ s_o ++ n2) s_rewrite_b with
      | [_; rest] => match split2 rest s_o with
                     | [b2'; f2] => match f2 with [] => None | _ => Some (b2', f2) end   (* likewise *)
                     | _ => None
                     end
      | _ => None
      end
  | _ => None
  end.

(* does the request reach its yield point (i.e. pass every check made before it) in state s? *)
Definition reaches_yield (s : state) (r : req) : bool :=
  match r with
  | RCopy _ _ _ _ => true
  | RPatch b n p cp =>
      (* the yield comes after validateConds and before the body is decoded *)
      match resolve_conds s cp, find_obj s b n with
      | Some c, Some o => match validate_conds (Some (o_gen o, o_metagen o)) c with VPass => true | _ => false end
      | _, _ => false
      end
  | RDelete b n cp =>
      match resolve_conds s cp with
      | Some c => match validate_conds (obj_gens (find_obj s b n)) c with VPass => true | _ => false end
      | None => false
      end
  | _ => Z.eqb (r_status (snd (handle s r))) 200
  end.

(* a client fixes the values of its preconditions when it SENDS the request: symbolic parameters
   ("current generation of ...") are resolved against the state at the request's first step *)
Definition freeze_param (s : state) (p : cparam) : cparam :=
  match p with
  | PRaw _ => p
  | _ => match resolve s p with VNum z => PRaw (print_int z) | _ => PRaw [] end
  end.
Definition freeze_cp (s : state) (cp : cparams) : cparams :=
  mkCP (freeze_param s (cp1 cp)) (freeze_param s (cp2 cp)) (freeze_param s (cp3 cp)) (freeze_param s (cp4 cp)).
Definition freeze (s : state) (r : req) : req :=
  match r with
  | RUploadMedia b n ct d cp => RUploadMedia b n ct d (freeze_cp s cp)
  | RUploadMultipart b m d cp => RUploadMultipart b m d (freeze_cp s cp)
  | RDelete b n cp => RDelete b n (freeze_cp s cp)
  | RPatch b n p cp => RPatch b n p (freeze_cp s cp)
  | RCompose b d bad srcs dm cp => RCompose b d bad (map (fun sc => (fst sc, freeze_param s (snd sc))) srcs) dm (freeze_cp s cp)
  | _ => r
  end.

Definition release (hs : list ((str * str) * nat)) (i : nat) : list ((str * str) * nat) :=
  filter (fun p => negb (Nat.eqb (snd p) i)) hs.

Definition gstep (st : gstate) (i : nat) : gstate * outcome :=
  match nth_error (g_threads st) i with
  | None => (st, OIdle)
  | Some th =>
    match gt_todo th with
    | [] => (st, OIdle)
    | r0 :: rest =>
      let s := g_store st in
      let r := match gt_prog th with GNew => freeze s r0 | _ => r0 end in
      let finish (s' : state) (rsp : resp) :=
          (mkGState s' (release (g_holders st) i) (upd_nth (g_threads st) i (mkGThread rest GNew)), ODone rsp) in
      match gt_prog th with
      | GNew =>
          match lock_key s r with
          | None =>
              if is_get r
              then (mkGState s (g_holders st) (upd_nth (g_threads st) i (mkGThread (r :: rest) (GRead (snd (handle s r))))), OAt)
              else let '(s', rsp) := handle s r in finish s' rsp       (* listings, bucket ops, bad paths *)
          | Some k =>
              (* checks made before taking the lock: preconditions that do not parse, declared MD5 *)
              let early :=
                match r with
                | RUploadMedia _ n _ _ cp => match resolve_conds s cp with None => true | Some _ => match n with [] => true | _ => false end end
                | RUploadMultipart _ m _ cp => match resolve_conds s cp with None => true | Some _ => (N.eqb (um_md5 m) 2 || N.eqb (um_md5 m) 3) end
                | RDelete _ _ cp | RPatch _ _ _ cp => match resolve_conds s cp with None => true | Some _ => false end
                | RCompose _ _ bad _ _ cp => match resolve_conds s cp with None => true | Some _ => bad end
                | _ => false
                end in
              if early then let '(s', rsp) := handle s r in finish s' rsp else
              match holder_of (g_holders st) k with
              | Some j => if Nat.eqb j i then (st, OIdle)
                          else (mkGState s (g_holders st) (upd_nth (g_threads st) i (mkGThread (r :: rest) GNew)), OBlocked)
              | None =>
                  if reaches_yield s r
                  then
                    let cap := match r with
                               | RCompose _ _ _ _ _ _ => find_obj (fst (handle s r)) (fst k) (snd k)
                               | _ => None
                               end in
                    (mkGState s ((k, i) :: g_holders st) (upd_nth (g_threads st) i (mkGThread (r :: rest) (GHold cap))), OAt)
                  else let '(s', rsp) := handle s r in finish s' rsp
              end
          end
      | GRead rsp => finish s rsp       (* answers with what it read, whatever happened since *)
      | GHold cap =>
          match r, cap, lock_key s r with
          | RCompose _ _ _ _ _ _, Some o, Some k =>
              (* store what was assembled before the yield, with a generation from the clock NOW *)
              let s' := store_add s (fst k) (snd k) (o_data o) (o_ctype o) (o_md5 o) (o_meta o) in
              finish s' (resp_meta s' (fst k) (snd k))
          | _, _, _ => let '(s', rsp) := handle s r in finish s' rsp
          end
      end
    end
  end.

Fixpoint grun (st : gstate) (sched : list nat) : gstate * list outcome :=
  match sched with
  | [] => (st, [])
  | i :: rest => let '(st1, o) := gstep st i in
                 let '(st2, os) := grun st1 rest in (st2, o :: os)
  end.

(* Proofs about the model of ParseGcsUrl (GCS/Url.v): sanity examples, the URL forms a client
   builds parse back to the bucket and object they were built from (with the exact guards), and
   the witnesses where they do not (GCS-8: a public URL captured by the "/b/<bucket>/o" pattern;
   a newline truncates the object name). *)
From Coq Require Import List NArith Bool Lia.
From Coq Require String Ascii.
Import String.StringSyntax.
Import ListNotations.
From Emu.Common Require Import Bytes Str StrProofs.
From Emu.GCS Require Import Url.
Local Open Scope N_scope.

(* readable literals for the examples only: ASCII text -> bytes *)
Delimit Scope string_scope with string.
Definition a2b (s : String.string) : str := map Ascii.N_of_ascii (String.list_ascii_of_string s).
Arguments a2b s%string_scope.

(* ================= specification vocabulary ================= *)

Definition is_nil (s : str) : bool := match s with [] => true | _ :: _ => false end.

(* a path segment: non-empty, no '/' *)
Definition ok_seg (b : str) : bool := negb (is_nil b) && forallb not_slash b.
(* a bucket name: non-empty, no '/', no newline *)
Definition ok_bucket (b : str) : bool := negb (is_nil b) && forallb not_slash b && forallb not_nl b.
(* an object name: non-empty, no newline *)
Definition ok_name (n : str) : bool := negb (is_nil n) && forallb not_nl n.

(* some suffix of s satisfies f (i.e. f holds at some start position) *)
Fixpoint exists_suffix (f : str -> bool) (s : str) : bool :=
  f s || match s with [] => false | _ :: r => exists_suffix f r end.

(* "/b/" seg "/o" with a non-empty slash-free seg starts here *)
Definition bseg_o_at (s : str) : bool :=
  has_prefix s s_b_sl
  && negb (is_nil (take_while not_slash (skipn 3 s)))
  && has_prefix (drop_while not_slash (skipn 3 s)) s_sl_o.
Definition has_bseg_o : str -> bool := exists_suffix bseg_o_at.

(* guards *)
Definition no_api (path : str) : bool := negb (contains path s_api_b).          (* no "/storage/v1/b" anywhere *)
Definition no_api_fragment (n : str) : bool := no_api (47 :: n).                (* ... in "/" ++ name *)
Definition prefix_clean (pre : str) : bool := negb (contains pre [47; 115]).    (* no "/s" in the prefix *)
Definition public_guard (path : str) : bool := no_api path && negb (has_bseg_o path).

(* ================= generic facts ================= *)

Lemma has_prefix_nil_r s : has_prefix s [] = true.
Proof. destruct s; reflexivity. Qed.

Lemma has_prefix_cons c s d p : has_prefix (c :: s) (d :: p) = (c =? d) && has_prefix s p.
Proof. reflexivity. Qed.

Lemma has_prefix_app p s : has_prefix (p ++ s) p = true.
Proof.
  induction p as [|c p IH]; [apply has_prefix_nil_r|].
  cbn [app]. rewrite has_prefix_cons, N.eqb_refl. exact IH.
Qed.

Lemma has_prefix_In s : forall p, has_prefix s p = true -> forall x, In x p -> In x s.
Proof.
  induction s as [|c s IH]; intros [|d p] H x Hx; try (destruct Hx; fail); try discriminate H.
  rewrite has_prefix_cons in H. apply andb_prop in H. destruct H as [H1 H2].
  apply N.eqb_eq in H1. subst d. destruct Hx as [Hx|Hx]; [left; exact Hx|right; eapply IH; eauto].
Qed.

Lemma has_prefix_split s : forall p, has_prefix s p = true -> s = p ++ skipn (length p) s.
Proof.
  induction s as [|c s IH]; intros [|d p] H; try reflexivity; try discriminate H.
  rewrite has_prefix_cons in H. apply andb_prop in H. destruct H as [H1 H2].
  apply N.eqb_eq in H1. subst d. cbn [length skipn app]. f_equal. apply IH. exact H2.
Qed.

Lemma has_prefix_app_r p : forall s q, has_prefix s (p ++ q) = true -> has_prefix s p = true.
Proof.
  induction p as [|d p IH]; intros s q H; [apply has_prefix_nil_r|].
  destruct s as [|c s]; [discriminate H|].
  cbn [app] in H. rewrite has_prefix_cons in *. apply andb_prop in H. destruct H as [H1 H2].
  rewrite H1. cbn [andb]. eapply IH; eauto.
Qed.

Lemma has_prefix_app_r_false p s q : has_prefix s p = false -> has_prefix s (p ++ q) = false.
Proof.
  intros H. destruct (has_prefix s (p ++ q)) eqn:E; [|reflexivity].
  apply has_prefix_app_r in E. congruence.
Qed.

Lemma skipn_app_len (p s : str) : skipn (length p) (p ++ s) = s.
Proof. induction p as [|c p IH]; [reflexivity|exact IH]. Qed.

Definition stops (p : N -> bool) (r : str) : Prop :=
  match r with [] => True | c :: _ => p c = false end.

Lemma take_while_app p a r : forallb p a = true -> stops p r -> take_while p (a ++ r) = a.
Proof.
  intros Ha Hr. induction a as [|c a IH]; cbn [app take_while].
  - destruct r as [|d r]; [reflexivity|]. cbn [take_while]. cbn in Hr. rewrite Hr. reflexivity.
  - cbn [forallb] in Ha. apply andb_prop in Ha. destruct Ha as [Hc Ha]. rewrite Hc. f_equal. auto.
Qed.

Lemma drop_while_app p a r : forallb p a = true -> stops p r -> drop_while p (a ++ r) = r.
Proof.
  intros Ha Hr. induction a as [|c a IH]; cbn [app drop_while].
  - destruct r as [|d r]; [reflexivity|]. cbn [drop_while]. cbn in Hr. rewrite Hr. reflexivity.
  - cbn [forallb] in Ha. apply andb_prop in Ha. destruct Ha as [Hc Ha]. rewrite Hc. auto.
Qed.

Lemma take_while_all p a : forallb p a = true -> take_while p a = a.
Proof. intros H. rewrite <- (app_nil_r a) at 1. apply take_while_app; [exact H|exact I]. Qed.

Lemma drop_while_all p a : forallb p a = true -> drop_while p a = [].
Proof. intros H. rewrite <- (app_nil_r a) at 1. apply drop_while_app; [exact H|exact I]. Qed.

Lemma take_drop_while p s : take_while p s ++ drop_while p s = s.
Proof.
  induction s as [|c s IH]; [reflexivity|]. cbn [take_while drop_while].
  destruct (p c); [cbn [app]; f_equal; exact IH|reflexivity].
Qed.

Lemma take_while_forallb p s : forallb p (take_while p s) = true.
Proof.
  induction s as [|c s IH]; [reflexivity|]. cbn [take_while].
  destruct (p c) eqn:E; [cbn [forallb]; rewrite E; exact IH|reflexivity].
Qed.

Lemma forallb_not_slash_In b : forallb not_slash b = true -> ~ In 47 b.
Proof.
  intros H Hin. rewrite forallb_forall in H. apply H in Hin. discriminate Hin.
Qed.

(* -------- searching over start positions -------- *)

Lemma find_first_hit {A} (f : str -> option A) s r : f s = Some r -> find_first f s = Some r.
Proof. intros H. destruct s; cbn [find_first]; rewrite H; reflexivity. Qed.

Lemma find_first_cons {A} (f : str -> option A) c s :
  f (c :: s) = None -> find_first f (c :: s) = find_first f s.
Proof. intros H. cbn [find_first]. rewrite H. reflexivity. Qed.

Lemma find_first_none {A} (f : str -> option A) s :
  (forall p t, s = p ++ t -> f t = None) -> find_first f s = None.
Proof.
  induction s as [|c s IH]; intros H.
  - cbn [find_first]. rewrite (H [] [] eq_refl). reflexivity.
  - rewrite find_first_cons; [|apply (H [] (c :: s) eq_refl)].
    apply IH. intros p t ->. apply (H (c :: p) t). reflexivity.
Qed.

Lemma find_first_none_inv {A} (f : str -> option A) s :
  find_first f s = None -> forall p t, s = p ++ t -> f t = None.
Proof.
  induction s as [|c s IH]; intros H p t E.
  - destruct p; [|discriminate E]. cbn [app] in E. subst t. cbn [find_first] in H.
    destruct (f []); [discriminate H|reflexivity].
  - cbn [find_first] in H. destruct (f (c :: s)) eqn:Ef; [discriminate H|].
    destruct p as [|d p]; cbn [app] in E.
    + subst t. exact Ef.
    + injection E as _ E. eapply IH; eauto.
Qed.

Lemma find_first_skip {A} (f : str -> option A) pre s :
  (forall p t, pre = p ++ t -> t <> [] -> f (t ++ s) = None) ->
  find_first f (pre ++ s) = find_first f s.
Proof.
  induction pre as [|c pre IH]; intros H; [reflexivity|].
  cbn [app]. rewrite find_first_cons.
  - apply IH. intros p t -> Ht. apply (H (c :: p) t); [reflexivity|exact Ht].
  - apply (H [] (c :: pre)); [reflexivity|discriminate].
Qed.

Lemma exists_suffix_false f s :
  exists_suffix f s = false <-> (forall p t, s = p ++ t -> f t = false).
Proof.
  induction s as [|c s IH]; cbn [exists_suffix].
  - rewrite orb_false_r. split.
    + intros H p t E. destruct p; [|discriminate E]. cbn [app] in E. subst t. exact H.
    + intros H. apply (H [] []). reflexivity.
  - rewrite orb_false_iff, IH. split.
    + intros [H1 H2] p t E. destruct p as [|d p]; cbn [app] in E.
      * subst t. exact H1.
      * injection E as _ E. eapply H2; eauto.
    + intros H. split; [apply (H [] (c :: s)); reflexivity|].
      intros p t ->. apply (H (c :: p) t). reflexivity.
Qed.

Lemma exists_suffix_true f s :
  exists_suffix f s = true <-> (exists p t, s = p ++ t /\ f t = true).
Proof.
  split.
  - intros H. induction s as [|c s IH]; cbn [exists_suffix] in H.
    + rewrite orb_false_r in H. exists [], []. split; [reflexivity|exact H].
    + apply orb_prop in H. destruct H as [H|H].
      * exists [], (c :: s). split; [reflexivity|exact H].
      * destruct (IH H) as (p & t & -> & Ht). exists (c :: p), t. split; [reflexivity|exact Ht].
  - intros (p & t & E & Ht). destruct (exists_suffix f s) eqn:Ex; [reflexivity|].
    rewrite exists_suffix_false in Ex. rewrite (Ex p t E) in Ht. discriminate Ht.
Qed.

Lemma contains_exists_suffix s lit : contains s lit = exists_suffix (fun t => has_prefix t lit) s.
Proof.
  unfold contains. induction s as [|c s IH]; cbn [index_of exists_suffix].
  - destruct (has_prefix [] lit); reflexivity.
  - destruct (has_prefix (c :: s) lit); [reflexivity|]. cbn [orb]. rewrite <- IH.
    destruct (index_of s lit); reflexivity.
Qed.

(* what [contains] means *)
Lemma contains_true_iff s lit : contains s lit = true <-> exists p t, s = p ++ lit ++ t.
Proof.
  rewrite contains_exists_suffix, exists_suffix_true. split.
  - intros (p & t & -> & H). exists p, (skipn (length lit) t). f_equal. apply has_prefix_split. exact H.
  - intros (p & t & ->). exists p, (lit ++ t). split; [reflexivity|apply has_prefix_app].
Qed.

Lemma contains_false_suffix s lit :
  contains s lit = false -> forall p t, s = p ++ t -> has_prefix t lit = false.
Proof. rewrite contains_exists_suffix, exists_suffix_false. auto. Qed.

Lemma contains_false_intro s lit :
  (forall p t, s = p ++ t -> has_prefix t lit = false) -> contains s lit = false.
Proof. rewrite contains_exists_suffix, exists_suffix_false. auto. Qed.

(* -------- the regex fragments on well-formed input -------- *)

Lemma seg_plus_app b r : ok_seg b = true -> stops not_slash r -> seg_plus (b ++ r) = Some (b, r).
Proof.
  unfold ok_seg, seg_plus. intros Hb Hr. apply andb_prop in Hb. destruct Hb as [Hne Hb].
  rewrite take_while_app, drop_while_app by assumption.
  destruct b; [discriminate Hne|reflexivity].
Qed.

Lemma seg_plus_all b : ok_seg b = true -> seg_plus b = Some (b, []).
Proof. intros H. rewrite <- (app_nil_r b) at 1. apply seg_plus_app; [exact H|exact I]. Qed.

Lemma dot_plus_all n : ok_name n = true -> dot_plus n = Some n.
Proof.
  unfold ok_name, dot_plus. intros H. apply andb_prop in H. destruct H as [Hne Hn].
  rewrite take_while_all by assumption. destruct n; [discriminate Hne|reflexivity].
Qed.

Lemma opt_object_name n : ok_name n = true -> opt_object (47 :: n) = n.
Proof. intros H. cbn [opt_object]. rewrite N.eqb_refl, dot_plus_all by assumption. reflexivity. Qed.

Lemma ok_bucket_seg b : ok_bucket b = true -> ok_seg b = true.
Proof. unfold ok_bucket, ok_seg. intros H. apply andb_prop in H. tauto. Qed.

Lemma ok_seg_nonempty b : ok_seg b = true -> b <> [].
Proof. intros H ->. discriminate H. Qed.

Lemma ok_seg_noslash b : ok_seg b = true -> forallb not_slash b = true.
Proof. unfold ok_seg. intros H. apply andb_prop in H. tauto. Qed.

(* lit ([^/]+) /o (?:/(.+))?  at a position where  lit seg "/o" tail  starts *)
Lemma object_at_hit lit b tail :
  ok_seg b = true -> object_at lit (lit ++ b ++ s_sl_o ++ tail) = Some (b, opt_object tail).
Proof.
  intros Hb. unfold object_at. rewrite has_prefix_app, skipn_app_len.
  rewrite seg_plus_app; [|exact Hb|reflexivity].
  rewrite has_prefix_app. reflexivity.
Qed.

Lemma object_at_prefix lit s r : object_at lit s = Some r -> has_prefix s lit = true.
Proof. unfold object_at. destruct (has_prefix s lit); [reflexivity|discriminate]. Qed.

Lemma bucket_at_prefix s r : bucket_at s = Some r -> has_prefix s s_api_b = true.
Proof. unfold bucket_at. destruct (has_prefix s s_api_b); [reflexivity|discriminate]. Qed.

Lemma object_at_no_prefix lit s : has_prefix s lit = false -> object_at lit s = None.
Proof. unfold object_at. intros ->. reflexivity. Qed.

Lemma bucket_at_no_prefix s : has_prefix s s_api_b = false -> bucket_at s = None.
Proof. unfold bucket_at. intros ->. reflexivity. Qed.

(* patterns 1 and 2 need the literal "/storage/v1/b" *)
Lemma match_object_no_api p : no_api p = true -> match_object p = None.
Proof.
  unfold no_api. intros H. apply negb_true_iff in H.
  apply find_first_none. intros q t E. apply object_at_no_prefix.
  apply has_prefix_app_r_false. eapply contains_false_suffix; eauto.
Qed.

Lemma match_bucket_no_api p : no_api p = true -> match_bucket p = None.
Proof.
  unfold no_api. intros H. apply negb_true_iff in H.
  apply find_first_none. intros q t E. apply bucket_at_no_prefix.
  eapply contains_false_suffix; eauto.
Qed.

(* pattern 3 matches somewhere iff "/b/" seg "/o" occurs *)
Lemma object2_at_bseg s : object_at s_b_sl s = None <-> bseg_o_at s = false.
Proof.
  unfold object_at, bseg_o_at, seg_plus. change (length s_b_sl) with 3%nat.
  destruct (has_prefix s s_b_sl); [|split; reflexivity]. cbn [andb].
  destruct (take_while not_slash (skipn 3 s)) as [|c seg]; [split; reflexivity|].
  cbn [is_nil negb andb].
  destruct (has_prefix (drop_while not_slash (skipn 3 s)) s_sl_o); split; intros H; try reflexivity; discriminate H.
Qed.

Lemma match_object2_none_iff p : match_object2 p = None <-> has_bseg_o p = false.
Proof.
  unfold has_bseg_o. rewrite exists_suffix_false. split.
  - intros H q t E. apply object2_at_bseg. eapply find_first_none_inv; eauto.
  - intros H. apply find_first_none. intros q t E. apply object2_at_bseg. eauto.
Qed.

(* what the guard [has_bseg_o] means *)
Lemma bseg_o_at_iff s :
  bseg_o_at s = true <-> exists seg post, s = s_b_sl ++ seg ++ s_sl_o ++ post /\ ok_seg seg = true.
Proof.
  unfold bseg_o_at. split.
  - intros H. apply andb_prop in H. destruct H as [H H3]. apply andb_prop in H. destruct H as [H1 H2].
    exists (take_while not_slash (skipn 3 s)), (skipn 2 (drop_while not_slash (skipn 3 s))). split.
    + rewrite (has_prefix_split _ _ H1) at 1. f_equal. change (length s_b_sl) with 3%nat.
      rewrite <- (take_drop_while not_slash (skipn 3 s)) at 1. f_equal.
      apply (has_prefix_split _ _ H3).
    + unfold ok_seg. rewrite H2, take_while_forallb. reflexivity.
  - intros (seg & post & -> & Hseg).
    rewrite has_prefix_app. change 3%nat with (length s_b_sl). rewrite skipn_app_len.
    unfold ok_seg in Hseg. apply andb_prop in Hseg. destruct Hseg as [Hne Hseg].
    rewrite take_while_app, drop_while_app; [|exact Hseg|reflexivity|exact Hseg|reflexivity].
    rewrite has_prefix_app, Hne. reflexivity.
Qed.

Lemma has_bseg_o_iff p :
  has_bseg_o p = true <->
  exists pre seg post, p = pre ++ s_b_sl ++ seg ++ s_sl_o ++ post /\ ok_seg seg = true.
Proof.
  unfold has_bseg_o. rewrite exists_suffix_true. split.
  - intros (q & t & -> & H). apply bseg_o_at_iff in H. destruct H as (seg & post & -> & Hs).
    exists q, seg, post. auto.
  - intros (pre & seg & post & -> & Hs). exists pre, (s_b_sl ++ seg ++ s_sl_o ++ post).
    split; [reflexivity|]. apply bseg_o_at_iff. exists seg, post. auto.
Qed.

(* a slash-free segment followed by '/' can only line up with a slash-free word followed by '/' *)
Lemma seg_prefix b : forall w t u,
  forallb not_slash b = true -> forallb not_slash w = true ->
  has_prefix (b ++ 47 :: t) (w ++ 47 :: u) = true -> b = w /\ has_prefix t u = true.
Proof.
  induction b as [|c b IH]; intros [|d w] t u Hb Hw H; cbn [app] in H; rewrite has_prefix_cons in H;
    apply andb_prop in H; destruct H as [H1 H2]; apply N.eqb_eq in H1.
  - split; [reflexivity|exact H2].
  - subst d. discriminate Hw.
  - subst c. discriminate Hb.
  - subst d. cbn [forallb] in Hb, Hw. apply andb_prop in Hb. apply andb_prop in Hw.
    destruct Hb as [_ Hb]. destruct Hw as [_ Hw].
    destruct (IH w t u Hb Hw H2) as [-> Ht]. split; [reflexivity|exact Ht].
Qed.

(* no occurrence of lit: compositional form *)
Definition no_occ (lit s : str) : Prop := forall p t, s = p ++ t -> has_prefix t lit = false.

Lemma no_occ_cons lit c s : has_prefix (c :: s) lit = false -> no_occ lit s -> no_occ lit (c :: s).
Proof.
  intros H1 H2 p t E. destruct p as [|d p]; cbn [app] in E.
  - subst t. exact H1.
  - injection E as _ E. eapply H2; eauto.
Qed.

Lemma no_occ_seg lit b s :
  forallb not_slash b = true -> no_occ (47 :: lit) s -> no_occ (47 :: lit) (b ++ s).
Proof.
  intros Hb Hs. induction b as [|c b IH]; [exact Hs|].
  cbn [forallb] in Hb. apply andb_prop in Hb. destruct Hb as [Hc Hb].
  cbn [app]. apply no_occ_cons; [|auto].
  rewrite has_prefix_cons. unfold not_slash in Hc. apply negb_true_iff in Hc. rewrite Hc. reflexivity.
Qed.

Lemma no_occ_contains lit s : no_occ lit s <-> contains s lit = false.
Proof.
  split; intros H.
  - apply contains_false_intro. exact H.
  - exact (contains_false_suffix _ _ H).
Qed.

(* ================= sanity examples (regex semantics worked out by hand) ================= *)

Example ex_json_object :
  parse_gcs_url (a2b "/storage/v1/b/bkt/o/a/b.txt") = Some (a2b "bkt", a2b "a/b.txt", false).
Proof. vm_compute. reflexivity. Qed.
Example ex_json_object_list :
  parse_gcs_url (a2b "/storage/v1/b/bkt/o") = Some (a2b "bkt", [], false).
Proof. vm_compute. reflexivity. Qed.
Example ex_json_bucket :
  parse_gcs_url (a2b "/storage/v1/b/bkt") = Some (a2b "bkt", [], false).
Proof. vm_compute. reflexivity. Qed.
Example ex_json_bucket_list :
  parse_gcs_url (a2b "/storage/v1/b") = Some ([], [], false).
Proof. vm_compute. reflexivity. Qed.
Example ex_download :
  parse_gcs_url (a2b "/download/storage/v1/b/bkt/o/x") = Some (a2b "bkt", a2b "x", false).
Proof. vm_compute. reflexivity. Qed.
Example ex_upload :
  parse_gcs_url (a2b "/upload/storage/v1/b/bkt/o") = Some (a2b "bkt", [], false).
Proof. vm_compute. reflexivity. Qed.
Example ex_b_form :
  parse_gcs_url (a2b "/b/bkt/o/x") = Some (a2b "bkt", a2b "x", false).
Proof. vm_compute. reflexivity. Qed.
Example ex_public :
  parse_gcs_url (a2b "/bkt/dir/x") = Some (a2b "bkt", a2b "dir/x", true).
Proof. vm_compute. reflexivity. Qed.
Example ex_bucket_only_public : parse_gcs_url (a2b "/bkt") = None.
Proof. vm_compute. reflexivity. Qed.
Example ex_root : parse_gcs_url (a2b "/") = None.
Proof. vm_compute. reflexivity. Qed.
Example ex_empty : parse_gcs_url [] = None.
Proof. vm_compute. reflexivity. Qed.
(* no boundary after "/o": the optional group is skipped, the object is EMPTY *)
Example ex_o_no_boundary :
  parse_gcs_url (a2b "/storage/v1/b/bkt/o2/x") = Some (a2b "bkt", [], false).
Proof. vm_compute. reflexivity. Qed.
Example ex_o_no_boundary_2 :
  parse_gcs_url (a2b "/storage/v1/b/bkt/other") = Some (a2b "bkt", [], false).
Proof. vm_compute. reflexivity. Qed.
(* empty bucket segment: pattern 1 fails everywhere, pattern 2 matches "/storage/v1/b" alone *)
Example ex_empty_bucket_segment :
  parse_gcs_url (a2b "/storage/v1/b//o/x") = Some ([], [], false).
Proof. vm_compute. reflexivity. Qed.
(* GCS-8: a public URL whose object name contains "/b/other/o/y" *)
Example ex_public_captured :
  parse_gcs_url (a2b "/bkt/x/b/other/o/y") = Some (a2b "other", a2b "y", false).
Proof. vm_compute. reflexivity. Qed.
(* a failed attempt at one occurrence of the literal continues at a later start position *)
Example ex_later_start :
  parse_gcs_url (a2b "/storage/v1/b//storage/v1/b/bkt/o/x") = Some (a2b "bkt", a2b "x", false).
Proof. vm_compute. reflexivity. Qed.
(* leading empty segment: the public pattern starts at the second '/' *)
Example ex_public_double_slash :
  parse_gcs_url (a2b "//bkt/x") = Some (a2b "bkt", a2b "x", true).
Proof. vm_compute. reflexivity. Qed.
(* [^/] matches a newline, '.' does not *)
Example ex_newline_in_bucket :
  parse_gcs_url [47; 97; 10; 98; 47; 99] = Some ([97; 10; 98], [99], true).
Proof. vm_compute. reflexivity. Qed.

(* the checker flags exactly the pairs that differ from the model *)
Example ex_check_urls :
  check_urls [ (a2b "/b/bkt/o/x", Some (a2b "bkt", a2b "x", false));
               (a2b "/bkt/x/b/other/o/y", Some (a2b "bkt", a2b "x/b/other/o/y", true));
               (a2b "/bkt", None);
               (a2b "/", Some ([], [], false)) ]
  = [(1, 0); (3, 0)].
Proof. vm_compute. reflexivity. Qed.

Lemma res_eqb_eq a b : res_eqb a b = true <-> a = b.
Proof.
  destruct a as [[[b1 o1] p1]|], b as [[[b2 o2] p2]|]; cbn [res_eqb]; split; intros H;
    try discriminate H; try reflexivity.
  - apply andb_prop in H. destruct H as [H H3]. apply andb_prop in H. destruct H as [H1 H2].
    apply beqb_eq in H1. apply beqb_eq in H2. apply eqb_prop in H3. congruence.
  - injection H as -> -> ->. rewrite !beqb_refl, eqb_reflx. reflexivity.
Qed.

Lemma check_urls_from_nil i l :
  check_urls_from i l = [] <-> Forall (fun pr => parse_gcs_url (fst pr) = snd pr) l.
Proof.
  revert i. induction l as [|[p r] l IH]; intros i; cbn [check_urls_from].
  - split; [constructor|reflexivity].
  - destruct (res_eqb (parse_gcs_url p) r) eqn:E.
    + apply res_eqb_eq in E. rewrite IH. split.
      * intros H. constructor; [exact E|exact H].
      * intros H. inversion H; subst. assumption.
    + split; [discriminate|]. intros H. inversion H as [|x l' Hx Hl]; subst. cbn [fst snd] in Hx.
      apply res_eqb_eq in Hx. congruence.
Qed.

(* the checker answers [] exactly when every observed result equals the model's *)
Theorem check_urls_sound l :
  check_urls l = [] <-> Forall (fun pr => parse_gcs_url (fst pr) = snd pr) l.
Proof. apply check_urls_from_nil. Qed.

(* ================= the URL forms ================= *)

(* pattern 1 succeeds at a start position: it is tried first, so it decides *)
Lemma parse_object_hit p b o : match_object p = Some (b, o) -> parse_gcs_url p = Some (b, o, false).
Proof. unfold parse_gcs_url. intros ->. reflexivity. Qed.

(* ---- a. JSON API object URL ---- *)
Lemma url_roundtrip_json_seg b n : ok_seg b = true -> ok_name n = true ->
  parse_gcs_url (s_api_b_sl ++ b ++ s_sl_o ++ 47 :: n) = Some (b, n, false).
Proof.
  intros Hb Hn. apply parse_object_hit. apply find_first_hit.
  rewrite object_at_hit, opt_object_name by assumption. reflexivity.
Qed.

Theorem url_roundtrip_json b n : ok_bucket b = true -> ok_name n = true ->
  parse_gcs_url (a2b "/storage/v1/b/" ++ b ++ a2b "/o/" ++ n) = Some (b, n, false).
Proof. intros Hb Hn. apply (url_roundtrip_json_seg b n); [apply ok_bucket_seg; exact Hb|exact Hn]. Qed.

(* ---- b. the same behind any prefix without "/s" (e.g. "/download", "/upload") ---- *)
Lemma api_not_inside_clean_prefix pre rest :
  prefix_clean pre = true ->
  forall p t, pre = p ++ t -> t <> [] -> has_prefix (t ++ 47 :: rest) s_api_b_sl = false.
Proof.
  unfold prefix_clean. intros Hc p t E Ht. apply negb_true_iff in Hc.
  pose proof (contains_false_suffix _ _ Hc p t E) as Hps.
  destruct t as [|c [|d t]]; [contradiction Ht; reflexivity| |].
  - cbn [app]. unfold s_api_b_sl, s_api_b. cbn [app]. rewrite !has_prefix_cons. cbn [N.eqb Pos.eqb andb].
    apply andb_false_r.
  - cbn [app] in *. unfold s_api_b_sl, s_api_b. cbn [app]. rewrite !has_prefix_cons in *.
    rewrite has_prefix_nil_r, andb_true_r in Hps. rewrite andb_assoc, Hps. reflexivity.
Qed.

Theorem url_roundtrip_prefixed pre b n :
  prefix_clean pre = true -> ok_bucket b = true -> ok_name n = true ->
  parse_gcs_url (pre ++ a2b "/storage/v1/b/" ++ b ++ a2b "/o/" ++ n) = Some (b, n, false).
Proof.
  intros Hp Hb Hn. apply parse_object_hit. unfold match_object. rewrite find_first_skip.
  - apply find_first_hit. change (a2b "/storage/v1/b/") with s_api_b_sl.
    change (a2b "/o/" ++ n) with (s_sl_o ++ 47 :: n).
    rewrite object_at_hit, opt_object_name; auto using ok_bucket_seg.
  - intros p t E Ht. apply object_at_no_prefix.
    change (a2b "/storage/v1/b/" ++ b ++ a2b "/o/" ++ n) with (47 :: skipn 1 s_api_b_sl ++ b ++ a2b "/o/" ++ n).
    eapply api_not_inside_clean_prefix; eauto.
Qed.

Theorem url_roundtrip_download b n : ok_bucket b = true -> ok_name n = true ->
  parse_gcs_url (a2b "/download/storage/v1/b/" ++ b ++ a2b "/o/" ++ n) = Some (b, n, false).
Proof. intros Hb Hn. apply (url_roundtrip_prefixed (a2b "/download") b n); auto. Qed.

Theorem url_roundtrip_upload b n : ok_bucket b = true -> ok_name n = true ->
  parse_gcs_url (a2b "/upload/storage/v1/b/" ++ b ++ a2b "/o/" ++ n) = Some (b, n, false).
Proof. intros Hb Hn. apply (url_roundtrip_prefixed (a2b "/upload") b n); auto. Qed.

(* ---- c. "/b/<bucket>/o/<name>" ---- *)
(* the whole path is free of "/storage/v1/b" as soon as "/" ++ name is *)
Lemma b_form_no_api b n : ok_seg b = true -> no_api_fragment n = true ->
  no_api (s_b_sl ++ b ++ s_sl_o ++ 47 :: n) = true.
Proof.
  unfold no_api_fragment, no_api. intros Hb Hn. apply negb_true_iff in Hn. apply negb_true_iff.
  apply no_occ_contains. apply no_occ_contains in Hn. apply ok_seg_noslash in Hb.
  unfold s_b_sl, s_sl_o. cbn [app].
  apply no_occ_cons; [reflexivity|]. apply no_occ_cons; [reflexivity|].
  apply no_occ_cons.
  - (* "/" b "/o/" n  against  "/" "storage" "/" "v1/b" *)
    unfold s_api_b. rewrite has_prefix_cons. cbn [N.eqb Pos.eqb andb].
    destruct (has_prefix (b ++ 47 :: 111 :: 47 :: n) [115; 116; 111; 114; 97; 103; 101; 47; 118; 49; 47; 98]) eqn:E;
      [|reflexivity].
    apply (seg_prefix b [115; 116; 111; 114; 97; 103; 101] (111 :: 47 :: n) [118; 49; 47; 98] Hb eq_refl) in E.
    destruct E as [_ E]. discriminate E.
  - unfold s_api_b. apply no_occ_seg; [exact Hb|].
    apply no_occ_cons; [reflexivity|]. apply no_occ_cons; [reflexivity|]. exact Hn.
Qed.

Lemma url_roundtrip_b_seg b n : ok_seg b = true -> ok_name n = true -> no_api_fragment n = true ->
  parse_gcs_url (s_b_sl ++ b ++ s_sl_o ++ 47 :: n) = Some (b, n, false).
Proof.
  intros Hb Hn Hg. pose proof (b_form_no_api b n Hb Hg) as Hna.
  unfold parse_gcs_url. rewrite match_object_no_api, match_bucket_no_api by exact Hna.
  unfold match_object2. rewrite (find_first_hit _ _ (b, n)); [reflexivity|].
  rewrite object_at_hit, opt_object_name by assumption. reflexivity.
Qed.

Theorem url_roundtrip_b b n : ok_bucket b = true -> ok_name n = true -> no_api_fragment n = true ->
  parse_gcs_url (a2b "/b/" ++ b ++ a2b "/o/" ++ n) = Some (b, n, false).
Proof. intros Hb Hn Hg. apply (url_roundtrip_b_seg b n); auto using ok_bucket_seg. Qed.

(* without the guard the name's own "/storage/v1/b" wins: witness *)
Theorem url_roundtrip_b_refuted :
  let b := a2b "bkt" in let n := a2b "storage/v1/b/other/o/y" in
  ok_bucket b = true /\ ok_name n = true /\ no_api_fragment n = false
  /\ parse_gcs_url (a2b "/b/" ++ b ++ a2b "/o/" ++ n) = Some (a2b "other", a2b "y", false).
Proof. vm_compute. auto. Qed.

(* ---- d. public URL "/<bucket>/<name>" ---- *)
Lemma public_at_hit b n : ok_seg b = true -> ok_name n = true ->
  public_at (47 :: b ++ 47 :: n) = Some (b, n).
Proof.
  intros Hb Hn. cbn [public_at]. rewrite N.eqb_refl.
  rewrite seg_plus_app; [|exact Hb|reflexivity].
  rewrite N.eqb_refl, dot_plus_all by exact Hn. reflexivity.
Qed.

Lemma url_roundtrip_public_seg b n : ok_seg b = true -> ok_name n = true ->
  public_guard (47 :: b ++ 47 :: n) = true ->
  parse_gcs_url (47 :: b ++ 47 :: n) = Some (b, n, true).
Proof.
  unfold public_guard. intros Hb Hn Hg. apply andb_prop in Hg. destruct Hg as [Hna Hbo].
  apply negb_true_iff in Hbo. apply match_object2_none_iff in Hbo.
  unfold parse_gcs_url. rewrite match_object_no_api, match_bucket_no_api, Hbo by exact Hna.
  unfold match_public. rewrite (find_first_hit _ _ (b, n)); [reflexivity|]. apply public_at_hit; assumption.
Qed.

(* FULL statement (false, see url_public_refuted):
     forall b n, ok_bucket b -> ok_name n -> parse ("/" ++ b ++ "/" ++ n) = Some (b, n, true).
   Proved under [public_guard]: the path contains neither "/storage/v1/b" nor "/b/" seg "/o". *)
Theorem url_roundtrip_public_partial b n : ok_bucket b = true -> ok_name n = true ->
  public_guard (a2b "/" ++ b ++ a2b "/" ++ n) = true ->
  parse_gcs_url (a2b "/" ++ b ++ a2b "/" ++ n) = Some (b, n, true).
Proof. intros Hb Hn Hg. apply (url_roundtrip_public_seg b n); auto using ok_bucket_seg. Qed.

(* GCS-8: the guard is needed *)
Theorem url_public_refuted :
  let b := a2b "bkt" in let n := a2b "x/b/other/o/y" in
  ok_bucket b = true /\ ok_name n = true
  /\ public_guard (a2b "/" ++ b ++ a2b "/" ++ n) = false
  /\ parse_gcs_url (a2b "/" ++ b ++ a2b "/" ++ n) = Some (a2b "other", a2b "y", false).
Proof. vm_compute. auto. Qed.

(* a sufficient condition that is easy to check: names without '/' always satisfy the guard *)
Definition slashes (s : str) : nat := length (filter (fun c => c =? 47) s).

Lemma slashes_app a b : slashes (a ++ b) = (slashes a + slashes b)%nat.
Proof. unfold slashes. rewrite filter_app, app_length. reflexivity. Qed.

Lemma slashes_seg b : forallb not_slash b = true -> slashes b = 0%nat.
Proof.
  unfold slashes. induction b as [|c b IH]; intros H; [reflexivity|].
  cbn [forallb] in H. apply andb_prop in H. destruct H as [Hc Hb].
  unfold not_slash in Hc. apply negb_true_iff in Hc. cbn [filter]. rewrite Hc. auto.
Qed.

Lemma public_guard_flat b n : ok_seg b = true -> forallb not_slash n = true ->
  public_guard (47 :: b ++ 47 :: n) = true.
Proof.
  intros Hb Hn. apply ok_seg_noslash in Hb.
  assert (Hcount : slashes (47 :: b ++ 47 :: n) = 2%nat).
  { change (47 :: b ++ 47 :: n) with ([47] ++ b ++ [47] ++ n).
    rewrite !slashes_app, (slashes_seg b Hb), (slashes_seg n Hn). reflexivity. }
  unfold public_guard, no_api. apply andb_true_intro. split; apply negb_true_iff.
  - destruct (contains (47 :: b ++ 47 :: n) s_api_b) eqn:E; [|reflexivity].
    apply contains_true_iff in E. destruct E as (p & t & E). rewrite E in Hcount.
    rewrite !slashes_app in Hcount. change (slashes s_api_b) with 3%nat in Hcount. lia.
  - destruct (has_bseg_o (47 :: b ++ 47 :: n)) eqn:E; [|reflexivity].
    apply has_bseg_o_iff in E. destruct E as (p & seg & post & E & _). rewrite E in Hcount.
    rewrite !slashes_app in Hcount. change (slashes s_b_sl) with 2%nat in Hcount.
    change (slashes s_sl_o) with 1%nat in Hcount. lia.
Qed.

Theorem url_roundtrip_public_flat b n :
  ok_bucket b = true -> ok_name n = true -> forallb not_slash n = true ->
  parse_gcs_url (a2b "/" ++ b ++ a2b "/" ++ n) = Some (b, n, true).
Proof.
  intros Hb Hn Hf. apply ok_bucket_seg in Hb.
  apply (url_roundtrip_public_seg b n Hb Hn). apply public_guard_flat; assumption.
Qed.

(* ---- e. bucket URLs ---- *)
Lemma api_sl_not_in_seg b : forallb not_slash b = true -> no_occ s_api_b_sl b.
Proof.
  intros Hb p t E. destruct (has_prefix t s_api_b_sl) eqn:H; [|reflexivity].
  exfalso. apply (forallb_not_slash_In b Hb). rewrite E. apply in_or_app. right.
  eapply has_prefix_In; [exact H|]. left. reflexivity.
Qed.

Lemma match_object_bucket_url b : ok_seg b = true -> match_object (s_api_b_sl ++ b) = None.
Proof.
  intros Hb. unfold match_object.
  assert (H0 : object_at s_api_b_sl (s_api_b_sl ++ b) = None).
  { unfold object_at. rewrite has_prefix_app, skipn_app_len, seg_plus_all by exact Hb. reflexivity. }
  apply ok_seg_noslash in Hb. pose proof (api_sl_not_in_seg b Hb) as Hocc.
  unfold s_api_b_sl, s_api_b in *. cbn [app] in *.
  rewrite find_first_cons by exact H0.
  do 12 (rewrite find_first_cons by reflexivity).
  rewrite find_first_cons.
  - apply find_first_none. intros p t E. apply object_at_no_prefix. eapply Hocc; eauto.
  - apply object_at_no_prefix.
    destruct (has_prefix (47 :: b) [47; 115; 116; 111; 114; 97; 103; 101; 47; 118; 49; 47; 98; 47]) eqn:H; [|reflexivity].
    exfalso. apply (forallb_not_slash_In b Hb). rewrite has_prefix_cons in H. apply andb_prop in H.
    destruct H as [_ H]. eapply has_prefix_In; [exact H|]. do 7 right. left. reflexivity.
Qed.

Lemma url_bucket_form_seg b : ok_seg b = true ->
  parse_gcs_url (s_api_b_sl ++ b) = Some (b, [], false).
Proof.
  intros Hb. unfold parse_gcs_url. rewrite match_object_bucket_url by exact Hb.
  unfold match_bucket. rewrite (find_first_hit _ _ b); [reflexivity|].
  unfold bucket_at, s_api_b_sl. rewrite <- app_assoc, has_prefix_app, skipn_app_len.
  cbn [app opt_bucket]. rewrite N.eqb_refl, seg_plus_all by exact Hb. reflexivity.
Qed.

Lemma url_object_list_form_seg b : ok_seg b = true ->
  parse_gcs_url (s_api_b_sl ++ b ++ s_sl_o) = Some (b, [], false).
Proof.
  intros Hb. apply parse_object_hit. apply find_first_hit.
  rewrite <- (app_nil_r s_sl_o). rewrite object_at_hit by exact Hb. reflexivity.
Qed.

Theorem url_bucket_forms b : ok_bucket b = true ->
  parse_gcs_url (a2b "/storage/v1/b/" ++ b) = Some (b, [], false)
  /\ parse_gcs_url (a2b "/storage/v1/b/" ++ b ++ a2b "/o") = Some (b, [], false).
Proof.
  intros Hb. apply ok_bucket_seg in Hb. split.
  - apply (url_bucket_form_seg b Hb).
  - apply (url_object_list_form_seg b Hb).
Qed.

(* ---- f. a newline in the name truncates it ---- *)
(* for every name  n1 "\n" n2  (n1 newline-free, possibly empty) the object parsed is n1 *)
Theorem url_newline_truncates_general b n1 n2 :
  ok_bucket b = true -> forallb not_nl n1 = true ->
  parse_gcs_url (a2b "/storage/v1/b/" ++ b ++ a2b "/o/" ++ n1 ++ 10 :: n2) = Some (b, n1, false).
Proof.
  intros Hb Hn. apply ok_bucket_seg in Hb. apply parse_object_hit. apply find_first_hit.
  change (a2b "/storage/v1/b/") with s_api_b_sl.
  change (a2b "/o/" ++ n1 ++ 10 :: n2) with (s_sl_o ++ 47 :: n1 ++ 10 :: n2).
  rewrite object_at_hit by exact Hb. f_equal. f_equal.
  cbn [opt_object]. rewrite N.eqb_refl. unfold dot_plus.
  rewrite take_while_app; [|exact Hn|reflexivity]. destruct n1; reflexivity.
Qed.

Theorem url_newline_truncates :
  let b := a2b "bkt" in let n := [97; 10; 98] (* "a\nb" *) in
  ok_bucket b = true /\ ok_name n = false
  /\ parse_gcs_url (a2b "/storage/v1/b/" ++ b ++ a2b "/o/" ++ n) = Some (b, [97], false)
  /\ parse_gcs_url (a2b "/" ++ b ++ a2b "/" ++ n) = Some (b, [97], true).
Proof. vm_compute. auto. Qed.

(* ================= non-vacuity ================= *)
Example url_guards_example :
  let b := a2b "my-bucket" in let n := a2b "dir/sub dir/2013-tax-returns.pdf" in
  ok_bucket b = true /\ ok_name n = true /\ no_api_fragment n = true
  /\ prefix_clean (a2b "/download") = true /\ prefix_clean (a2b "/upload") = true
  /\ public_guard (a2b "/" ++ b ++ a2b "/" ++ n) = true
  /\ parse_gcs_url (a2b "/" ++ b ++ a2b "/" ++ n) = Some (b, n, true)
  /\ parse_gcs_url (a2b "/b/" ++ b ++ a2b "/o/" ++ n) = Some (b, n, false)
  /\ parse_gcs_url (a2b "/download/storage/v1/b/" ++ b ++ a2b "/o/" ++ n) = Some (b, n, false).
Proof. vm_compute. repeat split. Qed.

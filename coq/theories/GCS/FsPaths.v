(* The file store's mapping from (bucket, object name) to files (filestore.go: filename,
   metaFilename, checkBucket, checkStorable): the content of an object lives in
   <root>/<bucket>/<name>, its metadata in the sidecar <root>/<bucket>/<name>.emumeta; names whose
   path is not a file of its own inside the bucket directory, or that end in the sidecar
   extension, are refused.  Paths are relative to the store root, '/'-separated. *)
From Coq Require Import List NArith ZArith Bool.
Import ListNotations.
From Emu.Common Require Import Bytes Str.

Definition c_slash : N := 47.
Definition c_dot : N := 46.
Definition c_backslash : N := 92.
Definition s_meta_ext : str := [46; 101; 109; 117; 109; 101; 116; 97]%N.        (* ".emumeta" *)

(* the '/'-separated segments of a name: "a//b" = ["a"; ""; "b"], "" = [""], "a/" = ["a"; ""] *)
Fixpoint segs_go (cur : bytes) (s : bytes) : list bytes :=
  match s with
  | [] => [rev cur]
  | c :: r => if N.eqb c c_slash then rev cur :: segs_go [] r else segs_go (c :: cur) r
  end.
Definition segs (s : str) : list str := segs_go [] s.

(* a segment filepath.Clean keeps as it is *)
Definition seg_ok (g : str) : bool :=
  match g with
  | [] => false
  | _ => negb (beqb g [c_dot]) && negb (beqb g [c_dot; c_dot])
  end.

(* filepath.Join(root, bucket, name) = root/bucket/name exactly when every segment is kept *)
Definition clean_name (n : str) : bool := forallb seg_ok (segs n).

Definition storable (n : str) : bool := clean_name n && negb (has_suffix n s_meta_ext).

Definition bucket_ok (b : str) : bool :=
  seg_ok b && forallb (fun c => negb (N.eqb c c_slash) && negb (N.eqb c c_backslash) && negb (N.eqb c 0)) b.

Definition content_file (b n : str) : str := b ++ [c_slash] ++ n.
Definition sidecar_file (b n : str) : str := content_file b n ++ s_meta_ext.

(* the files Add(bucket, name, ...) creates in an empty store, or None when it refuses *)
Definition add_files (b n : str) : option (list str) :=
  if bucket_ok b && storable n then Some [content_file b n; sidecar_file b n] else None.

(* correspondence: cases are (bucket, name, observed files or refusal) *)
Fixpoint list_beqb (a b : list str) : bool :=
  match a, b with
  | [], [] => true
  | x :: xs, y :: ys => beqb x y && list_beqb xs ys
  | _, _ => false
  end.
Definition fs_case_ok (c : str * str * option (list str)) : bool :=
  let '(b, n, obs) := c in
  match add_files b n, obs with
  | None, None => true
  | Some fs, Some os => list_beqb fs os
  | _, _ => false
  end.
Fixpoint check_fspaths_from (i : N) (cs : list (str * str * option (list str))) : list (N * N) :=
  match cs with
  | [] => []
  | c :: r => if fs_case_ok c then check_fspaths_from (i + 1)%N r else (i, 0%N) :: check_fspaths_from (i + 1)%N r
  end.
Definition check_fspaths := check_fspaths_from 0%N.

(* Theorems about the name check in front of the handlers (Wire.v). *)
From Coq Require Import List NArith ZArith Bool Lia.
Import ListNotations.
From Emu.Common Require Import Bytes Str StrProofs IntProofs Utf8.
From Emu.Gen Require Import Consts.
From Emu.GCS Require Import Model StoreProofs HandlerProofs UploadProofs Wire.
Local Open Scope Z_scope.

(* ---- what sanitize does ---- *)

Lemma refused_request_refused s b : handle s (refused_request b) = (s, err 400).
Proof. reflexivity. Qed.

Theorem sanitize_valid r : names_valid r = true -> sanitize r = r.
Proof. intros H. unfold sanitize. rewrite H. reflexivity. Qed.

(* a request with an invalid new name is answered 400 and changes nothing, whatever the state *)
Theorem sanitize_invalid_refused s r :
  names_valid r = false -> handle s (sanitize r) = (s, err 400).
Proof. intros H. unfold sanitize. rewrite H. apply refused_request_refused. Qed.

Theorem sanitize_names_valid r : names_valid (sanitize r) = true.
Proof. unfold sanitize. destruct (names_valid r) eqn:E; [exact E|reflexivity]. Qed.

Theorem sanitize_idempotent r : sanitize (sanitize r) = sanitize r.
Proof. apply sanitize_valid. apply sanitize_names_valid. Qed.

(* requests that name no new object (reads, deletes, patches, listings, bucket requests, the PUTs
   of a resumable session) pass unchanged *)
Theorem sanitize_no_new_name r : new_name r = None -> sanitize r = r.
Proof. intros H. apply sanitize_valid. unfold names_valid. rewrite H. reflexivity. Qed.

(* the parsers of Wire.v are the ones the handler theorems speak about *)
Lemma wire_compose_dst_eq dst : wire_compose_dst dst = compose_dst dst.
Proof. reflexivity. Qed.
Lemma wire_copy_dst_eq n1 b2 n2 : wire_copy_dst n1 b2 n2 = copy_dst n1 b2 n2.
Proof. reflexivity. Qed.

(* every program run through the name check is a run of the handlers: all theorems about [run]
   (hence about reachable states) apply *)
Theorem run_wire_is_run s rs : run_wire s rs = run s (map sanitize rs).
Proof. reflexivity. Qed.

Theorem run_wire_valid s rs : forallb names_valid rs = true -> run_wire s rs = run s rs.
Proof.
  intros H. unfold run_wire. f_equal.
  induction rs as [|r rest IH]; [reflexivity|]. cbn [forallb] in H. apply andb_prop in H. destruct H as [H1 H2].
  cbn [map]. rewrite (sanitize_valid r H1), (IH H2). reflexivity.
Qed.

(* ---- the invariant: every stored name, and every name a resumable session will store, is valid UTF-8 ---- *)

Definition bk_utf8 (bk : bucket) : Prop := forall n o, In (n, o) bk -> utf8_valid n = true.

Definition names_utf8 (s : state) : Prop :=
  (forall b bk, In (b, bk) (s_buckets s) -> bk_utf8 bk)
  /\ (forall id u, In (id, u) (s_uploads s) -> utf8_valid (up_name u) = true).

Lemma names_utf8_init : names_utf8 init_state.
Proof. split; intros ? ? []. Qed.

Lemma bk_utf8_insert n o (bk : bucket) : utf8_valid n = true -> bk_utf8 bk -> bk_utf8 (ainsert n o bk).
Proof.
  intros Hn Hbk n' o' Hin. apply ainsert_in in Hin. destruct Hin as [E|Hin]; [injection E as -> _; exact Hn|eauto].
Qed.

Lemma bk_utf8_remove n (bk : bucket) : bk_utf8 bk -> bk_utf8 (aremove n bk).
Proof. intros Hbk n' o' Hin. apply aremove_in in Hin. eauto. Qed.

Lemma buckets_utf8_insert (bs : list (str * bucket)) b bk :
  (forall b' bk', In (b', bk') bs -> bk_utf8 bk') -> bk_utf8 bk ->
  forall b' bk', In (b', bk') (ainsert b bk bs) -> bk_utf8 bk'.
Proof.
  intros H Hbk b' bk' Hin. apply ainsert_in in Hin. destruct Hin as [E|Hin]; [injection E as _ ->; exact Hbk|eauto].
Qed.

Lemma buckets_utf8_remove (bs : list (str * bucket)) b :
  (forall b' bk', In (b', bk') bs -> bk_utf8 bk') ->
  forall b' bk', In (b', bk') (aremove b bs) -> bk_utf8 bk'.
Proof. intros H b' bk' Hin. apply aremove_in in Hin. eauto. Qed.

Lemma names_utf8_lookup s b bk : names_utf8 s -> get_bucket s b = Some bk -> bk_utf8 bk.
Proof. intros [H _] Hl. apply alookup_in in Hl. eauto. Qed.

Lemma create_bucket_utf8 s b : names_utf8 s -> names_utf8 (create_bucket s b).
Proof.
  intros [H1 H2]. unfold create_bucket. destruct (get_bucket s b); [split; assumption|].
  split; [|exact H2]. cbn [set_buckets s_buckets]. apply buckets_utf8_insert; [exact H1|]. intros n o [].
Qed.

Lemma store_add_utf8 s b n data ct md meta :
  utf8_valid n = true -> names_utf8 s -> names_utf8 (store_add s b n data ct md meta).
Proof.
  intros Hn Hok. pose proof (create_bucket_utf8 s b Hok) as Hok1. destruct Hok1 as [H1 H2].
  unfold store_add. split; cbn [s_buckets s_uploads]; [|exact H2].
  apply buckets_utf8_insert; [exact H1|]. apply bk_utf8_insert; [exact Hn|].
  destruct (get_bucket (create_bucket s b) b) as [bk|] eqn:E; [|intros n' o' []].
  eapply names_utf8_lookup; [split; eassumption|exact E].
Qed.

Lemma finish_upload_utf8 s b n ct md meta data c :
  utf8_valid n = true -> names_utf8 s -> names_utf8 (fst (finish_upload s b n ct md meta data c)).
Proof.
  intros Hn H. unfold finish_upload.
  destruct md as [|p]; [|destruct p as [p|p|]; try destruct p; cbn; auto];
    (destruct (validate_conds _ c); cbn [fst]; auto using store_add_utf8).
Qed.

(* preserved by every request whose new name (if any) is valid *)
Theorem names_utf8_preserved s r : names_valid r = true -> names_utf8 s -> names_utf8 (fst (handle s r)).
Proof.
  intros Hv Hok. pose proof Hok as [Hb Hu].
  destruct r as [b n ctype data cp | b m data cp | b cp | b bad m cp | id crange data | b n | b n | b n cp
                | b n p cp | b prefix delim cursor maxres | b | b dst bad srcs dm cp | b1 n1 b2 n2 | b | b | b cp];
    unfold names_valid in Hv; cbn [new_name] in Hv; cbn [handle].
  - destruct (resolve_conds s cp); [|exact Hok]. destruct n as [|n0 n']; [exact Hok|].
    apply finish_upload_utf8; [exact Hv|exact Hok].
  - destruct (resolve_conds s cp); [|exact Hok]. destruct (um_name m) as [|n0 n'] eqn:En; [exact Hok|]. rewrite <- En.
    apply finish_upload_utf8; [rewrite En; exact Hv|exact Hok].
  - destruct (resolve_conds s cp); exact Hok.
  - destruct (resolve_conds s cp); [|exact Hok]. destruct bad; [exact Hok|].
    destruct (um_name m) as [|n0 n'] eqn:En; [exact Hok|]. rewrite <- En.
    cbn [fst]. split; [exact Hb|]. cbn [set_uploads s_uploads]. intros id u Hin. apply ainsert_in in Hin.
    destruct Hin as [E|Hin]; [|eauto]. injection E as _ ->. cbn [up_name]. rewrite En. exact Hv.
  - destruct (alookup id (s_uploads s)) as [u|] eqn:Eu; [|exact Hok].
    assert (Hun : utf8_valid (up_name u) = true) by (apply alookup_in in Eu; eauto).
    destruct crange as [cr|]; [|exact Hok].
    destruct (parse_byte_range cr) as [br|]; [|exact Hok].
    destruct (resume_apply (up_data u) br data) as [data'|]; [|exact Hok].
    match goal with |- context [set_uploads s ?c ?ups] => set (s1 := set_uploads s c ups) end.
    assert (Hok1 : names_utf8 s1).
    { split; [exact Hb|]. subst s1. cbn [set_uploads s_uploads]. intros id' u' Hin. apply ainsert_in in Hin.
      destruct Hin as [E|Hin]; [|eauto]. injection E as _ ->. exact Hun. }
    destruct (resume_done br data'); [|exact Hok1].
    match goal with
    | |- context [finish_upload s1 ?b ?n ?ct ?md ?meta ?d ?c] =>
        pose proof (finish_upload_utf8 s1 b n ct md meta d c Hun Hok1) as HF;
        destruct (finish_upload s1 b n ct md meta d c) as [s2 rsp]
    end.
    cbn [fst] in HF. destruct (Z.eqb (r_status rsp) 200); cbn [fst]; [|exact HF].
    destruct HF as [HF1 HF2]. split; [exact HF1|]. cbn [set_uploads s_uploads]. intros id' u' Hin.
    apply aremove_in in Hin. eauto.
  - destruct (find_obj s b n); exact Hok.
  - destruct (find_obj s b n); exact Hok.
  - destruct (resolve_conds s cp); [|exact Hok].
    destruct (validate_conds _ c); try exact Hok.
    unfold store_delete_obj. destruct (get_bucket s b) as [bk|] eqn:E; [|exact Hok].
    destruct (alookup n bk); [|exact Hok]. cbn [fst]. split; [|exact Hu]. cbn [set_buckets s_buckets].
    apply buckets_utf8_insert; [exact Hb|]. apply bk_utf8_remove. eapply names_utf8_lookup; eauto.
  - destruct (resolve_conds s cp); [|exact Hok].
    unfold find_obj. destruct (get_bucket s b) as [bk|] eqn:E; [|exact Hok].
    destruct (alookup n bk) as [o|] eqn:Eo; [|exact Hok].
    destruct (validate_conds _ c); try exact Hok.
    destruct (pt_bad p); [exact Hok|]. cbn [fst].
    unfold store_put_obj. rewrite E. split; [|exact Hu]. cbn [set_buckets s_buckets].
    pose proof (names_utf8_lookup s b bk Hok E) as Hbk.
    apply buckets_utf8_insert; [exact Hb|]. apply bk_utf8_insert; [|exact Hbk].
    apply alookup_in in Eo. eauto.
  - destruct maxres as [ms|].
    + destruct (parse_int ms) as [z|]; [|exact Hok]. destruct (z <? 1); [exact Hok|].
      destruct (get_bucket s b); [|exact Hok]. destruct (list_walk _ _ _ _ _) as [[[f p] m] lst]. exact Hok.
    + destruct (get_bucket s b); [|exact Hok]. destruct (list_walk _ _ _ _ _) as [[[f p] m] lst]. exact Hok.
  - exact Hok.
  - unfold wire_compose_dst in Hv.
    destruct (resolve_conds s cp); [|exact Hok]. destruct bad; [exact Hok|].
    destruct (split _ _) as [|d0 [|d1 [|d2 ds]]]; try exact Hok.
    destruct d0 as [|d00 d0']; [exact Hok|]. set (d0 := d00 :: d0') in *.
    destruct (_ >? _); [exact Hok|].
    destruct (fold_left _ srcs _) as [[code data]|]; [|exact Hok].
    destruct code; try exact Hok.
    destruct (validate_conds _ c); try exact Hok.
    destruct dm as [m|]; cbn [fst]; apply store_add_utf8; assumption.
  - unfold wire_copy_dst in Hv.
    destruct (contains _ _); [exact Hok|].
    destruct (split _ _) as [|f1 [|rest [|x xs]]]; try exact Hok.
    destruct (split2 _ _) as [|b2' [|f2 [|y ys]]]; try exact Hok.
    destruct f2 as [|f20 f2']; [exact Hok|]. set (f2 := f20 :: f2') in *.
    destruct (find_obj s b1 f1) as [o|]; [|exact Hok].
    destruct (find_obj _ b2' f2); cbn [fst]; apply store_add_utf8; assumption.
  - cbn [fst]. apply create_bucket_utf8. exact Hok.
  - destruct (get_bucket s b); exact Hok.
  - destruct (resolve_conds s cp); [|exact Hok].
    destruct (validate_conds _ c); try exact Hok.
    unfold store_delete_bucket. destruct (get_bucket s b); [|exact Hok].
    cbn [fst]. split; [|exact Hu]. cbn [set_buckets s_buckets]. apply buckets_utf8_remove. exact Hb.
Qed.

Theorem names_utf8_run rs : forall s, forallb names_valid rs = true -> names_utf8 s -> names_utf8 (fst (run s rs)).
Proof.
  induction rs as [|r rest IH]; intros s Hv Hok; cbn [run]; [exact Hok|].
  cbn [forallb] in Hv. apply andb_prop in Hv. destruct Hv as [Hv1 Hv2].
  pose proof (names_utf8_preserved s r Hv1 Hok) as H1. destruct (handle s r) as [s1 rsp]. cbn [fst] in H1.
  specialize (IH s1 Hv2 H1). destruct (run s1 rest) as [s2 rsps]. exact IH.
Qed.

Lemma sanitized_all_valid rs : forallb names_valid (map sanitize rs) = true.
Proof. induction rs as [|r rest IH]; [reflexivity|]. cbn [map forallb]. rewrite sanitize_names_valid, IH. reflexivity. Qed.

(* every object of every state reachable through the name check has a valid UTF-8 name: any program,
   no guard (so every name a listing has to put into a page token can be carried by one) *)
Theorem wire_reachable_names_utf8 rs b bk n o :
  get_bucket (fst (run_wire init_state rs)) b = Some bk -> In (n, o) bk -> utf8_valid n = true.
Proof.
  intros H Hin. unfold run_wire in H.
  pose proof (names_utf8_run (map sanitize rs) init_state (sanitized_all_valid rs) names_utf8_init) as Hinv.
  exact (names_utf8_lookup _ b bk Hinv H n o Hin).
Qed.

(* ... and still none is empty (the state is a reachable state of [run]) *)
Theorem wire_reachable_names_nonempty rs b bk :
  get_bucket (fst (run_wire init_state rs)) b = Some bk -> ~ In [] (map fst bk).
Proof. intros H. exact (reachable_names_nonempty (map sanitize rs) b bk H). Qed.

(* without the check the invariant fails: the handlers alone store an invalid name (this is the
   behaviour of the code before the repair, GCS-18) *)
Definition bad_name_witness : str := [97; 255; 98]%N.
Definition no_cparams : cparams := mkCP (PRaw []) (PRaw []) (PRaw []) (PRaw []).
Theorem unchecked_upload_stores_invalid_name :
  exists bk o, get_bucket (fst (run init_state [RUploadMedia [98]%N bad_name_witness [] [120]%N no_cparams])) [98]%N = Some bk
               /\ In (bad_name_witness, o) bk /\ utf8_valid bad_name_witness = false.
Proof. vm_compute. eexists. eexists. split; [reflexivity|]. split; [left; reflexivity|reflexivity]. Qed.

(* non-vacuity: an ASCII-named upload passes the check and is stored *)
Example wire_ascii_upload_stored :
  exists bk o, get_bucket (fst (run_wire init_state [RUploadMedia [98]%N [97; 46; 116]%N [] [120]%N no_cparams])) [98]%N = Some bk
               /\ In ([97; 46; 116]%N, o) bk.
Proof. vm_compute. eexists. eexists. split; [reflexivity|]. left. reflexivity. Qed.

Example wire_invalid_upload_refused :
  run_wire init_state [RUploadMedia [98]%N bad_name_witness [] [120]%N no_cparams] = (init_state, [err 400]).
Proof. reflexivity. Qed.

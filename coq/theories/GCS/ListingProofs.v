(* C11 — listing and pagination over the memory store (names strictly ascending). *)
From Coq Require Import List NArith ZArith Bool Lia Sorted.
Import ListNotations.
From Emu.Common Require Import Bytes Str StrProofs.
From Emu.GCS Require Import Model UploadProofs.

(* ================================================================== *)
(* 1. Order and prefix facts                                            *)

Lemma lex_ltb_lt a b : lex_ltb a b = true <-> lex_lt a b.
Proof. unfold lex_ltb, lex_lt. destruct (lex_cmp a b); split; intros H; congruence. Qed.

Lemma lex_ltb_leb a b : lex_ltb a b = negb (lex_leb b a).
Proof. unfold lex_ltb, lex_leb. rewrite (lex_antisym b a). destruct (lex_cmp b a); reflexivity. Qed.

Lemma lex_ltb_irrefl a : lex_ltb a a = false.
Proof. unfold lex_ltb. rewrite lex_refl. reflexivity. Qed.

Lemma lex_lt_asym a b : lex_lt a b -> lex_ltb b a = false.
Proof. unfold lex_lt, lex_ltb. rewrite (lex_antisym a b). intros ->. reflexivity. Qed.

Lemma greater_than_prefix_alt item p :
  greater_than_prefix item p = lex_gtb (firstn (length p) item) p.
Proof.
  unfold greater_than_prefix. destruct (Nat.ltb_spec (length item) (length p)) as [H|H]; [|reflexivity].
  rewrite firstn_all2 by lia. reflexivity.
Qed.

Lemma lex_firstn_mono k : forall a b, lex_lt a b -> lex_le (firstn k a) (firstn k b).
Proof.
  unfold lex_lt, lex_le. induction k as [|k IH]; intros a b H; [cbn; discriminate|].
  destruct a as [|x xs], b as [|y ys]; cbn in *; try discriminate.
  destruct (N.compare x y); try discriminate; auto.
Qed.

Lemma has_prefix_firstn p : forall n, has_prefix n p = true -> firstn (length p) n = p.
Proof.
  induction p as [|y ps IH]; intros n H; [reflexivity|].
  destruct n as [|x ns]; cbn in H; [discriminate|].
  apply andb_prop in H. destruct H as [H1 H2]. apply N.eqb_eq in H1. subst y.
  cbn. f_equal. auto.
Qed.

Lemma has_prefix_of_firstn k : forall n : bytes, has_prefix n (firstn k n) = true.
Proof.
  induction k as [|k IH]; intros n; [destruct n; reflexivity|].
  destruct n as [|x ns]; [reflexivity|]. cbn. rewrite N.eqb_refl. apply IH.
Qed.

(* an entry beyond the prefix range does not have the prefix ... *)
Lemma gtp_not_prefix f p : greater_than_prefix f p = true -> has_prefix f p = false.
Proof.
  rewrite greater_than_prefix_alt. intros H. destruct (has_prefix f p) eqn:E; [|reflexivity].
  apply has_prefix_firstn in E. rewrite E in H. unfold lex_gtb in H. rewrite lex_ltb_irrefl in H. discriminate.
Qed.

(* ... and so is every larger entry *)
Lemma gtp_mono f g p : lex_lt f g -> greater_than_prefix f p = true -> greater_than_prefix g p = true.
Proof.
  rewrite !greater_than_prefix_alt. unfold lex_gtb. intros Hfg H. apply lex_ltb_lt in H. apply lex_ltb_lt.
  eapply lex_lt_le_trans; [exact H|]. apply lex_firstn_mono. exact Hfg.
Qed.

(* the early abort of the walk is sound: in an ascending list, once an entry is beyond the
   prefix range, all later entries are too, and none of them has the prefix *)
Theorem prefix_abort_sound f rest p :
  StronglySorted lex_lt (f :: rest) -> greater_than_prefix f p = true ->
  Forall (fun g => greater_than_prefix g p = true /\ has_prefix g p = false) (f :: rest).
Proof.
  intros Hs Hf. apply StronglySorted_inv in Hs. destruct Hs as [_ Hall].
  constructor; [split; [exact Hf|apply gtp_not_prefix; exact Hf]|].
  eapply Forall_impl; [|exact Hall]. cbn. intros g Hfg.
  assert (Hg : greater_than_prefix g p = true) by (eapply gtp_mono; eauto).
  split; [exact Hg|apply gtp_not_prefix; exact Hg].
Qed.

(* ================================================================== *)
(* 2. One page, no delimiter                                            *)

(* the entries the memory store walks: names in order, no directories *)
Definition ents (names : list str) : list (str * bool) := map (fun n => (n, false)) names.

(* what a page is selected from: names after the cursor that have the prefix *)
Definition sel (cursor prefix n : str) : bool := lex_ltb cursor n && has_prefix n prefix.

Lemma fold_done delim cursor prefix maxres entries : forall a,
  la_done a = true -> fold_left (list_step delim cursor prefix maxres) entries a = a.
Proof.
  induction entries as [|[f d] rest IH]; intros a Hd; cbn [fold_left]; [reflexivity|].
  assert (Hs : list_step delim cursor prefix maxres a (f, d) = a) by (unfold list_step; rewrite Hd; reflexivity).
  rewrite Hs. apply IH. exact Hd.
Qed.

Lemma list_step_mem cursor prefix maxres c fnd prs f :
  list_step [] cursor prefix maxres (mkLacc c fnd prs false None false) (f, false) =
  if greater_than_prefix f prefix then mkLacc c fnd prs false None true
  else if sel cursor prefix f
       then (if (maxres <=? c)%nat then mkLacc c fnd prs true None true
             else mkLacc (S c) (f :: fnd) prs false None false)
       else mkLacc c fnd prs false None false.
Proof.
  unfold list_step, sel. cbn [la_done la_skip la_count la_found la_prefixes la_more].
  rewrite lex_ltb_leb.
  destruct (greater_than_prefix f prefix); [reflexivity|].
  destruct (lex_leb f cursor); cbn [negb andb]; [reflexivity|].
  destruct (has_prefix f prefix); cbn [negb]; [|reflexivity].
  destruct (maxres <=? c)%nat; reflexivity.
Qed.

Lemma filter_none_prefix cursor prefix l :
  Forall (fun g => greater_than_prefix g prefix = true /\ has_prefix g prefix = false) l ->
  filter (sel cursor prefix) l = [].
Proof.
  induction 1 as [|g l [_ Hg] _ IH]; [reflexivity|]. cbn [filter]. unfold sel at 1. rewrite Hg, andb_false_r. exact IH.
Qed.

Lemma walk_nodelim cursor prefix maxres names :
  StronglySorted lex_lt names -> forall fnd prs,
  let F := filter (sel cursor prefix) names in
  let a := fold_left (list_step [] cursor prefix maxres) (ents names)
                     (mkLacc (length fnd) fnd prs false None false) in
  la_found a = rev (firstn (maxres - length fnd) F) ++ fnd
  /\ la_prefixes a = prs
  /\ la_more a = (maxres - length fnd <? length F)%nat.
Proof.
  induction names as [|f rest IH]; intros Hs fnd prs; cbn zeta.
  - cbn. rewrite firstn_nil. cbn. repeat split.
  - change (ents (f :: rest)) with ((f, false) :: ents rest). cbn [fold_left]. rewrite list_step_mem.
    destruct (greater_than_prefix f prefix) eqn:Hg.
    + rewrite fold_done by reflexivity. cbn [la_found la_prefixes la_more].
      rewrite (filter_none_prefix cursor prefix (f :: rest)) by (apply prefix_abort_sound; assumption).
      rewrite firstn_nil. cbn. repeat split.
    + apply StronglySorted_inv in Hs. destruct Hs as [Hs _]. cbn [filter].
      destruct (sel cursor prefix f) eqn:Hsel.
      * destruct (Nat.leb_spec maxres (length fnd)) as [Hle|Hlt].
        -- rewrite fold_done by reflexivity. cbn [la_found la_prefixes la_more].
           replace (maxres - length fnd)%nat with 0%nat by lia. cbn. repeat split.
        -- specialize (IH Hs (f :: fnd) prs). cbn zeta in IH.
           cbn [length] in IH. destruct IH as [I1 [I2 I3]].
           replace (maxres - length fnd)%nat with (S (maxres - S (length fnd))) by lia.
           split; [etransitivity; [exact I1|]|split; [exact I2|etransitivity; [exact I3|]]].
           ++ cbn [firstn rev]. rewrite <- app_assoc. reflexivity.
           ++ reflexivity.
      * specialize (IH Hs fnd prs). cbn zeta in IH. exact IH.
Qed.

(* (i) one page without delimiter: the first [maxres] selected names, and moreResults iff the
   selection has more than [maxres] elements *)
Theorem page_spec cursor prefix maxres names :
  StronglySorted lex_lt names ->
  list_walk [] cursor prefix maxres (ents names)
  = (firstn maxres (filter (sel cursor prefix) names), [],
     (maxres <? length (filter (sel cursor prefix) names))%nat).
Proof.
  intros Hs. unfold list_walk.
  destruct (walk_nodelim cursor prefix maxres names Hs [] []) as [H1 [H2 H3]]. cbn zeta in H1, H2, H3.
  cbn [length] in H1, H2, H3. rewrite Nat.sub_0_r in H1, H3.
  match goal with |- context [fold_left ?st ?en ?i] => set (a := fold_left st en i) end.
  change (la_found a = rev (firstn maxres (filter (sel cursor prefix) names)) ++ []) in H1.
  change (la_prefixes a = []) in H2.
  change (la_more a = (maxres <? length (filter (sel cursor prefix) names))%nat) in H3.
  rewrite H1, H2, H3. rewrite app_nil_r, rev_involutive. reflexivity.
Qed.

(* ================================================================== *)
(* 3. Any delimiter: page size and soundness                            *)

Lemma fold_left_inv {A B} (step : A -> B -> A) (I : A -> Prop) (l : list B) :
  (forall a e, In e l -> I a -> I (step a e)) -> forall a, I a -> I (fold_left step l a).
Proof.
  induction l as [|e r IH]; intros Hstep a Ha; cbn [fold_left]; [exact Ha|].
  apply IH; [intros a' e' Hin; apply Hstep; right; exact Hin|]. apply Hstep; [left; reflexivity|exact Ha].
Qed.

Lemma list_step_size delim cursor prefix maxres a e :
  (length (la_found a) + length (la_prefixes a) <= la_count a)%nat /\ (la_count a <= maxres)%nat ->
  let a' := list_step delim cursor prefix maxres a e in
  (length (la_found a') + length (la_prefixes a') <= la_count a')%nat /\ (la_count a' <= maxres)%nat.
Proof.
  intros [H1 H2]. destruct e as [f d]. cbn zeta. unfold list_step.
  timeout 120 repeat match goal with
  | |- context [match ?x with _ => _ end] =>
      lazymatch x with
      | context [match _ with _ => _ end] => fail
      | _ => destruct x eqn:?
      end
  end; cbn [la_count la_found la_prefixes length]; try (split; lia).
  all: cbn [la_count] in *;
       repeat match goal with H : (_ <=? _)%nat = false |- _ => apply Nat.leb_gt in H end; split; lia.
Qed.

(* (iii) whatever the delimiter and the entries: items + prefixes never exceed maxResults *)
Theorem page_size_bound delim cursor prefix maxres entries :
  let '(found, prefixes, more) := list_walk delim cursor prefix maxres entries in
  (length found + length prefixes <= maxres)%nat.
Proof.
  unfold list_walk. rewrite !rev_length.
  assert (H : (fun a => (length (la_found a) + length (la_prefixes a) <= la_count a)%nat
                        /\ (la_count a <= maxres)%nat)
              (fold_left (list_step delim cursor prefix maxres) entries (mkLacc 0 [] [] false None false))).
  { apply fold_left_inv; [intros a e _ Ha; apply list_step_size; exact Ha|]. cbn. lia. }
  cbn beta in H. lia.
Qed.

(* soundness, whatever the delimiter: every returned item is an entry after the cursor with the
   prefix; every returned prefix is an initial segment of such an entry *)
Definition found_sound (cursor prefix : str) (entries : list (str * bool)) (n : str) : Prop :=
  In (n, false) entries /\ lex_ltb cursor n = true /\ has_prefix n prefix = true.
Definition prefix_sound (cursor prefix : str) (entries : list (str * bool)) (ip : str) : Prop :=
  exists n, found_sound cursor prefix entries n /\ has_prefix n ip = true.

Lemma list_step_sound delim cursor prefix maxres entries a e :
  In e entries ->
  Forall (found_sound cursor prefix entries) (la_found a)
  /\ Forall (prefix_sound cursor prefix entries) (la_prefixes a) ->
  let a' := list_step delim cursor prefix maxres a e in
  Forall (found_sound cursor prefix entries) (la_found a')
  /\ Forall (prefix_sound cursor prefix entries) (la_prefixes a').
Proof.
  intros Hin [H1 H2]. destruct e as [f d]. cbn zeta. unfold list_step.
  destruct (la_done a); [auto|].
  destruct (match la_skip a with Some d0 => has_prefix f d0 | None => false end); [auto|].
  cbn [la_count la_found la_prefixes la_more].
  destruct (greater_than_prefix f prefix); [auto|].
  destruct d; [destruct (_ || _); auto|].
  destruct (lex_leb f cursor) eqn:Hc; [auto|].
  destruct (has_prefix f prefix) eqn:Hp; cbn [negb]; [|auto].
  destruct (maxres <=? la_count a)%nat; [auto|].
  assert (Hf : found_sound cursor prefix entries f).
  { split; [exact Hin|]. split; [rewrite lex_ltb_leb, Hc; reflexivity|exact Hp]. }
  destruct (match delim with [] => None | _ :: _ => _ end) as [ip|] eqn:Hcol.
  - destruct (existsb (beqb ip) (la_prefixes a)); cbn [la_found la_prefixes]; [auto|].
    split; [exact H1|]. constructor; [|exact H2]. exists f. split; [exact Hf|].
    destruct delim as [|d0 dl]; [discriminate|].
    destruct (index_of _ _); [|discriminate]. injection Hcol as <-. apply has_prefix_of_firstn.
  - cbn [la_found la_prefixes]. split; [constructor; assumption|exact H2].
Qed.

Theorem page_sound delim cursor prefix maxres entries :
  let '(found, prefixes, more) := list_walk delim cursor prefix maxres entries in
  Forall (found_sound cursor prefix entries) found /\ Forall (prefix_sound cursor prefix entries) prefixes.
Proof.
  unfold list_walk.
  assert (H : (fun a => Forall (found_sound cursor prefix entries) (la_found a)
                        /\ Forall (prefix_sound cursor prefix entries) (la_prefixes a))
              (fold_left (list_step delim cursor prefix maxres) entries (mkLacc 0 [] [] false None false))).
  { apply fold_left_inv; [intros a e Hin Ha; apply list_step_sound; assumption|]. cbn. split; constructor. }
  cbn beta in H. destruct H as [H1 H2]. split; apply Forall_rev; assumption.
Qed.

(* ================================================================== *)
(* 4. Following the page tokens                                         *)

Definition page (names : list str) (prefix cursor : str) (maxres : nat) : list str * bool :=
  match list_walk [] cursor prefix maxres (ents names) with (found, _, more) => (found, more) end.

(* take a page; while moreResults, continue from the last name found (the nextPageToken) *)
Fixpoint follow (fuel : nat) (names : list str) (prefix cursor : str) (maxres : nat) : list (list str) :=
  match fuel with
  | O => []
  | S fuel' =>
      let '(found, more) := page names prefix cursor maxres in
      if more then match rev found with
                   | l :: _ => found :: follow fuel' names prefix l maxres
                   | [] => [found]
                   end
      else [found]
  end.

Lemma page_eq names prefix cursor maxres : StronglySorted lex_lt names ->
  page names prefix cursor maxres
  = (firstn maxres (filter (sel cursor prefix) names),
     (maxres <? length (filter (sel cursor prefix) names))%nat).
Proof. intros Hs. unfold page. rewrite page_spec by exact Hs. reflexivity. Qed.

Lemma filter_sorted (f : str -> bool) l : StronglySorted lex_lt l -> StronglySorted lex_lt (filter f l).
Proof.
  induction 1 as [|x l Hs IH Hall]; cbn [filter]; [constructor|].
  destruct (f x); [|exact IH]. constructor; [exact IH|].
  rewrite Forall_forall in *. intros y Hy. apply filter_In in Hy. apply Hall. apply Hy.
Qed.

Lemma sorted_app_inv A l B : StronglySorted lex_lt (A ++ l :: B) ->
  Forall (fun a => lex_lt a l) A /\ Forall (lex_lt l) B.
Proof.
  induction A as [|a A IH]; cbn [app]; intros Hs; apply StronglySorted_inv in Hs; destruct Hs as [Hs Hall].
  - split; [constructor|exact Hall].
  - destruct (IH Hs) as [I1 I2]. split; [|exact I2]. constructor; [|exact I1].
    rewrite Forall_forall in Hall. apply Hall. apply in_or_app. right. left. reflexivity.
Qed.

Lemma filter_after A l B : StronglySorted lex_lt (A ++ l :: B) -> filter (lex_ltb l) (A ++ l :: B) = B.
Proof.
  intros Hs. destruct (sorted_app_inv A l B Hs) as [HA HB].
  rewrite filter_app. cbn [filter]. rewrite lex_ltb_irrefl.
  assert (E1 : filter (lex_ltb l) A = []).
  { clear Hs HB. induction HA as [|a A Ha _ IH]; [reflexivity|]. cbn [filter]. rewrite (lex_lt_asym a l Ha). exact IH. }
  assert (E2 : filter (lex_ltb l) B = B).
  { clear Hs HA E1. induction HB as [|x B Hx _ IH]; [reflexivity|]. cbn [filter].
    apply lex_ltb_lt in Hx. rewrite Hx, IH. reflexivity. }
  rewrite E1, E2. reflexivity.
Qed.

Lemma filter_sel_refine cursor prefix l names : lex_ltb cursor l = true ->
  filter (sel l prefix) names = filter (lex_ltb l) (filter (sel cursor prefix) names).
Proof.
  intros Hcl. induction names as [|n rest IH]; [reflexivity|]. cbn [filter].
  destruct (lex_ltb l n) eqn:Hln.
  - assert (Hcn : lex_ltb cursor n = true).
    { apply lex_ltb_lt. eapply lex_lt_trans; apply lex_ltb_lt; eassumption. }
    assert (E : sel l prefix n = sel cursor prefix n) by (unfold sel; rewrite Hln, Hcn; reflexivity).
    rewrite E. destruct (sel cursor prefix n); cbn [filter]; [rewrite Hln|]; rewrite IH; reflexivity.
  - assert (E : sel l prefix n = false) by (unfold sel; rewrite Hln; reflexivity).
    rewrite E. destruct (sel cursor prefix n); cbn [filter]; [rewrite Hln|]; exact IH.
Qed.

(* continuing from the last name of a full page selects exactly what the page left over *)
Lemma next_page_selection cursor prefix maxres names l pre :
  StronglySorted lex_lt names ->
  rev (firstn maxres (filter (sel cursor prefix) names)) = l :: pre ->
  filter (sel l prefix) names = skipn maxres (filter (sel cursor prefix) names).
Proof.
  intros Hs Hrev. set (F := filter (sel cursor prefix) names) in *.
  assert (Hfirst : firstn maxres F = rev pre ++ [l]).
  { rewrite <- (rev_involutive (firstn maxres F)), Hrev. reflexivity. }
  assert (HF : F = rev pre ++ l :: skipn maxres F).
  { rewrite <- (firstn_skipn maxres F) at 1. rewrite Hfirst, <- app_assoc. reflexivity. }
  assert (Hin : In l F).
  { rewrite HF. apply in_or_app. right. left. reflexivity. }
  unfold F in Hin. apply filter_In in Hin. destruct Hin as [_ Hsel]. unfold sel in Hsel.
  apply andb_prop in Hsel. destruct Hsel as [Hcl _].
  rewrite (filter_sel_refine cursor prefix l names Hcl). fold F.
  assert (HsF : StronglySorted lex_lt F) by (apply filter_sorted; exact Hs).
  rewrite HF at 1. rewrite HF in HsF. apply filter_after. exact HsF.
Qed.

Lemma follow_spec prefix maxres names :
  StronglySorted lex_lt names -> (1 <= maxres)%nat ->
  forall fuel cursor,
  (length (filter (sel cursor prefix) names) < fuel)%nat ->
  concat (follow fuel names prefix cursor maxres) = filter (sel cursor prefix) names
  /\ Forall (fun pg => (length pg <= maxres)%nat) (follow fuel names prefix cursor maxres).
Proof.
  intros Hs Hmax. induction fuel as [|fuel IH]; intros cursor Hlen; [lia|].
  cbn [follow]. rewrite page_eq by exact Hs.
  set (F := filter (sel cursor prefix) names) in *.
  assert (Hpg : (length (firstn maxres F) <= maxres)%nat) by (rewrite firstn_length; lia).
  destruct (Nat.ltb_spec maxres (length F)) as [Hmore|Hnomore].
  - destruct (rev (firstn maxres F)) as [|l pre] eqn:Hrev.
    + exfalso. assert (Hl : length (rev (firstn maxres F)) = 0%nat) by (rewrite Hrev; reflexivity).
      rewrite rev_length, firstn_length in Hl. lia.
    + pose proof (next_page_selection cursor prefix maxres names l pre Hs Hrev) as Hnext. fold F in Hnext.
      assert (Hlen' : (length (filter (sel l prefix) names) < fuel)%nat).
      { rewrite Hnext, skipn_length. lia. }
      destruct (IH l Hlen') as [I1 I2]. cbn [concat]. rewrite I1, Hnext. split.
      * apply firstn_skipn.
      * constructor; assumption.
  - cbn [concat]. rewrite app_nil_r. split; [apply firstn_all2; exact Hnomore|].
    constructor; [exact Hpg|constructor].
Qed.

Lemma filter_length_le {A} (f : A -> bool) l : (length (filter f l) <= length l)%nat.
Proof. induction l as [|x l IH]; cbn; [lia|]. destruct (f x); cbn; lia. Qed.

Lemma sorted_nodup l : StronglySorted lex_lt l -> NoDup l.
Proof.
  induction 1 as [|x l Hs IH Hall]; constructor; [|exact IH].
  intros Hin. rewrite Forall_forall in Hall. specialize (Hall x Hin).
  unfold lex_lt in Hall. rewrite lex_refl in Hall. discriminate.
Qed.

(* (ii) following the tokens with maxResults >= 1 returns every selected name exactly once,
   in ascending order, in pages of at most maxResults *)
Theorem paginate_complete_nodup_sorted prefix cursor maxres names :
  StronglySorted lex_lt names -> (1 <= maxres)%nat ->
  let pages := follow (S (length names)) names prefix cursor maxres in
  concat pages = filter (sel cursor prefix) names
  /\ Forall (fun pg => (length pg <= maxres)%nat) pages
  /\ StronglySorted lex_lt (concat pages) /\ NoDup (concat pages).
Proof.
  intros Hs Hmax. cbn zeta.
  destruct (follow_spec prefix maxres names Hs Hmax (S (length names)) cursor) as [H1 H2].
  { apply Nat.lt_succ_r. apply filter_length_le. }
  split; [exact H1|]. split; [exact H2|]. rewrite H1.
  assert (HsF : StronglySorted lex_lt (filter (sel cursor prefix) names)) by (apply filter_sorted; exact Hs).
  split; [exact HsF|apply sorted_nodup; exact HsF].
Qed.

(* with maxResults = 0 the walk reports "more" without a token: the client cannot continue *)
Lemma page_zero names prefix cursor : StronglySorted lex_lt names ->
  page names prefix cursor 0 = ([], (0 <? length (filter (sel cursor prefix) names))%nat).
Proof. intros Hs. rewrite page_eq by exact Hs. reflexivity. Qed.

(* ================================================================== *)
(* 5. Buckets of the store and the list handler                         *)

Lemma mem_entries_ents (bk : bucket) : mem_entries bk = ents (map fst bk).
Proof. unfold mem_entries, ents. rewrite map_map. reflexivity. Qed.

Lemma asorted_names (bk : bucket) : asorted bk -> StronglySorted lex_lt (map fst bk).
Proof.
  induction bk as [|[k v] r IH]; intros Hs; cbn [map]; [constructor|].
  constructor; [apply IH; eapply asorted_tail; eauto|].
  rewrite Forall_forall. intros k' Hin. apply in_map_iff in Hin. destruct Hin as [[k'' v'] [E Hin]].
  cbn in E. subst k''. eapply asorted_head_lt; eauto.
Qed.

(* (i) for a bucket of the store *)
Theorem page_spec_bucket cursor prefix maxres (bk : bucket) :
  asorted bk ->
  list_walk [] cursor prefix maxres (mem_entries bk)
  = (firstn maxres (filter (sel cursor prefix) (map fst bk)), [],
     (maxres <? length (filter (sel cursor prefix) (map fst bk)))%nat).
Proof. intros Hs. rewrite mem_entries_ents. apply page_spec. apply asorted_names. exact Hs. Qed.

(* buckets of reachable states are sorted *)
Lemma reachable_bucket_sorted rs b bk :
  get_bucket (fst (run init_state rs)) b = Some bk -> asorted bk.
Proof.
  intros H. pose proof (state_ok_run rs init_state state_ok_init) as [Hb _].
  eapply buckets_ok_lookup; eauto.
Qed.

Lemma in_names_lookup (bk : bucket) n : In n (map fst bk) -> exists o, alookup n bk = Some o.
Proof.
  induction bk as [|[k v] r IH]; cbn; [intros []|]. intros [E|Hin].
  - subst k. rewrite beqb_refl. eauto.
  - destruct (beqb n k); [eauto|]. apply IH. exact Hin.
Qed.

Definition the_view (b : str) (bk : bucket) (n : str) : list oview :=
  match alookup n bk with Some o => [view b n o] | None => [] end.

Lemma views_of_names b (bk : bucket) found :
  Forall (fun n => In n (map fst bk)) found ->
  map v_name (flat_map (the_view b bk) found) = found
  /\ Forall (fun v => v_bucket v = b /\ exists o, alookup (v_name v) bk = Some o /\ v = view b (v_name v) o)
            (flat_map (the_view b bk) found).
Proof.
  induction 1 as [|n found Hin _ IH]; cbn [flat_map map]; [split; [reflexivity|constructor]|].
  destruct IH as [I1 I2]. unfold the_view at 1 3. destruct (in_names_lookup bk n Hin) as [o Ho]. rewrite Ho.
  cbn [app map]. split; [cbn [view v_name]; rewrite I1; reflexivity|].
  constructor; [|exact I2]. cbn [view v_name v_bucket]. split; [reflexivity|]. exists o. auto.
Qed.

Lemma in_firstn {A} (x : A) k : forall l, In x (firstn k l) -> In x l.
Proof.
  induction k as [|k IH]; intros l H; [destruct H|]. destruct l as [|y l]; [destruct H|].
  cbn in H. destruct H as [H|H]; [left; exact H|right; apply IH; exact H].
Qed.

Lemma last_of_map_rev {A B} (f : A -> B) (l : list A) :
  match rev (map f l) with y :: _ => Some y | [] => None end
  = match rev l with x :: _ => Some (f x) | [] => None end.
Proof. rewrite <- map_rev. destruct (rev l); reflexivity. Qed.

Lemma handle_list_raw s b prefix cursor ms m bk :
  parse_int ms = Some m -> (1 <= m)%Z -> get_bucket s b = Some bk -> asorted bk ->
  let cur := match cursor with Some c => c | None => [] end in
  let F := filter (sel cur prefix) (map fst bk) in
  let found := firstn (Z.to_nat m) F in
  let more := (Z.to_nat m <? length F)%nat in
  let items := flat_map (the_view b bk) found in
  handle s (RList b prefix [] cursor (Some ms))
  = (s, mkResp 200 (BList items []
                      (if more then match rev items with v :: _ => Some (v_name v) | [] => None end
                       else None))).
Proof.
  intros Hp Hm Hb Hs. cbn zeta. cbn [handle]. rewrite Hp.
  destruct (Z.ltb_spec m 1) as [Hlt|_]; [lia|]. rewrite Hb.
  rewrite mem_entries_ents, page_spec by (apply asorted_names; exact Hs). reflexivity.
Qed.

(* the list handler without delimiter on a sorted bucket, maxResults = m >= 1:
   200, items are the views (in order) of the page's names, no prefixes, and the token is the
   last name of the page iff there are more results *)
Theorem handle_list_page s b prefix cursor ms m bk :
  parse_int ms = Some m -> (1 <= m)%Z -> get_bucket s b = Some bk -> asorted bk ->
  let cur := match cursor with Some c => c | None => [] end in
  let F := filter (sel cur prefix) (map fst bk) in
  let found := firstn (Z.to_nat m) F in
  let more := (Z.to_nat m <? length F)%nat in
  exists items,
    handle s (RList b prefix [] cursor (Some ms))
    = (s, mkResp 200 (BList items []
                        (if more then match rev found with l :: _ => Some l | [] => None end else None)))
    /\ map v_name items = found
    /\ Forall (fun v => v_bucket v = b /\ exists o, alookup (v_name v) bk = Some o /\ v = view b (v_name v) o) items.
Proof.
  intros Hp Hm Hb Hs. pose proof (handle_list_raw s b prefix cursor ms m bk Hp Hm Hb Hs) as Hraw.
  cbn zeta in *.
  set (cur := match cursor with Some c => c | None => [] end) in *.
  set (F := filter (sel cur prefix) (map fst bk)) in *.
  set (found := firstn (Z.to_nat m) F) in *.
  assert (Hin : Forall (fun n => In n (map fst bk)) found).
  { rewrite Forall_forall. intros n Hn. unfold found in Hn. apply in_firstn in Hn.
    unfold F in Hn. apply filter_In in Hn. apply Hn. }
  destruct (views_of_names b bk found Hin) as [V1 V2].
  exists (flat_map (the_view b bk) found). split; [|split; [exact V1|exact V2]].
  rewrite Hraw. f_equal. f_equal. f_equal.
  destruct (Z.to_nat m <? length F)%nat; [|reflexivity].
  rewrite <- V1 at 2. rewrite last_of_map_rev. destruct (rev (flat_map (the_view b bk) found)); reflexivity.
Qed.

(* non-vacuity: five objects, prefix "a", pages of two *)
Example listing_example :
  let cp := mkCP (PRaw []) (PRaw []) (PRaw []) (PRaw []) in
  let bk := [98]%N in
  let up n := RUploadMedia bk n [116]%N [1]%N cp in
  let s := fst (run init_state [up [97; 49]%N; up [98; 49]%N; up [97; 51]%N; up [97; 50]%N; up [97]%N; up [99]%N]) in
  let names := [[97]; [97; 49]; [97; 50]; [97; 51]; [98; 49]; [99]]%N in
  option_map (map fst) (get_bucket s bk) = Some names
  /\ StronglySorted lex_lt names
  /\ follow (S (length names)) names [97]%N [] 2 = [[[97]; [97; 49]]; [[97; 50]; [97; 51]]]%N
  /\ page names [97]%N [] 2 = ([[97]; [97; 49]]%N, true)
  /\ r_body (snd (handle s (RList bk [97]%N [] (Some [97; 49]%N) (Some [50]%N))))
     = BList [view bk [97; 50]%N (mkObj [1]%N [116]%N (clock0 + 4)%Z 1 true []);
              view bk [97; 51]%N (mkObj [1]%N [116]%N (clock0 + 3)%Z 1 true [])] [] None.
Proof.
  cbn zeta. split; [timeout 60 vm_compute; reflexivity|]. split.
  { repeat (constructor; [|repeat (constructor; [timeout 60 vm_compute; reflexivity|]); constructor]). constructor. }
  split; [timeout 60 vm_compute; reflexivity|]. split; timeout 60 vm_compute; reflexivity.
Qed.

(* ================================================================== *)
(* 6. Findings (concrete witnesses, by computation)                     *)

Definition list_proj (r : resp) : list str * list str * option str :=
  match r_body r with BList items p n => (map v_name items, p, n) | _ => ([], [], None) end.

(* WITH a delimiter, following the page tokens does NOT return everything: the token is the last
   ITEM name (walk.go computes it from the items only), so entries collapsed into a prefix do not
   advance it.  Bucket {a, b/1, b/2, c}, delimiter "/", maxResults 2: page 1 = items [a],
   prefixes [b/], token "a"; page 2 (from "a") = no items, prefixes [b/], and NO token although the
   walk stopped early: object "c" is never returned. *)
Lemma paginate_with_delimiter_refuted :
  let cp := mkCP (PRaw []) (PRaw []) (PRaw []) (PRaw []) in
  let bk := [98]%N in
  let up n := RUploadMedia bk n [116]%N [1]%N cp in
  let s := fst (run init_state [up [97]%N; up [98; 47; 49]%N; up [98; 47; 50]%N; up [99]%N]) in
  list_proj (snd (handle s (RList bk [] [47]%N None (Some [50]%N)))) = ([[97]%N], [[98; 47]%N], Some [97]%N)
  /\ list_proj (snd (handle s (RList bk [] [47]%N (Some [97]%N) (Some [50]%N)))) = ([], [[98; 47]%N], None)
  /\ find_obj s bk [99]%N <> None /\ sel [] [] [99]%N = true /\ has_prefix [99]%N [98; 47]%N = false.
Proof.
  cbn zeta. split; [timeout 60 vm_compute; reflexivity|]. split; [timeout 60 vm_compute; reflexivity|].
  split; [timeout 60 vm_compute; discriminate|]. split; timeout 60 vm_compute; reflexivity.
Qed.

(* a multipart upload may name its object "" (only the media upload rejects an empty name); the
   object is stored and readable, but a listing without page token starts strictly after "" and
   never shows it *)
Lemma empty_name_never_listed_witness :
  let cp := mkCP (PRaw []) (PRaw []) (PRaw []) (PRaw []) in
  let bk := [98]%N in
  let r := RUploadMultipart bk (mkUpMeta [] [116]%N 0 []) [1]%N cp in
  r_status (snd (handle init_state r)) = 200%Z
  /\ r_status (snd (handle (fst (handle init_state r)) (RGetMedia bk []))) = 200%Z
  /\ list_proj (snd (handle (fst (handle init_state r)) (RList bk [] [] None None))) = ([], [], None).
Proof. cbn zeta. repeat split; timeout 60 vm_compute; reflexivity. Qed.

(* C11 — listing and pagination over the memory store (names strictly ascending).
   Sections 1-5: the walk without delimiter, page size and soundness for any delimiter, the handler.
   Sections 6-10: the walk WITH a delimiter after the repair of GCS-1 (page token = last item or
   collapsed prefix; names below a prefix already on the page take no room; a page resumed from a
   prefix token skips the names below it): one page in closed form, and following the tokens
   returns exactly Oracles.expected_listing (paginate_with_delimiter_complete,
   handle_pagination_complete).  Section 11: witnesses, including what the old token rule did. *)
From Coq Require Import List NArith ZArith Bool Lia Sorted.
Import ListNotations.
From Emu.Common Require Import Bytes Str StrProofs.
From Emu.GCS Require Import Model UploadProofs Oracles.

(* ================================================================== *)
(* 1. Order and prefix facts                                            *)

Lemma lex_ltb_lt a b : lex_ltb a b = true <-> lex_lt a b.
Proof. unfold lex_ltb, lex_lt. destruct (lex_cmp a b); split; intros H; congruence. Qed.

Lemma lex_ltb_leb a b : lex_ltb a b = negb (lex_leb b a).
Proof. unfold lex_ltb, lex_leb. rewrite (lex_antisym b a). destruct (lex_cmp b a); reflexivity. Qed.

Lemma lex_ltb_irrefl a : lex_ltb a a = false.
Proof. unfold lex_ltb. rewrite lex_refl. reflexivity. Qed.

Lemma lex_lt_asym a b : lex_lt a b -> lex_ltb b a = false.
Proof. unfold lex_lt, lex_ltb. rewrite (lex_antisym a b). intros ->. reflexivity. Qed.

Lemma greater_than_prefix_alt item p :
  greater_than_prefix item p = lex_gtb (firstn (length p) item) p.
Proof.
  unfold greater_than_prefix. destruct (Nat.ltb_spec (length item) (length p)) as [H|H]; [|reflexivity].
  rewrite firstn_all2 by lia. reflexivity.
Qed.

Lemma lex_firstn_mono k : forall a b, lex_lt a b -> lex_le (firstn k a) (firstn k b).
Proof.
  unfold lex_lt, lex_le. induction k as [|k IH]; intros a b H; [cbn; discriminate|].
  destruct a as [|x xs], b as [|y ys]; cbn in *; try discriminate.
  destruct (N.compare x y); try discriminate; auto.
Qed.

Lemma has_prefix_firstn p : forall n, has_prefix n p = true -> firstn (length p) n = p.
Proof.
  induction p as [|y ps IH]; intros n H; [reflexivity|].
  destruct n as [|x ns]; cbn in H; [discriminate|].
  apply andb_prop in H. destruct H as [H1 H2]. apply N.eqb_eq in H1. subst y.
  cbn. f_equal. auto.
Qed.

Lemma has_prefix_of_firstn k : forall n : bytes, has_prefix n (firstn k n) = true.
Proof.
  induction k as [|k IH]; intros n; [destruct n; reflexivity|].
  destruct n as [|x ns]; [reflexivity|]. cbn. rewrite N.eqb_refl. apply IH.
Qed.

(* an entry beyond the prefix range does not have the prefix ... *)
Lemma gtp_not_prefix f p : greater_than_prefix f p = true -> has_prefix f p = false.
Proof.
  rewrite greater_than_prefix_alt. intros H. destruct (has_prefix f p) eqn:E; [|reflexivity].
  apply has_prefix_firstn in E. rewrite E in H. unfold lex_gtb in H. rewrite lex_ltb_irrefl in H. discriminate.
Qed.

(* ... and so is every larger entry *)
Lemma gtp_mono f g p : lex_lt f g -> greater_than_prefix f p = true -> greater_than_prefix g p = true.
Proof.
  rewrite !greater_than_prefix_alt. unfold lex_gtb. intros Hfg H. apply lex_ltb_lt in H. apply lex_ltb_lt.
  eapply lex_lt_le_trans; [exact H|]. apply lex_firstn_mono. exact Hfg.
Qed.

(* the early abort of the walk is sound: in an ascending list, once an entry is beyond the
   prefix range, all later entries are too, and none of them has the prefix *)
Theorem prefix_abort_sound f rest p :
  StronglySorted lex_lt (f :: rest) -> greater_than_prefix f p = true ->
  Forall (fun g => greater_than_prefix g p = true /\ has_prefix g p = false) (f :: rest).
Proof.
  intros Hs Hf. apply StronglySorted_inv in Hs. destruct Hs as [_ Hall].
  constructor; [split; [exact Hf|apply gtp_not_prefix; exact Hf]|].
  eapply Forall_impl; [|exact Hall]. cbn. intros g Hfg.
  assert (Hg : greater_than_prefix g p = true) by (eapply gtp_mono; eauto).
  split; [exact Hg|apply gtp_not_prefix; exact Hg].
Qed.

(* ================================================================== *)
(* 2. One page, no delimiter                                            *)

(* the entries the memory store walks: names in order, no directories *)
Definition ents (names : list str) : list (str * bool) := map (fun n => (n, false)) names.

(* what a page is selected from: names after the cursor that have the prefix *)
Definition sel (cursor prefix n : str) : bool := lex_ltb cursor n && has_prefix n prefix.

Lemma fold_done delim cursor prefix maxres entries : forall a,
  la_done a = true -> fold_left (list_step delim cursor prefix maxres) entries a = a.
Proof.
  induction entries as [|[f d] rest IH]; intros a Hd; cbn [fold_left]; [reflexivity|].
  assert (Hs : list_step delim cursor prefix maxres a (f, d) = a) by (unfold list_step; rewrite Hd; reflexivity).
  rewrite Hs. apply IH. exact Hd.
Qed.

Definition last_opt (l : list str) : option str := match rev l with x :: _ => Some x | [] => None end.

Lemma list_step_mem cursor prefix maxres c fnd prs lst f :
  list_step [] cursor prefix maxres (mkLacc c fnd prs false None false lst) (f, false) =
  if greater_than_prefix f prefix then mkLacc c fnd prs false None true lst
  else if sel cursor prefix f
       then (if (maxres <=? c)%nat then mkLacc c fnd prs true None true lst
             else mkLacc (S c) (f :: fnd) prs false None false (Some f))
       else mkLacc c fnd prs false None false lst.
Proof.
  unfold list_step, sel. cbn [la_done la_skip la_count la_found la_prefixes la_more la_last skip_group collapse_of].
  rewrite lex_ltb_leb.
  destruct (greater_than_prefix f prefix); [reflexivity|].
  destruct (lex_leb f cursor); cbn [negb andb]; [reflexivity|].
  destruct (has_prefix f prefix); cbn [negb]; [|reflexivity].
  destruct (maxres <=? c)%nat; reflexivity.
Qed.

Lemma filter_none_prefix cursor prefix l :
  Forall (fun g => greater_than_prefix g prefix = true /\ has_prefix g prefix = false) l ->
  filter (sel cursor prefix) l = [].
Proof.
  induction 1 as [|g l [_ Hg] _ IH]; [reflexivity|]. cbn [filter]. unfold sel at 1. rewrite Hg, andb_false_r. exact IH.
Qed.

Lemma walk_nodelim cursor prefix maxres names :
  StronglySorted lex_lt names -> forall fnd prs lst,
  let F := filter (sel cursor prefix) names in
  let a := fold_left (list_step [] cursor prefix maxres) (ents names)
                     (mkLacc (length fnd) fnd prs false None false lst) in
  la_found a = rev (firstn (maxres - length fnd) F) ++ fnd
  /\ la_prefixes a = prs
  /\ la_more a = (maxres - length fnd <? length F)%nat
  /\ la_last a = match rev (firstn (maxres - length fnd) F) with x :: _ => Some x | [] => lst end.
Proof.
  induction names as [|f rest IH]; intros Hs fnd prs lst; cbn zeta.
  - cbn. rewrite firstn_nil. cbn. repeat split.
  - change (ents (f :: rest)) with ((f, false) :: ents rest). cbn [fold_left]. rewrite list_step_mem.
    destruct (greater_than_prefix f prefix) eqn:Hg.
    + rewrite fold_done by reflexivity. cbn [la_found la_prefixes la_more la_last].
      rewrite (filter_none_prefix cursor prefix (f :: rest)) by (apply prefix_abort_sound; assumption).
      rewrite firstn_nil. cbn. repeat split.
    + apply StronglySorted_inv in Hs. destruct Hs as [Hs _]. cbn [filter].
      destruct (sel cursor prefix f) eqn:Hsel.
      * destruct (Nat.leb_spec maxres (length fnd)) as [Hle|Hlt].
        -- rewrite fold_done by reflexivity. cbn [la_found la_prefixes la_more la_last].
           replace (maxres - length fnd)%nat with 0%nat by lia. cbn. repeat split.
        -- specialize (IH Hs (f :: fnd) prs (Some f)). cbn zeta in IH.
           cbn [length] in IH. destruct IH as [I1 [I2 [I3 I4]]].
           replace (maxres - length fnd)%nat with (S (maxres - S (length fnd))) by lia.
           split; [etransitivity; [exact I1|]|split; [exact I2|split; [etransitivity; [exact I3|]|etransitivity; [exact I4|]]]].
           ++ cbn [firstn rev]. rewrite <- app_assoc. reflexivity.
           ++ reflexivity.
           ++ cbn [firstn rev]. destruct (rev (firstn (maxres - S (length fnd)) (filter (sel cursor prefix) rest))); reflexivity.
      * specialize (IH Hs fnd prs lst). cbn zeta in IH. exact IH.
Qed.

(* (i) one page without delimiter: the first [maxres] selected names, moreResults iff the
   selection has more than [maxres] elements, and the last entry of the page is its last name *)
Theorem page_spec cursor prefix maxres names :
  StronglySorted lex_lt names ->
  list_walk [] cursor prefix maxres (ents names)
  = (firstn maxres (filter (sel cursor prefix) names), [],
     (maxres <? length (filter (sel cursor prefix) names))%nat,
     last_opt (firstn maxres (filter (sel cursor prefix) names))).
Proof.
  intros Hs. unfold list_walk, last_opt.
  destruct (walk_nodelim cursor prefix maxres names Hs [] [] None) as [H1 [H2 [H3 H4]]]. cbn zeta in H1, H2, H3, H4.
  cbn [length] in H1, H2, H3, H4. rewrite Nat.sub_0_r in H1, H3, H4.
  match goal with |- context [fold_left ?st ?en ?i] => set (a := fold_left st en i) end.
  change (la_found a = rev (firstn maxres (filter (sel cursor prefix) names)) ++ []) in H1.
  change (la_prefixes a = []) in H2.
  change (la_more a = (maxres <? length (filter (sel cursor prefix) names))%nat) in H3.
  change (la_last a = match rev (firstn maxres (filter (sel cursor prefix) names)) with x :: _ => Some x | [] => None end) in H4.
  rewrite H1, H2, H3, H4. rewrite app_nil_r, rev_involutive. reflexivity.
Qed.

(* ================================================================== *)
(* 3. Any delimiter: page size and soundness                            *)

Lemma fold_left_inv {A B} (step : A -> B -> A) (I : A -> Prop) (l : list B) :
  (forall a e, In e l -> I a -> I (step a e)) -> forall a, I a -> I (fold_left step l a).
Proof.
  induction l as [|e r IH]; intros Hstep a Ha; cbn [fold_left]; [exact Ha|].
  apply IH; [intros a' e' Hin; apply Hstep; right; exact Hin|]. apply Hstep; [left; reflexivity|exact Ha].
Qed.

Lemma list_step_size delim cursor prefix maxres a e :
  (length (la_found a) + length (la_prefixes a) <= la_count a)%nat /\ (la_count a <= maxres)%nat ->
  let a' := list_step delim cursor prefix maxres a e in
  (length (la_found a') + length (la_prefixes a') <= la_count a')%nat /\ (la_count a' <= maxres)%nat.
Proof.
  intros [H1 H2]. destruct e as [f d]. cbn zeta. unfold list_step.
  timeout 120 repeat match goal with
  | |- context [match ?x with _ => _ end] =>
      lazymatch x with
      | context [match _ with _ => _ end] => fail
      | _ => destruct x eqn:?
      end
  end; cbn [la_count la_found la_prefixes length]; try (split; lia).
  all: cbn [la_count] in *;
       repeat match goal with H : (_ <=? _)%nat = false |- _ => apply Nat.leb_gt in H end; split; lia.
Qed.

(* (iii) whatever the delimiter and the entries: items + prefixes never exceed maxResults *)
Theorem page_size_bound delim cursor prefix maxres entries :
  let '(found, prefixes, more, last) := list_walk delim cursor prefix maxres entries in
  (length found + length prefixes <= maxres)%nat.
Proof.
  unfold list_walk. rewrite !rev_length.
  assert (H : (fun a => (length (la_found a) + length (la_prefixes a) <= la_count a)%nat
                        /\ (la_count a <= maxres)%nat)
              (fold_left (list_step delim cursor prefix maxres) entries (mkLacc 0 [] [] false None false None))).
  { apply fold_left_inv; [intros a e _ Ha; apply list_step_size; exact Ha|]. cbn. lia. }
  cbn beta in H. lia.
Qed.

(* soundness, whatever the delimiter: every returned item is an entry after the cursor with the
   prefix; every returned prefix is an initial segment of such an entry *)
Definition found_sound (cursor prefix : str) (entries : list (str * bool)) (n : str) : Prop :=
  In (n, false) entries /\ lex_ltb cursor n = true /\ has_prefix n prefix = true.
Definition prefix_sound (cursor prefix : str) (entries : list (str * bool)) (ip : str) : Prop :=
  exists n, found_sound cursor prefix entries n /\ has_prefix n ip = true.

Lemma list_step_sound delim cursor prefix maxres entries a e :
  In e entries ->
  Forall (found_sound cursor prefix entries) (la_found a)
  /\ Forall (prefix_sound cursor prefix entries) (la_prefixes a) ->
  let a' := list_step delim cursor prefix maxres a e in
  Forall (found_sound cursor prefix entries) (la_found a')
  /\ Forall (prefix_sound cursor prefix entries) (la_prefixes a').
Proof.
  intros Hin [H1 H2]. destruct e as [f d]. cbn zeta. unfold list_step.
  destruct (la_done a); [auto|].
  destruct (match la_skip a with Some d0 => has_prefix f d0 | None => false end); [auto|].
  cbn [la_count la_found la_prefixes la_more].
  destruct (greater_than_prefix f prefix); [auto|].
  destruct d; [destruct (_ || _); auto|].
  destruct (lex_leb f cursor) eqn:Hc; [auto|].
  destruct (has_prefix f prefix) eqn:Hp; cbn [negb]; [|auto].
  destruct (match skip_group delim cursor prefix with Some g => has_prefix f g | None => false end); [auto|].
  assert (Hf : found_sound cursor prefix entries f).
  { split; [exact Hin|]. split; [rewrite lex_ltb_leb, Hc; reflexivity|exact Hp]. }
  destruct (collapse_of delim prefix f) as [ip|] eqn:Hcol.
  - destruct (existsb (beqb ip) (la_prefixes a)); [auto|].
    destruct (maxres <=? la_count a)%nat; cbn [la_found la_prefixes]; [auto|].
    split; [exact H1|]. constructor; [|exact H2]. exists f. split; [exact Hf|].
    unfold collapse_of in Hcol. destruct delim as [|d0 dl]; [discriminate|].
    destruct (index_of _ _); [|discriminate]. injection Hcol as <-. apply has_prefix_of_firstn.
  - destruct (maxres <=? la_count a)%nat; cbn [la_found la_prefixes]; [auto|].
    split; [constructor; assumption|exact H2].
Qed.

Theorem page_sound delim cursor prefix maxres entries :
  let '(found, prefixes, more, last) := list_walk delim cursor prefix maxres entries in
  Forall (found_sound cursor prefix entries) found /\ Forall (prefix_sound cursor prefix entries) prefixes.
Proof.
  unfold list_walk.
  assert (H : (fun a => Forall (found_sound cursor prefix entries) (la_found a)
                        /\ Forall (prefix_sound cursor prefix entries) (la_prefixes a))
              (fold_left (list_step delim cursor prefix maxres) entries (mkLacc 0 [] [] false None false None))).
  { apply fold_left_inv; [intros a e Hin Ha; apply list_step_sound; assumption|]. cbn. split; constructor. }
  cbn beta in H. destruct H as [H1 H2]. split; apply Forall_rev; assumption.
Qed.

(* ================================================================== *)
(* 4. Following the page tokens                                         *)

Definition page (names : list str) (prefix cursor : str) (maxres : nat) : list str * bool :=
  match list_walk [] cursor prefix maxres (ents names) with (found, _, more, _) => (found, more) end.

(* take a page; while moreResults, continue from the last name found (the nextPageToken) *)
Fixpoint follow (fuel : nat) (names : list str) (prefix cursor : str) (maxres : nat) : list (list str) :=
  match fuel with
  | O => []
  | S fuel' =>
      let '(found, more) := page names prefix cursor maxres in
      if more then match rev found with
                   | l :: _ => found :: follow fuel' names prefix l maxres
                   | [] => [found]
                   end
      else [found]
  end.

Lemma page_eq names prefix cursor maxres : StronglySorted lex_lt names ->
  page names prefix cursor maxres
  = (firstn maxres (filter (sel cursor prefix) names),
     (maxres <? length (filter (sel cursor prefix) names))%nat).
Proof. intros Hs. unfold page. rewrite page_spec by exact Hs. reflexivity. Qed.

Lemma filter_sorted (f : str -> bool) l : StronglySorted lex_lt l -> StronglySorted lex_lt (filter f l).
Proof.
  induction 1 as [|x l Hs IH Hall]; cbn [filter]; [constructor|].
  destruct (f x); [|exact IH]. constructor; [exact IH|].
  rewrite Forall_forall in *. intros y Hy. apply filter_In in Hy. apply Hall. apply Hy.
Qed.

Lemma sorted_app_inv A l B : StronglySorted lex_lt (A ++ l :: B) ->
  Forall (fun a => lex_lt a l) A /\ Forall (lex_lt l) B.
Proof.
  induction A as [|a A IH]; cbn [app]; intros Hs; apply StronglySorted_inv in Hs; destruct Hs as [Hs Hall].
  - split; [constructor|exact Hall].
  - destruct (IH Hs) as [I1 I2]. split; [|exact I2]. constructor; [|exact I1].
    rewrite Forall_forall in Hall. apply Hall. apply in_or_app. right. left. reflexivity.
Qed.

Lemma filter_after A l B : StronglySorted lex_lt (A ++ l :: B) -> filter (lex_ltb l) (A ++ l :: B) = B.
Proof.
  intros Hs. destruct (sorted_app_inv A l B Hs) as [HA HB].
  rewrite filter_app. cbn [filter]. rewrite lex_ltb_irrefl.
  assert (E1 : filter (lex_ltb l) A = []).
  { clear Hs HB. induction HA as [|a A Ha _ IH]; [reflexivity|]. cbn [filter]. rewrite (lex_lt_asym a l Ha). exact IH. }
  assert (E2 : filter (lex_ltb l) B = B).
  { clear Hs HA E1. induction HB as [|x B Hx _ IH]; [reflexivity|]. cbn [filter].
    apply lex_ltb_lt in Hx. rewrite Hx, IH. reflexivity. }
  rewrite E1, E2. reflexivity.
Qed.

Lemma filter_sel_refine cursor prefix l names : lex_ltb cursor l = true ->
  filter (sel l prefix) names = filter (lex_ltb l) (filter (sel cursor prefix) names).
Proof.
  intros Hcl. induction names as [|n rest IH]; [reflexivity|]. cbn [filter].
  destruct (lex_ltb l n) eqn:Hln.
  - assert (Hcn : lex_ltb cursor n = true).
    { apply lex_ltb_lt. eapply lex_lt_trans; apply lex_ltb_lt; eassumption. }
    assert (E : sel l prefix n = sel cursor prefix n) by (unfold sel; rewrite Hln, Hcn; reflexivity).
    rewrite E. destruct (sel cursor prefix n); cbn [filter]; [rewrite Hln|]; rewrite IH; reflexivity.
  - assert (E : sel l prefix n = false) by (unfold sel; rewrite Hln; reflexivity).
    rewrite E. destruct (sel cursor prefix n); cbn [filter]; [rewrite Hln|]; exact IH.
Qed.

(* continuing from the last name of a full page selects exactly what the page left over *)
Lemma next_page_selection cursor prefix maxres names l pre :
  StronglySorted lex_lt names ->
  rev (firstn maxres (filter (sel cursor prefix) names)) = l :: pre ->
  filter (sel l prefix) names = skipn maxres (filter (sel cursor prefix) names).
Proof.
  intros Hs Hrev. set (F := filter (sel cursor prefix) names) in *.
  assert (Hfirst : firstn maxres F = rev pre ++ [l]).
  { rewrite <- (rev_involutive (firstn maxres F)), Hrev. reflexivity. }
  assert (HF : F = rev pre ++ l :: skipn maxres F).
  { rewrite <- (firstn_skipn maxres F) at 1. rewrite Hfirst, <- app_assoc. reflexivity. }
  assert (Hin : In l F).
  { rewrite HF. apply in_or_app. right. left. reflexivity. }
  unfold F in Hin. apply filter_In in Hin. destruct Hin as [_ Hsel]. unfold sel in Hsel.
  apply andb_prop in Hsel. destruct Hsel as [Hcl _].
  rewrite (filter_sel_refine cursor prefix l names Hcl). fold F.
  assert (HsF : StronglySorted lex_lt F) by (apply filter_sorted; exact Hs).
  rewrite HF at 1. rewrite HF in HsF. apply filter_after. exact HsF.
Qed.

Lemma follow_spec prefix maxres names :
  StronglySorted lex_lt names -> (1 <= maxres)%nat ->
  forall fuel cursor,
  (length (filter (sel cursor prefix) names) < fuel)%nat ->
  concat (follow fuel names prefix cursor maxres) = filter (sel cursor prefix) names
  /\ Forall (fun pg => (length pg <= maxres)%nat) (follow fuel names prefix cursor maxres).
Proof.
  intros Hs Hmax. induction fuel as [|fuel IH]; intros cursor Hlen; [lia|].
  cbn [follow]. rewrite page_eq by exact Hs.
  set (F := filter (sel cursor prefix) names) in *.
  assert (Hpg : (length (firstn maxres F) <= maxres)%nat) by (rewrite firstn_length; lia).
  destruct (Nat.ltb_spec maxres (length F)) as [Hmore|Hnomore].
  - destruct (rev (firstn maxres F)) as [|l pre] eqn:Hrev.
    + exfalso. assert (Hl : length (rev (firstn maxres F)) = 0%nat) by (rewrite Hrev; reflexivity).
      rewrite rev_length, firstn_length in Hl. lia.
    + pose proof (next_page_selection cursor prefix maxres names l pre Hs Hrev) as Hnext. fold F in Hnext.
      assert (Hlen' : (length (filter (sel l prefix) names) < fuel)%nat).
      { rewrite Hnext, skipn_length. lia. }
      destruct (IH l Hlen') as [I1 I2]. cbn [concat]. rewrite I1, Hnext. split.
      * apply firstn_skipn.
      * constructor; assumption.
  - cbn [concat]. rewrite app_nil_r. split; [apply firstn_all2; exact Hnomore|].
    constructor; [exact Hpg|constructor].
Qed.

Lemma filter_length_le {A} (f : A -> bool) l : (length (filter f l) <= length l)%nat.
Proof. induction l as [|x l IH]; cbn; [lia|]. destruct (f x); cbn; lia. Qed.

Lemma sorted_nodup l : StronglySorted lex_lt l -> NoDup l.
Proof.
  induction 1 as [|x l Hs IH Hall]; constructor; [|exact IH].
  intros Hin. rewrite Forall_forall in Hall. specialize (Hall x Hin).
  unfold lex_lt in Hall. rewrite lex_refl in Hall. discriminate.
Qed.

(* (ii) following the tokens with maxResults >= 1 returns every selected name exactly once,
   in ascending order, in pages of at most maxResults *)
Theorem paginate_complete_nodup_sorted prefix cursor maxres names :
  StronglySorted lex_lt names -> (1 <= maxres)%nat ->
  let pages := follow (S (length names)) names prefix cursor maxres in
  concat pages = filter (sel cursor prefix) names
  /\ Forall (fun pg => (length pg <= maxres)%nat) pages
  /\ StronglySorted lex_lt (concat pages) /\ NoDup (concat pages).
Proof.
  intros Hs Hmax. cbn zeta.
  destruct (follow_spec prefix maxres names Hs Hmax (S (length names)) cursor) as [H1 H2].
  { apply Nat.lt_succ_r. apply filter_length_le. }
  split; [exact H1|]. split; [exact H2|]. rewrite H1.
  assert (HsF : StronglySorted lex_lt (filter (sel cursor prefix) names)) by (apply filter_sorted; exact Hs).
  split; [exact HsF|apply sorted_nodup; exact HsF].
Qed.

(* with maxResults = 0 the walk reports "more" without a token: the client cannot continue *)
Lemma page_zero names prefix cursor : StronglySorted lex_lt names ->
  page names prefix cursor 0 = ([], (0 <? length (filter (sel cursor prefix) names))%nat).
Proof. intros Hs. rewrite page_eq by exact Hs. reflexivity. Qed.

(* ================================================================== *)
(* 5. Buckets of the store and the list handler                         *)

Lemma mem_entries_ents (bk : bucket) : mem_entries bk = ents (map fst bk).
Proof. unfold mem_entries, ents. rewrite map_map. reflexivity. Qed.

Lemma asorted_names (bk : bucket) : asorted bk -> StronglySorted lex_lt (map fst bk).
Proof.
  induction bk as [|[k v] r IH]; intros Hs; cbn [map]; [constructor|].
  constructor; [apply IH; eapply asorted_tail; eauto|].
  rewrite Forall_forall. intros k' Hin. apply in_map_iff in Hin. destruct Hin as [[k'' v'] [E Hin]].
  cbn in E. subst k''. eapply asorted_head_lt; eauto.
Qed.

(* (i) for a bucket of the store *)
Theorem page_spec_bucket cursor prefix maxres (bk : bucket) :
  asorted bk ->
  list_walk [] cursor prefix maxres (mem_entries bk)
  = (firstn maxres (filter (sel cursor prefix) (map fst bk)), [],
     (maxres <? length (filter (sel cursor prefix) (map fst bk)))%nat,
     last_opt (firstn maxres (filter (sel cursor prefix) (map fst bk)))).
Proof. intros Hs. rewrite mem_entries_ents. apply page_spec. apply asorted_names. exact Hs. Qed.

(* buckets of reachable states are sorted *)
Lemma reachable_bucket_sorted rs b bk :
  get_bucket (fst (run init_state rs)) b = Some bk -> asorted bk.
Proof.
  intros H. pose proof (state_ok_run rs init_state state_ok_init) as [Hb _].
  eapply buckets_ok_lookup; eauto.
Qed.

Lemma in_names_lookup (bk : bucket) n : In n (map fst bk) -> exists o, alookup n bk = Some o.
Proof.
  induction bk as [|[k v] r IH]; cbn; [intros []|]. intros [E|Hin].
  - subst k. rewrite beqb_refl. eauto.
  - destruct (beqb n k); [eauto|]. apply IH. exact Hin.
Qed.

Definition the_view (b : str) (bk : bucket) (n : str) : list oview :=
  match alookup n bk with Some o => [view b n o] | None => [] end.

Lemma views_of_names b (bk : bucket) found :
  Forall (fun n => In n (map fst bk)) found ->
  map v_name (flat_map (the_view b bk) found) = found
  /\ Forall (fun v => v_bucket v = b /\ exists o, alookup (v_name v) bk = Some o /\ v = view b (v_name v) o)
            (flat_map (the_view b bk) found).
Proof.
  induction 1 as [|n found Hin _ IH]; cbn [flat_map map]; [split; [reflexivity|constructor]|].
  destruct IH as [I1 I2]. unfold the_view at 1 3. destruct (in_names_lookup bk n Hin) as [o Ho]. rewrite Ho.
  cbn [app map]. split; [cbn [view v_name]; rewrite I1; reflexivity|].
  constructor; [|exact I2]. cbn [view v_name v_bucket]. split; [reflexivity|]. exists o. auto.
Qed.

Lemma in_firstn {A} (x : A) k : forall l, In x (firstn k l) -> In x l.
Proof.
  induction k as [|k IH]; intros l H; [destruct H|]. destruct l as [|y l]; [destruct H|].
  cbn in H. destruct H as [H|H]; [left; exact H|right; apply IH; exact H].
Qed.

Lemma handle_list_raw s b prefix cursor ms m bk :
  parse_int ms = Some m -> (1 <= m)%Z -> get_bucket s b = Some bk -> asorted bk ->
  let cur := match cursor with Some c => c | None => [] end in
  let F := filter (sel cur prefix) (map fst bk) in
  let found := firstn (Z.to_nat m) F in
  let more := (Z.to_nat m <? length F)%nat in
  let items := flat_map (the_view b bk) found in
  handle s (RList b prefix [] cursor (Some ms))
  = (s, mkResp 200 (BList items [] (if more then last_opt found else None))).
Proof.
  intros Hp Hm Hb Hs. cbn zeta. cbn [handle]. rewrite Hp.
  destruct (Z.ltb_spec m 1) as [Hlt|_]; [lia|]. rewrite Hb.
  rewrite mem_entries_ents, page_spec by (apply asorted_names; exact Hs). reflexivity.
Qed.

(* the list handler without delimiter on a sorted bucket, maxResults = m >= 1:
   200, items are the views (in order) of the page's names, no prefixes, and the token is the
   last name of the page iff there are more results *)
Theorem handle_list_page s b prefix cursor ms m bk :
  parse_int ms = Some m -> (1 <= m)%Z -> get_bucket s b = Some bk -> asorted bk ->
  let cur := match cursor with Some c => c | None => [] end in
  let F := filter (sel cur prefix) (map fst bk) in
  let found := firstn (Z.to_nat m) F in
  let more := (Z.to_nat m <? length F)%nat in
  exists items,
    handle s (RList b prefix [] cursor (Some ms))
    = (s, mkResp 200 (BList items []
                        (if more then match rev found with l :: _ => Some l | [] => None end else None)))
    /\ map v_name items = found
    /\ Forall (fun v => v_bucket v = b /\ exists o, alookup (v_name v) bk = Some o /\ v = view b (v_name v) o) items.
Proof.
  intros Hp Hm Hb Hs. pose proof (handle_list_raw s b prefix cursor ms m bk Hp Hm Hb Hs) as Hraw.
  cbn zeta in *.
  set (cur := match cursor with Some c => c | None => [] end) in *.
  set (F := filter (sel cur prefix) (map fst bk)) in *.
  set (found := firstn (Z.to_nat m) F) in *.
  assert (Hin : Forall (fun n => In n (map fst bk)) found).
  { rewrite Forall_forall. intros n Hn. unfold found in Hn. apply in_firstn in Hn.
    unfold F in Hn. apply filter_In in Hn. apply Hn. }
  destruct (views_of_names b bk found Hin) as [V1 V2].
  exists (flat_map (the_view b bk) found). split; [|split; [exact V1|exact V2]].
  exact Hraw.
Qed.

(* the list handler for ANY delimiter: the response is the page of the walk over the bucket's
   names; the token is the walk's last entry (item or collapsed prefix) iff there are more results *)
Theorem handle_list_walk s b prefix delim cursor ms m bk :
  parse_int ms = Some m -> (1 <= m)%Z -> get_bucket s b = Some bk -> asorted bk ->
  let cur := match cursor with Some c => c | None => [] end in
  let '(found, prefixes, more, last) := list_walk delim cur prefix (Z.to_nat m) (ents (map fst bk)) in
  exists items,
    handle s (RList b prefix delim cursor (Some ms))
    = (s, mkResp 200 (BList items prefixes (if more then last else None)))
    /\ map v_name items = found
    /\ Forall (fun v => v_bucket v = b /\ exists o, alookup (v_name v) bk = Some o /\ v = view b (v_name v) o) items.
Proof.
  intros Hp Hm Hb Hs. cbn zeta.
  set (cur := match cursor with Some c => c | None => [] end).
  pose proof (page_sound delim cur prefix (Z.to_nat m) (ents (map fst bk))) as Hsound.
  destruct (list_walk delim cur prefix (Z.to_nat m) (ents (map fst bk))) as [[[found prefixes] more] last] eqn:Hw.
  destruct Hsound as [Hf _].
  assert (Hin : Forall (fun n => In n (map fst bk)) found).
  { eapply Forall_impl; [|exact Hf]. intros n [Hn _]. unfold ents in Hn. apply in_map_iff in Hn.
    destruct Hn as [n' [E Hn]]. injection E as ->. exact Hn. }
  destruct (views_of_names b bk found Hin) as [V1 V2].
  exists (flat_map (the_view b bk) found). split; [|split; [exact V1|exact V2]].
  cbn [handle]. rewrite Hp. destruct (Z.ltb_spec m 1) as [Hlt|_]; [lia|]. rewrite Hb.
  rewrite mem_entries_ents.
  match goal with |- context [list_walk ?a1 ?a2 ?a3 ?a4 ?a5] =>
    change (list_walk a1 a2 a3 a4 a5) with (list_walk delim cur prefix (Z.to_nat m) (ents (map fst bk))) end.
  rewrite Hw. reflexivity.
Qed.

(* non-vacuity: five objects, prefix "a", pages of two *)
Example listing_example :
  let cp := mkCP (PRaw []) (PRaw []) (PRaw []) (PRaw []) in
  let bk := [98]%N in
  let up n := RUploadMedia bk n [116]%N [1]%N cp in
  let s := fst (run init_state [up [97; 49]%N; up [98; 49]%N; up [97; 51]%N; up [97; 50]%N; up [97]%N; up [99]%N]) in
  let names := [[97]; [97; 49]; [97; 50]; [97; 51]; [98; 49]; [99]]%N in
  option_map (map fst) (get_bucket s bk) = Some names
  /\ StronglySorted lex_lt names
  /\ follow (S (length names)) names [97]%N [] 2 = [[[97]; [97; 49]]; [[97; 50]; [97; 51]]]%N
  /\ page names [97]%N [] 2 = ([[97]; [97; 49]]%N, true)
  /\ r_body (snd (handle s (RList bk [97]%N [] (Some [97; 49]%N) (Some [50]%N))))
     = BList [view bk [97; 50]%N (mkObj [1]%N [116]%N (clock0 + 4)%Z 1 true []);
              view bk [97; 51]%N (mkObj [1]%N [116]%N (clock0 + 3)%Z 1 true [])] [] None.
Proof.
  cbn zeta. split; [timeout 60 vm_compute; reflexivity|]. split.
  { repeat (constructor; [|repeat (constructor; [timeout 60 vm_compute; reflexivity|]); constructor]). constructor. }
  split; [timeout 60 vm_compute; reflexivity|]. split; timeout 60 vm_compute; reflexivity.
Qed.

(* ================================================================== *)
(* 6. Strings: prefixes are intervals, index_of, collapsed prefixes     *)

Lemma has_prefix_le p : forall n, has_prefix n p = true -> lex_le p n.
Proof.
  induction p as [|y ps IH]; intros n H; [apply lex_le_nil|].
  destruct n as [|x ns]; cbn in H; [discriminate|].
  apply andb_prop in H. destruct H as [H1 H2]. apply N.eqb_eq in H1. subst y.
  specialize (IH ns H2). unfold lex_le in *. cbn. rewrite N.compare_refl. exact IH.
Qed.

(* the names with a given prefix form an interval of the bytewise order *)
Lemma has_prefix_between p : forall a b c,
  has_prefix a p = true -> has_prefix c p = true -> lex_le a b -> lex_le b c -> has_prefix b p = true.
Proof.
  induction p as [|y ps IH]; intros a b c Ha Hc Hab Hbc; [apply has_prefix_nil|].
  destruct a as [|x a']; cbn in Ha; [discriminate|].
  destruct c as [|z c']; cbn in Hc; [discriminate|].
  apply andb_prop in Ha. destruct Ha as [Ha1 Ha2]. apply N.eqb_eq in Ha1. subst x.
  apply andb_prop in Hc. destruct Hc as [Hc1 Hc2]. apply N.eqb_eq in Hc1. subst z.
  unfold lex_le in Hab, Hbc. destruct b as [|w b']; cbn in Hab, Hbc; [congruence|].
  destruct (N.compare y w) eqn:E1; [|exfalso|congruence].
  - apply N.compare_eq in E1. subst w. rewrite N.compare_refl in Hbc. cbn. rewrite N.eqb_refl. cbn.
    exact (IH a' b' c' Ha2 Hc2 Hab Hbc).
  - rewrite N.compare_antisym, E1 in Hbc. cbn in Hbc. congruence.
Qed.

Lemma has_prefix_length p : forall n, has_prefix n p = true -> (length p <= length n)%nat.
Proof.
  induction p as [|y ps IH]; intros n H; cbn; [lia|]. destruct n as [|x ns]; cbn in H; [discriminate|].
  apply andb_prop in H. destruct H as [_ H]. apply IH in H. cbn. lia.
Qed.

Lemma has_prefix_app_self p x : has_prefix (p ++ x) p = true.
Proof. induction p as [|y ps IH]; cbn; [apply has_prefix_nil|]. rewrite N.eqb_refl. exact IH. Qed.

Lemma has_prefix_refl p : has_prefix p p = true.
Proof. induction p as [|y ps IH]; cbn; [reflexivity|]. rewrite N.eqb_refl. exact IH. Qed.

(* two strings that agree on an initial segment at least as long as [sep] start with [sep] alike *)
Lemma has_prefix_trunc sep : forall t q, has_prefix t q = true -> (length sep <= length q)%nat ->
  has_prefix t sep = has_prefix q sep.
Proof.
  induction sep as [|y ss IH]; intros t q H L; [rewrite !has_prefix_nil; reflexivity|].
  destruct q as [|z q']; cbn in L; [lia|]. destruct t as [|w t']; cbn in H; [discriminate|].
  apply andb_prop in H. destruct H as [H1 H2]. apply N.eqb_eq in H1. subst w.
  cbn. f_equal. apply IH; [exact H2|lia].
Qed.

Lemma has_prefix_firstn_ge p : forall n k, has_prefix n p = true -> (length p <= k)%nat ->
  has_prefix (firstn k n) p = true.
Proof.
  induction p as [|y ps IH]; intros n k H L; [apply has_prefix_nil|].
  destruct n as [|x ns]; cbn in H; [discriminate|]. destruct k as [|k]; cbn in L; [lia|].
  apply andb_prop in H. destruct H as [H1 H2]. cbn. rewrite H1. cbn. apply IH; [exact H2|lia].
Qed.

Lemma has_prefix_skipn k : forall n p, has_prefix n p = true -> has_prefix (skipn k n) (skipn k p) = true.
Proof.
  induction k as [|k IH]; intros n p H; [exact H|].
  destruct p as [|y ps]; [cbn; apply has_prefix_nil|]. destruct n as [|x ns]; cbn in H; [discriminate|].
  apply andb_prop in H. destruct H as [_ H]. cbn. apply IH. exact H.
Qed.

Lemma firstn_plus {A} a b : forall l : list A, firstn (a + b) l = firstn a l ++ firstn b (skipn a l).
Proof.
  induction a as [|a IH]; intros l; [reflexivity|]. destruct l as [|x l]; cbn; [rewrite firstn_nil; reflexivity|].
  f_equal. apply IH.
Qed.

Lemma skipn_add {A} a : forall b (l : list A), skipn b (skipn a l) = skipn (a + b) l.
Proof.
  induction a as [|a IH]; intros b l; [reflexivity|]. destruct l as [|x l]; cbn; [apply skipn_nil|]. apply IH.
Qed.

Lemma index_of_unfold s sep :
  index_of s sep = if has_prefix s sep then Some 0%nat
                   else match s with
                        | [] => None
                        | _ :: r => match index_of r sep with Some n => Some (S n) | None => None end
                        end.
Proof. destruct s; reflexivity. Qed.

Lemma index_of_bound s : forall sep pos, index_of s sep = Some pos -> (pos + length sep <= length s)%nat.
Proof.
  induction s as [|x r IH]; intros sep pos H; rewrite index_of_unfold in H.
  - destruct (has_prefix [] sep) eqn:E; [|discriminate]. injection H as <-. apply has_prefix_length in E. lia.
  - destruct (has_prefix (x :: r) sep) eqn:E.
    + injection H as <-. apply has_prefix_length in E. lia.
    + destruct (index_of r sep) as [n|] eqn:En; [|discriminate]. injection H as <-. apply IH in En. cbn. lia.
Qed.

Lemma index_of_at s : forall sep pos, index_of s sep = Some pos -> has_prefix (skipn pos s) sep = true.
Proof.
  induction s as [|x r IH]; intros sep pos H; rewrite index_of_unfold in H.
  - destruct (has_prefix [] sep) eqn:E; [|discriminate]. injection H as <-. exact E.
  - destruct (has_prefix (x :: r) sep) eqn:E.
    + injection H as <-. exact E.
    + destruct (index_of r sep) as [n|] eqn:En; [|discriminate]. injection H as <-. cbn. apply IH. exact En.
Qed.

(* the first occurrence of [sep] is determined by the text up to its end *)
Lemma index_of_ext s : forall sep pos t, index_of s sep = Some pos ->
  has_prefix t (firstn (pos + length sep) s) = true -> index_of t sep = Some pos.
Proof.
  induction s as [|x r IH]; intros sep pos t H Ht; rewrite index_of_unfold in H.
  - destruct (has_prefix [] sep) eqn:E; [|discriminate]. injection H as <-.
    destruct sep; [|discriminate]. rewrite index_of_unfold, has_prefix_nil. reflexivity.
  - destruct (has_prefix (x :: r) sep) eqn:E.
    + injection H as <-. cbn [plus] in Ht. rewrite (has_prefix_firstn sep _ E) in Ht.
      rewrite index_of_unfold, Ht. reflexivity.
    + destruct (index_of r sep) as [n|] eqn:En; [|discriminate]. injection H as <-.
      pose proof (index_of_bound _ _ _ En) as Hb.
      cbn [plus firstn] in Ht. destruct t as [|w t']; cbn in Ht; [discriminate|].
      apply andb_prop in Ht. destruct Ht as [Hw Ht]. apply N.eqb_eq in Hw. subst w.
      set (Q := x :: firstn (n + length sep) r).
      assert (HQ : (length sep <= length Q)%nat) by (unfold Q; cbn [length]; rewrite firstn_length; lia).
      assert (E1 : has_prefix (x :: t') sep = has_prefix Q sep).
      { apply has_prefix_trunc; [|exact HQ]. unfold Q. cbn. rewrite N.eqb_refl. exact Ht. }
      assert (E2 : has_prefix (x :: r) sep = has_prefix Q sep).
      { apply has_prefix_trunc; [|exact HQ]. unfold Q. cbn. rewrite N.eqb_refl. apply has_prefix_of_firstn. }
      rewrite index_of_unfold, E1, <- E2, E. rewrite (IH sep n t' En Ht). reflexivity.
Qed.

(* ---- collapsed prefixes ---- *)

Lemma collapse_of_eq delim prefix n : has_prefix n prefix = true ->
  collapse_of delim prefix n = collapse prefix delim n.
Proof. intros H. unfold collapse_of, collapse, trim_prefix. rewrite H. reflexivity. Qed.

(* what a collapsed prefix P of a name n looks like *)
Lemma collapse_shape delim prefix n P :
  has_prefix n prefix = true -> collapse_of delim prefix n = Some P ->
  exists pos, delim <> [] /\ index_of (skipn (length prefix) n) delim = Some pos
    /\ P = firstn (length prefix + pos + length delim) n
    /\ length P = (length prefix + pos + length delim)%nat
    /\ has_prefix P prefix = true /\ has_prefix n P = true
    /\ skipn (length prefix) P = firstn (pos + length delim) (skipn (length prefix) n).
Proof.
  intros Hn Hc. unfold collapse_of, trim_prefix in Hc. rewrite Hn in Hc.
  destruct delim as [|d0 dl]; [discriminate|].
  destruct (index_of (skipn (length prefix) n) (d0 :: dl)) as [pos|] eqn:Ei; [|discriminate].
  injection Hc as <-. exists pos. split; [discriminate|]. split; [reflexivity|]. split; [reflexivity|].
  pose proof (index_of_bound _ _ _ Ei) as Hb. rewrite skipn_length in Hb.
  pose proof (has_prefix_length _ _ Hn) as Hl.
  split; [rewrite firstn_length; cbn [length] in *; lia|].
  split; [apply has_prefix_firstn_ge; [exact Hn|lia]|].
  split; [apply has_prefix_of_firstn|].
  rewrite skipn_firstn_comm. f_equal. cbn [length]. lia.
Qed.

(* a collapsed prefix collapses into itself ... *)
Lemma collapse_self delim prefix n P :
  has_prefix n prefix = true -> collapse_of delim prefix n = Some P -> collapse_of delim prefix P = Some P.
Proof.
  intros Hn Hc. destruct (collapse_shape _ _ _ _ Hn Hc) as [pos [Hd [Ei [EP [HL [HPp [HnP Hsk]]]]]]].
  unfold collapse_of, trim_prefix. rewrite HPp. destruct delim as [|d0 dl]; [congruence|].
  assert (E : index_of (skipn (length prefix) P) (d0 :: dl) = Some pos).
  { eapply index_of_ext; [exact Ei|]. rewrite Hsk. apply has_prefix_refl. }
  rewrite E. f_equal. rewrite <- HL. apply firstn_all.
Qed.

(* ... every name below it (with the query prefix) collapses into it ... *)
Lemma collapse_member delim prefix n P m :
  has_prefix n prefix = true -> collapse_of delim prefix n = Some P ->
  has_prefix m prefix = true -> has_prefix m P = true -> collapse_of delim prefix m = Some P.
Proof.
  intros Hn Hc Hm HmP. destruct (collapse_shape _ _ _ _ Hn Hc) as [pos [Hd [Ei [EP [HL [HPp [HnP Hsk]]]]]]].
  unfold collapse_of, trim_prefix. rewrite Hm. destruct delim as [|d0 dl]; [congruence|].
  assert (E : index_of (skipn (length prefix) m) (d0 :: dl) = Some pos).
  { eapply index_of_ext; [exact Ei|]. rewrite <- Hsk. apply has_prefix_skipn. exact HmP. }
  rewrite E. f_equal. rewrite <- HL. apply has_prefix_firstn. exact HmP.
Qed.

(* ... and as a page token it is recognised as a group to skip *)
Lemma skip_group_collapsed delim prefix n P :
  has_prefix n prefix = true -> collapse_of delim prefix n = Some P -> skip_group delim P prefix = Some P.
Proof.
  intros Hn Hc. destruct (collapse_shape _ _ _ _ Hn Hc) as [pos [Hd [Ei [EP [HL [HPp [HnP Hsk]]]]]]].
  unfold skip_group. destruct delim as [|d0 dl]; [congruence|]. rewrite HPp.
  assert (Hsuf : has_suffix P (d0 :: dl) = true).
  { unfold has_suffix. rewrite EP. rewrite firstn_plus, rev_app_distr.
    apply index_of_at in Ei. rewrite skipn_add in Ei. apply has_prefix_firstn in Ei.
    rewrite Ei. apply has_prefix_app_self. }
  rewrite Hsuf. cbn [andb].
  assert (E : index_of (skipn (length prefix) P) (d0 :: dl) = Some pos).
  { eapply index_of_ext; [exact Ei|]. rewrite Hsk. apply has_prefix_refl. }
  rewrite E. rewrite HL. replace (pos + length prefix + length (d0 :: dl))%nat with (length prefix + pos + length (d0 :: dl))%nat by lia.
  rewrite Nat.eqb_refl. reflexivity.
Qed.

(* the name of an item is never mistaken for a group *)
Lemma skip_group_item delim prefix n :
  has_prefix n prefix = true -> collapse_of delim prefix n = None -> skip_group delim n prefix = None.
Proof.
  intros Hn Hc. unfold collapse_of, trim_prefix in Hc. rewrite Hn in Hc. unfold skip_group.
  destruct delim as [|d0 dl]; [reflexivity|].
  destruct (index_of (skipn (length prefix) n) (d0 :: dl)); [discriminate|].
  destruct (has_prefix n prefix && has_suffix n (d0 :: dl)); reflexivity.
Qed.

Lemma skip_group_nil delim prefix : skip_group delim [] prefix = None.
Proof.
  unfold skip_group. destruct delim as [|d0 dl]; [reflexivity|].
  destruct (has_prefix [] prefix && has_suffix [] (d0 :: dl)); [|reflexivity].
  rewrite skipn_nil, index_of_unfold. reflexivity.
Qed.

(* ================================================================== *)
(* 7. Keys: every name stands for one entry of the listing              *)

(* the entry a name contributes: itself (an item) or the prefix it collapses into *)
Definition tkey (delim prefix n : str) : str * bool :=
  match collapse_of delim prefix n with Some p => (p, true) | None => (n, false) end.

(* what the walk lets through to the counting part of the step *)
Definition keep (delim cursor prefix n : str) : bool :=
  lex_ltb cursor n && has_prefix n prefix
  && negb (match skip_group delim cursor prefix with Some g => has_prefix n g | None => false end).

(* the cursors that occur when the tokens are followed: none, or the key of a name *)
Definition good_cursor (delim prefix c : str) : Prop :=
  c = [] \/ exists m, has_prefix m prefix = true /\ c = fst (tkey delim prefix m).

Lemma lex_ltb_false_le a b : lex_ltb a b = false -> lex_le b a.
Proof. intros H. apply lex_not_lt_le. intros Hlt. apply lex_ltb_lt in Hlt. congruence. Qed.

Lemma lex_ltb_le_trans a b c : lex_ltb a b = true -> lex_le b c -> lex_ltb a c = true.
Proof. intros H1 H2. apply lex_ltb_lt. eapply lex_lt_le_trans; [apply lex_ltb_lt; exact H1|exact H2]. Qed.

(* KEY LEMMA: resuming from the key c of an entry lets through exactly the names whose key is
   greater than c — whether c is an item (names after it) or a collapsed prefix (names after it
   that are not below it) *)
Lemma keep_key delim prefix c n : good_cursor delim prefix c -> has_prefix n prefix = true ->
  keep delim c prefix n = lex_ltb c (fst (tkey delim prefix n)).
Proof.
  intros Hc Hn. unfold keep. rewrite Hn, andb_true_r. destruct Hc as [->|[m [Hm Ec]]].
  - rewrite skip_group_nil. cbn [negb]. rewrite andb_true_r. unfold tkey.
    destruct (collapse_of delim prefix n) as [P|] eqn:Cn; [|reflexivity]. cbn [fst].
    destruct (collapse_shape _ _ _ _ Hn Cn) as [pos [Hd [_ [_ [HL [_ [HnP _]]]]]]].
    destruct P as [|p0 P']; [destruct delim; [congruence|cbn in HL; lia]|].
    destruct n as [|n0 n']; [discriminate|]. reflexivity.
  - unfold tkey in Ec. destruct (collapse_of delim prefix m) as [Q|] eqn:Cm; cbn [fst] in Ec; subst c.
    + rewrite (skip_group_collapsed _ _ _ _ Hm Cm).
      destruct (collapse_shape _ _ _ _ Hm Cm) as [_ [_ [_ [_ [_ [HQp _]]]]]].
      destruct (has_prefix n Q) eqn:HnQ; cbn [negb].
      * rewrite andb_false_r. unfold tkey. rewrite (collapse_member _ _ _ _ _ Hm Cm Hn HnQ). cbn [fst].
        symmetry. apply lex_ltb_irrefl.
      * rewrite andb_true_r. unfold tkey. destruct (collapse_of delim prefix n) as [P|] eqn:Cn; [|reflexivity].
        cbn [fst]. destruct (collapse_shape _ _ _ _ Hn Cn) as [_ [_ [_ [_ [_ [_ [HnP _]]]]]]].
        pose proof (has_prefix_le _ _ HnP) as HPn.
        destruct (lex_ltb Q n) eqn:A, (lex_ltb Q P) eqn:B; try reflexivity; exfalso.
        -- apply lex_ltb_false_le in B. apply lex_ltb_lt in A.
           assert (HQP : has_prefix Q P = true).
           { eapply (has_prefix_between P P Q n); [apply has_prefix_refl|exact HnP|exact B|apply lex_lt_le; exact A]. }
           pose proof (collapse_member _ _ _ _ _ Hn Cn HQp HQP) as E1.
           pose proof (collapse_self _ _ _ _ Hm Cm) as E2. rewrite E1 in E2. injection E2 as ->. congruence.
        -- rewrite (lex_ltb_le_trans _ _ _ B HPn) in A. discriminate.
    + rewrite (skip_group_item _ _ _ Hm Cm). cbn [negb]. rewrite andb_true_r. unfold tkey.
      destruct (collapse_of delim prefix n) as [P|] eqn:Cn; [|reflexivity]. cbn [fst].
      destruct (collapse_shape _ _ _ _ Hn Cn) as [_ [_ [_ [_ [_ [_ [HnP _]]]]]]].
      pose proof (has_prefix_le _ _ HnP) as HPn.
      destruct (lex_ltb m n) eqn:A, (lex_ltb m P) eqn:B; try reflexivity; exfalso.
      * apply lex_ltb_false_le in B. apply lex_ltb_lt in A.
        assert (HmP : has_prefix m P = true).
        { eapply (has_prefix_between P P m n); [apply has_prefix_refl|exact HnP|exact B|apply lex_lt_le; exact A]. }
        rewrite (collapse_member _ _ _ _ _ Hn Cn Hm HmP) in Cm. discriminate.
      * rewrite (lex_ltb_le_trans _ _ _ B HPn) in A. discriminate.
Qed.

(* the order on entries: strictly ascending keys, or the same collapsed prefix again *)
Definition kle (a b : str * bool) : Prop := lex_lt (fst a) (fst b) \/ (a = b /\ snd a = true).

(* names below a collapsed prefix are contiguous: the key is monotone *)
Lemma tkey_mono delim prefix n m : has_prefix n prefix = true -> has_prefix m prefix = true ->
  lex_lt n m -> kle (tkey delim prefix n) (tkey delim prefix m).
Proof.
  intros Hn Hm Hnm. unfold kle, tkey.
  destruct (collapse_of delim prefix n) as [P|] eqn:Cn, (collapse_of delim prefix m) as [Q|] eqn:Cm; cbn [fst snd].
  - destruct (collapse_shape _ _ _ _ Hn Cn) as [_ [_ [_ [_ [_ [HPp [HnP _]]]]]]].
    destruct (collapse_shape _ _ _ _ Hm Cm) as [_ [_ [_ [_ [_ [HQp [HmQ _]]]]]]].
    destruct (lex_ltb P Q) eqn:B; [left; apply lex_ltb_lt; exact B|]. right. split; [|reflexivity].
    apply lex_ltb_false_le in B.
    assert (HPQ : has_prefix P Q = true).
    { eapply (has_prefix_between Q Q P m); [apply has_prefix_refl|exact HmQ|exact B|].
      eapply lex_le_trans; [apply has_prefix_le; exact HnP|apply lex_lt_le; exact Hnm]. }
    pose proof (collapse_member _ _ _ _ _ Hm Cm HPp HPQ) as E1.
    pose proof (collapse_self _ _ _ _ Hn Cn) as E2. rewrite E1 in E2. injection E2 as ->. reflexivity.
  - left. destruct (collapse_shape _ _ _ _ Hn Cn) as [_ [_ [_ [_ [_ [_ [HnP _]]]]]]].
    eapply lex_le_lt_trans; [apply has_prefix_le; exact HnP|exact Hnm].
  - left. destruct (collapse_shape _ _ _ _ Hm Cm) as [_ [_ [_ [_ [_ [_ [HmQ _]]]]]]].
    destruct (lex_ltb n Q) eqn:B; [apply lex_ltb_lt; exact B|]. exfalso. apply lex_ltb_false_le in B.
    assert (HnQ : has_prefix n Q = true).
    { eapply (has_prefix_between Q Q n m); [apply has_prefix_refl|exact HmQ|exact B|apply lex_lt_le; exact Hnm]. }
    rewrite (collapse_member _ _ _ _ _ Hm Cm Hn HnQ) in Cn. discriminate.
  - left. exact Hnm.
Qed.

Lemma tkeys_sorted delim prefix M : StronglySorted lex_lt M -> Forall (fun n => has_prefix n prefix = true) M ->
  StronglySorted kle (map (tkey delim prefix) M).
Proof.
  induction 1 as [|n M Hs IH Hall]; intros Hp; cbn [map]; [constructor|].
  inversion Hp as [|x y Hn HpM]; subst. constructor; [apply IH; exact HpM|].
  rewrite Forall_forall in *. intros k Hk. apply in_map_iff in Hk. destruct Hk as [m [<- Hm]].
  apply tkey_mono; auto.
Qed.

(* ================================================================== *)
(* 8. One page of the walk, for any delimiter                           *)

(* the counting part of the walk, on the keys of the names let through *)
Fixpoint pgk (maxres c : nat) (fnd prs : list str) (lst : option str) (K : list (str * bool))
  : list str * list str * bool * option str :=
  match K with
  | [] => (fnd, prs, false, lst)
  | (k, true) :: K' =>
      if existsb (beqb k) prs then pgk maxres c fnd prs lst K'
      else if (maxres <=? c)%nat then (fnd, prs, true, lst)
      else pgk maxres (S c) fnd (k :: prs) (Some k) K'
  | (k, false) :: K' =>
      if (maxres <=? c)%nat then (fnd, prs, true, lst)
      else pgk maxres (S c) (k :: fnd) prs (Some k) K'
  end.

Lemma list_step_file delim cursor prefix maxres c fnd prs lst f :
  list_step delim cursor prefix maxres (mkLacc c fnd prs false None false lst) (f, false) =
  if greater_than_prefix f prefix then mkLacc c fnd prs false None true lst
  else if keep delim cursor prefix f
       then match collapse_of delim prefix f with
            | Some ip => if existsb (beqb ip) prs then mkLacc c fnd prs false None false lst
                         else if (maxres <=? c)%nat then mkLacc c fnd prs true None true lst
                         else mkLacc (S c) fnd (ip :: prs) false None false (Some ip)
            | None => if (maxres <=? c)%nat then mkLacc c fnd prs true None true lst
                      else mkLacc (S c) (f :: fnd) prs false None false (Some f)
            end
       else mkLacc c fnd prs false None false lst.
Proof.
  unfold list_step, keep. cbn [la_done la_skip la_count la_found la_prefixes la_more la_last].
  rewrite lex_ltb_leb.
  destruct (greater_than_prefix f prefix); [reflexivity|].
  destruct (lex_leb f cursor); cbn [negb andb]; [reflexivity|].
  destruct (has_prefix f prefix); cbn [negb andb]; [|reflexivity].
  destruct (match skip_group delim cursor prefix with Some g => has_prefix f g | None => false end); cbn [negb]; [reflexivity|].
  destruct (collapse_of delim prefix f) as [ip|].
  - destruct (existsb (beqb ip) prs); [reflexivity|]. destruct (maxres <=? c)%nat; reflexivity.
  - destruct (maxres <=? c)%nat; reflexivity.
Qed.

Lemma filter_keep_none delim cursor prefix l :
  Forall (fun g => greater_than_prefix g prefix = true /\ has_prefix g prefix = false) l ->
  filter (keep delim cursor prefix) l = [].
Proof.
  induction 1 as [|g l [_ Hg] _ IH]; [reflexivity|]. cbn [filter]. unfold keep at 1.
  rewrite Hg, andb_false_r. cbn [andb]. exact IH.
Qed.

Lemma walk_delim delim cursor prefix maxres names :
  StronglySorted lex_lt names -> forall c fnd prs lst,
  let a := fold_left (list_step delim cursor prefix maxres) (ents names)
                     (mkLacc c fnd prs false None false lst) in
  (la_found a, la_prefixes a, la_more a, la_last a)
  = pgk maxres c fnd prs lst (map (tkey delim prefix) (filter (keep delim cursor prefix) names)).
Proof.
  induction names as [|f rest IH]; intros Hs c fnd prs lst; cbn zeta; [reflexivity|].
  change (ents (f :: rest)) with ((f, false) :: ents rest). cbn [fold_left]. rewrite list_step_file.
  destruct (greater_than_prefix f prefix) eqn:Hg.
  - rewrite fold_done by reflexivity.
    rewrite (filter_keep_none delim cursor prefix (f :: rest)) by (apply prefix_abort_sound; assumption).
    reflexivity.
  - apply StronglySorted_inv in Hs. destruct Hs as [Hs _]. cbn [filter].
    destruct (keep delim cursor prefix f) eqn:Hk; [|apply IH; exact Hs].
    cbn [map]. unfold tkey at 1. destruct (collapse_of delim prefix f) as [ip|]; cbn [pgk].
    + destruct (existsb (beqb ip) prs); [apply IH; exact Hs|].
      destruct (maxres <=? c)%nat; [rewrite fold_done by reflexivity; reflexivity|apply IH; exact Hs].
    + destruct (maxres <=? c)%nat; [rewrite fold_done by reflexivity; reflexivity|apply IH; exact Hs].
Qed.

(* the entries of a listing: items, and each collapsed prefix once *)
Fixpoint evk (seen : list str) (K : list (str * bool)) : list (str * bool) :=
  match K with
  | [] => []
  | (k, true) :: K' => if existsb (beqb k) seen then evk seen K' else (k, true) :: evk (k :: seen) K'
  | (k, false) :: K' => (k, false) :: evk seen K'
  end.

Definition ev_items (E : list (str * bool)) : list str := map fst (filter (fun e => negb (snd e)) E).
Definition ev_prefixes (E : list (str * bool)) : list str := map fst (filter snd E).
Definition ev_last (E : list (str * bool)) (d : option str) : option str :=
  match rev E with e :: _ => Some (fst e) | [] => d end.

Lemma ev_last_cons e E d : ev_last (e :: E) d = ev_last E (Some (fst e)).
Proof. unfold ev_last. cbn [rev]. destruct (rev E); reflexivity. Qed.

(* a page = the first (maxres - c) entries not yet on the page; more iff an entry is left over *)
Lemma pgk_spec maxres K : forall c fnd prs lst, (c <= maxres)%nat ->
  pgk maxres c fnd prs lst K
  = let E := evk prs K in
    let pg := firstn (maxres - c) E in
    (rev (ev_items pg) ++ fnd, rev (ev_prefixes pg) ++ prs, (maxres - c <? length E)%nat, ev_last pg lst).
Proof.
  induction K as [|[k [|]] K' IH]; intros c fnd prs lst Hc; cbn zeta.
  - cbn. rewrite firstn_nil. reflexivity.
  - cbn [pgk evk]. destruct (existsb (beqb k) prs); [apply IH; exact Hc|].
    destruct (Nat.leb_spec maxres c) as [Hle|Hlt].
    + replace (maxres - c)%nat with 0%nat by lia. reflexivity.
    + rewrite IH by lia. cbn zeta. replace (maxres - c)%nat with (S (maxres - S c)) by lia.
      cbn [firstn length]. rewrite ev_last_cons. unfold ev_items, ev_prefixes. cbn [filter snd negb map fst rev].
      rewrite <- app_assoc. reflexivity.
  - cbn [pgk evk]. destruct (Nat.leb_spec maxres c) as [Hle|Hlt].
    + replace (maxres - c)%nat with 0%nat by lia. reflexivity.
    + rewrite IH by lia. cbn zeta. replace (maxres - c)%nat with (S (maxres - S c)) by lia.
      cbn [firstn length]. rewrite ev_last_cons. unfold ev_items, ev_prefixes. cbn [filter snd negb map fst rev].
      rewrite <- app_assoc. reflexivity.
Qed.

(* ONE PAGE, any delimiter, any cursor: the first maxres entries (items, and collapsed prefixes
   once each) of the names let through; more iff there is a further entry; last = key of the
   last entry on the page *)
Theorem page_delim_spec delim cursor prefix maxres names :
  StronglySorted lex_lt names ->
  let E := evk [] (map (tkey delim prefix) (filter (keep delim cursor prefix) names)) in
  let pg := firstn maxres E in
  list_walk delim cursor prefix maxres (ents names)
  = (ev_items pg, ev_prefixes pg, (maxres <? length E)%nat, ev_last pg None).
Proof.
  intros Hs. cbn zeta. unfold list_walk.
  pose proof (walk_delim delim cursor prefix maxres names Hs 0 [] [] None) as H. cbn zeta in H.
  rewrite pgk_spec in H by lia. cbn zeta in H. rewrite Nat.sub_0_r, !app_nil_r in H.
  injection H as H1 H2 H3 H4. rewrite H1, H2, H3, H4, !rev_involutive. reflexivity.
Qed.

(* ================================================================== *)
(* 9. The entries of the whole listing                                   *)

Definition klt (a b : str * bool) : Prop := lex_lt (fst a) (fst b).
Definition gtk (c : str) (e : str * bool) : bool := lex_ltb c (fst e).

Lemma evk_in seen K : forall e, In e (evk seen K) ->
  In e K /\ (snd e = true -> existsb (beqb (fst e)) seen = false).
Proof.
  revert seen. induction K as [|[k [|]] K' IH]; intros seen e H; cbn [evk] in H; [destruct H| |].
  - destruct (existsb (beqb k) seen) eqn:Ex.
    + destruct (IH _ _ H) as [H1 H2]. split; [right; exact H1|exact H2].
    + destruct H as [<-|H]; [split; [left; reflexivity|intros _; exact Ex]|].
      destruct (IH _ _ H) as [H1 H2]. split; [right; exact H1|]. intros Hs. specialize (H2 Hs).
      cbn [existsb] in H2. apply orb_false_elim in H2. apply H2.
  - destruct H as [<-|H]; [split; [left; reflexivity|discriminate]|].
    destruct (IH _ _ H) as [H1 H2]. split; [right; exact H1|exact H2].
Qed.

(* ascending keys with repeated collapsed prefixes -> strictly ascending entries *)
Lemma evk_sorted K : StronglySorted kle K -> forall seen, StronglySorted klt (evk seen K).
Proof.
  induction 1 as [|[k b] K' Hs IH Hall]; intros seen; cbn [evk]; [constructor|].
  assert (Hhead : forall seen', (b = true -> existsb (beqb k) seen' = true) ->
                  Forall (klt (k, b)) (evk seen' K')).
  { intros seen' Hseen. rewrite Forall_forall in *. intros e He. apply evk_in in He. destruct He as [He1 He2].
    destruct (Hall e He1) as [Hlt|[<- Hb]]; [exact Hlt|]. cbn [snd fst] in *. subst b.
    rewrite (Hseen eq_refl) in He2. specialize (He2 eq_refl). discriminate. }
  destruct b.
  - destruct (existsb (beqb k) seen); [apply IH|]. constructor; [apply IH|]. apply Hhead. intros _.
    cbn [existsb]. rewrite beqb_refl. reflexivity.
  - constructor; [apply IH|]. apply Hhead. discriminate.
Qed.

(* a filter on entries commutes with the de-duplication *)
Lemma evk_filter_seen (p : str * bool -> bool) K : forall s1 s2,
  (forall y, p (y, true) = true -> existsb (beqb y) s1 = existsb (beqb y) s2) ->
  filter p (evk s1 K) = filter p (evk s2 K).
Proof.
  induction K as [|[k [|]] K' IH]; intros s1 s2 Hs; cbn [evk]; [reflexivity| |].
  - destruct (p (k, true)) eqn:Pk.
    + rewrite (Hs k Pk). destruct (existsb (beqb k) s2); [apply IH; exact Hs|].
      cbn [filter]. rewrite Pk. f_equal. apply IH. intros y Py. cbn [existsb]. rewrite (Hs y Py). reflexivity.
    + assert (Hstep : forall s1' s2', (s1' = s1 \/ s1' = k :: s1) -> (s2' = s2 \/ s2' = k :: s2) ->
                       filter p (evk s1' K') = filter p (evk s2' K')).
      { intros s1' s2' H1 H2. apply IH. intros y Py.
        assert (Hyk : beqb y k = false).
        { destruct (beqb y k) eqn:E; [|reflexivity]. apply beqb_eq in E. subst y. congruence. }
        destruct H1 as [->| ->], H2 as [->| ->]; cbn [existsb]; rewrite ?Hyk; cbn [orb]; apply Hs; exact Py. }
      destruct (existsb (beqb k) s1), (existsb (beqb k) s2); cbn [filter]; rewrite ?Pk; apply Hstep; auto.
  - cbn [filter]. destruct (p (k, false)); [f_equal|]; apply IH; exact Hs.
Qed.

Lemma evk_filter (p : str * bool -> bool) K : forall seen,
  evk seen (filter p K) = filter p (evk seen K).
Proof.
  induction K as [|[k [|]] K' IH]; intros seen; cbn [evk filter]; [reflexivity| |].
  - destruct (p (k, true)) eqn:Pk; cbn [evk].
    + destruct (existsb (beqb k) seen); [apply IH|]. cbn [filter]. rewrite Pk. f_equal. apply IH.
    + destruct (existsb (beqb k) seen); [apply IH|]. cbn [filter]. rewrite Pk. rewrite IH.
      apply evk_filter_seen. intros y Py. cbn [existsb].
      destruct (beqb y k) eqn:E; [|reflexivity]. apply beqb_eq in E. subst y. congruence.
  - destruct (p (k, false)) eqn:Pk; cbn [evk filter]; rewrite ?Pk; [f_equal|]; apply IH.
Qed.

Lemma map_filter_comm {A B} (f : A -> B) (p : B -> bool) l :
  map f (filter (fun x => p (f x)) l) = filter p (map f l).
Proof. induction l as [|x l IH]; cbn; [reflexivity|]. destruct (p (f x)); cbn; rewrite IH; reflexivity. Qed.

Lemma filter_ext_in' {A} (f g : A -> bool) l : (forall x, In x l -> f x = g x) -> filter f l = filter g l.
Proof.
  induction l as [|x l IH]; intros H; cbn; [reflexivity|]. rewrite (H x (or_introl eq_refl)).
  rewrite IH by (intros y Hy; apply H; right; exact Hy). reflexivity.
Qed.

(* the names with the query prefix, and the entries of the whole listing *)
Definition matching (prefix : str) (names : list str) : list str := filter (fun n => has_prefix n prefix) names.
Definition all_entries (delim prefix : str) (names : list str) : list (str * bool) :=
  evk [] (map (tkey delim prefix) (matching prefix names)).

Lemma keep_matching delim cursor prefix names : good_cursor delim prefix cursor ->
  filter (keep delim cursor prefix) names
  = filter (fun n => gtk cursor (tkey delim prefix n)) (matching prefix names).
Proof.
  intros Hc. unfold matching. induction names as [|n r IH]; [reflexivity|]. cbn [filter].
  destruct (has_prefix n prefix) eqn:Hn.
  - cbn [filter]. unfold gtk at 1. rewrite <- (keep_key delim prefix cursor n Hc Hn).
    destruct (keep delim cursor prefix n); rewrite IH; reflexivity.
  - assert (Hk : keep delim cursor prefix n = false) by (unfold keep; rewrite Hn, andb_false_r; reflexivity).
    rewrite Hk. exact IH.
Qed.

(* from a good cursor, the walk sees exactly the entries of the listing with a greater key *)
Lemma entries_from delim cursor prefix names : good_cursor delim prefix cursor ->
  evk [] (map (tkey delim prefix) (filter (keep delim cursor prefix) names))
  = filter (gtk cursor) (all_entries delim prefix names).
Proof.
  intros Hc. rewrite keep_matching by exact Hc. unfold all_entries.
  rewrite (map_filter_comm (tkey delim prefix) (gtk cursor)). apply evk_filter.
Qed.

Lemma matching_sorted prefix names : StronglySorted lex_lt names ->
  StronglySorted lex_lt (matching prefix names) /\ Forall (fun n => has_prefix n prefix = true) (matching prefix names).
Proof.
  intros Hs. split; [apply filter_sorted; exact Hs|]. rewrite Forall_forall. intros n Hn.
  apply filter_In in Hn. apply Hn.
Qed.

Lemma all_entries_sorted delim prefix names : StronglySorted lex_lt names ->
  StronglySorted klt (all_entries delim prefix names).
Proof.
  intros Hs. destruct (matching_sorted prefix names Hs) as [H1 H2]. apply evk_sorted. apply tkeys_sorted; assumption.
Qed.

(* every entry's key is the key of a matching name: a good cursor *)
Lemma all_entries_good delim prefix names e : In e (all_entries delim prefix names) ->
  good_cursor delim prefix (fst e).
Proof.
  intros H. apply evk_in in H. destruct H as [H _]. apply in_map_iff in H. destruct H as [m [<- Hm]].
  apply filter_In in Hm. right. exists m. split; [apply Hm|reflexivity].
Qed.

(* ---- sorted lists of entries ---- *)

Lemma klt_filter_sorted (f : str * bool -> bool) l : StronglySorted klt l -> StronglySorted klt (filter f l).
Proof.
  induction 1 as [|x l Hs IH Hall]; cbn [filter]; [constructor|].
  destruct (f x); [|exact IH]. constructor; [exact IH|].
  rewrite Forall_forall in *. intros y Hy. apply filter_In in Hy. apply Hall. apply Hy.
Qed.

Lemma klt_app_inv A e B : StronglySorted klt (A ++ e :: B) ->
  Forall (fun a => klt a e) A /\ Forall (klt e) B.
Proof.
  induction A as [|a A IH]; cbn [app]; intros Hs; apply StronglySorted_inv in Hs; destruct Hs as [Hs Hall].
  - split; [constructor|exact Hall].
  - destruct (IH Hs) as [I1 I2]. split; [|exact I2]. constructor; [|exact I1].
    rewrite Forall_forall in Hall. apply Hall. apply in_or_app. right. left. reflexivity.
Qed.

Lemma gtk_filter_after A e B : StronglySorted klt (A ++ e :: B) -> filter (gtk (fst e)) (A ++ e :: B) = B.
Proof.
  intros Hs. destruct (klt_app_inv A e B Hs) as [HA HB].
  rewrite filter_app. cbn [filter]. unfold gtk at 2. rewrite lex_ltb_irrefl.
  assert (E1 : filter (gtk (fst e)) A = []).
  { clear Hs HB. induction HA as [|a A Ha _ IH]; [reflexivity|]. cbn [filter]. unfold gtk at 1.
    rewrite (lex_lt_asym _ _ Ha). exact IH. }
  assert (E2 : filter (gtk (fst e)) B = B).
  { clear Hs HA E1. induction HB as [|x B Hx _ IH]; [reflexivity|]. cbn [filter]. unfold gtk at 1.
    apply lex_ltb_lt in Hx. rewrite Hx, IH. reflexivity. }
  rewrite E1, E2. reflexivity.
Qed.

Lemma gtk_refine c c' l : lex_ltb c c' = true -> filter (gtk c') l = filter (gtk c') (filter (gtk c) l).
Proof.
  intros Hcc. induction l as [|e r IH]; [reflexivity|]. cbn [filter].
  destruct (gtk c' e) eqn:H1.
  - assert (H2 : gtk c e = true).
    { unfold gtk in *. apply lex_ltb_lt. eapply lex_lt_trans; apply lex_ltb_lt; eassumption. }
    rewrite H2. cbn [filter]. rewrite H1, IH. reflexivity.
  - destruct (gtk c e); cbn [filter]; rewrite ?H1; exact IH.
Qed.

(* continuing from the key of the last entry of a page selects exactly what the page left over *)
Lemma next_page_entries c maxres EE e pre :
  StronglySorted klt EE ->
  rev (firstn maxres (filter (gtk c) EE)) = e :: pre ->
  filter (gtk (fst e)) EE = skipn maxres (filter (gtk c) EE).
Proof.
  intros Hs Hrev. set (F := filter (gtk c) EE) in *.
  assert (Hfirst : firstn maxres F = rev pre ++ [e]).
  { rewrite <- (rev_involutive (firstn maxres F)), Hrev. reflexivity. }
  assert (HF : F = rev pre ++ e :: skipn maxres F).
  { rewrite <- (firstn_skipn maxres F) at 1. rewrite Hfirst, <- app_assoc. reflexivity. }
  assert (Hin : In e F).
  { rewrite HF. apply in_or_app. right. left. reflexivity. }
  unfold F in Hin. apply filter_In in Hin. destruct Hin as [_ Hce]. unfold gtk in Hce.
  rewrite (gtk_refine c (fst e) EE Hce). fold F.
  assert (HsF : StronglySorted klt F) by (apply klt_filter_sorted; exact Hs).
  rewrite HF at 1. rewrite HF in HsF. apply gtk_filter_after. exact HsF.
Qed.

(* ================================================================== *)
(* 10. Following the page tokens, any delimiter                          *)

Record lpage := mkLpage { pg_items : list str; pg_prefixes : list str; pg_token : option str }.

(* take a page; while it carries a token (moreResults: the last entry of the page), continue from it *)
Fixpoint follow_delim (fuel : nat) (names : list str) (prefix delim cursor : str) (maxres : nat) : list lpage :=
  match fuel with
  | O => []
  | S fuel' =>
      let '(found, prefixes, more, last) := list_walk delim cursor prefix maxres (ents names) in
      match (if more then last else None) with
      | Some c => mkLpage found prefixes (Some c) :: follow_delim fuel' names prefix delim c maxres
      | None => [mkLpage found prefixes None]
      end
  end.

Definition all_items (pages : list lpage) : list str := concat (map pg_items pages).
Definition all_prefixes (pages : list lpage) : list str := concat (map pg_prefixes pages).
(* the chain of tokens ends: every page but the last carries a token, the last one none *)
Definition tokens_end (pages : list lpage) : Prop :=
  exists front lastpg, pages = front ++ [lastpg] /\ pg_token lastpg = None
                       /\ Forall (fun pg => pg_token pg <> None) front.

Lemma ev_items_app A B : ev_items (A ++ B) = ev_items A ++ ev_items B.
Proof. unfold ev_items. rewrite filter_app, map_app. reflexivity. Qed.
Lemma ev_prefixes_app A B : ev_prefixes (A ++ B) = ev_prefixes A ++ ev_prefixes B.
Proof. unfold ev_prefixes. rewrite filter_app, map_app. reflexivity. Qed.

Lemma ev_split_length E : (length (ev_items E) + length (ev_prefixes E) = length E)%nat.
Proof.
  unfold ev_items, ev_prefixes. rewrite !map_length. induction E as [|[k [|]] E IH]; cbn; lia.
Qed.

Lemma follow_delim_spec delim prefix maxres names :
  StronglySorted lex_lt names -> (1 <= maxres)%nat ->
  forall fuel cursor, good_cursor delim prefix cursor ->
  let E := filter (gtk cursor) (all_entries delim prefix names) in
  (length E < fuel)%nat ->
  let pages := follow_delim fuel names prefix delim cursor maxres in
  all_items pages = ev_items E /\ all_prefixes pages = ev_prefixes E
  /\ Forall (fun pg => (length (pg_items pg) + length (pg_prefixes pg) <= maxres)%nat) pages
  /\ tokens_end pages.
Proof.
  intros Hs Hmax. pose proof (all_entries_sorted delim prefix names Hs) as HsE.
  induction fuel as [|fuel IH]; intros cursor Hc; cbn zeta; intros Hlen; [lia|].
  cbn [follow_delim]. rewrite page_delim_spec by exact Hs. cbn zeta. rewrite entries_from by exact Hc.
  set (EE := all_entries delim prefix names) in *. set (E := filter (gtk cursor) EE) in *.
  assert (Hpg : (length (ev_items (firstn maxres E)) + length (ev_prefixes (firstn maxres E)) <= maxres)%nat).
  { rewrite ev_split_length, firstn_length. lia. }
  destruct (Nat.ltb_spec maxres (length E)) as [Hmore|Hnomore].
  - unfold ev_last. destruct (rev (firstn maxres E)) as [|e pre] eqn:Hrev.
    + exfalso. assert (Hl : length (rev (firstn maxres E)) = 0%nat) by (rewrite Hrev; reflexivity).
      rewrite rev_length, firstn_length in Hl. lia.
    + pose proof (next_page_entries cursor maxres EE e pre HsE Hrev) as Hnext. fold E in Hnext.
      assert (HinE : In e EE).
      { assert (H : In e (firstn maxres E)) by (apply in_rev; rewrite Hrev; left; reflexivity).
        apply in_firstn in H. unfold E in H. apply filter_In in H. apply H. }
      assert (Hc' : good_cursor delim prefix (fst e)) by (eapply all_entries_good; exact HinE).
      assert (Hlen' : (length (filter (gtk (fst e)) EE) < fuel)%nat).
      { rewrite Hnext, skipn_length. lia. }
      destruct (IH (fst e) Hc' Hlen') as [I1 [I2 [I3 I4]]].
      unfold all_items, all_prefixes in *. cbn [map concat pg_items pg_prefixes].
      rewrite I1, I2, Hnext, <- ev_items_app, <- ev_prefixes_app, firstn_skipn.
      split; [reflexivity|]. split; [reflexivity|]. split; [constructor; [exact Hpg|exact I3]|].
      destruct I4 as [front [lastpg [Ef [Hl Hfr]]]].
      exists (mkLpage (ev_items (firstn maxres E)) (ev_prefixes (firstn maxres E)) (Some (fst e)) :: front), lastpg.
      split; [rewrite Ef; reflexivity|]. split; [exact Hl|]. constructor; [discriminate|exact Hfr].
  - rewrite firstn_all2 by exact Hnomore. unfold all_items, all_prefixes. cbn [map concat pg_items pg_prefixes].
    rewrite !app_nil_r. split; [reflexivity|]. split; [reflexivity|].
    rewrite firstn_all2 in Hpg by exact Hnomore. split; [constructor; [exact Hpg|constructor]|].
    exists [], (mkLpage (ev_items E) (ev_prefixes E) None). split; [reflexivity|]. split; [reflexivity|constructor].
Qed.

(* ---- the entries against the independent specification (Oracles.expected_listing) ---- *)

Lemma entries_expected delim prefix M : Forall (fun n => has_prefix n prefix = true) M -> forall seen,
  ev_items (evk seen (map (tkey delim prefix) M))
  = filter (fun n => match collapse prefix delim n with None => true | Some _ => false end) M
  /\ ev_prefixes (evk seen (map (tkey delim prefix) M))
     = dedup_adj (flat_map (fun n => match collapse prefix delim n with Some p => [p] | None => [] end) M) seen.
Proof.
  induction 1 as [|n M Hn _ IH]; intros seen; [split; reflexivity|].
  cbn [map flat_map filter]. unfold tkey at 1 3. rewrite (collapse_of_eq delim prefix n Hn).
  destruct (collapse prefix delim n) as [p|]; cbn [evk app dedup_adj].
  - destruct (existsb (beqb p) seen); [apply IH|]. destruct (IH (p :: seen)) as [I1 I2].
    unfold ev_items, ev_prefixes in *. cbn [filter snd negb map fst]. rewrite I1, I2. split; reflexivity.
  - destruct (IH seen) as [I1 I2]. unfold ev_items, ev_prefixes in *. cbn [filter snd negb map fst].
    rewrite I1, I2. split; reflexivity.
Qed.

Lemma all_entries_expected delim prefix names :
  ev_items (all_entries delim prefix names) = fst (expected_listing names prefix delim)
  /\ ev_prefixes (all_entries delim prefix names) = snd (expected_listing names prefix delim).
Proof.
  unfold all_entries, expected_listing. cbn [fst snd]. apply entries_expected.
  rewrite Forall_forall. intros n Hn. apply filter_In in Hn. apply Hn.
Qed.

(* a listing without page token starts strictly after the empty name *)
Definition nonempty_names (names : list str) : list str := filter (fun n => negb (beqb n [])) names.

Lemma gtk_nil_tkey delim prefix n : has_prefix n prefix = true ->
  gtk [] (tkey delim prefix n) = negb (beqb n []).
Proof.
  intros Hn. unfold gtk. rewrite <- (keep_key delim prefix [] n (or_introl eq_refl) Hn).
  unfold keep. rewrite Hn, skip_group_nil. destruct n; reflexivity.
Qed.

Lemma entries_from_start delim prefix names :
  filter (gtk []) (all_entries delim prefix names) = all_entries delim prefix (nonempty_names names).
Proof.
  unfold all_entries. rewrite <- evk_filter, <- map_filter_comm. f_equal. f_equal.
  unfold matching, nonempty_names. induction names as [|n r IH]; [reflexivity|]. cbn [filter].
  destruct (has_prefix n prefix) eqn:Hn; cbn [filter].
  - rewrite (gtk_nil_tkey delim prefix n Hn). destruct (negb (beqb n [])); cbn [filter]; rewrite ?Hn, IH; reflexivity.
  - destruct (negb (beqb n [])); cbn [filter]; rewrite ?Hn; exact IH.
Qed.

Lemma evk_length K : forall seen, (length (evk seen K) <= length K)%nat.
Proof.
  induction K as [|[k [|]] K' IH]; intros seen; cbn [evk length]; [lia| |].
  - destruct (existsb (beqb k) seen); cbn [length]; [specialize (IH seen)|specialize (IH (k :: seen))]; lia.
  - specialize (IH seen). lia.
Qed.

Lemma all_entries_length delim prefix names : (length (all_entries delim prefix names) <= length names)%nat.
Proof.
  unfold all_entries, matching. etransitivity; [apply evk_length|]. rewrite map_length. apply filter_length_le.
Qed.

Lemma klt_map_fst E : StronglySorted klt E -> StronglySorted lex_lt (map fst E).
Proof.
  induction 1 as [|e E Hs IH Hall]; cbn [map]; [constructor|]. constructor; [exact IH|].
  rewrite Forall_forall in *. intros k Hk. apply in_map_iff in Hk. destruct Hk as [e' [<- He']]. apply Hall. exact He'.
Qed.

(* MAIN THEOREM (GCS-1 repaired).  For strictly ascending names (what the store invariant gives),
   ANY prefix, ANY delimiter (the empty one included) and any page size >= 1: following the page
   tokens from the empty cursor, with fuel S (length names),
   - the concatenated items are exactly the names with the prefix that do not collapse, in order;
   - the concatenated prefixes are exactly the distinct collapsed prefixes, in order of first
     occurrence: none is lost, none is repeated on a later page;
   - every page holds at most maxres items + prefixes;
   - the chain of tokens ends within the fuel: the last page, and only it, has no token;
   - items and prefixes come out strictly ascending, hence duplicate-free.
   The specification is Oracles.expected_listing, which knows nothing of the walk.  The only name
   not listed is the empty name "" (a listing without token starts strictly after ""; see
   paginate_with_delimiter_full_refuted): hence [nonempty_names].  Buckets of reachable states hold no
   such name (UploadProofs.reachable_names_nonempty): paginate_reachable_complete. *)
Theorem paginate_with_delimiter_complete prefix delim maxres names :
  StronglySorted lex_lt names -> (1 <= maxres)%nat ->
  let pages := follow_delim (S (length names)) names prefix delim [] maxres in
  let expected := expected_listing (nonempty_names names) prefix delim in
  all_items pages = fst expected
  /\ all_prefixes pages = snd expected
  /\ Forall (fun pg => (length (pg_items pg) + length (pg_prefixes pg) <= maxres)%nat) pages
  /\ tokens_end pages
  /\ StronglySorted lex_lt (all_items pages) /\ StronglySorted lex_lt (all_prefixes pages)
  /\ NoDup (all_items pages) /\ NoDup (all_prefixes pages).
Proof.
  intros Hs Hmax. cbn zeta.
  destruct (follow_delim_spec delim prefix maxres names Hs Hmax (S (length names)) [] (or_introl eq_refl))
    as [H1 [H2 [H3 H4]]].
  { apply Nat.lt_succ_r. etransitivity; [apply filter_length_le|apply all_entries_length]. }
  cbn zeta in H1, H2, H3, H4.
  destruct (all_entries_expected delim prefix (nonempty_names names)) as [X1 X2].
  rewrite entries_from_start in H1, H2.
  assert (HsE : StronglySorted klt (all_entries delim prefix (nonempty_names names))).
  { apply all_entries_sorted. apply filter_sorted. exact Hs. }
  assert (S1 : StronglySorted lex_lt (ev_items (all_entries delim prefix (nonempty_names names)))).
  { unfold ev_items. apply klt_map_fst, klt_filter_sorted, HsE. }
  assert (S2 : StronglySorted lex_lt (ev_prefixes (all_entries delim prefix (nonempty_names names)))).
  { unfold ev_prefixes. apply klt_map_fst, klt_filter_sorted, HsE. }
  rewrite H1, H2. split; [exact X1|]. split; [exact X2|]. split; [exact H3|]. split; [exact H4|].
  split; [exact S1|]. split; [exact S2|]. split; apply sorted_nodup; assumption.
Qed.

(* The statement asked for, against the listing of ALL names:

     Theorem paginate_with_delimiter_complete_full : forall prefix delim maxres names,
       StronglySorted lex_lt names -> delim <> [] -> (1 <= maxres)%nat ->
       let pages := follow_delim (S (length names)) names prefix delim [] maxres in
       all_items pages = fst (expected_listing names prefix delim)
       /\ all_prefixes pages = snd (expected_listing names prefix delim) /\ tokens_end pages.

   is FALSE exactly when the bucket holds an object with the empty name and the query prefix is
   empty (paginate_with_delimiter_full_refuted below); an object named "" would never be listed, but
   no request stores one (empty_name_rejected, empty_destination_rejected,
   reachable_names_nonempty).  With the exact guard: *)
Theorem paginate_with_delimiter_complete_partial prefix delim maxres names :
  StronglySorted lex_lt names -> (1 <= maxres)%nat ->
  (In [] names -> prefix <> []) ->
  let pages := follow_delim (S (length names)) names prefix delim [] maxres in
  let expected := expected_listing names prefix delim in
  all_items pages = fst expected
  /\ all_prefixes pages = snd expected
  /\ Forall (fun pg => (length (pg_items pg) + length (pg_prefixes pg) <= maxres)%nat) pages
  /\ tokens_end pages
  /\ StronglySorted lex_lt (all_items pages) /\ StronglySorted lex_lt (all_prefixes pages)
  /\ NoDup (all_items pages) /\ NoDup (all_prefixes pages).
Proof.
  intros Hs Hmax Hguard. cbn zeta.
  assert (E : expected_listing (nonempty_names names) prefix delim = expected_listing names prefix delim).
  { unfold expected_listing. 
    assert (Em : filter (fun n => has_prefix n prefix) (nonempty_names names) = filter (fun n => has_prefix n prefix) names).
    { unfold nonempty_names. clear Hs. induction names as [|n r IH]; [reflexivity|]. cbn [filter].
      assert (IH' := IH (fun H => Hguard (or_intror H))).
      destruct n as [|n0 n']; cbn [beqb negb filter].
      - destruct prefix as [|p0 p']; [exfalso; apply (Hguard (or_introl eq_refl)); reflexivity|].
        cbn [has_prefix]. exact IH'.
      - rewrite IH'. reflexivity. }
    rewrite Em. reflexivity. }
  rewrite <- E. apply paginate_with_delimiter_complete; assumption.
Qed.

(* the guard is needed: bucket {"", "a"}, prefix "", delimiter "/" — "" is expected, never listed *)
Lemma paginate_with_delimiter_full_refuted :
  let names := [[]; [97]]%N in
  StronglySorted lex_lt names
  /\ follow_delim (S (length names)) names [] [47]%N [] 5 = [mkLpage [[97]%N] [] None]
  /\ expected_listing names [] [47]%N = ([[]; [97]]%N, []).
Proof.
  cbn zeta. split; [repeat constructor|]. split; timeout 60 vm_compute; reflexivity.
Qed.

(* non-vacuity and illustration: names a, b/1, b/2, c, d/, d/x, e//y, e/z with delimiter "/", pages
   of two: [a, b/] [c, d/] [e/]; the object named "d/" (its own collapsed prefix) and the empty
   segment in "e//y" are covered *)
Example paginate_with_delimiter_example :
  let names := [[97]; [98; 47; 49]; [98; 47; 50]; [99]; [100; 47]; [100; 47; 120];
                [101; 47; 47; 121]; [101; 47; 122]]%N in
  StronglySorted lex_lt names
  /\ follow_delim (S (length names)) names [] [47]%N [] 2
     = [mkLpage [[97]%N] [[98; 47]%N] (Some [98; 47]%N);
        mkLpage [[99]%N] [[100; 47]%N] (Some [100; 47]%N);
        mkLpage [] [[101; 47]%N] None]
  /\ expected_listing names [] [47]%N = ([[97]; [99]]%N, [[98; 47]; [100; 47]; [101; 47]]%N)
  /\ follow_delim (S (length names)) names [101; 47]%N [47]%N [] 1
     = [mkLpage [] [[101; 47; 47]%N] (Some [101; 47; 47]%N); mkLpage [[101; 47; 122]%N] [] None].
Proof.
  cbn zeta. split.
  { repeat (constructor; [|repeat (constructor; [timeout 60 vm_compute; reflexivity|]); constructor]). constructor. }
  split; [timeout 60 vm_compute; reflexivity|]. split; timeout 60 vm_compute; reflexivity.
Qed.

(* ---- the same pagination driven through the handler ---- *)

(* a client following nextPageToken with the list request of the API *)
Fixpoint follow_handle (fuel : nat) (s : state) (b prefix delim : str) (cursor : option str) (ms : str)
  : list lpage :=
  match fuel with
  | O => []
  | S fuel' =>
      match r_body (snd (handle s (RList b prefix delim cursor (Some ms)))) with
      | BList items prefixes next =>
          mkLpage (map v_name items) prefixes next ::
          match next with
          | Some c => follow_handle fuel' s b prefix delim (Some c) ms
          | None => []
          end
      | _ => []
      end
  end.

Definition cur_of (cursor : option str) : str := match cursor with Some c => c | None => [] end.

Lemma follow_handle_eq s b prefix delim ms m bk :
  parse_int ms = Some m -> (1 <= m)%Z -> get_bucket s b = Some bk -> asorted bk ->
  forall fuel cursor,
  follow_handle fuel s b prefix delim cursor ms
  = follow_delim fuel (map fst bk) prefix delim (cur_of cursor) (Z.to_nat m).
Proof.
  intros Hp Hm Hb Hs. induction fuel as [|fuel IH]; intros cursor; [reflexivity|].
  cbn [follow_handle follow_delim].
  pose proof (handle_list_walk s b prefix delim cursor ms m bk Hp Hm Hb Hs) as H. lazy zeta in H.
  match type of H with context [list_walk ?a1 ?a2 ?a3 ?a4 ?a5] =>
    change (list_walk a1 a2 a3 a4 a5)
      with (list_walk delim (cur_of cursor) prefix (Z.to_nat m) (ents (map fst bk))) in H end.
  destruct (list_walk delim (cur_of cursor) prefix (Z.to_nat m) (ents (map fst bk))) as [[[found prs] more] last].
  destruct H as [items [Hh [Hn _]]]. subst found.
  match goal with |- context [r_body (snd ?h)] =>
    replace h with (s, mkResp 200 (BList items prs (if more then last else None))) by (symmetry; exact Hh) end.
  cbn [snd r_body].
  destruct (if more then last else None) as [c|]; [|reflexivity].
  rewrite (IH (Some c)). reflexivity.
Qed.

(* MAIN THEOREM at the handler: on a sorted bucket (every bucket of a reachable state), a client
   that follows the page tokens of the list request, for any prefix, any delimiter and
   maxResults = m >= 1, receives exactly the expected listing, once, and the tokens end *)
Theorem handle_pagination_complete s b prefix delim ms m bk :
  parse_int ms = Some m -> (1 <= m)%Z -> get_bucket s b = Some bk -> asorted bk ->
  let pages := follow_handle (S (length bk)) s b prefix delim None ms in
  let expected := expected_listing (nonempty_names (map fst bk)) prefix delim in
  all_items pages = fst expected
  /\ all_prefixes pages = snd expected
  /\ Forall (fun pg => (length (pg_items pg) + length (pg_prefixes pg) <= Z.to_nat m)%nat) pages
  /\ tokens_end pages
  /\ NoDup (all_items pages) /\ NoDup (all_prefixes pages).
Proof.
  intros Hp Hm Hb Hs. cbn zeta. rewrite (follow_handle_eq s b prefix delim ms m bk Hp Hm Hb Hs).
  change (cur_of None) with (@nil N). rewrite <- (map_length fst bk).
  destruct (paginate_with_delimiter_complete prefix delim (Z.to_nat m) (map fst bk)) as [H1 [H2 [H3 [H4 [_ [_ [H5 H6]]]]]]];
    [apply asorted_names; exact Hs|lia|]. cbn zeta in *.
  exact (conj H1 (conj H2 (conj H3 (conj H4 (conj H5 H6))))).
Qed.

(* ---- reachable states: no object is named "", the listing is complete as it stands ---- *)

Lemma nonempty_names_id names : ~ In [] names -> nonempty_names names = names.
Proof.
  unfold nonempty_names. induction names as [|n r IH]; intros H; [reflexivity|]. cbn [filter].
  destruct n as [|n0 n']; [exfalso; apply H; left; reflexivity|]. cbn [beqb negb].
  rewrite IH by (intros Hin; apply H; right; exact Hin). reflexivity.
Qed.

(* MAIN THEOREM on reachable states.  Every history from the empty store, every bucket of the
   reached state, any prefix, ANY delimiter, page size >= 1: following the page tokens yields exactly
   the expected listing of ALL the bucket's names (items and collapsed prefixes), once, in pages of
   at most maxres entries, and the tokens end.  No guard: buckets of reachable states are sorted
   (reachable_bucket_sorted) and hold no empty name (reachable_names_nonempty). *)
Theorem paginate_reachable_complete rs b bk prefix delim maxres :
  get_bucket (fst (run init_state rs)) b = Some bk -> (1 <= maxres)%nat ->
  let names := map fst bk in
  let pages := follow_delim (S (length names)) names prefix delim [] maxres in
  let expected := expected_listing names prefix delim in
  all_items pages = fst expected
  /\ all_prefixes pages = snd expected
  /\ Forall (fun pg => (length (pg_items pg) + length (pg_prefixes pg) <= maxres)%nat) pages
  /\ tokens_end pages
  /\ StronglySorted lex_lt (all_items pages) /\ StronglySorted lex_lt (all_prefixes pages)
  /\ NoDup (all_items pages) /\ NoDup (all_prefixes pages).
Proof.
  intros Hb Hmax. cbn zeta. apply paginate_with_delimiter_complete_partial.
  - apply asorted_names. eapply reachable_bucket_sorted; exact Hb.
  - exact Hmax.
  - intros Hin. exfalso. exact (reachable_names_nonempty rs b bk Hb Hin).
Qed.

(* the same for a client following nextPageToken through the handler on the reached state *)
Theorem handle_pagination_reachable rs b bk prefix delim ms m :
  let s := fst (run init_state rs) in
  get_bucket s b = Some bk -> parse_int ms = Some m -> (1 <= m)%Z ->
  let pages := follow_handle (S (length bk)) s b prefix delim None ms in
  let expected := expected_listing (map fst bk) prefix delim in
  all_items pages = fst expected
  /\ all_prefixes pages = snd expected
  /\ Forall (fun pg => (length (pg_items pg) + length (pg_prefixes pg) <= Z.to_nat m)%nat) pages
  /\ tokens_end pages
  /\ NoDup (all_items pages) /\ NoDup (all_prefixes pages).
Proof.
  cbn zeta. intros Hb Hp Hm.
  rewrite <- (nonempty_names_id (map fst bk)) at 1 2 by (eapply reachable_names_nonempty; eauto).
  apply handle_pagination_complete; auto. eapply reachable_bucket_sorted; exact Hb.
Qed.

(* non-vacuity: a history with uploads, a compose and a copy (and the two requests that used to
   store "", now refused); its bucket; the listing of the reached state through the handler *)
Example paginate_reachable_example :
  let cp := mkCP (PRaw []) (PRaw []) (PRaw []) (PRaw []) in
  let bk := [98]%N in
  let rs := [RUploadMedia bk [97; 47; 49]%N [116]%N [1]%N cp;
             RUploadMultipart bk (mkUpMeta [99]%N [116]%N 0 []) [2]%N cp;
             RCompose bk [97; 47; 50]%N false [([99]%N, PRaw [])] None cp;
             RCopy bk [99]%N bk [100]%N;
             RCompose bk [] false [] None cp;
             RCopy bk [99]%N bk []] in
  map r_status (snd (run init_state rs)) = [200; 200; 200; 200; 400; 400]%Z
  /\ option_map (map fst) (get_bucket (fst (run init_state rs)) bk) = Some [[97; 47; 49]; [97; 47; 50]; [99]; [100]]%N
  /\ follow_handle 5 (fst (run init_state rs)) bk [] [47]%N None [49]%N
     = [mkLpage [] [[97; 47]%N] (Some [97; 47]%N); mkLpage [[99]%N] [] (Some [99]%N); mkLpage [[100]%N] [] None].
Proof. cbn zeta. repeat split; timeout 60 vm_compute; reflexivity. Qed.

(* ================================================================== *)
(* 11. Findings (concrete witnesses, by computation)                    *)

Definition list_proj (r : resp) : list str * list str * option str :=
  match r_body r with BList items p n => (map v_name items, p, n) | _ => ([], [], None) end.

(* GCS-1 as it was: every name counted towards the page size, a collapsed prefix was only
   de-duplicated within the page, and the token was the name of the last ITEM of the page *)
Definition old_list_step (delim cursor prefix : str) (maxres : nat) (a : lacc) (e : str * bool) : lacc :=
  let '(fname, isdir) := e in
  if la_done a then a else
  if match la_skip a with Some d => has_prefix fname d | None => false end then a else
  let a := mkLacc (la_count a) (la_found a) (la_prefixes a) (la_more a) None false None in
  if greater_than_prefix fname prefix
  then mkLacc (la_count a) (la_found a) (la_prefixes a) (la_more a) None true None
  else if isdir then
    if less_than_prefix fname cursor || less_than_prefix fname prefix
    then mkLacc (la_count a) (la_found a) (la_prefixes a) (la_more a) (Some (fname ++ s_sep)) false None
    else a
  else if lex_leb fname cursor then a
  else if negb (has_prefix fname prefix) then a
  else if (maxres <=? la_count a)%nat
  then mkLacc (la_count a) (la_found a) (la_prefixes a) true None true None
  else
    let count' := S (la_count a) in
    match collapse_of delim prefix fname with
    | Some ip =>
        if existsb (beqb ip) (la_prefixes a)
        then mkLacc count' (la_found a) (la_prefixes a) (la_more a) None false None
        else mkLacc count' (la_found a) (ip :: la_prefixes a) (la_more a) None false None
    | None => mkLacc count' (fname :: la_found a) (la_prefixes a) (la_more a) None false None
    end.

(* the old page: items, prefixes, and the old token (last item name, when moreResults) *)
Definition old_page (delim cursor prefix : str) (maxres : nat) (names : list str) : lpage :=
  let a := fold_left (old_list_step delim cursor prefix maxres) (ents names)
                     (mkLacc 0 [] [] false None false None) in
  mkLpage (rev (la_found a)) (rev (la_prefixes a))
          (if la_more a then match la_found a with l :: _ => Some l | [] => None end else None).

(* names a/1, a/2, b/1, delimiter "/", pages of one.  OLD rule: the first page is the prefix "a/"
   and carries NO token although the walk stopped early (the page holds no item to take the token
   from): the listing ends there and "b/" is never returned.  On {a, b/1, b/2, c}, pages of two,
   the old token was "a"; the second page repeated "b/" and lost "c" (b/1 and b/2 both counted).
   NEW rule: [a/] then [b/], and [a, b/] then [c]. *)
Lemma old_token_rule_refuted :
  let names := [[97; 47; 49]; [97; 47; 50]; [98; 47; 49]]%N in
  let names2 := [[97]; [98; 47; 49]; [98; 47; 50]; [99]]%N in
  old_page [47]%N [] [] 1 names = mkLpage [] [[97; 47]%N] None
  /\ expected_listing names [] [47]%N = ([], [[97; 47]; [98; 47]]%N)
  /\ follow_delim (S (length names)) names [] [47]%N [] 1
     = [mkLpage [] [[97; 47]%N] (Some [97; 47]%N); mkLpage [] [[98; 47]%N] None]
  /\ old_page [47]%N [] [] 2 names2 = mkLpage [[97]%N] [[98; 47]%N] (Some [97]%N)
  /\ old_page [47]%N [97]%N [] 2 names2 = mkLpage [] [[98; 47]%N] None
  /\ follow_delim (S (length names2)) names2 [] [47]%N [] 2
     = [mkLpage [[97]%N] [[98; 47]%N] (Some [98; 47]%N); mkLpage [[99]%N] [] None].
Proof. cbn zeta. repeat split; timeout 60 vm_compute; reflexivity. Qed.

(* the former witness of GCS-1 at the handler: bucket {a, b/1, b/2, c}, delimiter "/",
   maxResults 2.  Page 1 = items [a], prefixes [b/], token "b/"; page 2 (from "b/") = items [c],
   no prefix, no token: everything is returned once. *)
Lemma paginate_with_delimiter_handler_example :
  let cp := mkCP (PRaw []) (PRaw []) (PRaw []) (PRaw []) in
  let bk := [98]%N in
  let up n := RUploadMedia bk n [116]%N [1]%N cp in
  let s := fst (run init_state [up [97]%N; up [98; 47; 49]%N; up [98; 47; 50]%N; up [99]%N]) in
  list_proj (snd (handle s (RList bk [] [47]%N None (Some [50]%N)))) = ([[97]%N], [[98; 47]%N], Some [98; 47]%N)
  /\ list_proj (snd (handle s (RList bk [] [47]%N (Some [98; 47]%N) (Some [50]%N)))) = ([[99]%N], [], None)
  /\ follow_handle 5 s bk [] [47]%N None [50]%N
     = [mkLpage [[97]%N] [[98; 47]%N] (Some [98; 47]%N); mkLpage [[99]%N] [] None].
Proof. cbn zeta. split; [|split]; timeout 60 vm_compute; reflexivity. Qed.

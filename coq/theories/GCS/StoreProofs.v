From Coq Require Import List NArith ZArith Bool Lia.
Import ListNotations.
From Emu.Common Require Import Bytes Str StrProofs.
From Emu.GCS Require Import Model.
Local Open Scope Z_scope.

Lemma get_bucket_create s b : exists bk, get_bucket (create_bucket s b) b = Some bk
  /\ (get_bucket s b = Some bk \/ (get_bucket s b = None /\ bk = [])).
Proof.
  unfold create_bucket. destruct (get_bucket s b) as [bk|] eqn:E.
  - exists bk. auto.
  - exists []. unfold get_bucket, set_buckets. cbn. rewrite alookup_ainsert_same. auto.
Qed.

Lemma get_bucket_create_other s b b' : b' <> b -> get_bucket (create_bucket s b) b' = get_bucket s b'.
Proof.
  intros Hne. unfold create_bucket. destruct (get_bucket s b); auto.
  unfold get_bucket, set_buckets. cbn. apply alookup_ainsert_other. auto.
Qed.

Lemma create_bucket_clock s b : s_clock (create_bucket s b) = s_clock s.
Proof. unfold create_bucket. destruct (get_bucket s b); reflexivity. Qed.

Lemma find_obj_store_add_same s b n data ct md meta :
  find_obj (store_add s b n data ct md meta) b n = Some (mkObj data ct (s_clock s + 1) 1 md meta).
Proof.
  unfold store_add, find_obj, get_bucket. cbn. rewrite alookup_ainsert_same.
  rewrite alookup_ainsert_same. rewrite create_bucket_clock. reflexivity.
Qed.

Lemma find_obj_store_add_other s b n data ct md meta b' n' :
  (b', n') <> (b, n) -> find_obj (store_add s b n data ct md meta) b' n' = find_obj s b' n'.
Proof.
  intros Hne. unfold store_add, find_obj. unfold get_bucket at 1. cbn.
  destruct (list_eq_dec N.eq_dec b' b) as [->|Hb].
  - rewrite alookup_ainsert_same.
    assert (Hn : n' <> n) by congruence.
    rewrite alookup_ainsert_other by auto.
    destruct (get_bucket_create s b) as [bk [H1 H2]]. rewrite H1.
    destruct H2 as [H2|[H2 ->]]; rewrite H2; reflexivity.
  - rewrite alookup_ainsert_other by auto.
    fold (get_bucket (create_bucket s b) b'). rewrite get_bucket_create_other by auto. reflexivity.
Qed.

Lemma store_add_clock s b n data ct md meta : s_clock (store_add s b n data ct md meta) = s_clock s + 1.
Proof. unfold store_add. cbn. rewrite create_bucket_clock. reflexivity. Qed.

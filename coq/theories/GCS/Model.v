(* Layer A: executable model of storage/gcsemu (handler level, memory-store
   semantics; the file store differs only in its walk order, see Listing).
   Follows gcsemu.go function by function.  No proofs in this file. *)
From Coq Require Import List NArith ZArith Bool.
Import ListNotations.
From Emu.Common Require Import Bytes Str.
From Emu.Gen Require Import Consts.
Local Open Scope Z_scope.

(* ------------------------------------------------------------------ *)
(* Conditions (parseConds / validateConds, gcsemu.go:705-768)          *)

Record conds := mkConds { c_gm : Z; c_gnm : Z; c_mm : Z; c_mnm : Z; c_dne : bool }.
Definition empty_conds := mkConds 0 0 0 0 false.

(* the value of one query parameter after vals.Get + strconv.ParseInt *)
Inductive cval := VAbsent | VBad | VNum (z : Z).

Definition cval_of_raw (s : str) : cval :=
  match s with
  | [] => VAbsent
  | _ => match parse_int s with Some z => VNum z | None => VBad end
  end.

Definition parse_conds (p1 p2 p3 p4 : cval) : option conds :=
  match p1 with
  | VBad => None
  | _ =>
    let '(gm, dne) := match p1 with VNum z => (z, Z.eqb z 0) | _ => (0, false) end in
    match p2 with
    | VBad => None
    | _ =>
      let gnm := match p2 with VNum z => z | _ => 0 end in
      match p3 with
      | VBad => None
      | _ =>
        let mm := match p3 with VNum z => z | _ => 0 end in
        match p4 with
        | VBad => None
        | _ => let mnm := match p4 with VNum z => z | _ => 0 end in
               Some (mkConds gm gnm mm mnm dne)
        end
      end
    end
  end.

Inductive vres := VPass | VFail412 | VFail304.

Definition conds_eqb (a b : conds) : bool :=
  Z.eqb (c_gm a) (c_gm b) && Z.eqb (c_gnm a) (c_gnm b) && Z.eqb (c_mm a) (c_mm b)
  && Z.eqb (c_mnm a) (c_mnm b) && Bool.eqb (c_dne a) (c_dne b).

(* obj = Some (generation, metageneration) *)
Definition validate_conds (o : option (Z * Z)) (c : conds) : vres :=
  match o with
  | None =>
      if conds_eqb c empty_conds || conds_eqb c (mkConds 0 0 0 0 true) then VPass else VFail412
  | Some (gen, metagen) =>
      if c_dne c then VFail412
      else if negb (Z.eqb (c_gm c) 0) && negb (Z.eqb gen (c_gm c)) then VFail412
      else if negb (Z.eqb (c_gnm c) 0) && Z.eqb gen (c_gnm c) then VFail304
      else if negb (Z.eqb (c_mm c) 0) && negb (Z.eqb metagen (c_mm c)) then VFail412
      else if negb (Z.eqb (c_mnm c) 0) && Z.eqb metagen (c_mnm c) then VFail304
      else VPass
  end.

Definition status_of_vres (v : vres) : Z :=
  match v with VPass => 200 | VFail412 => 412 | VFail304 => 304 end.

(* ------------------------------------------------------------------ *)
(* Store state                                                         *)

Record obj := mkObj {
  o_data : bytes;
  o_ctype : str;
  o_gen : Z;
  o_metagen : Z;
  o_md5 : bool;                  (* true: md5Hash is the hash of o_data; false: empty *)
  o_meta : list (str * str)      (* user metadata, sorted by key *)
}.

Definition bucket := list (str * obj).           (* sorted by name *)

Record upload := mkUpload {
  up_bucket : str; up_name : str; up_ctype : str; up_md5 : N; up_meta : list (str * str);
  up_conds : conds; up_data : bytes }.

Record state := mkState {
  s_buckets : list (str * bucket);
  s_clock : Z;                   (* generations handed out so far *)
  s_upcount : Z;                 (* idCounter *)
  s_uploads : list (str * upload) (* keyed by printed id *)
}.

(* generations are handed out from a counter that starts far above every literal a client can
   reasonably send and far below int64 overflow, like the implementation's nanosecond clock *)
Definition clock0 : Z := 1152921504606846976.
Definition init_state := mkState [] clock0 0 [].

Definition get_bucket (s : state) (b : str) : option bucket := alookup b (s_buckets s).
Definition find_obj (s : state) (b n : str) : option obj :=
  match get_bucket s b with Some bk => alookup n bk | None => None end.
Definition obj_gens (o : option obj) : option (Z * Z) :=
  match o with Some x => Some (o_gen x, o_metagen x) | None => None end.

Definition set_buckets (s : state) (bs : list (str * bucket)) : state :=
  mkState bs (s_clock s) (s_upcount s) (s_uploads s).

Definition create_bucket (s : state) (b : str) : state :=
  match get_bucket s b with
  | Some _ => s
  | None => set_buckets s (ainsert b [] (s_buckets s))
  end.

(* Store.Add: implicit bucket creation, fresh generation, metageneration 1 *)
Definition store_add (s : state) (b n : str) (data : bytes) (ctype : str) (md5 : bool)
           (meta : list (str * str)) : state :=
  let s1 := create_bucket s b in
  let g := s_clock s1 + 1 in
  let bk := match get_bucket s1 b with Some x => x | None => [] end in
  let o := mkObj data ctype g 1 md5 meta in
  mkState (ainsert b (ainsert n o bk) (s_buckets s1)) g (s_upcount s1) (s_uploads s1).

Definition store_put_obj (s : state) (b n : str) (o : obj) : state :=
  match get_bucket s b with
  | Some bk => set_buckets s (ainsert b (ainsert n o bk) (s_buckets s))
  | None => s
  end.

Definition store_delete_obj (s : state) (b n : str) : option state :=
  match get_bucket s b with
  | Some bk => match alookup n bk with
               | Some _ => Some (set_buckets s (ainsert b (aremove n bk) (s_buckets s)))
               | None => None
               end
  | None => None
  end.

Definition store_delete_bucket (s : state) (b : str) : option state :=
  match get_bucket s b with
  | Some _ => Some (set_buckets s (aremove b (s_buckets s)))
  | None => None
  end.

(* ------------------------------------------------------------------ *)
(* Requests and responses                                              *)

(* a precondition parameter as the client writes it: raw text, or "the
   current (meta)generation of object n in bucket b, plus delta" *)
Inductive cparam :=
| PRaw (s : str)
| PGen (b n : str) (delta : Z)
| PMeta (b n : str) (delta : Z).

Record cparams := mkCP { cp1 : cparam; cp2 : cparam; cp3 : cparam; cp4 : cparam }.

Definition resolve (s : state) (p : cparam) : cval :=
  match p with
  | PRaw r => cval_of_raw r
  | PGen b n d => match find_obj s b n with
                  | Some o => VNum (o_gen o + d)
                  | None => VNum (12345 + d)
                  end
  | PMeta b n d => match find_obj s b n with
                   | Some o => VNum (o_metagen o + d)
                   | None => VNum (12345 + d)
                   end
  end.

Definition resolve_conds (s : state) (cp : cparams) : option conds :=
  parse_conds (resolve s (cp1 cp)) (resolve s (cp2 cp)) (resolve s (cp3 cp)) (resolve s (cp4 cp)).

(* declared md5Hash of an upload: 0 none, 1 correct, 2 well-formed but wrong, 3 not base64 *)
Record upmeta := mkUpMeta {
  um_name : str; um_ctype : str; um_md5 : N; um_meta : list (str * str) }.

Record patch := mkPatch {
  pt_bad : bool;                         (* body is not decodable JSON *)
  pt_ctype : option str;
  pt_meta : option (list (str * str));   (* keys to set (merged key-wise) *)
  pt_gen : option Z;                     (* read-only fields a client may try to set: ignored *)
  pt_md5 : option str;
  pt_metagen : option Z }.

Inductive req :=
| RUploadMedia (b n ctype : str) (data : bytes) (cp : cparams)
| RUploadMultipart (b : str) (m : upmeta) (data : bytes) (cp : cparams)
| RUploadMultipartBad (b : str) (cp : cparams)             (* unparsable multipart body *)
| RResumableInit (b : str) (bad : bool) (m : upmeta) (cp : cparams)
| RResumablePut (id : str) (crange : option str) (data : bytes)
| RGetMedia (b n : str)
| RGetMeta (b n : str)
| RDelete (b n : str) (cp : cparams)
| RPatch (b n : str) (p : patch) (cp : cparams)
| RList (b prefix delim : str) (cursor : option str) (maxres : option str)
| RListBadToken (b : str)
| RCompose (b dst : str) (bad : bool) (srcs : list (str * cparam)) (dm : option upmeta) (cp : cparams)
| RCopy (b1 n1 b2 n2 : str)
| RCreateBucket (b : str)
| RGetBucket (b : str)
| RDeleteBucket (b : str) (cp : cparams).

Record oview := mkView {
  v_bucket : str; v_name : str; v_size : Z; v_gen : Z; v_metagen : Z;
  v_ctype : str; v_md5 : N (* 0 empty, 1 hash of content *); v_meta : list (str * str) }.

Definition view (b n : str) (o : obj) : oview :=
  mkView b n (Z.of_nat (length (o_data o))) (o_gen o) (o_metagen o) (o_ctype o)
         (if o_md5 o then 1%N else 0%N) (o_meta o).

Inductive rbody :=
| BNone
| BMeta (v : oview)
| BMedia (data : bytes) (ctype : str) (gen metagen : Z)
| BList (items : list oview) (prefixes : list str) (next : option str)
| BRewrite (v : oview)
| BResume (held : Z)                 (* bytes held so far (Range: bytes=0-(held-1)) *)
| BUploadInit (id : str)
| BBucket (b : str).

Record resp := mkResp { r_status : Z; r_body : rbody }.
Definition err (code : Z) := mkResp code BNone.

(* ------------------------------------------------------------------ *)
(* Content-Range (range.go)                                            *)

Record byte_range := mkBR { br_lo : Z; br_hi : Z; br_sz : Z }.
Definition s_bytes_sp : str := [98; 121; 116; 101; 115; 32]%N.     (* "bytes " *)
Definition s_slash : str := [47]%N.
Definition s_dash : str := [45]%N.
Definition s_star : str := [42]%N.

Definition parse_byte_range (s : str) : option byte_range :=
  if negb (has_prefix s s_bytes_sp) then None else
  let s' := skipn 6 s in
  match split s' s_slash with
  | [p0; p1] =>
      let lohi :=
        if beqb p0 s_star then Some (-1, -1)
        else match split p0 s_dash with
             | [a; b] => match parse_int a, parse_int b with
                         | Some lo, Some hi => Some (lo, hi)
                         | _, _ => None
                         end
             | _ => None
             end in
      match lohi with
      | None => None
      | Some (lo, hi) =>
          if beqb p1 s_star then Some (mkBR lo hi (-1))
          else match parse_int p1 with
               | Some sz => Some (mkBR lo hi sz)
               | None => None
               end
      end
  | _ => None
  end.

(* ------------------------------------------------------------------ *)
(* Listing (walk.go)                                                   *)

Definition greater_than_prefix (item prefix : str) : bool :=
  if (length item <? length prefix)%nat then lex_gtb item prefix
  else lex_gtb (firstn (length prefix) item) prefix.

Definition less_than_prefix (item prefix : str) : bool :=
  if (length item <? length prefix)%nat then lex_ltb item (firstn (length item) prefix)
  else lex_ltb item prefix.

Record lacc := mkLacc {
  la_count : nat; la_found : list str (* reversed *); la_prefixes : list str (* reversed *);
  la_more : bool; la_skip : option str (* directory being skipped (SkipDir) *); la_done : bool;
  la_last : option str (* the last item or collapsed prefix put on the page *) }.

Definition s_sep : str := [47]%N.

(* the prefix a name collapses into under a delimiter (including the closing delimiter) *)
Definition collapse_of (delim prefix fname : str) : option str :=
  match delim with
  | [] => None
  | _ => match index_of (trim_prefix fname prefix) delim with
         | Some pos => Some (firstn (length prefix + pos + length delim) fname)
         | None => None
         end
  end.

(* a page token that names a collapsed prefix (it ends with the delimiter that closes the prefix):
   the next page resumes after every name below it *)
Definition skip_group (delim cursor prefix : str) : option str :=
  match delim with
  | [] => None
  | _ => if has_prefix cursor prefix && has_suffix cursor delim
         then match index_of (skipn (length prefix) cursor) delim with
              | Some pos => if Nat.eqb (pos + length prefix + length delim) (length cursor) then Some cursor else None
              | None => None
              end
         else None
  end.

(* one invocation of the walk callback; e = (name, isdir), entries come in walk order *)
Definition list_step (delim cursor prefix : str) (maxres : nat) (a : lacc) (e : str * bool) : lacc :=
  let '(fname, isdir) := e in
  if la_done a then a else
  if match la_skip a with Some d => has_prefix fname d | None => false end then a else
  let a := mkLacc (la_count a) (la_found a) (la_prefixes a) (la_more a) None false (la_last a) in
  if greater_than_prefix fname prefix
  then mkLacc (la_count a) (la_found a) (la_prefixes a) (la_more a) None true (la_last a)
  else if isdir then
    if less_than_prefix fname cursor || less_than_prefix fname prefix
    then mkLacc (la_count a) (la_found a) (la_prefixes a) (la_more a) (Some (fname ++ s_sep)) false (la_last a)
    else a
  else if lex_leb fname cursor then a
  else if negb (has_prefix fname prefix) then a
  else if match skip_group delim cursor prefix with Some g => has_prefix fname g | None => false end then a
  else
    let collapsed := collapse_of delim prefix fname in
    if match collapsed with Some ip => existsb (beqb ip) (la_prefixes a) | None => false end
    then a                       (* below a prefix already on this page: takes no further room *)
    else if (maxres <=? la_count a)%nat
    then mkLacc (la_count a) (la_found a) (la_prefixes a) true None true (la_last a)
    else
      let count' := S (la_count a) in
      match collapsed with
      | Some ip => mkLacc count' (la_found a) (ip :: la_prefixes a) (la_more a) None false (Some ip)
      | None => mkLacc count' (fname :: la_found a) (la_prefixes a) (la_more a) None false (Some fname)
      end.

(* result: found item names, collapsed prefixes, moreResults, last entry of the page *)
Definition list_walk (delim cursor prefix : str) (maxres : nat) (entries : list (str * bool))
  : list str * list str * bool * option str :=
  let a := fold_left (list_step delim cursor prefix maxres) entries
                     (mkLacc 0 [] [] false None false None) in
  (rev (la_found a), rev (la_prefixes a), la_more a, la_last a).

(* memory store: btree ascending by name, no directories *)
Definition mem_entries (bk : bucket) : list (str * bool) := map (fun p => (fst p, false)) bk.

(* ------------------------------------------------------------------ *)
(* Handlers                                                            *)

Definition s_compose : str := [47; 99; 111; 109; 112; 111; 115; 101]%N.                 (* "/compose" *)
Definition s_rewrite_b : str := [47; 114; 101; 119; 114; 105; 116; 101; 84; 111; 47; 98; 47]%N. (* "/rewriteTo/b/" *)
Definition s_rewrite : str := [47; 114; 101; 119; 114; 105; 116; 101; 84; 111; 47]%N.   (* "/rewriteTo/" *)
Definition s_o : str := [47; 111; 47]%N.                                               (* "/o/" *)

Definition split2 (s sep : str) : list str :=
  match index_of s sep with
  | Some i => [firstn i s; skipn (i + length sep) s]
  | None => [s]
  end.

Fixpoint merge_meta (old : list (str * str)) (upd : list (str * str)) : list (str * str) :=
  match upd with
  | [] => old
  | (k, v) :: r => merge_meta (ainsert k v old) r
  end.

Definition resp_meta (s : state) (b n : str) : resp :=
  match find_obj s b n with
  | Some o => mkResp 200 (BMeta (view b n o))
  | None => err 500          (* cannot happen after a successful Add under the lock *)
  end.

(* finishUpload: md5 verdict, then (under the object lock) GetMeta, validateConds, Add *)
Definition finish_upload (s : state) (b n ctype : str) (md5decl : N) (meta : list (str * str))
           (data : bytes) (c : conds) : state * resp :=
  match md5decl with
  | 2%N | 3%N => (s, err 400)
  | _ =>
    match validate_conds (obj_gens (find_obj s b n)) c with
    | VPass => let s' := store_add s b n data ctype true (merge_meta [] meta) in
               (s', resp_meta s' b n)
    | v => (s, err (status_of_vres v))
    end
  end.

Definition set_uploads (s : state) (cnt : Z) (ups : list (str * upload)) : state :=
  mkState (s_buckets s) (s_clock s) cnt ups.

(* handleResumableUpload's treatment of one PUT, on the bytes held so far.
   [resume_apply held br data]: None = the request is refused with 400 (length/offset
   mismatch); Some held' = the bytes held after the request. *)
Definition resume_apply (held : bytes) (br : byte_range) (data : bytes) : option bytes :=
  let len := Z.of_nat (length data) in
  let lo := br_lo br in
  if (Z.eqb lo (-1) && negb (Z.eqb len 0))
     || (negb (Z.eqb lo (-1)) && negb (Z.eqb len (wrap64 (br_hi br + 1 - lo))))
  then None
  else if (Z.of_nat (length held) <? lo) then None
  else Some ((if Z.eqb lo (-1) then held else firstn (Z.to_nat lo) held) ++ data).

(* the upload is complete (finishUpload is called) iff the total size is known and reached *)
Definition resume_done (br : byte_range) (held' : bytes) : bool :=
  negb ((br_sz br <? 0) || (Z.of_nat (length held') <? br_sz br)).

Definition handle (s : state) (r : req) : state * resp :=
  match r with
  | RUploadMedia b n ctype data cp =>
      match resolve_conds s cp with
      | None => (s, err 400)
      | Some c => match n with
                  | [] => (s, err 400)
                  | _ => finish_upload s b n ctype 0 [] data c
                  end
      end
  | RUploadMultipart b m data cp =>
      match resolve_conds s cp with
      | None => (s, err 400)
      | Some c => match um_name m with
                  | [] => (s, err 400)              (* missing object name *)
                  | _ => finish_upload s b (um_name m) (um_ctype m) (um_md5 m) (um_meta m) data c
                  end
      end
  | RUploadMultipartBad b cp =>
      match resolve_conds s cp with
      | None => (s, err 400)
      | Some c => (s, err 400)
      end
  | RResumableInit b bad m cp =>
      match resolve_conds s cp with
      | None => (s, err 400)
      | Some c =>
          if bad then (s, err 400) else
          match um_name m with [] => (s, err 400) | _ =>     (* missing object name *)
          let id := s_upcount s + 1 in
          let ids := print_int id in
          let u := mkUpload b (um_name m) (um_ctype m) (um_md5 m) (um_meta m) c [] in
          (set_uploads s id (ainsert ids u (s_uploads s)), mkResp 200 (BUploadInit ids))
          end
      end
  | RResumablePut id crange data =>
      match alookup id (s_uploads s) with
      | None => (s, err 500)
      | Some u =>
        match crange with
        | None => (s, err 400)
        | Some cr =>
          match parse_byte_range cr with
          | None => (s, err 400)
          | Some br =>
            match resume_apply (up_data u) br data with
            | None => (s, err 400)
            | Some data' =>
              let u' := mkUpload (up_bucket u) (up_name u) (up_ctype u) (up_md5 u) (up_meta u)
                                 (up_conds u) data' in
              let s1 := set_uploads s (s_upcount s) (ainsert id u' (s_uploads s)) in
              if resume_done br data'
              then
                let '(s2, rsp) := finish_upload s1 (up_bucket u) (up_name u) (up_ctype u) (up_md5 u)
                                                (up_meta u) data' (up_conds u) in
                if Z.eqb (r_status rsp) 200
                then (set_uploads s2 (s_upcount s2) (aremove id (s_uploads s2)), rsp)
                else (s2, rsp)
              else (s1, mkResp 308 (BResume (Z.of_nat (length data'))))
            end
          end
        end
      end
  | RGetMedia b n =>
      match find_obj s b n with
      | Some o => (s, mkResp 200 (BMedia (o_data o) (o_ctype o) (o_gen o) (o_metagen o)))
      | None => (s, err 404)
      end
  | RGetMeta b n =>
      match find_obj s b n with
      | Some o => (s, mkResp 200 (BMeta (view b n o)))
      | None => (s, err 404)
      end
  | RDelete b n cp =>
      match resolve_conds s cp with
      | None => (s, err 400)
      | Some c =>
        match validate_conds (obj_gens (find_obj s b n)) c with
        | VPass => match store_delete_obj s b n with
                   | Some s' => (s', mkResp 204 BNone)
                   | None => (s, err 404)
                   end
        | v => (s, err (status_of_vres v))
        end
      end
  | RPatch b n p cp =>
      match resolve_conds s cp with
      | None => (s, err 400)
      | Some c =>
        match find_obj s b n with
        | None => (s, err 404)
        | Some o =>
          match validate_conds (Some (o_gen o, o_metagen o)) c with
          | VPass =>
              if pt_bad p then (s, err 400) else
              let o' := mkObj (o_data o)
                              (match pt_ctype p with Some t => t | None => o_ctype o end)
                              (o_gen o) (o_metagen o + 1) (o_md5 o)
                              (match pt_meta p with Some kv => merge_meta (o_meta o) kv | None => o_meta o end) in
              let s' := store_put_obj s b n o' in
              (s', mkResp 200 (BMeta (view b n o')))
          | v => (s, err (status_of_vres v))
          end
        end
      end
  | RListBadToken b => (s, err 400)
  | RList b prefix delim cursor maxres =>
      let mr := match maxres with
                | None => Some 1000
                | Some ms => match parse_int ms with
                             | Some z => if z <? 1 then None else Some z
                             | None => None
                             end
                end in
      match mr with
      | None => (s, err 400)
      | Some m =>
        match get_bucket s b with
        | None => (s, err 404)
        | Some bk =>
            let cur := match cursor with Some c => c | None => [] end in
            let '(found, prefixes, more, last) := list_walk delim cur prefix (Z.to_nat m) (mem_entries bk) in
            let items := flat_map (fun n => match alookup n bk with
                                            | Some o => [view b n o] | None => [] end) found in
            let next := if more then last else None in
            (s, mkResp 200 (BList items prefixes next))
        end
      end
  | RCompose b dst bad srcs dm cp =>
      match resolve_conds s cp with
      | None => (s, err 400)
      | Some c =>
        if bad then (s, err 400) else
        match split (dst ++ s_compose) s_compose with
        | [dstname; _] =>
            match dstname with [] => (s, err 400) | _ =>    (* missing destination object name *)
            if (Z.of_nat (length srcs) >? gcsMaxComposeSources) then (s, err 400) else
            let step (acc : option (Z * bytes)) (sc : str * cparam) : option (Z * bytes) :=
              match acc with
              | Some (0, data) =>
                  match find_obj s b (fst sc) with
                  | None => Some (404, data)
                  | Some o =>
                      let g := match resolve s (snd sc) with VNum z => z | _ => 0 end in
                      match validate_conds (Some (o_gen o, o_metagen o)) (mkConds g 0 0 0 false) with
                      | VPass => Some (0, data ++ o_data o)
                      | v => Some (status_of_vres v, data)
                      end
                  end
              | other => other
              end in
            match fold_left step srcs (Some (0, [])) with
            | Some (0, data) =>
                match validate_conds (obj_gens (find_obj s b dstname)) c with
                | VPass =>
                    let '(ctype, meta) := match dm with
                                          | Some m => (um_ctype m, um_meta m)
                                          | None => ([], [])
                                          end in
                    let s' := store_add s b dstname data ctype false (merge_meta [] meta) in
                    (s', resp_meta s' b dstname)
                | v => (s, err (status_of_vres v))
                end
            | Some (code, _) => (s, err code)
            | None => (s, err 500)
            end
            end
        | _ => (s, err 400)
        end
      end
  | RCopy b1 n1 b2 n2 =>
      let object := n1 ++ s_rewrite_b ++ b2 ++ s_o ++ n2 in
      if contains object s_compose then (s, err 400) else
      match split object s_rewrite_b with
      | [f1; rest] =>
          match split2 rest s_o with
          | [b2'; f2] =>
              match f2 with [] => (s, err 400) | _ =>      (* missing destination object name *)
              match find_obj s b1 f1 with
              | None => (s, err 404)
              | Some o =>
                  let s' := store_add s b2' f2 (o_data o) (o_ctype o) (o_md5 o) (o_meta o) in
                  match find_obj s' b2' f2 with
                  | Some o' => (s', mkResp 200 (BRewrite (view b2' f2 o')))
                  | None => (s', err 500)
                  end
              end
              end
          | _ => (s, err 400)
          end
      | _ => (s, err 400)
      end
  | RCreateBucket b => (create_bucket s b, mkResp 200 (BBucket b))
  | RGetBucket b =>
      match get_bucket s b with
      | Some _ => (s, mkResp 200 (BBucket b))
      | None => (s, err 404)
      end
  | RDeleteBucket b cp =>
      match resolve_conds s cp with
      | None => (s, err 400)
      | Some c =>
        match validate_conds None c with
        | VPass => match store_delete_bucket s b with
                   | Some s' => (s', mkResp 204 BNone)
                   | None => (s, err 404)
                   end
        | v => (s, err (status_of_vres v))
        end
      end
  end.

Fixpoint run (s : state) (rs : list req) : state * list resp :=
  match rs with
  | [] => (s, [])
  | r :: rest => let '(s1, rsp) := handle s r in
                 let '(s2, rsps) := run s1 rest in (s2, rsp :: rsps)
  end.

(* ------------------------------------------------------------------ *)
(* Canonicalisation of generations: each generation number is replaced by its
   rank among the distinct generations occurring in the response list.  The
   harness does the same with the implementation's nanosecond values. *)

Fixpoint zinsert (z : Z) (l : list Z) : list Z :=
  match l with
  | [] => [z]
  | y :: r => if z <? y then z :: l else if Z.eqb z y then l else y :: zinsert z r
  end.

Definition view_gens (v : oview) : list Z := [v_gen v].
Definition resp_gens (r : resp) : list Z :=
  match r_body r with
  | BMeta v | BRewrite v => [v_gen v]
  | BMedia _ _ g _ => [g]
  | BList items _ _ => map v_gen items
  | _ => []
  end.

Fixpoint zrank (z : Z) (l : list Z) : Z :=
  match l with
  | [] => 0
  | y :: r => if Z.eqb z y then 0 else 1 + zrank z r
  end.

Definition canon_view (gs : list Z) (v : oview) : oview :=
  mkView (v_bucket v) (v_name v) (v_size v) (zrank (v_gen v) gs) (v_metagen v) (v_ctype v) (v_md5 v) (v_meta v).

Definition canon_resp (gs : list Z) (r : resp) : resp :=
  mkResp (r_status r)
    match r_body r with
    | BMeta v => BMeta (canon_view gs v)
    | BRewrite v => BRewrite (canon_view gs v)
    | BMedia d c g m => BMedia d c (zrank g gs) m
    | BList items p n => BList (map (canon_view gs) items) p n
    | other => other
    end.

Definition canon (rs : list resp) : list resp :=
  let gs := fold_left (fun acc r => fold_left (fun a z => zinsert z a) (resp_gens r) acc) rs [] in
  map (canon_resp gs) rs.

Definition run_canon (rs : list req) : list resp := canon (snd (run init_state rs)).

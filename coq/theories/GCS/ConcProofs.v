(* C07 — concurrent operations on one object are atomic and serialisable: proofs about the
   interleaving model GCS/Conc.v, for ALL schedules and any number of threads. *)
From Coq Require Import List NArith ZArith Bool Lia Arith.
Import ListNotations.
From Emu.Common Require Import Bytes Str StrProofs IntProofs.
From Emu.Gen Require Import Consts.
From Emu.GCS Require Import Model Conc CondsSpec StoreProofs HandlerProofs UploadProofs GenerationProofs ComposeProofs.
Local Open Scope Z_scope.

Definition init_g (s0 : state) (progs : list (list req)) : gstate :=
  mkGState s0 [] (map (fun rs => mkGThread rs GNew) progs).

(* ================================================================== *)
(* 0. Basics                                                            *)

Lemma key_eqb_eq a b : key_eqb a b = true <-> a = b.
Proof.
  destruct a as [a1 a2], b as [b1 b2]. unfold key_eqb. cbn [fst snd]. split.
  - intros H. apply andb_prop in H. destruct H as [H1 H2]. apply beqb_eq in H1, H2. congruence.
  - intros H. injection H as -> ->. rewrite !beqb_refl. reflexivity.
Qed.

Lemma holder_of_none hs k : holder_of hs k = None <-> ~ In k (map fst hs).
Proof.
  unfold holder_of. induction hs as [|[k' j] r IH]; cbn [find map fst In].
  - split; [intros _ []|reflexivity].
  - destruct (key_eqb k' k) eqn:E.
    + apply key_eqb_eq in E. subst. split; [discriminate|]. intros H. exfalso. apply H. left. reflexivity.
    + rewrite IH. split; intros H.
      * intros [H1|H1]; [subst; rewrite (proj2 (key_eqb_eq k k) eq_refl) in E; discriminate|contradiction].
      * intros H1. apply H. right. exact H1.
Qed.

Lemma holder_of_some hs k j : holder_of hs k = Some j -> In (k, j) hs.
Proof.
  unfold holder_of. induction hs as [|[k' j'] r IH]; cbn [find fst snd]; [discriminate|].
  destruct (key_eqb k' k) eqn:E.
  - apply key_eqb_eq in E. subst. intros H. injection H as ->. left. reflexivity.
  - intros H. right. apply IH. exact H.
Qed.

Lemma nth_error_upd_same {A} (l : list A) : forall i x v,
  nth_error l i = Some x -> nth_error (upd_nth l i v) i = Some v.
Proof.
  induction l as [|y ys IH]; intros [|i] x v H; cbn in *; try discriminate; auto. eapply IH. exact H.
Qed.

Lemma nth_error_upd_other {A} (l : list A) : forall i j v,
  j <> i -> nth_error (upd_nth l i v) j = nth_error l j.
Proof.
  induction l as [|y ys IH]; intros [|i] [|j] v H; cbn; auto; try congruence.
Qed.

Lemma upd_nth_length {A} (l : list A) : forall i v, length (upd_nth l i v) = length l.
Proof. induction l as [|y ys IH]; intros [|i] v; cbn; auto. Qed.

Lemma release_in hs i k j : In (k, j) (release hs i) <-> In (k, j) hs /\ j <> i.
Proof.
  unfold release. rewrite filter_In. cbn [snd]. split; intros [H1 H2]; split; auto.
  - apply negb_true_iff in H2. apply Nat.eqb_neq in H2. exact H2.
  - apply negb_true_iff. apply Nat.eqb_neq. exact H2.
Qed.

Lemma release_absent hs i : ~ In i (map snd hs) -> release hs i = hs.
Proof.
  unfold release. induction hs as [|[k j] r IH]; cbn [filter map snd In]; intros H; [reflexivity|].
  destruct (Nat.eqb_spec j i) as [E|E]; cbn [negb].
  - exfalso. apply H. left. exact E.
  - f_equal. apply IH. intros H1. apply H. right. exact H1.
Qed.

(* freezing: idempotent, keeps the lock key *)
Lemma freeze_param_idem s s' p : freeze_param s' (freeze_param s p) = freeze_param s p.
Proof. destruct p; cbn; try reflexivity; destruct (find_obj s b n); reflexivity. Qed.

Lemma freeze_cp_idem s s' cp : freeze_cp s' (freeze_cp s cp) = freeze_cp s cp.
Proof. unfold freeze_cp. cbn. rewrite !freeze_param_idem. reflexivity. Qed.

Lemma freeze_idem s s' r : freeze s' (freeze s r) = freeze s r.
Proof.
  destruct r; cbn [freeze]; try reflexivity; rewrite ?freeze_cp_idem; try reflexivity.
  f_equal. rewrite map_map. apply map_ext. intros [n p]. cbn. rewrite freeze_param_idem. reflexivity.
Qed.

(* freezing never changes the key, whatever the store the key is computed in (a resumable PUT has no
   preconditions to freeze; the key of every other request does not depend on the store) *)
Lemma lock_key_freeze s' s r : lock_key s' (freeze s r) = lock_key s' r.
Proof. destruct r; reflexivity. Qed.

(* the key of every request but a resumable PUT is a function of the request alone *)
Definition key_static (r : req) : Prop := match r with RResumablePut _ _ _ => False | _ => True end.

Lemma lock_key_static s s' r : key_static r -> lock_key s r = lock_key s' r.
Proof. destruct r; cbn; tauto. Qed.

Lemma key_static_freeze s r : key_static r -> key_static (freeze s r).
Proof. destruct r; cbn; auto. Qed.

(* requests without an object / destination name take no lock (they are refused with 400 before
   locks.Run, in one atomic step) and leave the store as it is *)
Lemma nameless_multipart_atomic s b m d cp : um_name m = [] ->
  lock_key s (RUploadMultipart b m d cp) = None /\ fst (handle s (RUploadMultipart b m d cp)) = s.
Proof.
  intros E. cbn [lock_key handle]. rewrite E. split; [reflexivity|]. destruct (resolve_conds s cp); reflexivity.
Qed.

Lemma nameless_compose_atomic s b dst bad srcs dm cp x : split (dst ++ s_compose) s_compose = [[]; x] ->
  lock_key s (RCompose b dst bad srcs dm cp) = None /\ fst (handle s (RCompose b dst bad srcs dm cp)) = s.
Proof.
  intros E. cbn [lock_key handle]. rewrite E. split; [reflexivity|].
  destruct (resolve_conds s cp); [|reflexivity]. destruct bad; reflexivity.
Qed.

Lemma nameless_copy_atomic s b1 n1 b2 n2 f1 rest b2' :
  split (n1 ++ s_rewrite_b ++ b2 ++ s_o ++ n2) s_rewrite_b = [f1; rest] -> split2 rest s_o = [b2'; []] ->
  lock_key s (RCopy b1 n1 b2 n2) = None /\ fst (handle s (RCopy b1 n1 b2 n2)) = s.
Proof.
  intros E1 E2. cbn [lock_key handle]. rewrite E1, E2.
  destruct (contains (n1 ++ s_rewrite_b ++ b2 ++ s_o ++ n2) s_compose); split; reflexivity.
Qed.

(* a resumable PUT has a key exactly when its session exists and points to that object (and the
   PUT completes the upload with an acceptable declared MD5) *)
Lemma resumable_target_some s id cr d k : resumable_target s id cr d = Some k ->
  exists u, alookup id (s_uploads s) = Some u /\ (up_bucket u, up_name u) = k.
Proof.
  unfold resumable_target. destruct (alookup id (s_uploads s)) as [u|]; [|discriminate].
  destruct cr as [cr|]; [|discriminate]. destruct (parse_byte_range cr) as [br|]; [|discriminate].
  destruct (resume_apply (up_data u) br d) as [d'|]; [|discriminate].
  destruct (resume_done br d'); [|discriminate]. intros H. exists u. split; [reflexivity|].
  destruct (up_md5 u) as [|[[p|p|]|[p|p|]|]]; congruence.
Qed.

(* ================================================================== *)
(* 1. One scheduler step, case by case                                  *)

(* the checks a handler makes before taking the object lock *)
Definition gearly (s : state) (r : req) : bool :=
  match r with
  | RUploadMedia _ n _ _ cp => match resolve_conds s cp with None => true | Some _ => match n with [] => true | _ => false end end
  | RUploadMultipart _ m _ cp => match resolve_conds s cp with None => true | Some _ => (N.eqb (um_md5 m) 2 || N.eqb (um_md5 m) 3) end
  | RDelete _ _ cp | RPatch _ _ _ cp => match resolve_conds s cp with None => true | Some _ => false end
  | RCompose _ _ bad _ _ cp => match resolve_conds s cp with None => true | Some _ => bad end
  | _ => false
  end.

(* what a commit does to the store *)
Inductive geffect :=
| EHandle (r : req)                   (* the handler's whole effect, atomically *)
| EAdd (b n : str) (o : obj).         (* compose: Store.Add of the object assembled before the yield *)

Definition apply_geffect (s : state) (e : geffect) : state :=
  match e with
  | EHandle r => fst (handle s r)
  | EAdd b n o => store_add s b n (o_data o) (o_ctype o) (o_md5 o) (o_meta o)
  end.

Definition effect_resp (s : state) (e : geffect) : resp :=
  match e with
  | EHandle r => snd (handle s r)
  | EAdd b n o => resp_meta (apply_geffect s e) b n
  end.

(* the effect of the commit of a thread parked at its yield.  [s] is the store at the commit step:
   as in gstep's GHold branch the key is recomputed there, and is used for compose only (whose key
   does not depend on the store); a parked resumable PUT simply runs its handler *)
Definition hold_effect (s : state) (r : req) (cap : option obj) : geffect :=
  match r, cap, lock_key s r with
  | RCompose _ _ _ _ _ _, Some o, Some k => EAdd (fst k) (snd k) o
  | _, _, _ => EHandle r
  end.

Definition capture (s : state) (r : req) (k : str * str) : option obj :=
  match r with
  | RCompose _ _ _ _ _ _ => find_obj (fst (handle s r)) (fst k) (snd k)
  | _ => None
  end.

(* a request served in one step from GNew (the key is computed in the store of that step) *)
Definition atomic_cond (s : state) (hs : list ((str * str) * nat)) (r : req) : Prop :=
  (lock_key s r = None /\ is_get r = false)
  \/ exists k, lock_key s r = Some k /\ (gearly s r = true \/ (holder_of hs k = None /\ reaches_yield s r = false)).

(* why a step does nothing: no such thread, nothing left to do, or (never, under the lock
   invariant) the thread itself already holds the key *)
Definition idle_reason (st : gstate) (i : nat) : Prop :=
  match nth_error (g_threads st) i with
  | None => True
  | Some th => match gt_todo th with
               | [] => True
               | r0 :: _ => gt_prog th = GNew
                            /\ exists k, lock_key (g_store st) (freeze (g_store st) r0) = Some k
                                         /\ holder_of (g_holders st) k = Some i
               end
  end.

Inductive gstep_spec (st : gstate) (i : nat) : gstate -> outcome -> Prop :=
| GS_idle : idle_reason st i -> gstep_spec st i st OIdle
| GS_blocked th r0 rest k j :
    nth_error (g_threads st) i = Some th -> gt_todo th = r0 :: rest -> gt_prog th = GNew ->
    lock_key (g_store st) (freeze (g_store st) r0) = Some k -> gearly (g_store st) (freeze (g_store st) r0) = false ->
    holder_of (g_holders st) k = Some j -> j <> i ->
    gstep_spec st i
      (mkGState (g_store st) (g_holders st)
                (upd_nth (g_threads st) i (mkGThread (freeze (g_store st) r0 :: rest) GNew))) OBlocked
| GS_at th r0 rest k :
    nth_error (g_threads st) i = Some th -> gt_todo th = r0 :: rest -> gt_prog th = GNew ->
    lock_key (g_store st) (freeze (g_store st) r0) = Some k -> gearly (g_store st) (freeze (g_store st) r0) = false ->
    holder_of (g_holders st) k = None ->
    reaches_yield (g_store st) (freeze (g_store st) r0) = true ->
    gstep_spec st i
      (mkGState (g_store st) ((k, i) :: g_holders st)
                (upd_nth (g_threads st) i
                   (mkGThread (freeze (g_store st) r0 :: rest)
                              (GHold (capture (g_store st) (freeze (g_store st) r0) k))))) OAt
| GS_atomic th r0 rest :
    nth_error (g_threads st) i = Some th -> gt_todo th = r0 :: rest -> gt_prog th = GNew ->
    atomic_cond (g_store st) (g_holders st) (freeze (g_store st) r0) ->
    gstep_spec st i
      (mkGState (apply_geffect (g_store st) (EHandle (freeze (g_store st) r0)))
                (release (g_holders st) i)
                (upd_nth (g_threads st) i (mkGThread rest GNew)))
      (ODone (effect_resp (g_store st) (EHandle (freeze (g_store st) r0))))
| GS_commit th r rest cap :
    nth_error (g_threads st) i = Some th -> gt_todo th = r :: rest -> gt_prog th = GHold cap ->
    gstep_spec st i
      (mkGState (apply_geffect (g_store st) (hold_effect (g_store st) r cap))
                (release (g_holders st) i)
                (upd_nth (g_threads st) i (mkGThread rest GNew)))
      (ODone (effect_resp (g_store st) (hold_effect (g_store st) r cap)))
(* a GET reads the store (one call) and parks with what it read; it holds no lock *)
| GS_fetch th r0 rest :
    nth_error (g_threads st) i = Some th -> gt_todo th = r0 :: rest -> gt_prog th = GNew ->
    lock_key (g_store st) (freeze (g_store st) r0) = None -> is_get (freeze (g_store st) r0) = true ->
    gstep_spec st i
      (mkGState (g_store st) (g_holders st)
                (upd_nth (g_threads st) i
                   (mkGThread (freeze (g_store st) r0 :: rest)
                              (GRead (effect_resp (g_store st) (EHandle (freeze (g_store st) r0))))))) OAt
(* ... and answers with it later, whatever the store has become *)
| GS_answer th r rest rsp :
    nth_error (g_threads st) i = Some th -> gt_todo th = r :: rest -> gt_prog th = GRead rsp ->
    gstep_spec st i
      (mkGState (g_store st) (release (g_holders st) i) (upd_nth (g_threads st) i (mkGThread rest GNew)))
      (ODone rsp).

Lemma gstep_spec_ok st i : gstep_spec st i (fst (gstep st i)) (snd (gstep st i)).
Proof.
  unfold gstep.
  destruct (nth_error (g_threads st) i) as [th|] eqn:Eth; [|cbn [fst snd]; apply GS_idle; unfold idle_reason; rewrite Eth; exact I].
  destruct (gt_todo th) as [|r0 rest] eqn:Etodo; [cbn [fst snd]; apply GS_idle; unfold idle_reason; rewrite Eth, Etodo; exact I|].
  destruct (gt_prog th) as [|cap|ans] eqn:Eprog.
  - (* GNew *)
    set (s := g_store st). set (r := freeze s r0).
    destruct (lock_key s r) as [k|] eqn:Ek.
    + match goal with |- context [if ?e then _ else _] => change e with (gearly s r) end.
      destruct (gearly s r) eqn:Eearly.
      * destruct (handle s r) as [s' rsp] eqn:Eh. cbn [fst snd].
        replace s' with (apply_geffect s (EHandle r)) by (cbn; rewrite Eh; reflexivity).
        replace rsp with (effect_resp s (EHandle r)) by (cbn; rewrite Eh; reflexivity).
        eapply GS_atomic; eauto. right. exists k. auto.
      * destruct (holder_of (g_holders st) k) as [j|] eqn:Eho.
        -- destruct (Nat.eqb_spec j i) as [Eji|Eji]; cbn [fst snd];
             [apply GS_idle; unfold idle_reason; rewrite Eth, Etodo; subst j; eauto|].
           eapply GS_blocked; eauto.
        -- destruct (reaches_yield s r) eqn:Ery.
           ++ cbn [fst snd]. eapply GS_at; eauto.
           ++ destruct (handle s r) as [s' rsp] eqn:Eh. cbn [fst snd].
              replace s' with (apply_geffect s (EHandle r)) by (cbn; rewrite Eh; reflexivity).
              replace rsp with (effect_resp s (EHandle r)) by (cbn; rewrite Eh; reflexivity).
              eapply GS_atomic; eauto. right. exists k. auto.
    + destruct (is_get r) eqn:Eget.
      * cbn [fst snd]. eapply GS_fetch; eauto.
      * destruct (handle s r) as [s' rsp] eqn:Eh. cbn [fst snd].
        replace s' with (apply_geffect s (EHandle r)) by (cbn; rewrite Eh; reflexivity).
        replace rsp with (effect_resp s (EHandle r)) by (cbn; rewrite Eh; reflexivity).
        eapply GS_atomic; eauto. left. split; assumption.
  - (* GHold *)
    set (s := g_store st).
    assert (Hgoal : forall st' o, (st', o) =
        (mkGState (apply_geffect s (hold_effect s r0 cap)) (release (g_holders st) i)
                  (upd_nth (g_threads st) i (mkGThread rest GNew)),
         ODone (effect_resp s (hold_effect s r0 cap))) ->
        gstep_spec st i (fst (st', o)) (snd (st', o))).
    { intros st' o E. rewrite E. cbn [fst snd]. eapply GS_commit; eauto. }
    apply Hgoal. unfold hold_effect.
    destruct r0; try (destruct (handle s _) as [s' rsp] eqn:Eh; cbn [apply_geffect effect_resp]; rewrite Eh; reflexivity).
    destruct cap as [o|]; [|destruct (handle s _) as [s' rsp] eqn:Eh; cbn [apply_geffect effect_resp]; rewrite Eh; reflexivity].
    destruct (lock_key _) as [k|]; [reflexivity|].
    destruct (handle s _) as [s' rsp] eqn:Eh; cbn [apply_geffect effect_resp]; rewrite Eh; reflexivity.
  - (* GRead *)
    cbn [fst snd]. eapply GS_answer; eauto.
Qed.

(* a GET takes no lock, has nothing to freeze and changes nothing *)
Lemma is_get_no_key s r : is_get r = true -> lock_key s r = None.
Proof. destruct r; cbn; try discriminate; reflexivity. Qed.

Lemma is_get_freeze s r : freeze s r = r \/ is_get (freeze s r) = false.
Proof. destruct r; cbn; auto. Qed.

Lemma is_get_freeze_eq s r : is_get (freeze s r) = is_get r.
Proof. destruct r; reflexivity. Qed.

Lemma is_get_freeze_id s r : is_get r = true -> freeze s r = r.
Proof. destruct r; cbn; try discriminate; reflexivity. Qed.

Lemma get_store_unchanged s r : is_get r = true -> fst (handle s r) = s.
Proof.
  destruct r; cbn [is_get]; try discriminate; intros _; cbn [handle].
  - destruct (find_obj s b n); reflexivity.
  - destruct (find_obj s b n); reflexivity.
  - destruct (get_bucket s b); reflexivity.
Qed.

Lemma grun_cons st i rest :
  grun st (i :: rest) = (fst (grun (fst (gstep st i)) rest), snd (gstep st i) :: snd (grun (fst (gstep st i)) rest)).
Proof. cbn [grun]. destruct (gstep st i) as [st1 o]. cbn [fst snd]. destruct (grun st1 rest). reflexivity. Qed.

Lemma grun_app st l1 : forall st0 l2, st0 = st ->
  grun st0 (l1 ++ l2) = (fst (grun (fst (grun st0 l1)) l2), snd (grun st0 l1) ++ snd (grun (fst (grun st0 l1)) l2)).
Proof.
  revert st. induction l1 as [|i r IH]; intros st st0 l2 ->.
  - cbn. destruct (grun st l2); reflexivity.
  - cbn [app]. rewrite !grun_cons. cbn [fst snd]. rewrite (IH _ _ l2 eq_refl). reflexivity.
Qed.

(* ================================================================== *)
(* 2. The lock invariant (item 1)                                       *)

(* thread i is parked at its yield (GHold — a GET parked between fetch and answer, GRead, holds no
   lock and is no holder) on a request r that locked k.  The key was computed in the store
   of the step that took the lock (GS_at), which for a resumable PUT need not be the present store
   (other PUTs of the same session may have changed the bytes held since): hence "in some store".
   For every other request the key does not depend on the store (lock_key_static). *)
Definition holds_key (st : gstate) (i : nat) (k : str * str) : Prop :=
  exists th r rest cap, nth_error (g_threads st) i = Some th /\ gt_todo th = r :: rest
    /\ gt_prog th = GHold cap /\ exists s, lock_key s r = Some k.

(* the holders list is the record of the keys taken: every entry is a parked thread whose request
   locked that key, and every parked thread has its entry (exactly one, by gi_thr).  For requests
   with a store-independent key this is the equivalence "(k, i) is a holder iff thread i is parked
   on a request whose key is k": glock_inv_iff_static below. *)
Record glock_inv (st : gstate) : Prop := mkGInv {
  gi_keys : NoDup (map fst (g_holders st));          (* at most one holder per object key *)
  gi_thr : NoDup (map snd (g_holders st));           (* a thread holds at most one lock *)
  gi_in : forall k i, In (k, i) (g_holders st) -> holds_key st i k;
  gi_hold : forall i th cap, nth_error (g_threads st) i = Some th -> gt_prog th = GHold cap ->
            exists r rest k, gt_todo th = r :: rest /\ In (k, i) (g_holders st) }.

Lemma NoDup_map_filter {A B} (f : A -> B) (p : A -> bool) l : NoDup (map f l) -> NoDup (map f (filter p l)).
Proof.
  induction l as [|x r IH]; cbn; intros H; [constructor|].
  inversion H as [|y ys Hn Hr]; subst. destruct (p x); cbn; auto.
  constructor; auto. intros Hin. apply Hn. apply in_map_iff in Hin. destruct Hin as [z [Hz Hin]].
  apply filter_In in Hin. apply in_map_iff. exists z. tauto.
Qed.

Lemma holds_key_upd_other s' hs' st i v j k : j <> i ->
  holds_key (mkGState s' hs' (upd_nth (g_threads st) i v)) j k <-> holds_key st j k.
Proof.
  intros Hne. unfold holds_key. cbn [g_threads]. rewrite nth_error_upd_other by exact Hne. tauto.
Qed.

Lemma holds_key_upd_new s' hs' st i th0 todo k : nth_error (g_threads st) i = Some th0 ->
  ~ holds_key (mkGState s' hs' (upd_nth (g_threads st) i (mkGThread todo GNew))) i k.
Proof.
  intros Hth [th [r [rest [cap [H1 [H2 [H3 H4]]]]]]]. cbn [g_threads] in H1.
  rewrite (nth_error_upd_same _ _ _ _ Hth) in H1. injection H1 as <-. cbn in H3. discriminate.
Qed.

Lemma not_holding_if_new st i th : glock_inv st -> nth_error (g_threads st) i = Some th -> gt_prog th = GNew ->
  ~ In i (map snd (g_holders st)).
Proof.
  intros Hinv Hth Hp Hin. apply in_map_iff in Hin. destruct Hin as [[k j] [E Hin]]. cbn in E. subst j.
  apply (gi_in _ Hinv) in Hin. destruct Hin as [th' [r [rest [cap [H1 [H2 [H3 H4]]]]]]].
  rewrite Hth in H1. injection H1 as <-. congruence.
Qed.

Lemma holders_thr_inj st k k' i : glock_inv st -> In (k, i) (g_holders st) -> In (k', i) (g_holders st) -> k = k'.
Proof.
  intros Hinv. pose proof (gi_thr _ Hinv) as Hnd. induction (g_holders st) as [|[k0 i0] r IH]; intros H1 H2; [destruct H1|].
  cbn [map snd] in Hnd. inversion Hnd as [|x y Hn Hr]; subst.
  destruct H1 as [H1|H1], H2 as [H2|H2]; try congruence; auto.
  - injection H1 as -> ->. exfalso. apply Hn. apply in_map_iff. exists (k', i). auto.
  - injection H2 as -> ->. exfalso. apply Hn. apply in_map_iff. exists (k, i). auto.
Qed.

(* the equivalence of the former invariant, for requests whose key does not depend on the store:
   (k, i) is a holder iff thread i is parked on a request whose key (in any store) is k *)
Lemma glock_inv_iff_static st i th r rest cap : glock_inv st ->
  nth_error (g_threads st) i = Some th -> gt_todo th = r :: rest -> gt_prog th = GHold cap -> key_static r ->
  forall k s, In (k, i) (g_holders st) <-> lock_key s r = Some k.
Proof.
  intros Hinv Hth Htodo Hprog Hst k s. split.
  - intros Hin. apply (gi_in _ Hinv) in Hin. destruct Hin as [th' [r' [rest' [cap' [H1 [H2 [H3 [s' H4]]]]]]]].
    rewrite Hth in H1. injection H1 as <-. rewrite Htodo in H2. injection H2 as <- <-.
    rewrite (lock_key_static s s' r Hst). exact H4.
  - intros Hk. destruct (gi_hold _ Hinv _ _ _ Hth Hprog) as [r' [rest' [k' [H1 H2]]]].
    pose proof (gi_in _ Hinv _ _ H2) as [th' [r'' [rest'' [cap' [H3 [H4 [H5 [s' H6]]]]]]]].
    rewrite Hth in H3. injection H3 as <-. rewrite Htodo in H4. injection H4 as <- <-.
    rewrite (lock_key_static s' s r Hst), Hk in H6. injection H6 as <-. exact H2.
Qed.

(* after a step that ends a request (holders released, thread back to GNew) *)
Lemma glock_inv_finish st i th s' todo : glock_inv st -> nth_error (g_threads st) i = Some th ->
  glock_inv (mkGState s' (release (g_holders st) i) (upd_nth (g_threads st) i (mkGThread todo GNew))).
Proof.
  intros Hinv Hth. constructor; cbn [g_holders g_threads].
  - apply NoDup_map_filter. apply (gi_keys _ Hinv).
  - apply NoDup_map_filter. apply (gi_thr _ Hinv).
  - intros k j Hin. apply release_in in Hin. destruct Hin as [Hin Hne].
    rewrite holds_key_upd_other by exact Hne. apply (gi_in _ Hinv). exact Hin.
  - intros j th' cap Hj Hp. destruct (Nat.eq_dec j i) as [->|Hne].
    + rewrite (nth_error_upd_same _ _ _ _ Hth) in Hj. injection Hj as <-. discriminate.
    + rewrite nth_error_upd_other in Hj by exact Hne.
      destruct (gi_hold _ Hinv _ _ _ Hj Hp) as [r [rest [k [H1 H2]]]]. exists r, rest, k. split; [exact H1|].
      apply release_in. auto.
Qed.

(* a thread that holds nothing is replaced by a thread that is not parked holding a lock (blocked:
   GNew again; a GET after its fetch: GRead), the holders are as they were *)
Lemma glock_inv_upd_nohold st i th s' v : glock_inv st -> nth_error (g_threads st) i = Some th ->
  gt_prog th = GNew -> (forall cap, gt_prog v <> GHold cap) ->
  glock_inv (mkGState s' (g_holders st) (upd_nth (g_threads st) i v)).
Proof.
  intros Hinv Hth Hprog Hv. constructor; cbn [g_holders g_threads].
  - apply (gi_keys _ Hinv).
  - apply (gi_thr _ Hinv).
  - intros k' j' Hin. destruct (Nat.eq_dec j' i) as [->|Hne].
    + exfalso. eapply not_holding_if_new; eauto. apply in_map_iff. exists (k', i). auto.
    + rewrite holds_key_upd_other by exact Hne. apply (gi_in _ Hinv). exact Hin.
  - intros j' th' cap Hj Hp. destruct (Nat.eq_dec j' i) as [->|Hne].
    + rewrite (nth_error_upd_same _ _ _ _ Hth) in Hj. injection Hj as <-. exfalso. eapply Hv; eauto.
    + rewrite nth_error_upd_other in Hj by exact Hne. eapply (gi_hold _ Hinv); eauto.
Qed.

Theorem glock_inv_step st i st' o : glock_inv st -> gstep_spec st i st' o -> glock_inv st'.
Proof.
  intros Hinv Hstep. destruct Hstep as [|th r0 rest k j Hth Htodo Hprog Hk Hearly Hho Hji
                                         |th r0 rest k Hth Htodo Hprog Hk Hearly Hho Hry
                                         |th r0 rest Hth Htodo Hprog Hat
                                         |th r rest cap Hth Htodo Hprog
                                         |th r0 rest Hth Htodo Hprog Hk Hget
                                         |th r rest rsp Hth Htodo Hprog].
  - exact Hinv.
  - (* blocked: only the head request of thread i is frozen *)
    eapply glock_inv_upd_nohold; eauto. intros cap; discriminate.
  - (* the lock is taken *)
    pose proof (not_holding_if_new st i th Hinv Hth Hprog) as Hni.
    constructor; cbn [g_holders g_threads map fst snd].
    + constructor; [apply holder_of_none; exact Hho|apply (gi_keys _ Hinv)].
    + constructor; [exact Hni|apply (gi_thr _ Hinv)].
    + intros k' j'. cbn [In]. destruct (Nat.eq_dec j' i) as [->|Hne].
      * intros [E|Hin].
        -- injection E as <-. eexists _, _, _, _. cbn [g_threads].
           rewrite (nth_error_upd_same _ _ _ _ Hth). repeat split; cbn; eauto.
        -- exfalso. apply Hni. apply in_map_iff. exists (k', i). auto.
      * rewrite holds_key_upd_other by exact Hne. intros [E|Hin]; [congruence|]. apply (gi_in _ Hinv). exact Hin.
    + intros j' th' cap Hj Hp. destruct (Nat.eq_dec j' i) as [->|Hne].
      * rewrite (nth_error_upd_same _ _ _ _ Hth) in Hj. injection Hj as <-. cbn [gt_todo]. eexists _, _, k.
        split; [reflexivity|]. left. reflexivity.
      * rewrite nth_error_upd_other in Hj by exact Hne.
        destruct (gi_hold _ Hinv _ _ _ Hj Hp) as [r [rest' [k' [H1 H2]]]]. exists r, rest', k'. split; [exact H1|].
        right. exact H2.
  - eapply glock_inv_finish; eauto.
  - eapply glock_inv_finish; eauto.
  - (* a GET parks with what it read: it holds nothing *)
    eapply glock_inv_upd_nohold; eauto. intros cap; discriminate.
  - eapply glock_inv_finish; eauto.
Qed.

Lemma glock_inv_gstep st i : glock_inv st -> glock_inv (fst (gstep st i)).
Proof. intros H. eapply glock_inv_step; [exact H|apply gstep_spec_ok]. Qed.

Lemma glock_inv_grun sched : forall st, glock_inv st -> glock_inv (fst (grun st sched)).
Proof.
  induction sched as [|i r IH]; intros st H; [exact H|]. rewrite grun_cons. cbn [fst].
  apply IH. apply glock_inv_gstep. exact H.
Qed.

Lemma glock_inv_init s0 progs : glock_inv (init_g s0 progs).
Proof.
  assert (Hnew : forall i th, nth_error (g_threads (init_g s0 progs)) i = Some th -> gt_prog th = GNew).
  { intros i th H. cbn in H. apply nth_error_In in H. apply in_map_iff in H. destruct H as [rs [<- _]]. reflexivity. }
  constructor; cbn [init_g g_holders map]; try constructor.
  - intros k i [].
  - intros i th cap H1 H2. apply Hnew in H1. congruence.
Qed.

(* item 1: the invariant holds in every state reachable from the initial one *)
Theorem glock_inv_reachable s0 progs sched : glock_inv (fst (grun (init_g s0 progs) sched)).
Proof. apply glock_inv_grun. apply glock_inv_init. Qed.

(* a step of thread i touches no other thread *)
Theorem gstep_other_threads st i j : j <> i ->
  nth_error (g_threads (fst (gstep st i))) j = nth_error (g_threads st) j.
Proof.
  intros Hne. destruct (gstep_spec_ok st i); cbn [g_threads]; try reflexivity; apply nth_error_upd_other; exact Hne.
Qed.

(* a blocked step: the key is held by ANOTHER thread (parked at its yield), and nothing changes
   but the freezing of the head request of thread i.  The key is the key of the request in the
   store of that step, g_store st, as gstep computes it (for a resumable PUT: the object of its
   session, when the PUT is the completing one) *)
Theorem gstep_blocked_spec st i : glock_inv st -> snd (gstep st i) = OBlocked ->
  exists th r0 rest k j,
    nth_error (g_threads st) i = Some th /\ gt_todo th = r0 :: rest /\ gt_prog th = GNew
    /\ lock_key (g_store st) r0 = Some k /\ j <> i /\ In (k, j) (g_holders st) /\ holds_key st j k
    /\ fst (gstep st i) = mkGState (g_store st) (g_holders st)
                            (upd_nth (g_threads st) i (mkGThread (freeze (g_store st) r0 :: rest) GNew)).
Proof.
  intros Hinv Ho. pose proof (gstep_spec_ok st i) as Hs. rewrite Ho in Hs.
  inversion Hs as [| th r0 rest k j Hth Htodo Hprog Hk Hearly Hho Hji | | | | |]; subst.
  exists th, r0, rest, k, j. rewrite lock_key_freeze in Hk. apply holder_of_some in Hho.
  repeat split; auto. apply (gi_in _ Hinv). exact Hho.
Qed.

(* store, holders and the other threads are unchanged by a step that is not a commit *)
Lemma gstep_store_unchanged st i : (forall rsp, snd (gstep st i) <> ODone rsp) -> g_store (fst (gstep st i)) = g_store st.
Proof.
  intros H. destruct (gstep_spec_ok st i); try reflexivity; exfalso; eapply H; reflexivity.
Qed.

(* ================================================================== *)
(* 3. The final store is the fold of the commit effects (item 2)        *)

(* the request thread i is working on, with its preconditions frozen, and its progress *)
Definition cur_req (st : gstate) (i : nat) : option (req * gprogress) :=
  match nth_error (g_threads st) i with
  | Some th => match gt_todo th with
               | r0 :: _ => Some (match gt_prog th with GNew => freeze (g_store st) r0 | _ => r0 end, gt_prog th)
               | [] => None
               end
  | None => None
  end.

(* the effect of the step of thread i, if it is a commit step: a GHold step, a GNew step that
   serves the request at once, or the FETCH step of a GET (the step that runs its handler: the GET
   is linearised there; the step that answers later, from GRead, is not a commit) *)
Definition step_effect (st : gstate) (i : nat) : option geffect :=
  match snd (gstep st i), cur_req st i with
  | ODone _, Some (r, GHold cap) => Some (hold_effect (g_store st) r cap)
  | ODone _, Some (r, GNew) => Some (EHandle r)
  | OAt, Some (r, GNew) => if is_get r then Some (EHandle r) else None
  | _, _ => None
  end.

Fixpoint geffects (st : gstate) (sched : list nat) : list geffect :=
  match sched with
  | [] => []
  | i :: rest => match step_effect st i with Some e => [e] | None => [] end
                 ++ geffects (fst (gstep st i)) rest
  end.

(* a step, summarised by its effect: a commit answers at once with the response of its effect,
   except the fetch of a GET, which parks holding that response; a step without effect leaves the
   store alone, and if it answers it is a parked GET giving the response it holds *)
Lemma step_effect_spec st i :
  match step_effect st i with
  | Some e => g_store (fst (gstep st i)) = apply_geffect (g_store st) e
              /\ (snd (gstep st i) = ODone (effect_resp (g_store st) e)
                  \/ (snd (gstep st i) = OAt /\ exists r, e = EHandle r /\ is_get r = true
                      /\ cur_req st i = Some (r, GNew)
                      /\ cur_req (fst (gstep st i)) i = Some (r, GRead (effect_resp (g_store st) e))))
  | None => g_store (fst (gstep st i)) = g_store st
            /\ forall rsp, snd (gstep st i) = ODone rsp -> exists r, cur_req st i = Some (r, GRead rsp)
  end.
Proof.
  unfold step_effect, cur_req.
  destruct (gstep_spec_ok st i) as [|th r0 rest k j Hth Htodo Hprog Hk Hearly Hho Hji
                                         |th r0 rest k Hth Htodo Hprog Hk Hearly Hho Hry
                                         |th r0 rest Hth Htodo Hprog Hat
                                         |th r rest cap Hth Htodo Hprog
                                         |th r0 rest Hth Htodo Hprog Hk Hget
                                         |th r rest rsp Hth Htodo Hprog]; cbn [g_store].
  1-2: split; [reflexivity|intros rsp; discriminate].
  - rewrite Hth, Htodo, Hprog. destruct (is_get (freeze (g_store st) r0)) eqn:Eg.
    + rewrite (is_get_no_key _ _ Eg) in Hk. discriminate.
    + split; [reflexivity|intros rsp; discriminate].
  - rewrite Hth, Htodo, Hprog. split; [reflexivity|left; reflexivity].
  - rewrite Hth, Htodo, Hprog. split; [reflexivity|left; reflexivity].
  - rewrite Hth, Htodo, Hprog, Hget. split.
    + cbn [apply_geffect]. symmetry. apply get_store_unchanged. exact Hget.
    + right. split; [reflexivity|]. exists (freeze (g_store st) r0). split; [reflexivity|]. split; [exact Hget|].
      split; [reflexivity|]. cbn [g_threads]. rewrite (nth_error_upd_same _ _ _ _ Hth). reflexivity.
  - rewrite Hth, Htodo, Hprog. split; [reflexivity|]. intros rsp0 E. injection E as <-. eauto.
Qed.

Lemma gstep_hold st i th r rest cap :
  nth_error (g_threads st) i = Some th -> gt_todo th = r :: rest -> gt_prog th = GHold cap ->
  gstep st i = (mkGState (apply_geffect (g_store st) (hold_effect (g_store st) r cap)) (release (g_holders st) i)
                         (upd_nth (g_threads st) i (mkGThread rest GNew)),
                ODone (effect_resp (g_store st) (hold_effect (g_store st) r cap))).
Proof.
  intros Hth Htodo Hprog. unfold gstep. rewrite Hth, Htodo, Hprog. set (s := g_store st). unfold hold_effect.
  destruct r; try (destruct (handle s _) as [s' rsp] eqn:Eh; cbn [apply_geffect effect_resp]; rewrite Eh; reflexivity).
  destruct cap as [o|]; [|destruct (handle s _) as [s' rsp] eqn:Eh; cbn [apply_geffect effect_resp]; rewrite Eh; reflexivity].
  destruct (lock_key _) as [k|]; [reflexivity|].
  destruct (handle s _) as [s' rsp] eqn:Eh; cbn [apply_geffect effect_resp]; rewrite Eh; reflexivity.
Qed.

Lemma gstep_read st i th r rest rsp :
  nth_error (g_threads st) i = Some th -> gt_todo th = r :: rest -> gt_prog th = GRead rsp ->
  gstep st i = (mkGState (g_store st) (release (g_holders st) i) (upd_nth (g_threads st) i (mkGThread rest GNew)),
                ODone rsp).
Proof. intros Hth Htodo Hprog. unfold gstep. rewrite Hth, Htodo, Hprog. reflexivity. Qed.

Lemma step_effect_read st i th r rest rsp :
  nth_error (g_threads st) i = Some th -> gt_todo th = r :: rest -> gt_prog th = GRead rsp ->
  step_effect st i = None.
Proof.
  intros Hth Htodo Hprog. unfold step_effect, cur_req. rewrite (gstep_read _ _ _ _ _ _ Hth Htodo Hprog), Hth, Htodo, Hprog.
  reflexivity.
Qed.

Lemma step_effect_hold st i th r rest cap :
  nth_error (g_threads st) i = Some th -> gt_todo th = r :: rest -> gt_prog th = GHold cap ->
  step_effect st i = Some (hold_effect (g_store st) r cap).
Proof.
  intros Hth Htodo Hprog. unfold step_effect, cur_req. rewrite (gstep_hold _ _ _ _ _ _ Hth Htodo Hprog), Hth, Htodo, Hprog.
  reflexivity.
Qed.

Lemma step_effect_store st i :
  g_store (fst (gstep st i)) = match step_effect st i with Some e => apply_geffect (g_store st) e | None => g_store st end.
Proof. pose proof (step_effect_spec st i) as H. destruct (step_effect st i); tauto. Qed.

Lemma step_effect_done st i rsp : snd (gstep st i) = ODone rsp ->
  (exists e, step_effect st i = Some e /\ rsp = effect_resp (g_store st) e)
  \/ (step_effect st i = None /\ exists r, cur_req st i = Some (r, GRead rsp)).
Proof.
  intros Ho. pose proof (step_effect_spec st i) as H. destruct (step_effect st i) as [e|].
  - left. exists e. split; [reflexivity|]. destruct H as [_ [H|[H _]]]; congruence.
  - right. split; [reflexivity|]. destruct H as [_ H]. apply H. exact Ho.
Qed.

Theorem gconc_effects sched : forall st,
  g_store (fst (grun st sched)) = fold_left apply_geffect (geffects st sched) (g_store st).
Proof.
  induction sched as [|i rest IH]; intros st; [reflexivity|].
  rewrite grun_cons. cbn [fst geffects]. rewrite IH, fold_left_app, step_effect_store.
  destruct (step_effect st i); reflexivity.
Qed.

(* the responses given, in schedule order *)
Definition done_resps (os : list outcome) : list resp :=
  flat_map (fun o => match o with ODone r => [r] | _ => [] end) os.

Fixpoint effect_resps (s : state) (es : list geffect) : list resp :=
  match es with
  | [] => []
  | e :: r => effect_resp s e :: effect_resps (apply_geffect s e) r
  end.

(* ================================================================== *)
(* 4. Serialisability of object requests (item 3)                       *)

Definition all_reqs (P : req -> Prop) (st : gstate) : Prop :=
  forall th, In th (g_threads st) -> Forall P (gt_todo th).

Lemma in_upd_nth {A} (l : list A) : forall i v x, In x (upd_nth l i v) -> x = v \/ In x l.
Proof.
  induction l as [|y ys IH]; intros [|i] v x H; cbn in *; auto.
  - destruct H; auto.
  - destruct H as [H|H]; auto. apply IH in H. tauto.
Qed.

Lemma all_reqs_step (P : req -> Prop) st i st' o : (forall s r, P r -> P (freeze s r)) ->
  all_reqs P st -> gstep_spec st i st' o -> all_reqs P st'.
Proof.
  intros Hfz Hall Hstep.
  assert (Hth : forall th r0 rest, nth_error (g_threads st) i = Some th -> gt_todo th = r0 :: rest -> P r0 /\ Forall P rest).
  { intros th r0 rest H1 H2. apply nth_error_In in H1. apply Hall in H1. rewrite H2 in H1. inversion H1; auto. }
  destruct Hstep as [|th r0 rest k j Hn Htodo Hprog Hk Hearly Hho Hji
                     |th r0 rest k Hn Htodo Hprog Hk Hearly Hho Hry
                     |th r0 rest Hn Htodo Hprog Hat
                     |th r rest cap Hn Htodo Hprog
                  |th r0 rest Hn Htodo Hprog Hk Hget
                  |th r rest rsp Hn Htodo Hprog]; [exact Hall|..];
    destruct (Hth _ _ _ Hn Htodo) as [H1 H2]; intros th' Hin; cbn [g_threads] in Hin;
    apply in_upd_nth in Hin; destruct Hin as [->|Hin]; cbn [gt_todo]; auto.
Qed.

Lemma all_reqs_gstep (P : req -> Prop) st i : (forall s r, P r -> P (freeze s r)) -> all_reqs P st -> all_reqs P (fst (gstep st i)).
Proof. intros Hf H. eapply all_reqs_step; eauto using gstep_spec_ok. Qed.

Lemma all_reqs_grun (P : req -> Prop) sched : (forall s r, P r -> P (freeze s r)) ->
  forall st, all_reqs P st -> all_reqs P (fst (grun st sched)).
Proof.
  intros Hf. induction sched as [|i r IH]; intros st H; [exact H|]. rewrite grun_cons. cbn [fst].
  apply IH. apply all_reqs_gstep; auto.
Qed.

Lemma all_reqs_init (P : req -> Prop) s0 progs : Forall (Forall P) progs -> all_reqs P (init_g s0 progs).
Proof.
  intros H th Hin. cbn in Hin. apply in_map_iff in Hin. destruct Hin as [rs [<- Hin]]. cbn.
  rewrite Forall_forall in H. auto.
Qed.

(* the request of a commit effect satisfies every freeze-stable property of the programs *)
Lemma step_effect_req (P : req -> Prop) st i r : (forall s r, P r -> P (freeze s r)) -> all_reqs P st ->
  forall cap, cur_req st i = Some (r, cap) -> P r.
Proof.
  intros Hf Hall cap. unfold cur_req. destruct (nth_error (g_threads st) i) as [th|] eqn:E; [|discriminate].
  apply nth_error_In in E. apply Hall in E. destruct (gt_todo th) as [|r0 rest]; [discriminate|].
  inversion E; subst. intros H. injection H as <- _. destruct (gt_prog th); auto.
Qed.

Definition not_compose (r : req) : Prop := match r with RCompose _ _ _ _ _ _ => False | _ => True end.

Lemma not_compose_freeze s r : not_compose r -> not_compose (freeze s r).
Proof. destruct r; cbn; auto. Qed.

Lemma hold_effect_not_compose s r cap : not_compose r -> hold_effect s r cap = EHandle r.
Proof. destruct r; cbn; tauto. Qed.

(* the linearisation: the frozen requests, in the order of their commit steps *)
Definition effect_reqs (es : list geffect) : list req :=
  flat_map (fun e => match e with EHandle r => [r] | EAdd _ _ _ => [] end) es.
Definition glog (st : gstate) (sched : list nat) : list req := effect_reqs (geffects st sched).

Definition is_handle_effect (e : geffect) : Prop := match e with EHandle _ => True | _ => False end.

Lemma step_effect_handle st i e : all_reqs not_compose st -> step_effect st i = Some e -> is_handle_effect e.
Proof.
  intros Hall. unfold step_effect. destruct (snd (gstep st i)); try discriminate;
  destruct (cur_req st i) as [[q [|cap|ans]]|] eqn:E; try discriminate.
  - destruct (is_get q); [|discriminate]. intros H; injection H as <-. exact I.
  - intros H; injection H as <-. exact I.
  - intros H; injection H as <-. rewrite hold_effect_not_compose; [exact I|].
    eapply (step_effect_req not_compose); eauto using not_compose_freeze.
Qed.

Lemma geffects_handle sched : forall st, all_reqs not_compose st -> Forall is_handle_effect (geffects st sched).
Proof.
  induction sched as [|i r IH]; intros st Hall; [constructor|]. cbn [geffects]. apply Forall_app. split.
  - destruct (step_effect st i) as [e|] eqn:E; constructor; [|constructor]. eapply step_effect_handle; eauto.
  - apply IH. apply all_reqs_gstep; auto using not_compose_freeze.
Qed.

Lemma handle_effects_run es : Forall is_handle_effect es -> forall s,
  fold_left apply_geffect es s = fst (run s (effect_reqs es))
  /\ effect_resps s es = snd (run s (effect_reqs es)).
Proof.
  induction 1 as [|e r He Hr IH]; intros s; [split; reflexivity|].
  destruct e as [q|]; [|destruct He]. cbn [fold_left effect_resps effect_reqs flat_map app run apply_geffect effect_resp].
  fold (effect_reqs r). destruct (handle s q) as [s1 rsp] eqn:Eh. cbn [fst snd].
  destruct (IH s1) as [H1 H2]. rewrite H1, H2. destruct (run s1 (effect_reqs r)). split; reflexivity.
Qed.

(* ---- the operations, their commits and their answers ---- *)

Definition todo_len (st : gstate) (i : nat) : nat :=
  match nth_error (g_threads st) i with Some th => length (gt_todo th) | None => O end.

(* an operation is identified by its thread and the number of requests the thread still has to
   serve, this one included (so the k-th request of a program of length L is (i, L - k)) *)
Definition op_of (st : gstate) (i : nat) : nat * nat := (i, todo_len st i).

(* the operation each step of the schedule works on *)
Fixpoint gops (st : gstate) (sched : list nat) : list (nat * nat) :=
  match sched with
  | [] => []
  | i :: rest => op_of st i :: gops (fst (gstep st i)) rest
  end.

(* the linearisation with the identity of each operation (a GET is linearised at its fetch) *)
Fixpoint glog_t (st : gstate) (sched : list nat) : list ((nat * nat) * req) :=
  match sched with
  | [] => []
  | i :: rest => match step_effect st i with Some (EHandle r) => [(op_of st i, r)] | _ => [] end
                 ++ glog_t (fst (gstep st i)) rest
  end.

Lemma glog_t_reqs sched : forall st, map snd (glog_t st sched) = glog st sched.
Proof.
  induction sched as [|i r IH]; intros st; [reflexivity|]. unfold glog in *. cbn [glog_t geffects].
  unfold effect_reqs in *. rewrite map_app, flat_map_app, IH. f_equal.
  destruct (step_effect st i) as [[q|b n o]|]; reflexivity.
Qed.

Lemma glog_t_app l1 : forall st l2, glog_t st (l1 ++ l2) = glog_t st l1 ++ glog_t (fst (grun st l1)) l2.
Proof.
  induction l1 as [|i r IH]; intros st l2; [reflexivity|]. cbn [app glog_t]. rewrite grun_cons. cbn [fst].
  rewrite IH, app_assoc. reflexivity.
Qed.

Lemma glog_t_in_ops sched : forall st op r, In (op, r) (glog_t st sched) -> In op (gops st sched).
Proof.
  induction sched as [|i rest IH]; intros st op r H; [destruct H|]. cbn [glog_t gops] in *.
  apply in_app_or in H. destruct H as [H|H].
  - left. destruct (step_effect st i) as [[q|b n o]|]; [|destruct H|destruct H].
    destruct H as [H|[]]. congruence.
  - right. eapply IH. exact H.
Qed.

(* item 3, real-time order: if operation A has COMMITTED in s1 (a fortiori if it has answered in
   s1: answered_has_committed below) before the first step of operation B (no step of B in s1),
   then A precedes B in the linearisation *)
Theorem gconc_real_time st s1 s2 A rA B rB :
  In (A, rA) (glog_t st s1) -> ~ In B (gops st s1) -> In (B, rB) (glog_t st (s1 ++ s2)) ->
  exists l1 l2 l3, glog_t st (s1 ++ s2) = l1 ++ (A, rA) :: l2 ++ (B, rB) :: l3.
Proof.
  intros HA HB HBin. rewrite glog_t_app in *. apply in_app_or in HBin. destruct HBin as [HBin|HBin].
  - exfalso. apply HB. eapply glog_t_in_ops. exact HBin.
  - apply in_split in HA. destruct HA as [a1 [a2 ->]]. apply in_split in HBin. destruct HBin as [b1 [b2 ->]].
    exists a1, (a2 ++ b1), b2. rewrite <- !app_assoc. cbn [app]. reflexivity.
Qed.

Lemma todo_len_step st i st' o j : gstep_spec st i st' o ->
  todo_len st' j = if Nat.eqb j i then match o with ODone _ => pred (todo_len st i) | _ => todo_len st i end
                   else todo_len st j.
Proof.
  intros Hs. unfold todo_len. destruct (Nat.eqb_spec j i) as [->|Hne].
  - destruct Hs as [|th r0 rest k j Hn Htodo Hprog Hk Hearly Hho Hji
                     |th r0 rest k Hn Htodo Hprog Hk Hearly Hho Hry
                     |th r0 rest Hn Htodo Hprog Hat
                     |th r rest cap Hn Htodo Hprog
                     |th r0 rest Hn Htodo Hprog Hk Hget
                     |th r rest rsp Hn Htodo Hprog]; [reflexivity|..]; cbn [g_threads];
      rewrite (nth_error_upd_same _ _ _ _ Hn), Hn, Htodo; reflexivity.
  - destruct Hs; cbn [g_threads]; try reflexivity; rewrite nth_error_upd_other by exact Hne; reflexivity.
Qed.

Lemma step_effect_todo st i e : step_effect st i = Some e -> (1 <= todo_len st i)%nat.
Proof.
  unfold step_effect, cur_req, todo_len. destruct (snd (gstep st i)); try discriminate;
  (destruct (nth_error (g_threads st) i) as [th|]; [|discriminate]);
  (destruct (gt_todo th); [discriminate|]); cbn; lia.
Qed.

(* thread j is a GET parked between its fetch and its answer *)
Definition is_reading (st : gstate) (j : nat) : Prop :=
  exists th rsp, nth_error (g_threads st) j = Some th /\ gt_prog th = GRead rsp.

(* thread (fst op) is parked on operation op holding the answer rsp *)
Definition reading (st : gstate) (op : nat * nat) (rsp : resp) : Prop :=
  exists th, nth_error (g_threads st) (fst op) = Some th /\ gt_prog th = GRead rsp
             /\ length (gt_todo th) = snd op.

Lemma reading_is_reading st j L rsp : reading st (j, L) rsp -> is_reading st j.
Proof. intros [th [H1 [H2 _]]]. exists th, rsp. auto. Qed.

Lemma reading_todo_len st j L rsp : reading st (j, L) rsp -> todo_len st j = L.
Proof. intros [th [H1 [_ H3]]]. cbn [fst snd] in *. unfold todo_len. rewrite H1. exact H3. Qed.

Lemma cur_req_reading st i r rsp : cur_req st i = Some (r, GRead rsp) -> reading st (op_of st i) rsp.
Proof.
  unfold cur_req, reading, op_of, todo_len. cbn [fst snd].
  destruct (nth_error (g_threads st) i) as [th|]; [|discriminate].
  destruct (gt_todo th) as [|r0 rest] eqn:E; [discriminate|]. intros H. injection H as _ H. exists th. rewrite E. auto.
Qed.

Lemma gstep_fetch st i th r0 rest :
  nth_error (g_threads st) i = Some th -> gt_todo th = r0 :: rest -> gt_prog th = GNew ->
  lock_key (g_store st) (freeze (g_store st) r0) = None -> is_get (freeze (g_store st) r0) = true ->
  gstep st i = (mkGState (g_store st) (g_holders st)
                  (upd_nth (g_threads st) i (mkGThread (freeze (g_store st) r0 :: rest)
                     (GRead (effect_resp (g_store st) (EHandle (freeze (g_store st) r0)))))), OAt).
Proof. intros Hth Htodo Hprog Hk Hget. unfold gstep. rewrite Hth, Htodo, Hprog. cbv zeta. rewrite Hk, Hget. reflexivity. Qed.

Lemma step_effect_fetch st i th r0 rest :
  nth_error (g_threads st) i = Some th -> gt_todo th = r0 :: rest -> gt_prog th = GNew ->
  lock_key (g_store st) (freeze (g_store st) r0) = None -> is_get (freeze (g_store st) r0) = true ->
  step_effect st i = Some (EHandle (freeze (g_store st) r0)).
Proof.
  intros Hth Htodo Hprog Hk Hget. unfold step_effect, cur_req.
  rewrite (gstep_fetch _ _ _ _ _ Hth Htodo Hprog Hk Hget), Hth, Htodo, Hprog. cbn [snd]. rewrite Hget. reflexivity.
Qed.

Lemma gstep_empty st i th : nth_error (g_threads st) i = Some th -> gt_todo th = [] -> gstep st i = (st, OIdle).
Proof. intros Hth Htodo. unfold gstep. rewrite Hth, Htodo. reflexivity. Qed.

(* a parked reader does not commit; its step (if it has one) answers *)
Lemma is_reading_no_effect st j : is_reading st j -> step_effect st j = None.
Proof.
  intros [th [rsp [Hth Hp]]]. destruct (gt_todo th) as [|r rest] eqn:Htodo.
  - unfold step_effect, cur_req. rewrite Hth, Htodo. destruct (snd (gstep st j)); reflexivity.
  - eapply step_effect_read; eauto.
Qed.

Lemma is_reading_answers st j : is_reading st j -> (1 <= todo_len st j)%nat -> exists rsp, snd (gstep st j) = ODone rsp.
Proof.
  intros [th [rsp [Hth Hp]]]. unfold todo_len. rewrite Hth. destruct (gt_todo th) as [|r rest] eqn:Htodo; [cbn; lia|].
  intros _. exists rsp. rewrite (gstep_read _ _ _ _ _ _ Hth Htodo Hp). reflexivity.
Qed.

(* a reader in the state after a step of thread i was a reader before, or thread i has just fetched *)
Lemma reading_step st i j L rsp : reading (fst (gstep st i)) (j, L) rsp ->
  reading st (j, L) rsp
  \/ (j = i /\ L = todo_len st i /\ snd (gstep st i) = OAt
      /\ exists e, step_effect st i = Some e /\ rsp = effect_resp (g_store st) e).
Proof.
  intros [th' [H1 [H2 H3]]]. cbn [fst snd] in *. destruct (Nat.eq_dec j i) as [->|Hne].
  - revert H1.
    destruct (gstep_spec_ok st i) as [Hid|th r0 rest k j Hn Htodo Hprog Hk Hearly Hho Hji
                     |th r0 rest k Hn Htodo Hprog Hk Hearly Hho Hry
                     |th r0 rest Hn Htodo Hprog Hat
                     |th r rest cap Hn Htodo Hprog
                     |th r0 rest Hn Htodo Hprog Hk Hget
                     |th r rest rsp0 Hn Htodo Hprog]; cbn [g_threads]; intros H1;
      try (rewrite (nth_error_upd_same _ _ _ _ Hn) in H1; injection H1 as <-; cbn [gt_prog] in H2; discriminate).
    + left. exists th'. auto.
    + right. rewrite (nth_error_upd_same _ _ _ _ Hn) in H1. injection H1 as <-. cbn [gt_prog gt_todo] in H2, H3.
      injection H2 as <-. split; [reflexivity|]. split; [unfold todo_len; rewrite Hn, Htodo; cbn [length] in *; congruence|].
      split; [reflexivity|]. exists (EHandle (freeze (g_store st) r0)). split; [|reflexivity].
      eapply step_effect_fetch; eauto.
  - left. rewrite gstep_other_threads in H1 by exact Hne. exists th'. auto.
Qed.

(* the operations that commit, in commit order *)
Fixpoint gcops (st : gstate) (sched : list nat) : list (nat * nat) :=
  match sched with
  | [] => []
  | i :: rest => match step_effect st i with Some _ => [op_of st i] | None => [] end
                 ++ gcops (fst (gstep st i)) rest
  end.

Lemma gcops_bound sched : forall st j L, In (j, L) (gcops st sched) ->
  (1 <= L <= todo_len st j)%nat /\ (is_reading st j -> (L < todo_len st j)%nat).
Proof.
  induction sched as [|i rest IH]; intros st j L H; [destruct H|]. cbn [gcops] in H.
  apply in_app_or in H. destruct H as [H|H].
  - destruct (step_effect st i) as [e|] eqn:E; [|destruct H]. destruct H as [H|[]].
    unfold op_of in H. injection H as <- <-. apply step_effect_todo in E as E'. split; [lia|].
    intros Hr. rewrite (is_reading_no_effect _ _ Hr) in E. discriminate.
  - apply IH in H. destruct H as [Hb Hs]. rewrite (todo_len_step st i _ _ j (gstep_spec_ok st i)) in Hb, Hs.
    destruct (Nat.eqb_spec j i) as [->|Hne].
    + split; [destruct (snd (gstep st i)); lia|]. intros Hr.
      destruct (Nat.eq_dec (todo_len st i) 0) as [E0|E0]; [destruct (snd (gstep st i)); lia|].
      destruct (is_reading_answers st i Hr ltac:(lia)) as [rsp Ho]. rewrite Ho in Hb. lia.
    + split; [exact Hb|]. intros [th [rsp [H1 H2]]]. apply Hs. exists th, rsp.
      rewrite gstep_other_threads by exact Hne. auto.
Qed.

(* every operation commits at most once *)
Theorem gcops_nodup sched : forall st, NoDup (gcops st sched).
Proof.
  induction sched as [|i rest IH]; intros st; [constructor|]. cbn [gcops].
  pose proof (step_effect_spec st i) as Hsp.
  destruct (step_effect st i) as [e|] eqn:E; cbn [app]; [|apply IH].
  constructor; [|apply IH]. intros Hin. unfold op_of in Hin. apply gcops_bound in Hin. destruct Hin as [Hb Hs].
  rewrite (todo_len_step st i _ _ i (gstep_spec_ok st i)), Nat.eqb_refl in Hb, Hs.
  destruct Hsp as [_ [Ho|[Ho [r [_ [_ [_ Hc]]]]]]]; rewrite Ho in Hb, Hs; [lia|].
  apply cur_req_reading in Hc. unfold op_of in Hc. apply reading_is_reading in Hc. apply Hs in Hc. lia.
Qed.

Lemma glog_t_gcops sched : forall st op r, In (op, r) (glog_t st sched) -> In op (gcops st sched).
Proof.
  induction sched as [|i rest IH]; intros st op r H; [destruct H|]. cbn [glog_t gcops] in *.
  apply in_app_or in H. apply in_or_app. destruct H as [H|H].
  - left. destruct (step_effect st i) as [[q|b n o]|]; [|destruct H|destruct H].
    destruct H as [H|[]]. left. congruence.
  - right. eapply IH. exact H.
Qed.

Lemma glog_t_bound sched : forall st j L r, In ((j, L), r) (glog_t st sched) -> (1 <= L <= todo_len st j)%nat.
Proof. intros st j L r H. apply glog_t_gcops in H. apply gcops_bound in H. tauto. Qed.

(* ... so the identities in the linearisation are distinct *)
Theorem glog_t_nodup sched : forall st, NoDup (map fst (glog_t st sched)).
Proof.
  induction sched as [|i rest IH]; intros st; [constructor|]. cbn [glog_t]. rewrite map_app.
  pose proof (gcops_nodup (i :: rest) st) as Hnd. cbn [gcops] in Hnd.
  destruct (step_effect st i) as [[q|b n o]|] eqn:E; cbn [map app]; try apply IH.
  constructor; [|apply IH]. intros Hin. apply in_map_iff in Hin. destruct Hin as [[op r] [E1 Hin]].
  cbn [fst] in E1. subst op. apply glog_t_gcops in Hin. cbn [app] in Hnd. inversion Hnd; auto.
Qed.

(* the commits and the answers of a run, each with the identity of its operation.  A commit
   carries the response of its effect in the store of the commit step; an answer is an ODone *)
Fixpoint gcommits_t (st : gstate) (sched : list nat) : list ((nat * nat) * resp) :=
  match sched with
  | [] => []
  | i :: rest => match step_effect st i with Some e => [(op_of st i, effect_resp (g_store st) e)] | None => [] end
                 ++ gcommits_t (fst (gstep st i)) rest
  end.

Fixpoint ganswers_t (st : gstate) (sched : list nat) : list ((nat * nat) * resp) :=
  match sched with
  | [] => []
  | i :: rest => match snd (gstep st i) with ODone rsp => [(op_of st i, rsp)] | _ => [] end
                 ++ ganswers_t (fst (gstep st i)) rest
  end.

Lemma gcommits_t_ops sched : forall st, map fst (gcommits_t st sched) = gcops st sched.
Proof.
  induction sched as [|i rest IH]; intros st; [reflexivity|]. cbn [gcommits_t gcops]. rewrite map_app, IH.
  destruct (step_effect st i); reflexivity.
Qed.

Lemma gcommits_t_resps sched : forall st, map snd (gcommits_t st sched) = effect_resps (g_store st) (geffects st sched).
Proof.
  induction sched as [|i rest IH]; intros st; [reflexivity|]. cbn [gcommits_t geffects]. rewrite map_app, IH, step_effect_store.
  destruct (step_effect st i); reflexivity.
Qed.

Lemma ganswers_t_resps sched : forall st, map snd (ganswers_t st sched) = done_resps (snd (grun st sched)).
Proof.
  induction sched as [|i rest IH]; intros st; [reflexivity|]. rewrite grun_cons. cbn [ganswers_t snd done_resps flat_map].
  fold (done_resps (snd (grun (fst (gstep st i)) rest))). rewrite map_app, IH. destruct (snd (gstep st i)); reflexivity.
Qed.

Lemma gcommits_t_app l1 : forall st l2, gcommits_t st (l1 ++ l2) = gcommits_t st l1 ++ gcommits_t (fst (grun st l1)) l2.
Proof.
  induction l1 as [|i r IH]; intros st l2; [reflexivity|]. cbn [app gcommits_t]. rewrite grun_cons. cbn [fst].
  rewrite IH, app_assoc. reflexivity.
Qed.

Lemma gcommits_t_in_ops sched : forall st op r, In (op, r) (gcommits_t st sched) -> In op (gops st sched).
Proof.
  induction sched as [|i rest IH]; intros st op r H; [destruct H|]. cbn [gcommits_t gops] in *.
  apply in_app_or in H. destruct H as [H|H].
  - left. destruct (step_effect st i); [|destruct H]. destruct H as [H|[]]. congruence.
  - right. eapply IH. exact H.
Qed.

(* every answer is the response of the operation's commit — computed at the commit step, which for
   a GET is its fetch — unless the operation was fetched before the run started *)
Theorem answer_is_commit_response sched : forall st op rsp, In (op, rsp) (ganswers_t st sched) ->
  In (op, rsp) (gcommits_t st sched) \/ reading st op rsp.
Proof.
  induction sched as [|i rest IH]; intros st op rsp H; [destruct H|]. cbn [ganswers_t gcommits_t] in *.
  apply in_app_or in H. destruct H as [H|H].
  - destruct (snd (gstep st i)) as [| |rsp0|] eqn:Ho; [destruct H|destruct H| |destruct H]. destruct H as [H|[]]. injection H as <- <-.
    destruct (step_effect_done st i rsp0 Ho) as [[e [E ->]]|[E [r Hc]]].
    + left. rewrite E. left. reflexivity.
    + right. apply cur_req_reading in Hc. exact Hc.
  - destruct (IH _ _ _ H) as [Hc|Hr]; [left; apply in_or_app; right; exact Hc|].
    destruct op as [j L]. destruct (reading_step st i j L rsp Hr) as [Hr'|[-> [-> [_ [e [E ->]]]]]]; [right; exact Hr'|].
    left. rewrite E. left. reflexivity.
Qed.

(* a parked reader stays parked until its own step, which gives the answer it holds *)
Lemma reading_answered sched : forall st j L rsp, reading st (j, L) rsp ->
  In ((j, L), rsp) (ganswers_t st sched) \/ reading (fst (grun st sched)) (j, L) rsp.
Proof.
  induction sched as [|k rest IH]; intros st j L rsp Hr; [right; exact Hr|]. rewrite grun_cons. cbn [fst ganswers_t].
  destruct (Nat.eq_dec k j) as [->|Hne].
  - pose proof Hr as [th [Hth [Hp Hl]]]. cbn [fst snd] in Hth, Hl. destruct (gt_todo th) as [|r rs] eqn:Htodo.
    + rewrite (gstep_empty _ _ _ Hth Htodo). cbn [fst snd app]. apply IH. exact Hr.
    + left. rewrite (gstep_read _ _ _ _ _ _ Hth Htodo Hp). cbn [snd]. left.
      unfold op_of, todo_len. rewrite Hth, Htodo. rewrite <- Hl. reflexivity.
  - assert (Hr1 : reading (fst (gstep st k)) (j, L) rsp).
    { destruct Hr as [th H]. exists th. cbn [fst snd] in *. rewrite gstep_other_threads by auto. exact H. }
    destruct (IH _ _ _ _ Hr1) as [H|H]; [left; apply in_or_app; right; exact H|right; exact H].
Qed.

(* every commit is answered with its response, or its operation is a GET still parked at the end *)
Theorem commit_is_answered sched : forall st op rsp, In (op, rsp) (gcommits_t st sched) ->
  In (op, rsp) (ganswers_t st sched) \/ reading (fst (grun st sched)) op rsp.
Proof.
  induction sched as [|i rest IH]; intros st op rsp H; [destruct H|]. rewrite grun_cons. cbn [fst ganswers_t gcommits_t] in *.
  apply in_app_or in H. destruct H as [H|H].
  - pose proof (step_effect_spec st i) as Hsp. destruct (step_effect st i) as [e|]; [|destruct H].
    destruct H as [H|[]]. injection H as <- <-. destruct Hsp as [_ [Ho|[Ho [r [_ [_ [_ Hc]]]]]]].
    + left. rewrite Ho. left. reflexivity.
    + apply cur_req_reading in Hc. rewrite Ho. cbn [app].
      assert (E : op_of (fst (gstep st i)) i = op_of st i).
      { unfold op_of. rewrite (todo_len_step st i _ _ i (gstep_spec_ok st i)), Nat.eqb_refl, Ho. reflexivity. }
      rewrite E in Hc. unfold op_of in *. apply reading_answered. exact Hc.
  - destruct (IH _ _ _ H) as [Ha|Hr]; [left; apply in_or_app; right; exact Ha|right; exact Hr].
Qed.

(* the answers of a parked reader are the one it holds *)
Lemma ganswers_t_bound sched : forall st j L rsp, In ((j, L), rsp) (ganswers_t st sched) -> (1 <= L <= todo_len st j)%nat.
Proof.
  induction sched as [|i rest IH]; intros st j L rsp H; [destruct H|]. cbn [ganswers_t] in H.
  apply in_app_or in H. destruct H as [H|H].
  - destruct (snd (gstep st i)) as [| |rsp0|] eqn:Ho; [destruct H|destruct H| |destruct H]. destruct H as [H|[]]. unfold op_of in H. injection H as <- <- _.
    pose proof (todo_len_step st i _ _ i (gstep_spec_ok st i)) as Ht. rewrite Nat.eqb_refl, Ho in Ht.
    revert Ho Ht. unfold todo_len. destruct (gstep_spec_ok st i) as [|? ? ? ? ? Hn Htodo| ? ? ? ? Hn Htodo | ? ? ? Hn Htodo | ? ? ? ? Hn Htodo | ? ? ? Hn Htodo | ? ? ? ? Hn Htodo];
      intros Ho Ht; try discriminate; rewrite Hn, Htodo; cbn [length]; lia.
  - apply IH in H. rewrite (todo_len_step st i _ _ j (gstep_spec_ok st i)) in H.
    destruct (Nat.eqb_spec j i) as [->|Hne]; [|exact H]. destruct (snd (gstep st i)); lia.
Qed.

Theorem reading_answer_unique sched : forall st j L rsp rsp', reading st (j, L) rsp ->
  In ((j, L), rsp') (ganswers_t st sched) -> rsp' = rsp.
Proof.
  induction sched as [|k rest IH]; intros st j L rsp rsp' Hr H; [destruct H|]. cbn [ganswers_t] in H.
  destruct (Nat.eq_dec k j) as [->|Hne].
  - pose proof Hr as [th [Hth [Hp Hl]]]. cbn [fst snd] in Hth, Hl. destruct (gt_todo th) as [|r rs] eqn:Htodo.
    + rewrite (gstep_empty _ _ _ Hth Htodo) in H. cbn [fst snd app] in H. eapply IH; eauto.
    + pose proof (todo_len_step st j _ _ j (gstep_spec_ok st j)) as Ht. rewrite Nat.eqb_refl in Ht.
      rewrite (gstep_read _ _ _ _ _ _ Hth Htodo Hp) in H, Ht. cbn [fst snd] in H, Ht.
      apply in_app_or in H. destruct H as [[H|[]]|H]; [congruence|].
      apply ganswers_t_bound in H. rewrite Ht in H. rewrite (reading_todo_len _ _ _ _ Hr) in H. lia.
  - apply in_app_or in H. destruct H as [H|H].
    + destruct (snd (gstep st k)); [destruct H|destruct H| |destruct H]. destruct H as [H|[]]. unfold op_of in H. congruence.
    + assert (Hr1 : reading (fst (gstep st k)) (j, L) rsp).
      { destruct Hr as [th Hx]. exists th. cbn [fst snd] in *. rewrite gstep_other_threads by auto. exact Hx. }
      eapply IH; eauto.
Qed.

(* programs without GETs, started with no reader parked: answers and commits coincide step by step *)
Definition not_get (r : req) : Prop := is_get r = false.
Definition no_reads (st : gstate) : Prop := forall th, In th (g_threads st) -> forall rsp, gt_prog th <> GRead rsp.

Lemma not_get_freeze s r : not_get r -> not_get (freeze s r).
Proof. unfold not_get. rewrite is_get_freeze_eq. auto. Qed.

Lemma no_reads_init s0 progs : no_reads (init_g s0 progs).
Proof. intros th Hin rsp. cbn in Hin. apply in_map_iff in Hin. destruct Hin as [rs [<- _]]. discriminate. Qed.

Lemma no_reads_not_reading st op rsp : no_reads st -> ~ reading st op rsp.
Proof. intros Hn [th [H1 [H2 _]]]. apply nth_error_In in H1. eapply Hn; eauto. Qed.

Lemma no_reads_step st i st' o : all_reqs not_get st -> no_reads st -> gstep_spec st i st' o -> no_reads st'.
Proof.
  intros Hall Hn Hs.
  destruct Hs as [|th r0 rest k j Hth Htodo Hprog Hk Hearly Hho Hji
                  |th r0 rest k Hth Htodo Hprog Hk Hearly Hho Hry
                  |th r0 rest Hth Htodo Hprog Hat
                  |th r rest cap Hth Htodo Hprog
                  |th r0 rest Hth Htodo Hprog Hk Hget
                  |th r rest rsp Hth Htodo Hprog]; [exact Hn|..];
    intros th' Hin rsp'; cbn [g_threads] in Hin; apply in_upd_nth in Hin; destruct Hin as [->|Hin];
    try (apply Hn; exact Hin); try discriminate.
  exfalso. apply nth_error_In in Hth. apply Hall in Hth. rewrite Htodo in Hth. inversion Hth as [|x y Hx Hy]; subst.
  apply (not_get_freeze (g_store st)) in Hx. unfold not_get in Hx. congruence.
Qed.

Theorem gconc_effect_resps_get_free sched : forall st, all_reqs not_get st -> no_reads st ->
  done_resps (snd (grun st sched)) = effect_resps (g_store st) (geffects st sched).
Proof.
  induction sched as [|i rest IH]; intros st Hall Hn; [reflexivity|].
  rewrite grun_cons. cbn [snd geffects done_resps flat_map]. fold (done_resps (snd (grun (fst (gstep st i)) rest))).
  rewrite IH; [|apply all_reqs_gstep; auto using not_get_freeze|eapply no_reads_step; eauto using gstep_spec_ok].
  pose proof (step_effect_spec st i) as H. destruct (step_effect st i) as [e|].
  - destruct H as [H1 [H2|[_ [r [_ [Hg [Hc _]]]]]]].
    + rewrite H1, H2. reflexivity.
    + exfalso. apply (step_effect_req not_get st i r not_get_freeze Hall) in Hc. unfold not_get in Hc. congruence.
  - destruct H as [H1 H2]. rewrite H1. destruct (snd (gstep st i)) as [| |rsp|]; try reflexivity.
    exfalso. destruct (H2 rsp eq_refl) as [r Hc]. apply cur_req_reading in Hc. eapply no_reads_not_reading; eauto.
Qed.

(* the responses: commit responses in commit order are the responses of the effects; the answers
   given are exactly the commit responses of the same operations (a GET answers later than it
   commits, so the ORDER of the answers may differ from the commit order) *)
Theorem gconc_effect_resps sched st :
  map snd (gcommits_t st sched) = effect_resps (g_store st) (geffects st sched)
  /\ map snd (ganswers_t st sched) = done_resps (snd (grun st sched))
  /\ (forall op rsp, In (op, rsp) (ganswers_t st sched) -> In (op, rsp) (gcommits_t st sched) \/ reading st op rsp)
  /\ (forall op rsp, In (op, rsp) (gcommits_t st sched) ->
        In (op, rsp) (ganswers_t st sched) \/ reading (fst (grun st sched)) op rsp)
  /\ NoDup (map fst (gcommits_t st sched)).
Proof.
  split; [apply gcommits_t_resps|]. split; [apply ganswers_t_resps|]. split; [apply answer_is_commit_response|].
  split; [apply commit_is_answered|]. rewrite gcommits_t_ops. apply gcops_nodup.
Qed.

(* item 3: for programs without compose, every schedule is equivalent to the SEQUENTIAL run of
   the frozen requests in commit order: same final store, and every operation's response is the
   response the sequential run gives at its position (gcommits_t lists them in commit order; the
   answers given are these, by gconc_effect_resps) *)
Theorem gconc_serializable_object_from st sched : all_reqs not_compose st ->
  g_store (fst (grun st sched)) = fst (run (g_store st) (glog st sched))
  /\ map snd (gcommits_t st sched) = snd (run (g_store st) (glog st sched))
  /\ map fst (gcommits_t st sched) = map fst (glog_t st sched).
Proof.
  intros Hall. rewrite gconc_effects, gcommits_t_resps. pose proof (geffects_handle sched st Hall) as Hh.
  destruct (handle_effects_run _ Hh (g_store st)) as [H1 H2]. split; [exact H1|]. split; [exact H2|].
  rewrite gcommits_t_ops. clear H1 H2 Hh. revert st Hall.
  induction sched as [|i rest IH]; intros st Hall; [reflexivity|]. cbn [gcops glog_t]. rewrite map_app, IH
    by (apply all_reqs_gstep; auto using not_compose_freeze).
  f_equal. destruct (step_effect st i) as [e|] eqn:E; [|reflexivity].
  apply (step_effect_handle st i e Hall) in E. destruct e; [reflexivity|destruct E].
Qed.

(* ... and without GETs either (no reader parked at the start), the answers come in commit order:
   the former statement *)
Theorem gconc_serializable_object_get_free_from st sched : all_reqs not_compose st -> all_reqs not_get st -> no_reads st ->
  g_store (fst (grun st sched)) = fst (run (g_store st) (glog st sched))
  /\ done_resps (snd (grun st sched)) = snd (run (g_store st) (glog st sched)).
Proof.
  intros Hall Hg Hn. rewrite gconc_effects, (gconc_effect_resps_get_free sched st Hg Hn).
  apply handle_effects_run. apply geffects_handle. exact Hall.
Qed.

Theorem gconc_serializable_object s0 progs sched : Forall (Forall not_compose) progs ->
  let st := init_g s0 progs in
  g_store (fst (grun st sched)) = fst (run s0 (glog st sched))
  /\ map snd (gcommits_t st sched) = snd (run s0 (glog st sched))
  /\ map fst (gcommits_t st sched) = map fst (glog_t st sched)
  /\ (forall op rsp, In (op, rsp) (ganswers_t st sched) -> In (op, rsp) (gcommits_t st sched))
  /\ (forall op rsp, In (op, rsp) (gcommits_t st sched) ->
        In (op, rsp) (ganswers_t st sched) \/ reading (fst (grun st sched)) op rsp).
Proof.
  intros H st. destruct (gconc_serializable_object_from st sched) as [H1 [H2 H3]]; [apply all_reqs_init; exact H|].
  split; [exact H1|]. split; [exact H2|]. split; [exact H3|]. split; [|apply commit_is_answered].
  intros op rsp Ha. destruct (answer_is_commit_response _ _ _ _ Ha) as [Hc|Hr]; [exact Hc|].
  exfalso. eapply no_reads_not_reading; [apply no_reads_init|exact Hr].
Qed.

Theorem gconc_serializable_object_get_free s0 progs sched :
  Forall (Forall not_compose) progs -> Forall (Forall not_get) progs ->
  let st := init_g s0 progs in
  g_store (fst (grun st sched)) = fst (run s0 (glog st sched))
  /\ done_resps (snd (grun st sched)) = snd (run s0 (glog st sched)).
Proof.
  intros H Hg st. apply (gconc_serializable_object_get_free_from st sched); [apply all_reqs_init; exact H|apply all_reqs_init; exact Hg|apply no_reads_init].
Qed.

(* real-time order for answers: an operation that has ANSWERED in s1 has committed in s1 *)
Theorem answered_has_committed st s1 A rsp : ~ reading st A rsp -> In (A, rsp) (ganswers_t st s1) -> In (A, rsp) (gcommits_t st s1).
Proof. intros Hn Ha. destruct (answer_is_commit_response _ _ _ _ Ha); tauto. Qed.

Theorem gconc_real_time_answered st s1 s2 A rspA B rspB :
  ~ reading st A rspA -> In (A, rspA) (ganswers_t st s1) -> ~ In B (gops st s1) -> In (B, rspB) (gcommits_t st (s1 ++ s2)) ->
  exists l1 l2 l3, gcommits_t st (s1 ++ s2) = l1 ++ (A, rspA) :: l2 ++ (B, rspB) :: l3.
Proof.
  intros Hn HA HB HBin. apply (answered_has_committed _ _ _ _ Hn) in HA.
  rewrite gcommits_t_app in *. apply in_app_or in HBin. destruct HBin as [HBin|HBin].
  - exfalso. apply HB. eapply gcommits_t_in_ops. exact HBin.
  - apply in_split in HA. destruct HA as [a1 [a2 ->]]. apply in_split in HBin. destruct HBin as [b1 [b2 ->]].
    exists a1, (a2 ++ b1), b2. rewrite <- !app_assoc. cbn [app]. reflexivity.
Qed.

(* ---- compose: the weaker, true fact ---- *)

(* the capture step: every source exists (and passes its generation condition) in ONE store
   state, the store at that step, and the parked thread holds their concatenation.  (The key of a
   compose is the parsed destination; it does not depend on the store, g_store st is the store
   gstep computes it in at this step.) *)
Theorem compose_capture st i b dst bad srcs dm cp :
  cur_req st i = Some (RCompose b dst bad srcs dm cp, GNew) -> snd (gstep st i) = OAt ->
  exists dstname,
    lock_key (g_store st) (RCompose b dst bad srcs dm cp) = Some (b, dstname)
    /\ Forall (src_usable (g_store st) b) srcs
    /\ g_store (fst (gstep st i)) = g_store st
    /\ cur_req (fst (gstep st i)) i
       = Some (RCompose b dst bad srcs dm cp,
               GHold (Some (mkObj (flat_map (src_data (g_store st) b) srcs) (dm_ctype dm)
                                  (s_clock (g_store st) + 1) 1 false (dm_meta dm)))).
Proof.
  intros Hcur Ho. pose proof (gstep_spec_ok st i) as Hs. rewrite Ho in Hs.
  inversion Hs as [| |th r0 rest k Hth Htodo Hprog Hk Hearly Hho Hry Hst| | |th r0 rest Hth Htodo Hprog Hk Hget Hst|]; subst; clear Hs;
    [|exfalso; unfold cur_req in Hcur; rewrite Hth, Htodo, Hprog in Hcur; injection Hcur as Hr; rewrite Hr in Hget; discriminate].
  unfold cur_req in Hcur. rewrite Hth, Htodo, Hprog in Hcur. injection Hcur as Hr.
  rewrite Hr in *. unfold reaches_yield in Hry. apply Z.eqb_eq in Hry.
  destruct (compose_200_inv _ _ _ _ _ _ _ Hry) as [dstname [x [Hsplit [Huse Hfst]]]].
  assert (Ek : lock_key (g_store st) (RCompose b dst bad srcs dm cp) = Some (b, dstname) /\ k = (b, dstname)).
  { cbn [lock_key] in *. rewrite Hsplit in *. destruct dstname; [discriminate Hk|]. split; [reflexivity|congruence]. }
  destruct Ek as [Ek0 Ek]. subst k. exists dstname. split; [exact Ek0|]. split; [exact Huse|].
  cbn [g_store]. split; [reflexivity|]. unfold cur_req. cbn [g_threads g_store].
  rewrite (nth_error_upd_same _ _ _ _ Hth). cbn [gt_todo gt_prog]. unfold capture. rewrite Hfst.
  cbn [fst snd]. rewrite find_obj_store_add_same. reflexivity.
Qed.

(* the commit: what was captured is stored, with a generation fresh at COMMIT time (the key is
   recomputed by gstep in the store of the commit step; for compose it is store-independent) *)
Theorem compose_commit st i b dst bad srcs dm cp o d :
  cur_req st i = Some (RCompose b dst bad srcs dm cp, GHold (Some o)) ->
  lock_key (g_store st) (RCompose b dst bad srcs dm cp) = Some (b, d) ->
  let s := g_store st in
  let o' := mkObj (o_data o) (o_ctype o) (s_clock s + 1) 1 (o_md5 o) (o_meta o) in
  step_effect st i = Some (EAdd b d o)
  /\ snd (gstep st i) = ODone (mkResp 200 (BMeta (view b d o')))
  /\ find_obj (g_store (fst (gstep st i))) b d = Some o'
  /\ (forall b' n', (b', n') <> (b, d) -> find_obj (g_store (fst (gstep st i))) b' n' = find_obj s b' n')
  /\ (gens_bounded s -> forall b0 n0 o0, find_obj s b0 n0 = Some o0 -> o_gen o0 < o_gen o').
Proof.
  intros Hcur Hk s o'.
  assert (He : step_effect st i = Some (EAdd b d o)).
  { unfold cur_req in Hcur. destruct (nth_error (g_threads st) i) as [th|] eqn:Hth; [|discriminate].
    destruct (gt_todo th) as [|r0 rest] eqn:Htodo; [discriminate|]. injection Hcur as Hr Hp. rewrite Hp in Hr. subst r0.
    rewrite (step_effect_hold _ _ _ _ _ _ Hth Htodo Hp). unfold hold_effect. rewrite Hk. reflexivity. }
  split; [exact He|]. pose proof (step_effect_spec st i) as Hsp. rewrite He in Hsp.
  destruct Hsp as [H1 [H2|[_ [r [Er _]]]]]; [|discriminate Er].
  cbn [apply_geffect effect_resp] in H1, H2. fold s in H1, H2.
  assert (Hf : find_obj (g_store (fst (gstep st i))) b d = Some o').
  { rewrite H1. apply find_obj_store_add_same. }
  split; [rewrite H2; unfold resp_meta; rewrite <- H1, Hf; reflexivity|]. split; [exact Hf|]. split.
  - intros b' n' Hne. rewrite H1. apply find_obj_store_add_other. exact Hne.
  - intros Hb b0 n0 o0 Hf0. apply (gens_bounded_find _ _ _ _ Hb) in Hf0. cbn. lia.
Qed.

(* ================================================================== *)
(* 5. Exactly one conditional writer wins (item 4)                      *)

Lemma all_reqs_weaken (P Q : req -> Prop) st : (forall r, P r -> Q r) -> all_reqs P st -> all_reqs Q st.
Proof. intros H Hall th Hin. eapply Forall_impl; [exact H|]. apply Hall. exact Hin. Qed.

Lemma step_effect_handle_req st i r : step_effect st i = Some (EHandle r) -> exists p, cur_req st i = Some (r, p).
Proof.
  unfold step_effect. destruct (snd (gstep st i)); try discriminate;
  destruct (cur_req st i) as [[q [|cap|ans]]|]; try discriminate.
  - destruct (is_get q); [|discriminate]. intros H; injection H as <-. eauto.
  - intros H; injection H as <-. eauto.
  - intros H; injection H as H. unfold hold_effect in H. destruct q; try (injection H as <-; eauto).
    destruct cap; [destruct (lock_key _); [discriminate|]|]; injection H as <-; eauto.
Qed.

Lemma glog_all (P : req -> Prop) sched : (forall s r, P r -> P (freeze s r)) ->
  forall st, all_reqs P st -> Forall P (glog st sched).
Proof.
  intros Hf. unfold glog. induction sched as [|i rest IH]; intros st Hall; [constructor|].
  cbn [geffects]. unfold effect_reqs. rewrite flat_map_app. apply Forall_app. split.
  - destruct (step_effect st i) as [[q|b n o]|] eqn:E; cbn; constructor; [|constructor].
    apply step_effect_handle_req in E. destruct E as [p E]. eapply step_effect_req; eauto.
  - apply IH. apply all_reqs_gstep; auto.
Qed.

(* requests not yet answered *)
Definition pending (st : gstate) : nat := list_sum (map (fun th => length (gt_todo th)) (g_threads st)).
Definition all_done (st : gstate) : Prop := forall th, In th (g_threads st) -> gt_todo th = [].

Lemma list_sum_upd {A} (f : A -> nat) (l : list A) : forall i x v, nth_error l i = Some x ->
  (list_sum (map f (upd_nth l i v)) + f x = list_sum (map f l) + f v)%nat.
Proof.
  unfold list_sum. induction l as [|y ys IH]; intros [|i] x v H; cbn in *; try discriminate.
  - injection H as ->. lia.
  - specialize (IH i x v H). lia.
Qed.

Lemma pending_step st i st' o : gstep_spec st i st' o ->
  pending st = (pending st' + match o with ODone _ => 1 | _ => 0 end)%nat.
Proof.
  intros Hs. unfold pending.
  destruct Hs as [|th r0 rest k j Hn Htodo Hprog Hk Hearly Hho Hji
                  |th r0 rest k Hn Htodo Hprog Hk Hearly Hho Hry
                  |th r0 rest Hn Htodo Hprog Hat
                  |th r rest cap Hn Htodo Hprog
                  |th r0 rest Hn Htodo Hprog Hk Hget
                  |th r rest rsp Hn Htodo Hprog]; [lia|..]; cbn [g_threads];
  match goal with |- context [upd_nth _ _ ?v] =>
    pose proof (list_sum_upd (fun th => length (gt_todo th)) _ _ _ v Hn) as H end;
  cbn [gt_todo] in H; rewrite Htodo in H; cbn [length] in H; lia.
Qed.

Lemma pending_grun sched : forall st,
  pending st = (pending (fst (grun st sched)) + length (done_resps (snd (grun st sched))))%nat.
Proof.
  induction sched as [|i rest IH]; intros st; [cbn; lia|]. rewrite grun_cons. cbn [fst snd].
  rewrite (pending_step st i _ _ (gstep_spec_ok st i)), (IH (fst (gstep st i))).
  destruct (snd (gstep st i)); cbn [done_resps flat_map app length];
    fold (done_resps (snd (grun (fst (gstep st i)) rest))); lia.
Qed.

Lemma all_done_pending st : all_done st -> pending st = O.
Proof.
  unfold all_done, pending. induction (g_threads st) as [|th r IH]; intros H; [reflexivity|].
  cbn [map list_sum fold_right]. rewrite (H th (or_introl eq_refl)). cbn [length Nat.add].
  apply IH. intros th' Hin. apply H. right. exact Hin.
Qed.

Lemma run_length log : forall s, length (snd (run s log)) = length log.
Proof.
  induction log as [|r t IH]; intros s; [reflexivity|]. cbn [run]. destruct (handle s r) as [s1 rsp].
  specialize (IH s1). destruct (run s1 t). cbn in *. lia.
Qed.

Section OneWinner.
  (* a family of requests of which the first to be served succeeds and disarms all the others *)
  Variable P : req -> Prop.
  Variables armed spent : state -> Prop.
  Hypothesis P_freeze : forall s r, P r -> P (freeze s r).
  Hypothesis P_not_compose : forall r, P r -> not_compose r.
  Hypothesis P_not_get : forall r, P r -> not_get r.
  Hypothesis win : forall s r, P r -> armed s -> r_status (snd (handle s r)) = 200 /\ spent (fst (handle s r)).
  Hypothesis lose : forall s r, P r -> spent s -> handle s r = (s, err 412).

  (* sequentially: after one succeeds the condition is false for all later ones *)
  Lemma losers_seq log : forall s, Forall P log -> spent s ->
    run s log = (s, map (fun _ => err 412) log).
  Proof.
    induction log as [|r t IH]; intros s Hall Hsp; [reflexivity|]. inversion Hall as [|x y Hr Ht]; subst.
    cbn [run map]. rewrite (lose s r Hr Hsp), (IH s Ht Hsp). reflexivity.
  Qed.

  Lemma one_winner_seq log s : Forall P log -> armed s ->
    map r_status (snd (run s log)) = match log with [] => [] | _ :: t => 200 :: repeat 412 (length t) end.
  Proof.
    intros Hall Harm. destruct log as [|r t]; [reflexivity|]. inversion Hall as [|x y Hr Ht]; subst.
    destruct (win s r Hr Harm) as [H200 Hsp]. cbn [run]. destruct (handle s r) as [s1 rsp]. cbn [fst snd] in *.
    rewrite (losers_seq t s1 Ht Hsp). cbn [snd map]. rewrite H200. f_equal.
    clear. induction t as [|x t IH]; cbn; [reflexivity|]. f_equal. exact IH.
  Qed.

  (* concurrently, for every schedule that lets all threads finish: the first to commit answers
     200, every other one 412.
     FULL statement (without no_reads st) is false since threads can be parked in GRead: a thread of
     st parked in GRead answers with whatever response it holds, whatever its request is
     (exactly_one_conditional_writer_wins_from_refuted_parked_reader).  Exact guard: no thread of st
     is parked in GRead — true of every initial state, and of every state reachable from one by
     these programs, which contain no GET. *)
  Theorem one_winner_conc_partial st sched : all_reqs P st -> no_reads st -> armed (g_store st) ->
    all_done (fst (grun st sched)) ->
    map r_status (done_resps (snd (grun st sched)))
    = match pending st with O => [] | S k => 200 :: repeat 412 k end.
  Proof.
    intros Hall Hnr Harm Hdone.
    destruct (gconc_serializable_object_get_free_from st sched (all_reqs_weaken _ _ st P_not_compose Hall)
                (all_reqs_weaken _ _ st P_not_get Hall) Hnr) as [_ Hresp].
    pose proof (pending_grun sched st) as Hp. rewrite (all_done_pending _ Hdone), Hresp, run_length in Hp.
    rewrite Hresp, (one_winner_seq _ _ (glog_all P sched P_freeze st Hall) Harm).
    cbn [Nat.add] in Hp. rewrite Hp. destruct (glog st sched); reflexivity.
  Qed.
End OneWinner.

(* literal preconditions: ifGenerationMatch = a, nothing else *)
Definition cp_lit (a : str) : cparams := mkCP (PRaw a) (PRaw []) (PRaw []) (PRaw []).

Lemma cval_print_int g : 0 <= g <= int64_max -> cval_of_raw (print_int g) = VNum g.
Proof.
  intros Hg. unfold cval_of_raw. destruct (print_int_digits g (proj1 Hg)) as [_ [h [t [E _]]]].
  rewrite parse_print_int_roundtrip by (unfold int64_min; lia). rewrite E. reflexivity.
Qed.

Lemma resolve_conds_lit_gen s g : 0 <= g <= int64_max ->
  resolve_conds s (cp_lit (print_int g)) = Some (mkConds g 0 0 0 (Z.eqb g 0)).
Proof. intros Hg. unfold resolve_conds, cp_lit. cbn [cp1 cp2 cp3 cp4 resolve]. rewrite (cval_print_int g Hg). reflexivity. Qed.

(* uploads of (b, n) conditioned on generation g *)
Definition gen_upload (b n : str) (g : Z) (r : req) : Prop :=
  exists ct d, r = RUploadMedia b n ct d (cp_lit (print_int g)).
(* uploads of (b, n) conditioned on non-existence: ifGenerationMatch=0 *)
Definition dne_upload (b n : str) (r : req) : Prop :=
  exists ct d, r = RUploadMedia b n ct d (cp_lit [48%N]).

Definition has_gen (b n : str) (g : Z) (s : state) : Prop :=
  exists o, find_obj s b n = Some o /\ o_gen o = g /\ g <= s_clock s.
Definition has_other_gen (b n : str) (g : Z) (s : state) : Prop :=
  exists o, find_obj s b n = Some o /\ o_gen o <> g.

Lemma gen_upload_win b n g s r : n <> [] -> 0 < g <= int64_max -> gen_upload b n g r -> has_gen b n g s ->
  r_status (snd (handle s r)) = 200 /\ has_other_gen b n g (fst (handle s r)).
Proof.
  intros Hn Hg [ct [d ->]] [o [Hf [Ho Hc]]]. cbn [handle]. rewrite resolve_conds_lit_gen by lia.
  destruct n as [|c n']; [congruence|]. unfold finish_upload. rewrite Hf. cbn [obj_gens validate_conds c_dne c_gm c_gnm c_mm c_mnm].
  rewrite Ho. replace (g =? 0) with false by (symmetry; apply Z.eqb_neq; lia). rewrite Z.eqb_refl. cbn [negb andb Z.eqb].
  unfold resp_meta. rewrite find_obj_store_add_same. cbn [fst snd r_status]. split; [reflexivity|].
  eexists. split; [apply find_obj_store_add_same|]. cbn [o_gen]. lia.
Qed.

Lemma gen_upload_lose b n g s r : n <> [] -> 0 < g <= int64_max -> gen_upload b n g r -> has_other_gen b n g s ->
  handle s r = (s, err 412).
Proof.
  intros Hn Hg [ct [d ->]] [o [Hf Ho]]. cbn [handle]. rewrite resolve_conds_lit_gen by lia.
  destruct n as [|c n']; [congruence|]. unfold finish_upload. rewrite Hf. cbn [obj_gens validate_conds c_dne c_gm c_gnm c_mm c_mnm].
  replace (g =? 0) with false by (symmetry; apply Z.eqb_neq; lia).
  replace (o_gen o =? g) with false by (symmetry; apply Z.eqb_neq; exact Ho). reflexivity.
Qed.

Lemma gen_upload_freeze b n g s r : gen_upload b n g r -> gen_upload b n g (freeze s r).
Proof. intros [ct [d ->]]. exists ct, d. reflexivity. Qed.
Lemma gen_upload_not_compose b n g r : gen_upload b n g r -> not_compose r.
Proof. intros [ct [d ->]]. exact I. Qed.
Lemma gen_upload_not_get b n g r : gen_upload b n g r -> not_get r.
Proof. intros [ct [d ->]]. reflexivity. Qed.

Lemma no_reads_grun sched : forall st, all_reqs not_get st -> no_reads st -> no_reads (fst (grun st sched)).
Proof.
  induction sched as [|i rest IH]; intros st Hall Hn; [exact Hn|]. rewrite grun_cons. cbn [fst].
  apply IH; [apply all_reqs_gstep; auto using not_get_freeze|eapply no_reads_step; eauto using gstep_spec_ok].
Qed.

(* item 4, generation-conditioned: any number of threads, any number of uploads each, all
   conditioned on the generation g the object has; every schedule that lets all finish.
   FULL statement (without no_reads st): false now that a thread can be parked in GRead, see
   exactly_one_conditional_writer_wins_from_refuted_parked_reader; exact guard no_reads st. *)
Theorem exactly_one_conditional_writer_wins_from_partial st sched b n g :
  n <> [] -> 0 < g <= int64_max ->
  all_reqs (gen_upload b n g) st -> no_reads st -> has_gen b n g (g_store st) ->
  all_done (fst (grun st sched)) ->
  map r_status (done_resps (snd (grun st sched)))
  = match pending st with O => [] | S k => 200 :: repeat 412 k end.
Proof.
  intros Hn Hg Hall Hnr Hgen Hdone.
  apply (one_winner_conc_partial (gen_upload b n g) (has_gen b n g) (has_other_gen b n g)); auto.
  - apply gen_upload_freeze.
  - apply gen_upload_not_compose.
  - apply gen_upload_not_get.
  - intros s r. apply gen_upload_win; auto.
  - intros s r. apply gen_upload_lose; auto.
Qed.

Lemma pending_init s0 progs : pending (init_g s0 progs) = list_sum (map (@length req) progs).
Proof. unfold pending, init_g. cbn [g_threads]. rewrite map_map. reflexivity. Qed.

Lemma list_sum_ones {A} (f : A -> list req) (l : list A) :
  (forall x, length (f x) = 1%nat) -> list_sum (map (@length req) (map f l)) = length l.
Proof.
  intros H. induction l as [|x r IH]; [reflexivity|]. cbn [map list_sum fold_right length].
  rewrite H. cbn [Nat.add]. f_equal. exact IH.
Qed.

(* N threads, one upload each, as in the property statement *)
Theorem exactly_one_conditional_writer_wins s0 b n g (payloads : list (str * bytes)) sched :
  n <> [] -> 0 < g <= int64_max -> has_gen b n g s0 ->
  let st := init_g s0 (map (fun cd => [RUploadMedia b n (fst cd) (snd cd) (cp_lit (print_int g))]) payloads) in
  all_done (fst (grun st sched)) ->
  map r_status (done_resps (snd (grun st sched)))
  = match length payloads with O => [] | S k => 200 :: repeat 412 k end.
Proof.
  intros Hn Hg Hgen st Hdone.
  rewrite <- (list_sum_ones (fun cd => [RUploadMedia b n (fst cd) (snd cd) (cp_lit (print_int g))]) payloads) by reflexivity.
  rewrite <- (pending_init s0). apply (exactly_one_conditional_writer_wins_from_partial st sched b n g); auto; [|apply no_reads_init].
  apply all_reqs_init. apply Forall_forall. intros rs Hin. apply in_map_iff in Hin. destruct Hin as [cd [<- _]].
  constructor; [|constructor]. exists (fst cd), (snd cd). reflexivity.
Qed.

(* conditioned on non-existence *)
Definition absent (b n : str) (s : state) : Prop := find_obj s b n = None.
Definition present (b n : str) (s : state) : Prop := exists o, find_obj s b n = Some o.

Lemma resolve_conds_lit_zero s : resolve_conds s (cp_lit [48%N]) = Some (mkConds 0 0 0 0 true).
Proof. reflexivity. Qed.

Lemma dne_upload_win b n s r : n <> [] -> dne_upload b n r -> absent b n s ->
  r_status (snd (handle s r)) = 200 /\ present b n (fst (handle s r)).
Proof.
  intros Hn [ct [d ->]] Hf. unfold absent in Hf. cbn [handle]. rewrite resolve_conds_lit_zero.
  destruct n as [|c n']; [congruence|]. unfold finish_upload. rewrite Hf. cbn [obj_gens validate_conds].
  change (conds_eqb (mkConds 0 0 0 0 true) empty_conds || conds_eqb (mkConds 0 0 0 0 true) (mkConds 0 0 0 0 true)) with true.
  cbv iota. unfold resp_meta. rewrite find_obj_store_add_same. cbn [fst snd r_status]. split; [reflexivity|].
  eexists. apply find_obj_store_add_same.
Qed.

Lemma dne_upload_lose b n s r : n <> [] -> dne_upload b n r -> present b n s -> handle s r = (s, err 412).
Proof.
  intros Hn [ct [d ->]] [o Hf]. cbn [handle]. rewrite resolve_conds_lit_zero.
  destruct n as [|c n']; [congruence|]. unfold finish_upload. rewrite Hf. reflexivity.
Qed.

(* FULL statement (without no_reads st) false for the same reason; exact guard no_reads st *)
Theorem exactly_one_dne_writer_wins_from_partial st sched b n :
  n <> [] -> all_reqs (dne_upload b n) st -> no_reads st -> absent b n (g_store st) ->
  all_done (fst (grun st sched)) ->
  map r_status (done_resps (snd (grun st sched)))
  = match pending st with O => [] | S k => 200 :: repeat 412 k end.
Proof.
  intros Hn Hall Hnr Habs Hdone.
  apply (one_winner_conc_partial (dne_upload b n) (absent b n) (present b n)); auto.
  - intros s r [ct [d ->]]. exists ct, d. reflexivity.
  - intros r [ct [d ->]]. exact I.
  - intros r [ct [d ->]]. reflexivity.
  - intros s r. apply dne_upload_win; auto.
  - intros s r. apply dne_upload_lose; auto.
Qed.

Theorem exactly_one_dne_writer_wins s0 b n (payloads : list (str * bytes)) sched :
  n <> [] -> find_obj s0 b n = None ->
  let st := init_g s0 (map (fun cd => [RUploadMedia b n (fst cd) (snd cd) (cp_lit [48%N])]) payloads) in
  all_done (fst (grun st sched)) ->
  map r_status (done_resps (snd (grun st sched)))
  = match length payloads with O => [] | S k => 200 :: repeat 412 k end.
Proof.
  intros Hn Habs st Hdone.
  rewrite <- (list_sum_ones (fun cd => [RUploadMedia b n (fst cd) (snd cd) (cp_lit [48%N])]) payloads) by reflexivity.
  rewrite <- (pending_init s0). apply (exactly_one_dne_writer_wins_from_partial st sched b n); auto; [|apply no_reads_init].
  apply all_reqs_init. apply Forall_forall. intros rs Hin. apply in_map_iff in Hin. destruct Hin as [cd [<- _]].
  constructor; [|constructor]. exists (fst cd), (snd cd). reflexivity.
Qed.

(* ================================================================== *)
(* 6. The lock protects the object from check to mutation (items 5, 6)  *)

(* requests that take the object lock of what they change: every request but a bucket deletion,
   which removes the objects of the bucket WITHOUT taking their locks (see
   held_object_stable_refuted_delete_bucket below).  The PUT that completes a resumable upload
   takes the lock of its session's object (finishUpload; Conc.resumable_target). *)
Definition lock_respecting (r : req) : Prop :=
  match r with RDeleteBucket _ _ => False | _ => True end.

Lemma lock_respecting_freeze s r : lock_respecting r -> lock_respecting (freeze s r).
Proof. destruct r; cbn; auto. Qed.

(* the key of an effect, computed in the store the effect is applied to (the store of the commit
   step: that is where gstep runs the handler) *)
Definition effect_key (s : state) (e : geffect) : option (str * str) :=
  match e with EHandle r => lock_key s r | EAdd b n _ => Some (b, n) end.
Definition effect_respecting (e : geffect) : Prop :=
  match e with EHandle r => lock_respecting r | EAdd _ _ _ => True end.

(* a lock-respecting handler, run in store s, changes no object but the one whose lock the request
   takes in s.  For a resumable PUT: the handler changes an object only through finish_upload on
   (up_bucket u, up_name u), reached exactly when resumable_target s is that key (a declared MD5
   of kind 2/3 makes finish_upload refuse without storing) *)
Lemma handle_frame_key s r b n : lock_respecting r -> lock_key s r <> Some (b, n) ->
  find_obj (fst (handle s r)) b n = find_obj s b n.
Proof.
  intros Hl Hk.
  assert (Hgen : ~ In (b, n) (targets s r) -> bucket_target r <> Some b ->
                 find_obj (fst (handle s r)) b n = find_obj s b n) by apply other_objects_untouched.
  destruct r; cbn [lock_respecting] in Hl; try contradiction;
    try (apply Hgen; [cbn [targets lock_key] in *; intros [E|[]]; apply Hk; f_equal; exact E|cbn; discriminate]);
    try (apply Hgen; [cbn; tauto|cbn; discriminate]).
  - (* multipart: an upload without an object name is refused before the lock, nothing changes *)
    cbn [lock_key] in Hk. destruct (um_name m) as [|c0 nm] eqn:En.
    + cbn [handle]. destruct (resolve_conds s cp); [|reflexivity]. rewrite En. reflexivity.
    + apply Hgen; [|cbn; discriminate]. cbn [targets]. rewrite En. intros [E|[]]. apply Hk. f_equal. exact E.
  - (* resumable PUT *)
    clear Hgen. cbn [lock_key] in Hk. unfold resumable_target in Hk. cbn [handle]. revert Hk.
    destruct (alookup id (s_uploads s)) as [u|]; [|intros _; reflexivity].
    destruct crange as [cr|]; [|intros _; reflexivity].
    destruct (parse_byte_range cr) as [br|]; [|intros _; reflexivity].
    destruct (resume_apply (up_data u) br data) as [data'|]; [|intros _; reflexivity].
    destruct (resume_done br data'); [|intros _; reflexivity].
    intros Hk.
    match goal with
    | |- context [finish_upload ?s1 ?b0 ?n0 ?ct ?md ?meta ?d ?c] =>
        assert (HF : find_obj (fst (finish_upload s1 b0 n0 ct md meta d c)) b n = find_obj s b n);
          [|destruct (finish_upload s1 b0 n0 ct md meta d c) as [s2 rsp]]
    end.
    + destruct (up_md5 u) as [|[[p|p|]|[p|p|]|]]; cbn in Hk;
        try (rewrite finish_upload_other; [reflexivity|congruence]); reflexivity.
    + cbn [fst] in HF. destruct (Z.eqb (r_status rsp) 200); cbn [fst]; exact HF.
  - (* compose: a destination without a name is refused before the lock, nothing changes *)
    cbn [lock_key] in Hk.
    destruct (split (dst ++ s_compose) s_compose) as [|d0 [|d1 [|d2 ds]]] eqn:Es;
      try (apply Hgen; [cbn [targets]; rewrite Es; cbn; tauto|cbn; discriminate]).
    destruct d0 as [|c0 d0'].
    + cbn [handle]. destruct (resolve_conds s cp); [|reflexivity]. destruct bad; [reflexivity|].
      rewrite Es. reflexivity.
    + apply Hgen; [|cbn; discriminate]. cbn [targets]. rewrite Es. intros [E|[]]. apply Hk. f_equal. exact E.
  - (* copy: likewise *)
    cbn [lock_key] in Hk. destruct (contains (n1 ++ s_rewrite_b ++ b2 ++ s_o ++ n2) s_compose) eqn:Ec.
    + cbn [handle]. rewrite Ec. reflexivity.
    + destruct (split (n1 ++ s_rewrite_b ++ b2 ++ s_o ++ n2) s_rewrite_b) as [|f1 [|rest [|x xs]]] eqn:Es;
        try (apply Hgen; [cbn [targets]; rewrite Es; cbn; tauto|cbn; discriminate]).
      destruct (split2 rest s_o) as [|b2' [|f2 [|y ys]]] eqn:Es2;
        try (apply Hgen; [cbn [targets]; rewrite Es, Es2; cbn; tauto|cbn; discriminate]).
      destruct f2 as [|c0 f2'].
      * cbn [handle]. rewrite Ec, Es, Es2. reflexivity.
      * apply Hgen; [|cbn; discriminate]. cbn [targets]. rewrite Es, Es2. intros [E|[]]. apply Hk. f_equal. exact E.
Qed.

Lemma effect_frame s e b n : effect_respecting e -> effect_key s e <> Some (b, n) ->
  find_obj (apply_geffect s e) b n = find_obj s b n.
Proof.
  destruct e as [r|b0 n0 o]; cbn [effect_respecting effect_key apply_geffect]; intros Hl Hk.
  - apply handle_frame_key; assumption.
  - apply find_obj_store_add_other. congruence.
Qed.

Lemma gearly_unchanged s r : gearly s r = true -> fst (handle s r) = s.
Proof.
  destruct r; cbn [gearly handle]; try discriminate.
  - destruct (resolve_conds s cp); [|reflexivity]. destruct n; [reflexivity|discriminate].
  - destruct (resolve_conds s cp); [|reflexivity]. intros H. destruct (um_name m); [reflexivity|]. unfold finish_upload.
    apply orb_prop in H. destruct H as [H|H]; apply N.eqb_eq in H; rewrite H; reflexivity.
  - destruct (resolve_conds s cp); [discriminate|reflexivity].
  - destruct (resolve_conds s cp); [discriminate|reflexivity].
  - destruct (resolve_conds s cp); [|reflexivity]. intros ->. reflexivity.
Qed.

Lemma step_effect_respecting st i e : all_reqs lock_respecting st -> step_effect st i = Some e -> effect_respecting e.
Proof.
  intros Hall E. destruct e as [r|b n o]; [|exact I]. cbn.
  apply step_effect_handle_req in E. destruct E as [p E].
  eapply (step_effect_req lock_respecting); eauto using lock_respecting_freeze.
Qed.

Lemma holders_key_inj st k i j : glock_inv st -> In (k, i) (g_holders st) -> In (k, j) (g_holders st) -> i = j.
Proof.
  intros Hinv. pose proof (gi_keys _ Hinv) as Hnd. induction (g_holders st) as [|[k' i'] r IH]; intros H1 H2; [destruct H1|].
  cbn [map fst] in Hnd. inversion Hnd as [|x y Hn Hr]; subst.
  destruct H1 as [H1|H1], H2 as [H2|H2]; try congruence; auto.
  - injection H1 as -> ->. exfalso. apply Hn. apply in_map_iff. exists (k, j). auto.
  - injection H2 as -> ->. exfalso. apply Hn. apply in_map_iff. exists (k, i). auto.
Qed.

(* ---- the sessions of resumable uploads ---- *)

(* A parked resumable PUT commits by running its handler, which looks its session up AGAIN: the
   object it stores is the object of the session at commit time, while the lock it holds is the
   lock of the session's object at the time it parked.  The two agree as long as a session id is
   never re-used for another object, which is what the id counter guarantees in well-formed stores
   (sessions_wf below; true of init_state and preserved by every handler as long as the counter
   stays below int64_max — print_int is injective only on a bounded range). *)

Definition sess_key (u : upload) : str * str := (up_bucket u, up_name u).
Definition sess_part (s : state) : list (str * upload) * Z := (s_uploads s, s_upcount s).

(* an id the counter has already handed out *)
Definition id_old (s : state) (sid : str) : Prop :=
  exists z, sid = print_int z /\ 0 <= z <= s_upcount s.

Definition sessions_wf (s : state) : Prop :=
  asorted (s_uploads s) /\ 0 <= s_upcount s
  /\ forall sid u, alookup sid (s_uploads s) = Some u -> id_old s sid.

Lemma sess_part_uploads s' s : sess_part s' = sess_part s -> s_uploads s' = s_uploads s.
Proof. intros E. exact (f_equal fst E). Qed.
Lemma sess_part_upcount s' s : sess_part s' = sess_part s -> s_upcount s' = s_upcount s.
Proof. intros E. exact (f_equal snd E). Qed.

Lemma sessions_wf_init : sessions_wf init_state.
Proof. split; [constructor|]. split; [cbn; lia|]. intros sid u H. discriminate. Qed.

Lemma print_int_inj z1 z2 : int64_min <= z1 <= int64_max -> int64_min <= z2 <= int64_max ->
  print_int z1 = print_int z2 -> z1 = z2.
Proof. intros H1 H2 E. apply parse_print_int_roundtrip in H1, H2. rewrite E in H1. congruence. Qed.

Lemma create_bucket_sess s b : sess_part (create_bucket s b) = sess_part s.
Proof. unfold create_bucket. destruct (get_bucket s b); reflexivity. Qed.

Lemma store_add_sess s b n data ct md meta : sess_part (store_add s b n data ct md meta) = sess_part s.
Proof. unfold store_add, sess_part. cbn [s_uploads s_upcount]. apply (create_bucket_sess s b). Qed.

Lemma finish_upload_sess s b n ct md meta data c :
  sess_part (fst (finish_upload s b n ct md meta data c)) = sess_part s.
Proof.
  unfold finish_upload.
  destruct md as [|p]; [|destruct p as [p|p|]; try destruct p; cbn [fst]; auto];
    (destruct (validate_conds _ c); cbn [fst]; auto using store_add_sess).
Qed.

Definition touches_sessions (r : req) : Prop :=
  match r with RResumableInit _ _ _ _ | RResumablePut _ _ _ => True | _ => False end.

(* only the two resumable-upload requests touch the sessions and the id counter *)
Lemma handle_sess_frame s r : ~ touches_sessions r -> sess_part (fst (handle s r)) = sess_part s.
Proof.
  intros Hn.
  destruct r as [b n ctype data cp | b m data cp | b cp | b bad m cp | id crange data | b n | b n | b n cp
                | b n p cp | b prefix delim cursor maxres | b | b dst bad srcs dm cp | b1 n1 b2 n2 | b | b | b cp];
    cbn [touches_sessions] in Hn; try (exfalso; apply Hn; exact I); cbn [handle].
  - destruct (resolve_conds s cp); [|reflexivity]. destruct n; [reflexivity|]. apply finish_upload_sess.
  - destruct (resolve_conds s cp); [|reflexivity]. destruct (um_name m); [reflexivity|]. apply finish_upload_sess.
  - destruct (resolve_conds s cp); reflexivity.
  - destruct (find_obj s b n); reflexivity.
  - destruct (find_obj s b n); reflexivity.
  - destruct (resolve_conds s cp); [|reflexivity].
    destruct (validate_conds _ c); try reflexivity.
    unfold store_delete_obj. destruct (get_bucket s b) as [bk|]; [|reflexivity].
    destruct (alookup n bk); reflexivity.
  - destruct (resolve_conds s cp); [|reflexivity].
    destruct (find_obj s b n) as [o|]; [|reflexivity].
    destruct (validate_conds _ c); try reflexivity.
    destruct (pt_bad p); [reflexivity|]. cbn [fst].
    unfold store_put_obj. destruct (get_bucket s b); reflexivity.
  - destruct maxres as [ms|].
    + destruct (parse_int ms) as [z|]; [|reflexivity]. destruct (z <? 1); [reflexivity|].
      destruct (get_bucket s b); [|reflexivity]. destruct (list_walk _ _ _ _ _) as [[[f p] m] lst]. reflexivity.
    + destruct (get_bucket s b); [|reflexivity]. destruct (list_walk _ _ _ _ _) as [[[f p] m] lst]. reflexivity.
  - reflexivity.
  - destruct (resolve_conds s cp); [|reflexivity]. destruct bad; [reflexivity|].
    destruct (split _ _) as [|d0 [|d1 [|d2 ds]]]; try reflexivity.
    destruct d0 as [|d00 d0']; [reflexivity|]. set (d0 := d00 :: d0').
    destruct (_ >? _); [reflexivity|].
    destruct (fold_left _ srcs _) as [[code data]|]; [|reflexivity].
    destruct code; try reflexivity.
    destruct (validate_conds _ c); try reflexivity.
    destruct dm as [m|]; cbn [fst]; apply store_add_sess.
  - destruct (contains _ _); [reflexivity|].
    destruct (split _ _) as [|f1 [|rest [|x xs]]]; try reflexivity.
    destruct (split2 _ _) as [|b2' [|f2 [|y ys]]]; try reflexivity.
    destruct f2 as [|f20 f2']; [reflexivity|]. set (f2 := f20 :: f2').
    destruct (find_obj s b1 f1) as [o|]; [|reflexivity].
    destruct (find_obj _ b2' f2); cbn [fst]; apply store_add_sess.
  - cbn [fst]. apply create_bucket_sess.
  - destruct (get_bucket s b); reflexivity.
  - destruct (resolve_conds s cp); [|reflexivity].
    destruct (validate_conds _ c); try reflexivity.
    unfold store_delete_bucket. destruct (get_bucket s b); reflexivity.
Qed.

(* what a handler does to the sessions: a session found afterwards was there before, for the same
   object, or it is the one session created by this request under the next id of the counter *)
Lemma handle_sessions s r sid u' : asorted (s_uploads s) ->
  alookup sid (s_uploads (fst (handle s r))) = Some u' ->
  (exists u, alookup sid (s_uploads s) = Some u /\ sess_key u = sess_key u')
  \/ (sid = print_int (s_upcount s + 1) /\ s_upcount (fst (handle s r)) = s_upcount s + 1).
Proof.
  intros Hs.
  assert (Hsame : alookup sid (s_uploads s) = Some u' ->
          (exists u, alookup sid (s_uploads s) = Some u /\ sess_key u = sess_key u')
          \/ (sid = print_int (s_upcount s + 1) /\ s_upcount (fst (handle s r)) = s_upcount s + 1)).
  { intros H. left. exists u'. auto. }
  destruct r as [b n ctype data cp | b m data cp | b cp | b bad m cp | id crange data | b n | b n | b n cp
                | b n p cp | b prefix delim cursor maxres | b | b dst bad srcs dm cp | b1 n1 b2 n2 | b | b | b cp];
    try (match goal with |- context [handle s ?r] =>
           pose proof (handle_sess_frame s r ltac:(cbn; tauto)) as E end;
         pose proof (sess_part_uploads _ _ E) as E1; pose proof (sess_part_upcount _ _ E) as E2; rewrite E1; exact Hsame).
  - (* init *)
    revert Hsame. cbn [handle]. destruct (resolve_conds s cp); [|auto]. destruct bad; [auto|].
    destruct (um_name m) as [|n0 nm] eqn:En; [auto|]. rewrite <- En.
    cbn [fst set_uploads s_uploads s_upcount]. intros _ Hl.
    destruct (beqb sid (print_int (s_upcount s + 1))) eqn:E.
    + apply beqb_eq in E. right. split; [exact E|reflexivity].
    + apply beqb_neq in E. rewrite alookup_ainsert_other in Hl by exact E. left. exists u'. auto.
  - (* put *)
    revert Hsame. cbn [handle].
    destruct (alookup id (s_uploads s)) as [u0|] eqn:Eu; [|auto].
    destruct crange as [cr|]; [|auto].
    destruct (parse_byte_range cr) as [br|]; [|auto].
    destruct (resume_apply (up_data u0) br data) as [data'|]; [|auto].
    intros _.
    match goal with |- context [set_uploads s ?c ?ups] => set (s1 := set_uploads s c ups) end.
    assert (H1 : forall u'', alookup sid (s_uploads s1) = Some u'' ->
                   exists u, alookup sid (s_uploads s) = Some u /\ sess_key u = sess_key u'').
    { intros u'' H. subst s1. cbn [set_uploads s_uploads] in H. destruct (beqb sid id) eqn:E.
      - apply beqb_eq in E. subst sid. rewrite alookup_ainsert_same in H. injection H as <-.
        exists u0. split; [exact Eu|reflexivity].
      - apply beqb_neq in E. rewrite alookup_ainsert_other in H by exact E. exists u''. auto. }
    assert (Hs1 : asorted (s_uploads s1)) by (subst s1; cbn [set_uploads s_uploads]; apply ainsert_sorted; exact Hs).
    destruct (resume_done br data'); [|cbn [fst]; intros Hl; left; apply H1; exact Hl].
    match goal with
    | |- context [finish_upload s1 ?b ?n ?ct ?md ?meta ?d ?c] =>
        pose proof (finish_upload_sess s1 b n ct md meta d c) as HF;
        destruct (finish_upload s1 b n ct md meta d c) as [s2 rsp]
    end.
    cbn [fst] in HF. pose proof (sess_part_uploads _ _ HF) as HF1. pose proof (sess_part_upcount _ _ HF) as HF2.
    destruct (Z.eqb (r_status rsp) 200); cbn [fst set_uploads s_uploads]; rewrite HF1; intros Hl; left; apply H1.
    + destruct (beqb sid id) eqn:E.
      * apply beqb_eq in E. subst sid. rewrite alookup_aremove_same in Hl by exact Hs1. discriminate.
      * apply beqb_neq in E. rewrite alookup_aremove_other in Hl by exact E. exact Hl.
    + exact Hl.
Qed.

Lemma handle_upcount s r : s_upcount s <= s_upcount (fst (handle s r)) <= s_upcount s + 1.
Proof.
  destruct r as [b n ctype data cp | b m data cp | b cp | b bad m cp | id crange data | b n | b n | b n cp
                | b n p cp | b prefix delim cursor maxres | b | b dst bad srcs dm cp | b1 n1 b2 n2 | b | b | b cp];
    try (match goal with |- context [handle s ?r] =>
           pose proof (handle_sess_frame s r ltac:(cbn; tauto)) as E end;
         pose proof (sess_part_uploads _ _ E) as E1; pose proof (sess_part_upcount _ _ E) as E2; rewrite E2; lia).
  - cbn [handle]. destruct (resolve_conds s cp); [|cbn; lia]. destruct bad; [cbn; lia|]. destruct (um_name m); cbn; lia.
  - cbn [handle].
    destruct (alookup id (s_uploads s)) as [u0|]; [|cbn; lia].
    destruct crange as [cr|]; [|cbn; lia].
    destruct (parse_byte_range cr) as [br|]; [|cbn; lia].
    destruct (resume_apply (up_data u0) br data) as [data'|]; [|cbn; lia].
    match goal with |- context [set_uploads s ?c ?ups] => set (s1 := set_uploads s c ups) end.
    destruct (resume_done br data'); [|cbn; lia].
    match goal with
    | |- context [finish_upload s1 ?b ?n ?ct ?md ?meta ?d ?c] =>
        pose proof (finish_upload_sess s1 b n ct md meta d c) as HF;
        destruct (finish_upload s1 b n ct md meta d c) as [s2 rsp]
    end.
    cbn [fst] in HF. pose proof (sess_part_uploads _ _ HF) as HF1. pose proof (sess_part_upcount _ _ HF) as HF2.
    destruct (Z.eqb (r_status rsp) 200); cbn [fst set_uploads s_upcount]; rewrite HF2; cbn; lia.
Qed.

Lemma handle_uploads_sorted s r : asorted (s_uploads s) -> asorted (s_uploads (fst (handle s r))).
Proof.
  intros Hs.
  destruct r as [b n ctype data cp | b m data cp | b cp | b bad m cp | id crange data | b n | b n | b n cp
                | b n p cp | b prefix delim cursor maxres | b | b dst bad srcs dm cp | b1 n1 b2 n2 | b | b | b cp];
    try (match goal with |- context [handle s ?r] =>
           pose proof (handle_sess_frame s r ltac:(cbn; tauto)) as E end;
         pose proof (sess_part_uploads _ _ E) as E1; pose proof (sess_part_upcount _ _ E) as E2; rewrite E1; exact Hs).
  - cbn [handle]. destruct (resolve_conds s cp); [|exact Hs]. destruct bad; [exact Hs|].
    destruct (um_name m); [exact Hs|]. cbn. apply ainsert_sorted. exact Hs.
  - cbn [handle].
    destruct (alookup id (s_uploads s)) as [u0|]; [|exact Hs].
    destruct crange as [cr|]; [|exact Hs].
    destruct (parse_byte_range cr) as [br|]; [|exact Hs].
    destruct (resume_apply (up_data u0) br data) as [data'|]; [|exact Hs].
    match goal with |- context [set_uploads s ?c ?ups] => set (s1 := set_uploads s c ups) end.
    assert (Hs1 : asorted (s_uploads s1)) by (subst s1; cbn [set_uploads s_uploads]; apply ainsert_sorted; exact Hs).
    destruct (resume_done br data'); [|exact Hs1].
    match goal with
    | |- context [finish_upload s1 ?b ?n ?ct ?md ?meta ?d ?c] =>
        pose proof (finish_upload_sess s1 b n ct md meta d c) as HF;
        destruct (finish_upload s1 b n ct md meta d c) as [s2 rsp]
    end.
    cbn [fst] in HF. pose proof (sess_part_uploads _ _ HF) as HF1. pose proof (sess_part_upcount _ _ HF) as HF2.
    destruct (Z.eqb (r_status rsp) 200); cbn [fst set_uploads s_uploads]; rewrite HF1; [apply aremove_sorted|]; exact Hs1.
Qed.

(* the same three facts for commit effects *)
Lemma effect_sessions s e sid u' : asorted (s_uploads s) ->
  alookup sid (s_uploads (apply_geffect s e)) = Some u' ->
  (exists u, alookup sid (s_uploads s) = Some u /\ sess_key u = sess_key u')
  \/ (sid = print_int (s_upcount s + 1) /\ s_upcount (apply_geffect s e) = s_upcount s + 1).
Proof.
  destruct e as [r|b n o]; cbn [apply_geffect]; [apply handle_sessions|].
  intros _ H. pose proof (store_add_sess s b n (o_data o) (o_ctype o) (o_md5 o) (o_meta o)) as E.
  pose proof (sess_part_uploads _ _ E) as E1. pose proof (sess_part_upcount _ _ E) as E2. rewrite E1 in H. left. exists u'. auto.
Qed.

Lemma effect_upcount s e : s_upcount s <= s_upcount (apply_geffect s e) <= s_upcount s + 1.
Proof.
  destruct e as [r|b n o]; cbn [apply_geffect]; [apply handle_upcount|].
  pose proof (store_add_sess s b n (o_data o) (o_ctype o) (o_md5 o) (o_meta o)) as E.
  pose proof (sess_part_uploads _ _ E) as E1. pose proof (sess_part_upcount _ _ E) as E2. rewrite E2. lia.
Qed.

Lemma effect_uploads_sorted s e : asorted (s_uploads s) -> asorted (s_uploads (apply_geffect s e)).
Proof.
  destruct e as [r|b n o]; cbn [apply_geffect]; [apply handle_uploads_sorted|].
  pose proof (store_add_sess s b n (o_data o) (o_ctype o) (o_md5 o) (o_meta o)) as E.
  pose proof (sess_part_uploads _ _ E) as E1. pose proof (sess_part_upcount _ _ E) as E2. rewrite E1. auto.
Qed.

Lemma id_old_mono s s' sid : s_upcount s <= s_upcount s' -> id_old s sid -> id_old s' sid.
Proof. intros H [z [E Hz]]. exists z. split; [exact E|lia]. Qed.

Theorem effect_sessions_wf s e : sessions_wf s -> sessions_wf (apply_geffect s e).
Proof.
  intros [Hs [H0 Hold]]. pose proof (effect_upcount s e) as Hc.
  split; [apply effect_uploads_sorted; exact Hs|]. split; [lia|].
  intros sid u' Hl. destruct (effect_sessions s e sid u' Hs Hl) as [[u [Hu _]]|[E Hn]].
  - eapply id_old_mono; [|eapply Hold; exact Hu]. lia.
  - exists (s_upcount s + 1). split; [exact E|lia].
Qed.

Theorem handle_sessions_wf s r : sessions_wf s -> sessions_wf (fst (handle s r)).
Proof. apply (effect_sessions_wf s (EHandle r)). Qed.

(* a session under an id already handed out keeps its object: the counter never hands the id out
   again (below int64_max) *)
Theorem effect_old_session s e sid u' : sessions_wf s -> s_upcount s < int64_max -> id_old s sid ->
  alookup sid (s_uploads (apply_geffect s e)) = Some u' ->
  exists u, alookup sid (s_uploads s) = Some u /\ sess_key u = sess_key u'.
Proof.
  intros [Hs [H0 _]] Hb [z [E Hz]] Hl. destruct (effect_sessions s e sid u' Hs Hl) as [H|[E' _]]; [exact H|].
  exfalso. rewrite E in E'. apply print_int_inj in E'; unfold int64_min, int64_max in *; lia.
Qed.

(* thread i is parked on a resumable PUT of session sid, holding key k *)
Definition parked_put (st : gstate) (i : nat) (sid : str) (k : str * str) : Prop :=
  exists th cr d rest cap, nth_error (g_threads st) i = Some th /\ gt_todo th = RResumablePut sid cr d :: rest
    /\ gt_prog th = GHold cap /\ In (k, i) (g_holders st).

(* the session of a parked resumable PUT, if it (still) exists, is a session for the object whose
   lock the thread holds: what the PUT will store at its commit is the object it locked *)
Definition sess_coherent (st : gstate) : Prop :=
  forall i sid k u, parked_put st i sid k -> alookup sid (s_uploads (g_store st)) = Some u -> sess_key u = k.

(* the invariant that keeps it so along a run *)
Definition gsess_inv (st : gstate) : Prop :=
  sessions_wf (g_store st) /\ sess_coherent st
  /\ forall i sid k, parked_put st i sid k -> id_old (g_store st) sid.

Lemma gsess_inv_coherent st : gsess_inv st -> sess_coherent st.
Proof. intros [_ [H _]]. exact H. Qed.

(* without resumable PUTs the coherence is vacuous *)
Lemma sess_coherent_static st : all_reqs key_static st -> sess_coherent st.
Proof.
  intros Hall i sid k u [th [cr [d [rest [cap [H1 [H2 _]]]]]]] _. exfalso.
  apply nth_error_In in H1. apply Hall in H1. rewrite H2 in H1. inversion H1 as [|x y Hx Hy]. exact Hx.
Qed.

Lemma parked_put_upd_new s' hs' st i th0 todo j sid k : nth_error (g_threads st) i = Some th0 ->
  (forall k0 j0, In (k0, j0) hs' -> In (k0, j0) (g_holders st)) ->
  parked_put (mkGState s' hs' (upd_nth (g_threads st) i (mkGThread todo GNew))) j sid k -> parked_put st j sid k.
Proof.
  intros Hth Hsub [th [cr [d [rest [cap [H1 [H2 [H3 H4]]]]]]]]. cbn [g_threads g_holders] in *.
  destruct (Nat.eq_dec j i) as [->|Hne].
  - rewrite (nth_error_upd_same _ _ _ _ Hth) in H1. injection H1 as <-. cbn in H3. discriminate.
  - rewrite nth_error_upd_other in H1 by exact Hne. exists th, cr, d, rest, cap. auto.
Qed.

Lemma parked_put_upd_nohold s' hs' st i th0 v j sid k : nth_error (g_threads st) i = Some th0 ->
  (forall cap, gt_prog v <> GHold cap) ->
  (forall k0 j0, In (k0, j0) hs' -> In (k0, j0) (g_holders st)) ->
  parked_put (mkGState s' hs' (upd_nth (g_threads st) i v)) j sid k -> parked_put st j sid k.
Proof.
  intros Hth Hv Hsub [th [cr [d [rest [cap [H1 [H2 [H3 H4]]]]]]]]. cbn [g_threads g_holders] in *.
  destruct (Nat.eq_dec j i) as [->|Hne].
  - rewrite (nth_error_upd_same _ _ _ _ Hth) in H1. injection H1 as <-. exfalso. eapply Hv; eauto.
  - rewrite nth_error_upd_other in H1 by exact Hne. exists th, cr, d, rest, cap. auto.
Qed.

Theorem gsess_inv_step st i st' o : glock_inv st -> gsess_inv st -> s_upcount (g_store st) < int64_max ->
  gstep_spec st i st' o -> gsess_inv st'.
Proof.
  intros Hinv [Hwf [Hcoh Hold]] Hb Hs.
  (* a step that leaves the store alone and does not park thread i holding a lock (the two steps of a GET) *)
  assert (Hsame : forall th hs' v, nth_error (g_threads st) i = Some th -> (forall cap, gt_prog v <> GHold cap) ->
            (forall k0 j0, In (k0, j0) hs' -> In (k0, j0) (g_holders st)) ->
            gsess_inv (mkGState (g_store st) hs' (upd_nth (g_threads st) i v))).
  { intros th hs' v Hth Hv Hsub.
    assert (Hpp : forall j sid k, parked_put (mkGState (g_store st) hs' (upd_nth (g_threads st) i v)) j sid k -> parked_put st j sid k).
    { intros j sid k. apply (parked_put_upd_nohold _ _ st i th); auto. }
    split; [exact Hwf|]. split.
    - intros j sid k u Hp Hl. apply Hpp in Hp. eapply Hcoh; eauto.
    - intros j sid k Hp. apply Hpp in Hp. eapply Hold; eauto. }
  (* a step that ends a request: the store moves by one effect, parked threads stay parked *)
  assert (Hfin : forall th e todo, nth_error (g_threads st) i = Some th ->
            gsess_inv (mkGState (apply_geffect (g_store st) e) (release (g_holders st) i)
                                (upd_nth (g_threads st) i (mkGThread todo GNew)))).
  { intros th e todo Hth.
    assert (Hpp : forall j sid k, parked_put (mkGState (apply_geffect (g_store st) e) (release (g_holders st) i)
                                    (upd_nth (g_threads st) i (mkGThread todo GNew))) j sid k -> parked_put st j sid k).
    { intros j sid k. apply (parked_put_upd_new _ _ st i th); [exact Hth|].
      intros k0 j0 H. apply release_in in H. tauto. }
    split; [cbn [g_store]; apply effect_sessions_wf; exact Hwf|]. split.
    - intros j sid k u' Hp Hl. cbn [g_store] in Hl. apply Hpp in Hp.
      destruct (effect_old_session _ e sid u' Hwf Hb (Hold _ _ _ Hp) Hl) as [u [Hu Hk]].
      rewrite <- Hk. eapply Hcoh; eauto.
    - intros j sid k Hp. cbn [g_store]. apply Hpp in Hp. eapply id_old_mono; [|eapply Hold; exact Hp].
      apply effect_upcount. }
  destruct Hs as [Hid|th r0 rest k0 j' Hth Htodo Hprog Hk Hearly Hho Hji
                  |th r0 rest k0 Hth Htodo Hprog Hk Hearly Hho Hry
                  |th r0 rest Hth Htodo Hprog Hat
                  |th r rest cap Hth Htodo Hprog
                  |th r0 rest Hth Htodo Hprog Hk Hget
                  |th r rest rsp Hth Htodo Hprog].
  - split; [exact Hwf|]. split; assumption.
  - (* blocked *)
    assert (Hpp : forall j sid k, parked_put (mkGState (g_store st) (g_holders st)
               (upd_nth (g_threads st) i (mkGThread (freeze (g_store st) r0 :: rest) GNew))) j sid k -> parked_put st j sid k).
    { intros j sid k. apply (parked_put_upd_new _ _ st i th); auto. }
    split; [exact Hwf|]. split.
    + intros j sid k u Hp Hl. apply Hpp in Hp. eapply Hcoh; eauto.
    + intros j sid k Hp. apply Hpp in Hp. eapply Hold; eauto.
  - (* the lock is taken: a resumable PUT parks on the object of its session as it is NOW *)
    pose proof (not_holding_if_new st i th Hinv Hth Hprog) as Hni.
    assert (Hpp : forall j sid k, parked_put (mkGState (g_store st) ((k0, i) :: g_holders st)
               (upd_nth (g_threads st) i (mkGThread (freeze (g_store st) r0 :: rest)
                  (GHold (capture (g_store st) (freeze (g_store st) r0) k0))))) j sid k ->
             parked_put st j sid k
             \/ exists u, alookup sid (s_uploads (g_store st)) = Some u /\ sess_key u = k).
    { intros j sid k [th' [cr [d [rest' [cap [H1 [H2 [H3 H4]]]]]]]]. cbn [g_threads g_holders] in *.
      destruct (Nat.eq_dec j i) as [->|Hne].
      - right. rewrite (nth_error_upd_same _ _ _ _ Hth) in H1. injection H1 as <-. cbn [gt_todo] in H2.
        injection H2 as E _. destruct H4 as [H4|H4]; [|exfalso; apply Hni; apply in_map_iff; exists (k, i); auto].
        injection H4 as <-. rewrite E in Hk. cbn [lock_key] in Hk. apply resumable_target_some in Hk. exact Hk.
      - left. rewrite nth_error_upd_other in H1 by exact Hne. exists th', cr, d, rest', cap.
        repeat split; auto. destruct H4 as [H4|H4]; [congruence|exact H4]. }
    split; [exact Hwf|]. split.
    + intros j sid k u Hp Hl. cbn [g_store] in Hl. destruct (Hpp _ _ _ Hp) as [Hp'|[u0 [Hu0 Hk0]]].
      * eapply Hcoh; eauto.
      * congruence.
    + intros j sid k Hp. cbn [g_store]. destruct (Hpp _ _ _ Hp) as [Hp'|[u0 [Hu0 Hk0]]].
      * eapply Hold; eauto.
      * destruct Hwf as [_ [_ Hw]]. eapply Hw; eauto.
  - eapply Hfin; eauto.
  - eapply Hfin; eauto.
  - eapply Hsame; eauto. intros cap; discriminate.
  - eapply Hsame; eauto; [intros cap; discriminate|]. intros k0 j0 H. apply release_in in H. tauto.
Qed.

Lemma gstep_upcount st i : s_upcount (g_store st) <= s_upcount (g_store (fst (gstep st i))) <= s_upcount (g_store st) + 1.
Proof. rewrite step_effect_store. destruct (step_effect st i) as [e|]; [apply effect_upcount|lia]. Qed.

Theorem gsess_inv_gstep st i : glock_inv st -> gsess_inv st -> s_upcount (g_store st) < int64_max ->
  gsess_inv (fst (gstep st i)).
Proof. intros H1 H2 H3. eapply gsess_inv_step; eauto using gstep_spec_ok. Qed.

Lemma gsess_inv_init s0 progs : sessions_wf s0 -> gsess_inv (init_g s0 progs).
Proof.
  intros Hwf.
  assert (Hno : forall i sid k, ~ parked_put (init_g s0 progs) i sid k).
  { intros i sid k [th [cr [d [rest [cap [H1 [_ [H3 _]]]]]]]]. cbn in H1. apply nth_error_In in H1.
    apply in_map_iff in H1. destruct H1 as [rs [<- _]]. discriminate. }
  split; [exact Hwf|]. split.
  - intros i sid k u Hp. exfalso. eapply Hno; eauto.
  - intros i sid k Hp. exfalso. eapply Hno; eauto.
Qed.

Theorem gsess_inv_grun sched : forall st, glock_inv st -> gsess_inv st ->
  s_upcount (g_store st) + Z.of_nat (length sched) <= int64_max -> gsess_inv (fst (grun st sched)).
Proof.
  induction sched as [|j rest IH]; intros st Hinv H Hb; [exact H|]. rewrite grun_cons. cbn [fst].
  pose proof (gstep_upcount st j) as Hc. cbn [length] in Hb.
  apply IH; [apply glock_inv_gstep; exact Hinv|apply gsess_inv_gstep; auto; lia|lia].
Qed.

(* the session invariant holds in every state reachable from a well-formed store (init_state is
   one), as long as the schedule is not long enough to exhaust the id counter *)
Theorem gsess_inv_reachable s0 progs sched : sessions_wf s0 ->
  s_upcount s0 + Z.of_nat (length sched) <= int64_max -> gsess_inv (fst (grun (init_g s0 progs) sched)).
Proof. intros Hwf Hb. apply gsess_inv_grun; [apply glock_inv_init|apply gsess_inv_init; exact Hwf|exact Hb]. Qed.

(* the guard of the theorems below, for a run of n more steps: either no thread ever issues a
   resumable PUT (the former guard), or the session invariant holds and the id counter cannot reach
   int64_max within n steps (every step hands out at most one id) *)
Definition sess_safe (n : nat) (st : gstate) : Prop :=
  all_reqs key_static st
  \/ (gsess_inv st /\ s_upcount (g_store st) + Z.of_nat n <= int64_max).

Lemma sess_safe_coherent n st : sess_safe n st -> sess_coherent st.
Proof. intros [H|[H _]]; [apply sess_coherent_static; exact H|apply gsess_inv_coherent; exact H]. Qed.

Lemma sess_safe_gstep n st j : glock_inv st -> sess_safe (S n) st -> sess_safe n (fst (gstep st j)).
Proof.
  intros Hinv [H|[H Hb]].
  - left. apply all_reqs_gstep; auto using key_static_freeze.
  - right. pose proof (gstep_upcount st j) as Hc. split; [apply gsess_inv_gstep; auto; lia|lia].
Qed.

Lemma sess_safe_grun sched : forall n st, glock_inv st -> sess_safe (length sched + n) st ->
  sess_safe n (fst (grun st sched)).
Proof.
  induction sched as [|j rest IH]; intros n st Hinv H; [exact H|]. rewrite grun_cons. cbn [fst].
  apply IH; [apply glock_inv_gstep; exact Hinv|]. apply sess_safe_gstep; [exact Hinv|exact H].
Qed.

(* from a well-formed initial store (init_state is one) the guard holds in every reachable state,
   as long as the schedule is not long enough to exhaust the id counter *)
Theorem sess_safe_reachable s0 progs sched n : sessions_wf s0 ->
  s_upcount s0 + Z.of_nat (length sched + n) <= int64_max ->
  sess_safe n (fst (grun (init_g s0 progs) sched)).
Proof.
  intros Hwf Hb. apply sess_safe_grun; [apply glock_inv_init|]. right. split; [apply gsess_inv_init; exact Hwf|exact Hb].
Qed.

(* ---- held_object_stable ---- *)

(* the key of the effect of a parked thread, against the key it holds *)
Lemma hold_effect_key s s0 r cap k' k : lock_key s0 r = Some k' -> effect_key s (hold_effect s r cap) = Some k ->
  (key_static r /\ k = k') \/ (exists sid cr d, r = RResumablePut sid cr d /\ lock_key s r = Some k).
Proof.
  intros H0 He.
  destruct r; try (left; split; [exact I|]; cbn [hold_effect effect_key lock_key] in *; congruence).
  - right. cbn [hold_effect effect_key] in He. eauto.
  - left. split; [exact I|]. unfold hold_effect in He.
    pose proof (lock_key_static s s0 (RCompose b dst bad srcs dm cp) I) as Es. rewrite H0 in Es.
    destruct cap as [o|]; [rewrite Es in He|]; cbn [effect_key] in He.
    + destruct k'; cbn [fst snd] in He. congruence.
    + congruence.
Qed.

(* the effect of the commit of a parked thread is on the key the thread holds *)
Lemma held_effect_key st i th r rest cap k' k : glock_inv st -> sess_coherent st ->
  nth_error (g_threads st) i = Some th -> gt_todo th = r :: rest -> gt_prog th = GHold cap ->
  In (k', i) (g_holders st) ->
  effect_key (g_store st) (hold_effect (g_store st) r cap) = Some k -> k = k'.
Proof.
  intros Hinv Hcoh Hth Htodo Hprog Hin Hek.
  destruct (gi_in _ Hinv _ _ Hin) as [th' [r'' [rest'' [cap' [H1 [H2 [H3 [s0 H4]]]]]]]].
  rewrite Hth in H1. injection H1 as <-. rewrite Htodo in H2. injection H2 as <- <-.
  destruct (hold_effect_key _ _ _ _ _ _ H4 Hek) as [[_ E]|[sid [cr [d [Er Hks]]]]]; [exact E|].
  subst r. cbn [lock_key] in Hks. apply resumable_target_some in Hks. destruct Hks as [u [Hu Huk]].
  rewrite <- Huk. apply (Hcoh i sid k' u); [|exact Hu]. exists th, cr, d, rest, cap. auto.
Qed.

(* a commit of another thread either is on another key or leaves the store as it is *)
Lemma other_commit_other_key st i j k e : glock_inv st -> sess_coherent st -> In (k, i) (g_holders st) -> j <> i ->
  step_effect st j = Some e -> effect_key (g_store st) e <> Some k \/ apply_geffect (g_store st) e = g_store st.
Proof.
  intros Hinv Hcoh Hki Hne. unfold step_effect, cur_req.
  destruct (gstep_spec_ok st j) as [|th r0 rest k' j' Hth Htodo Hprog Hk Hearly Hho Hji
                                         |th r0 rest k' Hth Htodo Hprog Hk Hearly Hho Hry
                                         |th r0 rest Hth Htodo Hprog Hat
                                         |th r rest cap Hth Htodo Hprog
                  |th r0 rest Hth Htodo Hprog Hk Hget
                  |th r rest rsp Hth Htodo Hprog]; [discriminate|discriminate|..].
  - rewrite Hth, Htodo, Hprog. destruct (is_get (freeze (g_store st) r0)) eqn:Eg; [|discriminate].
    rewrite (is_get_no_key _ _ Eg) in Hk. discriminate.
  - rewrite Hth, Htodo, Hprog. intros E. injection E as <-. cbn [effect_key apply_geffect].
    destruct Hat as [[Hnone _]|[k' [Hk [Hearly|[Hho _]]]]].
    + left. congruence.
    + right. apply gearly_unchanged. exact Hearly.
    + left. rewrite Hk. intros E. injection E as ->. apply holder_of_none in Hho. apply Hho.
      apply in_map_iff. exists (k, i). auto.
  - rewrite Hth, Htodo, Hprog. intros E. injection E as <-. left.
    destruct (gi_hold _ Hinv _ _ _ Hth Hprog) as [r' [rest' [k' [Ht Hin]]]]. rewrite Htodo in Ht. injection Ht as <- <-.
    intros Hek. apply Hne. symmetry. apply (holders_key_inj st k i j Hinv Hki).
    rewrite (held_effect_key st j th r rest cap k' k Hinv Hcoh Hth Htodo Hprog Hin Hek). exact Hin.
  - (* the fetch of a GET changes nothing *)
    rewrite Hth, Htodo, Hprog, Hget. intros E. injection E as <-. right. cbn [apply_geffect].
    apply get_store_unchanged. exact Hget.
  - rewrite Hth, Htodo, Hprog. discriminate.
Qed.

(* held_object_stable, full statement — FALSE in this model for arbitrary states, see
   held_object_stable_refuted_stale_session (and, for bucket deletions, ..._refuted_delete_bucket):
     forall st i j b n, glock_inv st -> all_reqs lock_respecting st ->
       In ((b, n), i) (g_holders st) -> j <> i ->
       find_obj (g_store (fst (gstep st j))) b n = find_obj (g_store st) b n.
   Proved with the exact guard sess_coherent st: the session of every parked resumable PUT still is
   a session for the object the thread locked.  The guard holds whenever no resumable PUT is parked
   (sess_coherent_static: this is the former theorem), and in every state reachable from a
   well-formed store (sess_safe_reachable, sess_safe_coherent). *)
Theorem held_object_stable_partial st i j b n : glock_inv st -> sess_coherent st -> all_reqs lock_respecting st ->
  In ((b, n), i) (g_holders st) -> j <> i ->
  find_obj (g_store (fst (gstep st j))) b n = find_obj (g_store st) b n.
Proof.
  intros Hinv Hcoh Hall Hki Hne. rewrite step_effect_store. destruct (step_effect st j) as [e|] eqn:E; [|reflexivity].
  destruct (other_commit_other_key st i j (b, n) e Hinv Hcoh Hki Hne E) as [H|H].
  - apply effect_frame; [|exact H]. eapply step_effect_respecting; eauto.
  - rewrite H. reflexivity.
Qed.

(* and the commit of the holder itself changes no object but the one it holds: in particular the
   parked PUT of a resumable upload stores the object it locked *)
Theorem commit_changes_only_held_object st i k b n : glock_inv st -> sess_coherent st ->
  all_reqs lock_respecting st -> In (k, i) (g_holders st) -> (b, n) <> k ->
  find_obj (g_store (fst (gstep st i))) b n = find_obj (g_store st) b n.
Proof.
  intros Hinv Hcoh Hall Hin Hne.
  destruct (gi_in _ Hinv _ _ Hin) as [th [r [rest [cap [Hth [Htodo [Hprog _]]]]]]].
  pose proof (step_effect_hold st i th r rest cap Hth Htodo Hprog) as E.
  rewrite step_effect_store, E. apply effect_frame; [eapply step_effect_respecting; eauto|].
  intros Hek. apply Hne. exact (held_effect_key st i th r rest cap k (b, n) Hinv Hcoh Hth Htodo Hprog Hin Hek).
Qed.

Lemma holder_kept st i j k : In (k, i) (g_holders st) -> j <> i -> In (k, i) (g_holders (fst (gstep st j))).
Proof.
  intros Hin Hne. destruct (gstep_spec_ok st j); cbn [g_holders]; auto.
  - right. exact Hin.
  - apply release_in. auto.
  - apply release_in. auto.
  - apply release_in. auto.
Qed.

(* held_object_stable_run, full statement (false for the same reason): the same without the guard
   sess_safe (length mid) st. *)
Theorem held_object_stable_run_partial mid : forall st i b n, glock_inv st -> all_reqs lock_respecting st ->
  sess_safe (length mid) st ->
  In ((b, n), i) (g_holders st) -> Forall (fun j => j <> i) mid ->
  let st' := fst (grun st mid) in
  find_obj (g_store st') b n = find_obj (g_store st) b n
  /\ In ((b, n), i) (g_holders st')
  /\ nth_error (g_threads st') i = nth_error (g_threads st) i.
Proof.
  induction mid as [|j rest IH]; intros st i b n Hinv Hall Hsafe Hki Hmid; [cbn; auto|].
  inversion Hmid as [|x y Hj Hrest]; subst. rewrite grun_cons. cbn [fst].
  destruct (IH (fst (gstep st j)) i b n) as [H1 [H2 H3]]; auto.
  - apply glock_inv_gstep. exact Hinv.
  - apply all_reqs_gstep; auto using lock_respecting_freeze.
  - apply sess_safe_gstep; [exact Hinv|exact Hsafe].
  - apply holder_kept; auto.
  - split; [rewrite H1; apply (held_object_stable_partial st i j); eauto using sess_safe_coherent|]. split; [exact H2|].
    rewrite H3. apply gstep_other_threads. auto.
Qed.

(* in the states reachable from a well-formed store no guard on the sessions is left (only the
   length of the schedule against the id counter) *)
Theorem held_object_stable_reachable s0 progs sched i j b n : sessions_wf s0 ->
  s_upcount s0 + Z.of_nat (length sched) <= int64_max ->
  let st := fst (grun (init_g s0 progs) sched) in
  all_reqs lock_respecting st -> In ((b, n), i) (g_holders st) -> j <> i ->
  find_obj (g_store (fst (gstep st j))) b n = find_obj (g_store st) b n.
Proof.
  intros Hwf Hb st Hall Hki Hne. apply (held_object_stable_partial st i j); auto.
  - apply glock_inv_reachable.
  - apply (sess_safe_coherent 0). apply sess_safe_reachable; [exact Hwf|]. rewrite Nat.add_0_r. exact Hb.
Qed.

(* ---- item 6: no lost update ---- *)

Lemma key_opt_dec (a b : option (str * str)) : {a = b} + {a <> b}.
Proof. repeat decide equality. Qed.

(* an object changes only by a commit step whose request locks that very object (its key in the
   store of the commit step) *)
Theorem object_changes_only_by_own_key_commit st j b n : all_reqs lock_respecting st ->
  find_obj (g_store (fst (gstep st j))) b n <> find_obj (g_store st) b n ->
  exists e, step_effect st j = Some e /\ effect_key (g_store st) e = Some (b, n).
Proof.
  intros Hall Hch. rewrite step_effect_store in Hch. destruct (step_effect st j) as [e|] eqn:E; [|congruence].
  exists e. split; [reflexivity|]. destruct (key_opt_dec (effect_key (g_store st) e) (Some (b, n))) as [H|H]; [exact H|].
  exfalso. apply Hch. apply effect_frame; [|exact H]. eapply step_effect_respecting; eauto.
Qed.

(* no commit on key k in the schedule (each effect's key in the store of its commit step) *)
Fixpoint quiet_on (st : gstate) (sched : list nat) (k : str * str) : Prop :=
  match sched with
  | [] => True
  | i :: rest => (forall e, step_effect st i = Some e -> effect_key (g_store st) e <> Some k)
                 /\ quiet_on (fst (gstep st i)) rest k
  end.

Theorem quiet_object_unchanged sched : forall st b n, all_reqs lock_respecting st ->
  quiet_on st sched (b, n) ->
  find_obj (g_store (fst (grun st sched))) b n = find_obj (g_store st) b n.
Proof.
  induction sched as [|i rest IH]; intros st b n Hall Hq; [reflexivity|]. destruct Hq as [Hq1 Hq2].
  rewrite grun_cons. cbn [fst]. rewrite IH; auto using all_reqs_gstep, lock_respecting_freeze.
  rewrite step_effect_store. destruct (step_effect st i) as [e|] eqn:E; [|reflexivity].
  apply effect_frame; [eapply step_effect_respecting; eauto|]. apply Hq1. reflexivity.
Qed.

(* no_lost_update: the effect of a commit is in the store right after it, and what it did to
   its object stays until the next commit on the same key *)
Theorem no_lost_update st i e sched b n : all_reqs lock_respecting st ->
  step_effect st i = Some e ->
  g_store (fst (gstep st i)) = apply_geffect (g_store st) e
  /\ (quiet_on (fst (gstep st i)) sched (b, n) ->
      find_obj (g_store (fst (grun st (i :: sched)))) b n = find_obj (apply_geffect (g_store st) e) b n).
Proof.
  intros Hall E. pose proof (step_effect_spec st i) as Hsp. rewrite E in Hsp. destruct Hsp as [H1 _].
  split; [exact H1|]. intros Hq. rewrite grun_cons. cbn [fst]. rewrite <- H1.
  apply quiet_object_unchanged; auto using all_reqs_gstep, lock_respecting_freeze.
Qed.

(* ---- the guards are needed, and the resumable PUT does take the lock ---- *)
Definition otag (o : outcome) : Z := match o with OAt => 1 | OBlocked => 2 | ODone r => r_status r | OIdle => 0 end.
Definition c07_b : str := [98]%N.
Definition c07_n : str := [110]%N.
Definition c07_cp0 : cparams := cp_lit [].
Definition c07_up (d : bytes) : req := RUploadMedia c07_b c07_n [116]%N d c07_cp0.
Definition c07_s1 : state := fst (handle init_state (c07_up [1]%N)).

(* a bucket deletion removes an object whose lock another thread holds *)
Lemma held_object_stable_refuted_delete_bucket :
  let st := fst (gstep (init_g c07_s1 [[c07_up [2]%N]; [RDeleteBucket c07_b c07_cp0]]) 0) in
  In ((c07_b, c07_n), 0%nat) (g_holders st)
  /\ find_obj (g_store st) c07_b c07_n <> None
  /\ find_obj (g_store (fst (gstep st 1))) c07_b c07_n = None.
Proof. cbn zeta. split; [left; reflexivity|]. split; [vm_compute; discriminate|vm_compute; reflexivity]. Qed.

(* an upload parked holding the lock of (b, n); a second thread whose request is the completing
   PUT of a resumable session for (b, n): its key in that store is (b, n), its step is blocked and
   changes nothing; once the holder has committed it takes the lock, parks and commits in turn *)
Lemma resumable_put_blocked_by_holder :
  let s2 := fst (handle c07_s1 (RResumableInit c07_b false (mkUpMeta c07_n [116]%N 0 []) c07_cp0)) in
  let put := RResumablePut [49]%N (Some [98; 121; 116; 101; 115; 32; 48; 45; 48; 47; 49]%N) [9]%N in
  let st := fst (gstep (init_g s2 [[c07_up [2]%N]; [put]]) 0) in
  In ((c07_b, c07_n), 0%nat) (g_holders st)
  /\ lock_key (g_store st) put = Some (c07_b, c07_n)
  /\ (exists o, find_obj (g_store st) c07_b c07_n = Some o /\ o_data o = [1]%N)
  /\ gstep st 1 = (st, OBlocked)
  /\ map otag (snd (grun st [1; 0; 1; 1]%nat)) = [2; 200; 1; 200]
  /\ (exists o, find_obj (g_store (fst (grun st [1; 0; 1; 1]%nat))) c07_b c07_n = Some o /\ o_data o = [9]%N).
Proof.
  cbn zeta. split; [left; reflexivity|]. split; [vm_compute; reflexivity|].
  split; [eexists; split; [vm_compute; reflexivity|reflexivity]|].
  split; [vm_compute; reflexivity|]. split; [vm_compute; reflexivity|].
  eexists; split; [vm_compute; reflexivity|reflexivity].
Qed.

(* non-vacuity of the guards: a state reachable from a well-formed store in which a resumable PUT
   is parked holding the lock of its session's object (thread 0 has committed, thread 1 is at its
   yield) *)
Lemma sess_safe_nonvacuous :
  let s2 := fst (handle c07_s1 (RResumableInit c07_b false (mkUpMeta c07_n [116]%N 0 []) c07_cp0)) in
  let put := RResumablePut [49]%N (Some [98; 121; 116; 101; 115; 32; 48; 45; 48; 47; 49]%N) [9]%N in
  let st := fst (grun (init_g s2 [[c07_up [2]%N]; [put]]) [0; 1; 0; 1]%nat) in
  sessions_wf s2 /\ glock_inv st /\ all_reqs lock_respecting st /\ gsess_inv st /\ sess_safe 5 st
  /\ parked_put st 1 [49]%N (c07_b, c07_n).
Proof.
  cbn zeta.
  assert (Hwf : sessions_wf (fst (handle c07_s1 (RResumableInit c07_b false (mkUpMeta c07_n [116]%N 0 []) c07_cp0)))).
  { apply handle_sessions_wf. apply handle_sessions_wf. apply sessions_wf_init. }
  split; [exact Hwf|]. split; [apply glock_inv_reachable|]. split.
  { apply all_reqs_grun; [apply lock_respecting_freeze|]. apply all_reqs_init. repeat constructor. }
  split; [apply gsess_inv_reachable; [exact Hwf|vm_compute; discriminate]|].
  split; [apply sess_safe_reachable; [exact Hwf|vm_compute; discriminate]|].
  exists (mkGThread [RResumablePut [49]%N (Some [98; 121; 116; 101; 115; 32; 48; 45; 48; 47; 49]%N) [9]%N] (GHold None)),
         (Some [98; 121; 116; 101; 115; 32; 48; 45; 48; 47; 49]%N), [9]%N, [], None.
  split; [vm_compute; reflexivity|]. split; [reflexivity|]. split; [reflexivity|]. vm_compute. auto.
Qed.

(* the guard sess_coherent of held_object_stable_partial is needed.  The store s0 is NOT well
   formed: it has a session under id "1" (for object (b, m)) although its id counter is still 0.
   Thread 0 parks holding (b, n); thread 1, the completing PUT of session "1", parks holding (b, m);
   thread 2 initiates an upload of (b, n), which gets id "1" again and replaces the session; the
   commit of thread 1 looks the session up again and stores (b, n), whose lock thread 0 holds *)
Lemma held_object_stable_refuted_stale_session :
  let s0 := set_uploads c07_s1 0 [([49]%N, mkUpload c07_b [109]%N [116]%N 0 [] empty_conds [])] in
  let put := RResumablePut [49]%N (Some [98; 121; 116; 101; 115; 32; 48; 45; 48; 47; 49]%N) [9]%N in
  let st := fst (grun (init_g s0 [[c07_up [2]%N]; [put];
                                  [RResumableInit c07_b false (mkUpMeta c07_n [116]%N 0 []) c07_cp0]]) [0; 1; 2]%nat) in
  glock_inv st /\ all_reqs lock_respecting st
  /\ In ((c07_b, c07_n), 0%nat) (g_holders st)
  /\ In ((c07_b, [109]%N), 1%nat) (g_holders st)
  /\ (exists o, find_obj (g_store st) c07_b c07_n = Some o /\ o_data o = [1]%N)
  /\ (exists o, find_obj (g_store (fst (gstep st 1))) c07_b c07_n = Some o /\ o_data o = [9]%N)
  /\ ~ sessions_wf s0.
Proof.
  cbn zeta. split; [apply glock_inv_reachable|]. split.
  { apply all_reqs_grun; [apply lock_respecting_freeze|]. apply all_reqs_init. repeat constructor. }
  split; [vm_compute; auto|]. split; [vm_compute; auto|].
  split; [eexists; split; [vm_compute; reflexivity|reflexivity]|].
  split; [eexists; split; [vm_compute; reflexivity|reflexivity]|].
  intros [_ [_ H]]. destruct (H [49]%N _ eq_refl) as [z [E Hz]]. cbn [set_uploads s_upcount] in Hz.
  assert (z = 0) by lia. subst z. vm_compute in E. discriminate.
Qed.

(* ---- item 5: a metageneration-conditioned patch ---- *)

Lemma parse_conds_mm p1 p2 p4 m c : parse_conds p1 p2 (VNum m) p4 = Some c -> c_mm c = m.
Proof. destruct p1, p2, p4; cbn; intros H; try discriminate; injection H as <-; reflexivity. Qed.

Lemma validate_pass_metagen gen mg c : validate_conds (Some (gen, mg)) c = VPass -> c_mm c = 0 \/ mg = c_mm c.
Proof.
  cbn [validate_conds]. destruct (c_dne c); [discriminate|].
  destruct (negb (c_gm c =? 0) && negb (gen =? c_gm c)); [discriminate|].
  destruct (negb (c_gnm c =? 0) && (gen =? c_gnm c)); [discriminate|].
  destruct (Z.eqb_spec (c_mm c) 0) as [E|E]; [auto|]. destruct (Z.eqb_spec mg (c_mm c)) as [E1|E1]; [auto|discriminate].
Qed.

(* sequential core: a patch conditioned on metageneration m that answers 200 found metageneration m *)
Lemma patch_200_metagen s b n p cp m : cp3 cp = PRaw (print_int m) -> 0 < m <= int64_max ->
  r_status (snd (handle s (RPatch b n p cp))) = 200 ->
  exists o, find_obj s b n = Some o /\ o_metagen o = m
    /\ find_obj (fst (handle s (RPatch b n p cp))) b n
       = Some (mkObj (o_data o) (match pt_ctype p with Some t => t | None => o_ctype o end)
                     (o_gen o) (m + 1) (o_md5 o)
                     (match pt_meta p with Some kv => merge_meta (o_meta o) kv | None => o_meta o end)).
Proof.
  intros Hcp Hm H200. destruct (patch_bumps_metagen_only s b n p cp H200) as [o [Hf [Hf' _]]].
  exists o. split; [exact Hf|].
  assert (Hmg : o_metagen o = m).
  { revert H200. cbn [handle]. unfold resolve_conds. rewrite Hcp. cbn [resolve]. rewrite cval_print_int by lia.
    destruct (parse_conds _ _ (VNum m) _) as [c|] eqn:Ec; [|cbn; discriminate]. rewrite Hf.
    destruct (validate_conds _ c) eqn:Ev; try (cbn; discriminate). intros _.
    apply parse_conds_mm in Ec. apply validate_pass_metagen in Ev. lia. }
  split; [exact Hmg|]. rewrite Hf', Hmg. reflexivity.
Qed.

(* at its commit step *)
Theorem metagen_patch_never_applies_to_unmatched_state st i b n p cp m rsp :
  step_effect st i = Some (EHandle (RPatch b n p cp)) -> cp3 cp = PRaw (print_int m) -> 0 < m <= int64_max ->
  snd (gstep st i) = ODone rsp -> r_status rsp = 200 ->
  exists o, find_obj (g_store st) b n = Some o /\ o_metagen o = m
    /\ find_obj (g_store (fst (gstep st i))) b n
       = Some (mkObj (o_data o) (match pt_ctype p with Some t => t | None => o_ctype o end)
                     (o_gen o) (m + 1) (o_md5 o)
                     (match pt_meta p with Some kv => merge_meta (o_meta o) kv | None => o_meta o end)).
Proof.
  intros E Hcp Hm Ho H200. pose proof (step_effect_spec st i) as Hsp. rewrite E in Hsp. destruct Hsp as [H1 [H2|[H2 _]]]; [|congruence].
  rewrite H2 in Ho. injection Ho as <-. rewrite H1. cbn [apply_geffect effect_resp] in *.
  apply patch_200_metagen; auto.
Qed.

(* frozen preconditions do not depend on the store any more *)
Lemma resolve_frozen s s1 s2 p : resolve s1 (freeze_param s p) = resolve s2 (freeze_param s p).
Proof. destruct p; cbn; try reflexivity; destruct (find_obj s b n); reflexivity. Qed.

Lemma resolve_conds_frozen s s1 s2 cp : resolve_conds s1 (freeze_cp s cp) = resolve_conds s2 (freeze_cp s cp).
Proof.
  unfold resolve_conds, freeze_cp. cbn [cp1 cp2 cp3 cp4].
  rewrite (resolve_frozen s s1 s2 (cp1 cp)), (resolve_frozen s s1 s2 (cp2 cp)),
          (resolve_frozen s s1 s2 (cp3 cp)), (resolve_frozen s s1 s2 (cp4 cp)). reflexivity.
Qed.

Definition patched (p : patch) (o : obj) : obj :=
  mkObj (o_data o) (match pt_ctype p with Some t => t | None => o_ctype o end)
        (o_gen o) (o_metagen o + 1) (o_md5 o)
        (match pt_meta p with Some kv => merge_meta (o_meta o) kv | None => o_meta o end).

(* from check to mutation: the patch whose preconditions passed on object o at its yield (OAt)
   is applied, whatever the other threads do meanwhile, to that same object o.
   Full statement (false without the guard, as held_object_stable is): the same without
   sess_safe (S (length mid)) st — the guard covers the step to the yield and the steps of mid. *)
Theorem held_patch_applies_to_checked_object_partial st i b n p cp mid :
  glock_inv st -> all_reqs lock_respecting st -> sess_safe (S (length mid)) st ->
  cur_req st i = Some (RPatch b n p cp, GNew) -> snd (gstep st i) = OAt ->
  Forall (fun j => j <> i) mid ->
  let st2 := fst (grun (fst (gstep st i)) mid) in
  exists o c,
    find_obj (g_store st) b n = Some o
    /\ resolve_conds (g_store st) cp = Some c /\ validate_conds (Some (o_gen o, o_metagen o)) c = VPass
    /\ find_obj (g_store st2) b n = Some o
    /\ cur_req st2 i = Some (RPatch b n p cp, GHold None)
    /\ snd (gstep st2 i) = ODone (if pt_bad p then err 400 else mkResp 200 (BMeta (view b n (patched p o))))
    /\ (pt_bad p = false -> find_obj (g_store (fst (gstep st2 i))) b n = Some (patched p o)).
Proof.
  intros Hinv Hall Hsafe Hcur Ho Hmid st2.
  pose proof (gstep_spec_ok st i) as Hs. rewrite Ho in Hs.
  assert (Hinv1 : glock_inv (fst (gstep st i))) by (apply glock_inv_gstep; exact Hinv).
  assert (Hsafe1 : sess_safe (length mid) (fst (gstep st i))) by (apply sess_safe_gstep; assumption).
  assert (Hall1 : all_reqs lock_respecting (fst (gstep st i))) by (apply all_reqs_gstep; auto using lock_respecting_freeze).
  remember (fst (gstep st i)) as st1 eqn:Est1.
  inversion Hs as [| |th r0 rest k Hth Htodo Hprog Hk Hearly Hho Hry Hst| | |th r0 rest Hth Htodo Hprog Hk Hget Hst|]; clear Hs;
    [|exfalso; unfold cur_req in Hcur; rewrite Hth, Htodo, Hprog in Hcur; injection Hcur as Hr; rewrite Hr in Hget; discriminate].
  unfold cur_req in Hcur. rewrite Hth, Htodo, Hprog in Hcur. injection Hcur as Hr.
  rewrite Hr in *. clear Hearly.
  assert (Ek : k = (b, n)) by (cbn in Hk; congruence). subst k.
  (* the preconditions are frozen *)
  assert (Hfz : exists cp0, cp = freeze_cp (g_store st) cp0).
  { destruct r0; cbn [freeze] in Hr; try discriminate. injection Hr as _ _ _ <-. eauto. }
  destruct Hfz as [cp0 Hfz].
  (* the check at the yield *)
  cbn [reaches_yield] in Hry.
  destruct (resolve_conds (g_store st) cp) as [c|] eqn:Ec; [|discriminate].
  destruct (find_obj (g_store st) b n) as [o|] eqn:Ef; [|discriminate].
  destruct (validate_conds (Some (o_gen o, o_metagen o)) c) eqn:Ev; try discriminate.
  exists o, c. split; [reflexivity|]. split; [reflexivity|]. split; [exact Ev|].
  (* the other threads *)
  assert (Hki : In ((b, n), i) (g_holders st1)) by (rewrite <- Hst; left; reflexivity).
  destruct (held_object_stable_run_partial mid st1 i b n Hinv1 Hall1 Hsafe1 Hki Hmid) as [H1 [H2 H3]]. fold st2 in H1, H2, H3.
  assert (Hs1 : g_store st1 = g_store st) by (rewrite <- Hst; reflexivity).
  assert (Hth1 : nth_error (g_threads st1) i = Some (mkGThread (RPatch b n p cp :: rest) (GHold None))).
  { rewrite <- Hst. cbn [g_threads]. rewrite (nth_error_upd_same _ _ _ _ Hth). reflexivity. }
  rewrite Hth1 in H3. rewrite Hs1, Ef in H1.
  split; [exact H1|]. split; [unfold cur_req; rewrite H3; reflexivity|].
  assert (Hh : handle (g_store st2) (RPatch b n p cp)
               = if pt_bad p then (g_store st2, err 400)
                 else (store_put_obj (g_store st2) b n (patched p o), mkResp 200 (BMeta (view b n (patched p o))))).
  { cbn [handle]. rewrite Hfz, (resolve_conds_frozen _ (g_store st2) (g_store st)), <- Hfz, Ec, H1, Ev.
    destruct (pt_bad p); reflexivity. }
  rewrite (gstep_hold st2 i _ _ _ _ H3 eq_refl eq_refl). cbn [fst snd hold_effect effect_resp apply_geffect g_store].
  rewrite Hh. split; [destruct (pt_bad p); reflexivity|]. intros Hb. rewrite Hb. cbn [fst].
  apply find_obj_put_same. unfold find_obj in H1. destruct (get_bucket (g_store st2) b); [discriminate|discriminate H1].
Qed.

(* ================================================================== *)
(* 7. Reads (item 7)                                                    *)

(* A GET (object metadata, media, bucket metadata) is two steps: the FETCH, one store read, after
   which the thread is parked (GRead) holding the response built from what it read, and the ANSWER,
   which gives that response.  Writers may commit in between. *)

(* the response of an object GET, computed in store s: every field comes from the ONE object stored
   under (b, n) in s *)
Lemma get_response_shape s b n r : r = RGetMeta b n \/ r = RGetMedia b n ->
  snd (handle s r) = match find_obj s b n with
                     | Some o => if match r with RGetMeta _ _ => true | _ => false end
                                 then mkResp 200 (BMeta (view b n o))
                                 else mkResp 200 (BMedia (o_data o) (o_ctype o) (o_gen o) (o_metagen o))
                     | None => err 404
                     end.
Proof. intros [-> | ->]; cbn [handle]; destruct (find_obj s b n); reflexivity. Qed.

Lemma not_holding_unless_hold st i th : glock_inv st -> nth_error (g_threads st) i = Some th ->
  (forall cap, gt_prog th <> GHold cap) -> ~ In i (map snd (g_holders st)).
Proof.
  intros Hinv Hth Hp Hin. apply in_map_iff in Hin. destruct Hin as [[k j] [E Hin]]. cbn in E. subst j.
  apply (gi_in _ Hinv) in Hin. destruct Hin as [th' [r [rest [cap [H1 [H2 [H3 H4]]]]]]].
  rewrite Hth in H1. injection H1 as <-. eapply Hp; eauto.
Qed.

Lemma cur_req_new_inv st i r : cur_req st i = Some (r, GNew) ->
  exists th r0 rest, nth_error (g_threads st) i = Some th /\ gt_todo th = r0 :: rest /\ gt_prog th = GNew
                     /\ r = freeze (g_store st) r0.
Proof.
  unfold cur_req. destruct (nth_error (g_threads st) i) as [th|] eqn:Hth; [|discriminate].
  destruct (gt_todo th) as [|r0 rest] eqn:Htodo; [discriminate|]. intros H. injection H as H1 H2.
  rewrite H2 in H1. subst r. exists th, r0, rest. repeat split; auto.
Qed.

Lemma cur_req_read_inv st i r rsp : cur_req st i = Some (r, GRead rsp) ->
  exists th rest, nth_error (g_threads st) i = Some th /\ gt_todo th = r :: rest /\ gt_prog th = GRead rsp.
Proof.
  unfold cur_req. destruct (nth_error (g_threads st) i) as [th|] eqn:Hth; [|discriminate].
  destruct (gt_todo th) as [|r0 rest] eqn:Htodo; [discriminate|]. intros H. injection H as H1 H2.
  rewrite H2 in H1. subst r0. exists th, rest. repeat split; auto.
Qed.

(* the fetch step of a GET, explicitly *)
Lemma get_fetch_step st i r : cur_req st i = Some (r, GNew) -> is_get r = true ->
  exists th r0 rest, nth_error (g_threads st) i = Some th /\ gt_todo th = r0 :: rest
    /\ gstep st i = (mkGState (g_store st) (g_holders st)
                       (upd_nth (g_threads st) i (mkGThread (r :: rest) (GRead (snd (handle (g_store st) r))))), OAt).
Proof.
  intros Hcur Hg. destruct (cur_req_new_inv _ _ _ Hcur) as [th [r0 [rest [Hth [Htodo [Hprog ->]]]]]].
  exists th, r0, rest. split; [exact Hth|]. split; [exact Htodo|].
  apply (gstep_fetch st i th r0 rest Hth Htodo Hprog); [apply is_get_no_key; exact Hg|exact Hg].
Qed.

(* get_changes_nothing: neither step of a GET changes the store or the holders *)
Theorem get_changes_nothing st i r : glock_inv st ->
  (cur_req st i = Some (r, GNew) /\ is_get r = true) \/ (exists rsp, cur_req st i = Some (r, GRead rsp)) ->
  g_store (fst (gstep st i)) = g_store st /\ g_holders (fst (gstep st i)) = g_holders st.
Proof.
  intros Hinv [[Hcur Hg]|[rsp Hcur]].
  - destruct (get_fetch_step _ _ _ Hcur Hg) as [th [r0 [rest [_ [_ E]]]]]. rewrite E. split; reflexivity.
  - destruct (cur_req_read_inv _ _ _ _ Hcur) as [th [rest [Hth [Htodo Hprog]]]].
    rewrite (gstep_read _ _ _ _ _ _ Hth Htodo Hprog). cbn [fst g_store g_holders]. split; [reflexivity|].
    apply release_absent. eapply not_holding_unless_hold; eauto. intros cap. congruence.
Qed.

Lemma grun_other_threads mid i : forall st, Forall (fun j => j <> i) mid ->
  nth_error (g_threads (fst (grun st mid))) i = nth_error (g_threads st) i.
Proof.
  induction mid as [|j rest IH]; intros st H; [reflexivity|]. inversion H as [|x y Hj Hr]; subst.
  rewrite grun_cons. cbn [fst]. rewrite IH by exact Hr. apply gstep_other_threads. auto.
Qed.

(* get_answers_its_fetch_state: the GET at the head of thread i is fetched in state st; whatever
   the other threads do afterwards (any schedule mid of their steps: writers may overwrite or delete
   the object), the thread stays parked holding the response computed in the store of the FETCH,
   and its next step answers exactly that response and changes nothing: generation,
   metageneration, metadata and content of the answer belong together at one instant *)
Theorem get_answers_its_fetch_state st i r mid : cur_req st i = Some (r, GNew) -> is_get r = true ->
  Forall (fun j => j <> i) mid ->
  let rsp := snd (handle (g_store st) r) in
  let st1 := fst (gstep st i) in
  let st2 := fst (grun st1 mid) in
  snd (gstep st i) = OAt /\ g_store st1 = g_store st /\ g_holders st1 = g_holders st
  /\ step_effect st i = Some (EHandle r)
  /\ cur_req st2 i = Some (r, GRead rsp)
  /\ snd (gstep st2 i) = ODone rsp
  /\ g_store (fst (gstep st2 i)) = g_store st2.
Proof.
  intros Hcur Hg Hmid rsp st1 st2.
  destruct (get_fetch_step _ _ _ Hcur Hg) as [th [r0 [rest [Hth [Htodo E]]]]].
  assert (He : step_effect st i = Some (EHandle r)).
  { destruct (cur_req_new_inv _ _ _ Hcur) as [th' [r0' [rest' [Hth' [Htodo' [Hprog' ->]]]]]].
    apply (step_effect_fetch st i th' r0' rest' Hth' Htodo' Hprog'); [apply is_get_no_key; exact Hg|exact Hg]. }
  assert (H2 : nth_error (g_threads st2) i = Some (mkGThread (r :: rest) (GRead rsp))).
  { unfold st2. rewrite grun_other_threads by exact Hmid. unfold st1. rewrite E. cbn [fst g_threads].
    apply (nth_error_upd_same _ _ _ _ Hth). }
  unfold st1. rewrite E. cbn [fst snd g_store g_holders]. repeat (split; [reflexivity|]). split; [exact He|].
  split; [unfold cur_req; fold st1 in H2; rewrite H2; reflexivity|].
  rewrite (gstep_read st2 i _ r rest rsp H2 eq_refl eq_refl). split; reflexivity.
Qed.

(* the same for ALL schedules (the steps of thread i included): every answer ever given to this
   GET is the response computed in the store of its fetch *)
Theorem get_answer_unique st i r sched rsp' : cur_req st i = Some (r, GNew) -> is_get r = true ->
  In (op_of st i, rsp') (ganswers_t st (i :: sched)) -> rsp' = snd (handle (g_store st) r).
Proof.
  intros Hcur Hg H. destruct (get_fetch_step _ _ _ Hcur Hg) as [th [r0 [rest [Hth [Htodo E]]]]].
  cbn [ganswers_t] in H. rewrite E in H. cbn [fst snd app] in H.
  eapply (reading_answer_unique sched _ i (todo_len st i)); [|exact H].
  exists (mkGThread (r :: rest) (GRead (snd (handle (g_store st) r)))). cbn [fst snd g_threads gt_prog gt_todo].
  split; [apply (nth_error_upd_same _ _ _ _ Hth)|]. split; [reflexivity|]. unfold todo_len. rewrite Hth, Htodo. reflexivity.
Qed.

(* file_read_mixture_refuted (documented only): the FILE store's Add is three separate steps
   (write content, write metadata, rename), which are not in this model; a read between them can
   return the new content with the old metadata.  This is exhibited dynamically by the harness as
   finding GCS-10 and is outside the memory-store interleaving model proved about here. *)

(* ---- concrete material for the non-vacuity examples ---- *)
Definition c07_g : Z := clock0 + 1.                    (* the generation of the object in c07_s1 *)
Definition c07_cup (d : bytes) : req := RUploadMedia c07_b c07_n [116]%N d (cp_lit (print_int c07_g)).
Definition c07_dup (d : bytes) : req := RUploadMedia c07_b c07_n [116]%N d (cp_lit [48]%N).
Definition c07_patch : req :=
  RPatch c07_b c07_n (mkPatch false (Some [120]%N) None None None None)
         (mkCP (PRaw []) (PRaw []) (PRaw (print_int 1)) (PRaw [])).

(* non-vacuity of get_answers_its_fetch_state: two readers (media, metadata) fetch object (b, n) of
   c07_s1 (content [1], generation c07_g); a writer then overwrites the object completely (yield,
   commit: content [2], a new generation); the readers answer afterwards — with the OLD object,
   every field of it, exactly the responses computed in c07_s1, while the store holds the new one *)
Lemma get_answers_old_object :
  let st := init_g c07_s1 [[RGetMedia c07_b c07_n]; [c07_up [2]%N]; [RGetMeta c07_b c07_n]] in
  let out := grun st [0; 2; 1; 1; 0; 2]%nat in
  map otag (snd out) = [1; 1; 1; 200; 200; 200]
  /\ nth 4 (snd out) OIdle = ODone (mkResp 200 (BMedia [1]%N [116]%N c07_g 1))
  /\ nth 5 (snd out) OIdle = ODone (mkResp 200 (BMeta (mkView c07_b c07_n 1 c07_g 1 [116]%N 1 [])))
  /\ snd (handle c07_s1 (RGetMedia c07_b c07_n)) = mkResp 200 (BMedia [1]%N [116]%N c07_g 1)
  /\ snd (handle c07_s1 (RGetMeta c07_b c07_n)) = mkResp 200 (BMeta (mkView c07_b c07_n 1 c07_g 1 [116]%N 1 []))
  /\ find_obj (g_store (fst out)) c07_b c07_n = Some (mkObj [2]%N [116]%N (c07_g + 1) 1 true [])
  /\ map fst (gcommits_t st [0; 2; 1; 1; 0; 2]%nat) = [(0, 1); (2, 1); (1, 1)]%nat
  /\ map fst (ganswers_t st [0; 2; 1; 1; 0; 2]%nat) = [(1, 1); (0, 1); (2, 1)]%nat.
Proof. cbn zeta. repeat split; vm_compute; reflexivity. Qed.

(* the guard no_reads of the ..._from_partial theorems is needed: a thread parked in GRead answers
   with the response it holds, whatever its request *)
Lemma exactly_one_conditional_writer_wins_from_refuted_parked_reader :
  let st := mkGState c07_s1 [] [mkGThread [c07_cup [2]%N] (GRead (err 404))] in
  c07_n <> [] /\ 0 < c07_g <= int64_max
  /\ all_reqs (gen_upload c07_b c07_n c07_g) st /\ has_gen c07_b c07_n c07_g (g_store st)
  /\ all_done (fst (grun st [0%nat])) /\ pending st = 1%nat
  /\ map r_status (done_resps (snd (grun st [0%nat]))) = [404]
  /\ ~ no_reads st.
Proof.
  cbn zeta. split; [discriminate|]. split; [vm_compute; split; [reflexivity|discriminate]|]. split.
  { intros th [<-|[]]. constructor; [|constructor]. eexists _, _. reflexivity. }
  split; [eexists; split; [vm_compute; reflexivity|]; split; [reflexivity|vm_compute; discriminate]|].
  split; [intros th Hin; vm_compute in Hin; destruct Hin as [<-|[]]; reflexivity|].
  split; [reflexivity|]. split; [vm_compute; reflexivity|].
  intros H. eapply (H _ (or_introl eq_refl)). reflexivity.
Qed.

(* ================================================================== *)
(* 8. Item 4 with SYMBOLIC preconditions ("the generation I last saw"),  *)
(*    frozen at each thread's first step                                *)

Definition sym_cp (b n : str) : cparams := mkCP (PGen b n 0) (PRaw []) (PRaw []) (PRaw []).
Definition sym_upload (b n : str) (r : req) : Prop := exists ct d, r = RUploadMedia b n ct d (sym_cp b n).

Lemma freeze_sym b n g s r : has_gen b n g s -> sym_upload b n r -> gen_upload b n g (freeze s r).
Proof.
  intros [o [Hf [Hg _]]] [ct [d ->]]. exists ct, d. cbn [freeze]. unfold freeze_cp, sym_cp, cp_lit.
  cbn [cp1 cp2 cp3 cp4 freeze_param resolve]. rewrite Hf, Hg, Z.add_0_r. reflexivity.
Qed.

Lemma idle_not_self st i th r rest : glock_inv st -> idle_reason st i ->
  nth_error (g_threads st) i = Some th -> gt_todo th = r :: rest -> False.
Proof.
  intros Hinv Hid Hth Htodo. unfold idle_reason in Hid. rewrite Hth, Htodo in Hid.
  destruct Hid as [Hp [k [_ Hho]]]. apply holder_of_some in Hho.
  eapply not_holding_if_new; eauto. apply in_map_iff. exists (k, i). auto.
Qed.

Lemma done_resps_app a b : done_resps (a ++ b) = done_resps a ++ done_resps b.
Proof. unfold done_resps. apply flat_map_app. Qed.

Section Symbolic.
  Variables (b n : str) (g : Z) (N : nat).

  (* no request answered yet: every thread is untouched (symbolic head, not stepped) or has a
     head frozen to the literal generation g *)
  Definition sym_inv (st : gstate) (stepped : nat -> Prop) : Prop :=
    glock_inv st /\ has_gen b n g (g_store st) /\ length (g_threads st) = N
    /\ forall i th, nth_error (g_threads st) i = Some th ->
         exists r, gt_todo th = [r]
           /\ ((sym_upload b n r /\ gt_prog th = GNew /\ ~ stepped i) \/ gen_upload b n g r).

  Lemma sym_inv_step st stepped j : sym_inv st stepped -> (forall rsp, snd (gstep st j) <> ODone rsp) ->
    sym_inv (fst (gstep st j)) (fun i => i = j \/ stepped i).
  Proof.
    intros [Hinv [Hgen [Hlen Hth]]] Hnd.
    pose proof (glock_inv_gstep st j Hinv) as Hinv'.
    destruct (gstep_spec_ok st j) as [Hid|th r0 rest k j' Hn Htodo Hprog Hk Hearly Hho Hji
                                         |th r0 rest k Hn Htodo Hprog Hk Hearly Hho Hry
                                         |th r0 rest Hn Htodo Hprog Hat
                                         |th r rest cap Hn Htodo Hprog
                  |th r0 rest Hn Htodo Hprog Hk Hget
                  |th r rest rsp Hn Htodo Hprog];
      try (exfalso; eapply Hnd; reflexivity).
    - (* idle *)
      split; [exact Hinv|]. split; [exact Hgen|]. split; [exact Hlen|].
      intros i th Hi. destruct (Hth i th Hi) as [r [Ht Hr]]. exists r. split; [exact Ht|].
      destruct Hr as [[Hs [Hp Hns]]|Hl]; [|right; exact Hl]. left. split; [exact Hs|]. split; [exact Hp|].
      intros [->|H]; [|contradiction]. eapply idle_not_self; eauto.
    - (* blocked *)
      split; [exact Hinv'|]. split; [exact Hgen|]. split; [cbn [g_threads]; rewrite upd_nth_length; exact Hlen|].
      intros i th' Hi. cbn [g_threads] in Hi. destruct (Nat.eq_dec i j) as [->|Hne].
      + rewrite (nth_error_upd_same _ _ _ _ Hn) in Hi. injection Hi as <-.
        destruct (Hth j th Hn) as [r [Ht Hr]]. rewrite Htodo in Ht. injection Ht as -> ->.
        exists (freeze (g_store st) r). split; [reflexivity|]. right.
        destruct Hr as [[Hs _]|Hl]; [eapply freeze_sym; eauto|apply gen_upload_freeze; exact Hl].
      + rewrite nth_error_upd_other in Hi by exact Hne. destruct (Hth i th' Hi) as [r [Ht Hr]]. exists r.
        split; [exact Ht|]. destruct Hr as [[Hs [Hp Hns]]|Hl]; [left|right; exact Hl].
        repeat split; auto. intros [E|H]; [congruence|contradiction].
    - (* the lock is taken *)
      split; [exact Hinv'|]. split; [exact Hgen|]. split; [cbn [g_threads]; rewrite upd_nth_length; exact Hlen|].
      intros i th' Hi. cbn [g_threads] in Hi. destruct (Nat.eq_dec i j) as [->|Hne].
      + rewrite (nth_error_upd_same _ _ _ _ Hn) in Hi. injection Hi as <-.
        destruct (Hth j th Hn) as [r [Ht Hr]]. rewrite Htodo in Ht. injection Ht as -> ->.
        exists (freeze (g_store st) r). split; [reflexivity|]. right.
        destruct Hr as [[Hs _]|Hl]; [eapply freeze_sym; eauto|apply gen_upload_freeze; exact Hl].
      + rewrite nth_error_upd_other in Hi by exact Hne. destruct (Hth i th' Hi) as [r [Ht Hr]]. exists r.
        split; [exact Ht|]. destruct Hr as [[Hs [Hp Hns]]|Hl]; [left|right; exact Hl].
        repeat split; auto. intros [E|H]; [congruence|contradiction].
    - (* a fetch: impossible, an upload is not a GET *)
      exfalso. destruct (Hth j th Hn) as [r [Ht Hr]]. rewrite Htodo in Ht. injection Ht as -> ->.
      destruct Hr as [[[ct [d ->]] _]|[ct [d ->]]]; cbn in Hget; discriminate.
  Qed.

  Lemma sym_inv_weaken st (P Q : nat -> Prop) : (forall i, Q i -> P i) -> sym_inv st P -> sym_inv st Q.
  Proof.
    intros HPQ [H1 [H2 [H3 H4]]]. split; [exact H1|]. split; [exact H2|]. split; [exact H3|].
    intros i th Hi. destruct (H4 i th Hi) as [r [Ht Hr]].
    exists r. split; [exact Ht|]. destruct Hr as [[Hs [Hp Hns]]|Hl]; [left|right; exact Hl]. repeat split; auto.
  Qed.

  Lemma sym_inv_run pre : forall st stepped, sym_inv st stepped -> done_resps (snd (grun st pre)) = [] ->
    sym_inv (fst (grun st pre)) (fun i => In i pre \/ stepped i).
  Proof.
    induction pre as [|j r IH]; intros st stepped H Hnd.
    - cbn. eapply sym_inv_weaken; [|exact H]. cbn. tauto.
    - rewrite grun_cons in *. cbn [fst snd] in *.
      assert (Hj : forall rsp, snd (gstep st j) <> ODone rsp).
      { intros rsp E. rewrite E in Hnd. cbn in Hnd. discriminate. }
      assert (Hr : done_resps (snd (grun (fst (gstep st j)) r)) = []).
      { destruct (snd (gstep st j)); cbn in Hnd; try exact Hnd. exfalso. eapply Hj. reflexivity. }
      eapply sym_inv_weaken; [|apply (IH _ _ (sym_inv_step st stepped j H Hj) Hr)].
      cbn. intros i [[<-|Hi]|Hi]; auto.
  Qed.
End Symbolic.

(* N threads, one upload each of (b, n) conditioned on "the generation of (b, n) as I see it"
   (PGen b n 0); every thread makes its first step (where the condition is frozen) before any
   request is answered: exactly one 200, the others 412 *)
Theorem exactly_one_conditional_writer_wins_symbolic s0 b n g (payloads : list (str * bytes)) pre post :
  n <> [] -> 0 < g <= int64_max -> has_gen b n g s0 ->
  let st := init_g s0 (map (fun cd => [RUploadMedia b n (fst cd) (snd cd) (sym_cp b n)]) payloads) in
  (forall i, (i < length payloads)%nat -> In i pre) -> done_resps (snd (grun st pre)) = [] ->
  all_done (fst (grun st (pre ++ post))) ->
  map r_status (done_resps (snd (grun st (pre ++ post))))
  = match length payloads with O => [] | S k => 200 :: repeat 412 k end.
Proof.
  intros Hn Hg Hgen st Hpre Hnd Hdone.
  assert (H0 : sym_inv b n g (length payloads) st (fun _ => False)).
  { split; [apply glock_inv_init|]. split; [exact Hgen|]. split; [cbn; rewrite !map_length; reflexivity|].
    intros i th Hi. cbn in Hi. apply nth_error_In in Hi. apply in_map_iff in Hi. destruct Hi as [rs [<- Hin]].
    apply in_map_iff in Hin. destruct Hin as [cd [<- _]]. eexists. split; [reflexivity|]. left.
    split; [exists (fst cd), (snd cd); reflexivity|]. split; [reflexivity|tauto]. }
  pose proof (sym_inv_run b n g (length payloads) pre st _ H0 Hnd) as [Hinv [Hgen1 [Hlen Hth]]].
  set (st1 := fst (grun st pre)) in *.
  assert (Hall : all_reqs (gen_upload b n g) st1).
  { intros th Hin. apply In_nth_error in Hin. destruct Hin as [i Hi]. destruct (Hth i th Hi) as [r [Ht Hr]].
    rewrite Ht. constructor; [|constructor]. destruct Hr as [[_ [_ Hns]]|Hl]; [|exact Hl].
    exfalso. apply Hns. left. apply Hpre. rewrite <- Hlen. apply nth_error_Some. congruence. }
  rewrite (grun_app st pre st post eq_refl) in *. cbn [fst snd] in *. fold st1 in Hdone |- *.
  rewrite done_resps_app, Hnd. cbn [app].
  assert (Hnr1 : no_reads st1).
  { apply no_reads_grun; [|apply no_reads_init]. apply all_reqs_init. apply Forall_forall. intros rs Hin.
    apply in_map_iff in Hin. destruct Hin as [cd [<- _]]. constructor; [reflexivity|constructor]. }
  rewrite (exactly_one_conditional_writer_wins_from_partial st1 post b n g Hn Hg Hall Hnr1 Hgen1 Hdone).
  assert (Hp : pending st1 = length payloads).
  { pose proof (pending_grun pre st) as Hp. fold st1 in Hp.
    rewrite Hnd in Hp. cbn [length] in Hp. rewrite Nat.add_0_r in Hp. rewrite <- Hp. unfold st.
    rewrite pending_init. apply (list_sum_ones (fun cd => [RUploadMedia b n (fst cd) (snd cd) (sym_cp b n)])). reflexivity. }
  rewrite Hp. reflexivity.
Qed.

Definition c07_sup (d : bytes) : req := RUploadMedia c07_b c07_n [116]%N d (sym_cp c07_b c07_n).

(* ================================================================== *)
(* 9. Where the requests of the linearisation come from                 *)

(* thread i still has to serve the suffix [orig] of its program; its todo list is that suffix,
   the head possibly with frozen preconditions (always frozen once parked at the yield) *)
Definition todo_rel (orig todo : list req) (p : gprogress) : Prop :=
  match orig, todo with
  | [], [] => True
  | r0 :: t, h :: t' => t = t' /\ (h = r0 \/ exists s, h = freeze s r0)
                        /\ (p <> GNew -> exists s, h = freeze s r0)
  | _, _ => False
  end.

Definition origin_inv (progs : list (list req)) (st : gstate) : Prop :=
  forall i th, nth_error (g_threads st) i = Some th ->
    exists served orig, nth_error progs i = Some (served ++ orig) /\ todo_rel orig (gt_todo th) (gt_prog th).

Lemma origin_inv_init s0 progs : origin_inv progs (init_g s0 progs).
Proof.
  intros i th Hi. cbn in Hi. rewrite nth_error_map in Hi. destruct (nth_error progs i) as [rs|] eqn:E; [|discriminate].
  injection Hi as <-. exists [], rs. split; [reflexivity|]. cbn. destruct rs; [exact I|].
  split; [reflexivity|]. split; [left; reflexivity|]. intros H. congruence.
Qed.

Lemma frozen_again s r0 h : (h = r0 \/ exists s', h = freeze s' r0) -> exists s', freeze s h = freeze s' r0.
Proof. intros [->|[s' ->]]; [exists s; reflexivity|exists s'; apply freeze_idem]. Qed.

Lemma origin_inv_step progs st i st' o : origin_inv progs st -> gstep_spec st i st' o -> origin_inv progs st'.
Proof.
  intros Hinv Hs.
  assert (Hupd : forall th todo' p', nth_error (g_threads st) i = Some th ->
            (forall served orig, nth_error progs i = Some (served ++ orig) -> todo_rel orig (gt_todo th) (gt_prog th) ->
               exists served' orig', nth_error progs i = Some (served' ++ orig') /\ todo_rel orig' todo' p') ->
            origin_inv progs (mkGState (g_store st') (g_holders st') (upd_nth (g_threads st) i (mkGThread todo' p')))).
  { intros th todo' p' Hth Hnew j thj Hj. cbn [g_threads] in Hj. destruct (Nat.eq_dec j i) as [->|Hne].
    - rewrite (nth_error_upd_same _ _ _ _ Hth) in Hj. injection Hj as <-. cbn [gt_todo gt_prog].
      destruct (Hinv i th Hth) as [served [orig [H1 H2]]]. eauto.
    - rewrite nth_error_upd_other in Hj by exact Hne. apply Hinv. exact Hj. }
  destruct Hs as [Hid|th r0 rest k j' Hn Htodo Hprog Hk Hearly Hho Hji
                  |th r0 rest k Hn Htodo Hprog Hk Hearly Hho Hry
                  |th r0 rest Hn Htodo Hprog Hat
                  |th r rest cap Hn Htodo Hprog
                  |th r0 rest Hn Htodo Hprog Hk Hget
                  |th r rest rsp Hn Htodo Hprog]; [exact Hinv|..].
  - apply (Hupd th _ _ Hn). intros served orig H1 H2. rewrite Htodo in H2. destruct orig as [|q t]; [destruct H2|].
    destruct H2 as [-> [Hf _]]. exists served, (q :: rest). split; [exact H1|]. cbn. split; [reflexivity|].
    destruct (frozen_again (g_store st) q r0 Hf) as [s' E]. split; [right; eauto|intros _; eauto].
  - apply (Hupd th _ _ Hn). intros served orig H1 H2. rewrite Htodo in H2. destruct orig as [|q t]; [destruct H2|].
    destruct H2 as [-> [Hf _]]. exists served, (q :: rest). split; [exact H1|]. cbn. split; [reflexivity|].
    destruct (frozen_again (g_store st) q r0 Hf) as [s' E]. split; [right; eauto|intros _; eauto].
  - apply (Hupd th _ _ Hn). intros served orig H1 H2. rewrite Htodo in H2. destruct orig as [|q t]; [destruct H2|].
    destruct H2 as [-> _]. exists (served ++ [q]), rest. split; [rewrite <- app_assoc; exact H1|].
    cbn. destruct rest; [exact I|]. split; [reflexivity|]. split; [left; reflexivity|]. intros H. congruence.
  - apply (Hupd th _ _ Hn). intros served orig H1 H2. rewrite Htodo in H2. destruct orig as [|q t]; [destruct H2|].
    destruct H2 as [-> _]. exists (served ++ [q]), rest. split; [rewrite <- app_assoc; exact H1|].
    cbn. destruct rest; [exact I|]. split; [reflexivity|]. split; [left; reflexivity|]. intros H. congruence.
  - (* the fetch of a GET: like the step to the yield *)
    apply (Hupd th _ _ Hn). intros served orig H1 H2. rewrite Htodo in H2. destruct orig as [|q t]; [destruct H2|].
    destruct H2 as [-> [Hf _]]. exists served, (q :: rest). split; [exact H1|]. cbn. split; [reflexivity|].
    destruct (frozen_again (g_store st) q r0 Hf) as [s' E]. split; [right; eauto|intros _; eauto].
  - (* the answer of a GET: like a commit *)
    apply (Hupd th _ _ Hn). intros served orig H1 H2. rewrite Htodo in H2. destruct orig as [|q t]; [destruct H2|].
    destruct H2 as [-> _]. exists (served ++ [q]), rest. split; [rewrite <- app_assoc; exact H1|].
    cbn. destruct rest; [exact I|]. split; [reflexivity|]. split; [left; reflexivity|]. intros H. congruence.
Qed.

(* every request of the linearisation is a request of the thread's program, at the position its
   identity says, with its preconditions frozen against SOME store of the run (the store at the
   first step of the operation, by GS_blocked / GS_at / GS_atomic) *)
Theorem glog_request_origin progs sched : forall st i L r, origin_inv progs st ->
  In ((i, L), r) (glog_t st sched) ->
  exists served r0 rest s, nth_error progs i = Some (served ++ r0 :: rest)
    /\ length (r0 :: rest) = L /\ r = freeze s r0.
Proof.
  induction sched as [|j rest IH]; intros st i L r Hinv Hin; [destruct Hin|]. cbn [glog_t] in Hin.
  apply in_app_or in Hin. destruct Hin as [Hin|Hin].
  - destruct (step_effect st j) as [[q|b n o]|] eqn:E; [|destruct Hin|destruct Hin].
    destruct Hin as [Hin|[]]. unfold op_of in Hin. injection Hin as -> <- ->.
    apply step_effect_handle_req in E. destruct E as [p E]. unfold cur_req, todo_len in *.
    destruct (nth_error (g_threads st) i) as [th|] eqn:Hth; [|discriminate].
    destruct (Hinv i th Hth) as [served [orig [H1 H2]]].
    destruct (gt_todo th) as [|h t]; [discriminate|]. destruct orig as [|r0 t0]; [destruct H2|].
    destruct H2 as [-> [Hf Hh]]. injection E as <- <-.
    destruct (gt_prog th) eqn:Ep.
    + destruct (frozen_again (g_store st) r0 h Hf) as [s' Es]. exists served, r0, t, s'. auto.
    + destruct (Hh ltac:(discriminate)) as [s' ->]. exists served, r0, t, s'. auto.
    + destruct (Hh ltac:(discriminate)) as [s' ->]. exists served, r0, t, s'. auto.
  - eapply IH; [|exact Hin]. eapply origin_inv_step; eauto using gstep_spec_ok.
Qed.

Corollary glog_request_origin_init s0 progs sched i L r :
  In ((i, L), r) (glog_t (init_g s0 progs) sched) ->
  exists served r0 rest s, nth_error progs i = Some (served ++ r0 :: rest)
    /\ length (r0 :: rest) = L /\ r = freeze s r0.
Proof. apply glog_request_origin. apply origin_inv_init. Qed.

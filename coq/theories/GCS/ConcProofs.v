(* C07 — concurrent operations on one object are atomic and serialisable: proofs about the
   interleaving model GCS/Conc.v, for ALL schedules and any number of threads. *)
From Coq Require Import List NArith ZArith Bool Lia Arith.
Import ListNotations.
From Emu.Common Require Import Bytes Str StrProofs IntProofs.
From Emu.Gen Require Import Consts.
From Emu.GCS Require Import Model Conc CondsSpec StoreProofs HandlerProofs UploadProofs GenerationProofs ComposeProofs.
Local Open Scope Z_scope.

Definition init_g (s0 : state) (progs : list (list req)) : gstate :=
  mkGState s0 [] (map (fun rs => mkGThread rs GNew) progs).

(* ================================================================== *)
(* 0. Basics                                                            *)

Lemma key_eqb_eq a b : key_eqb a b = true <-> a = b.
Proof.
  destruct a as [a1 a2], b as [b1 b2]. unfold key_eqb. cbn [fst snd]. split.
  - intros H. apply andb_prop in H. destruct H as [H1 H2]. apply beqb_eq in H1, H2. congruence.
  - intros H. injection H as -> ->. rewrite !beqb_refl. reflexivity.
Qed.

Lemma holder_of_none hs k : holder_of hs k = None <-> ~ In k (map fst hs).
Proof.
  unfold holder_of. induction hs as [|[k' j] r IH]; cbn [find map fst In].
  - split; [intros _ []|reflexivity].
  - destruct (key_eqb k' k) eqn:E.
    + apply key_eqb_eq in E. subst. split; [discriminate|]. intros H. exfalso. apply H. left. reflexivity.
    + rewrite IH. split; intros H.
      * intros [H1|H1]; [subst; rewrite (proj2 (key_eqb_eq k k) eq_refl) in E; discriminate|contradiction].
      * intros H1. apply H. right. exact H1.
Qed.

Lemma holder_of_some hs k j : holder_of hs k = Some j -> In (k, j) hs.
Proof.
  unfold holder_of. induction hs as [|[k' j'] r IH]; cbn [find fst snd]; [discriminate|].
  destruct (key_eqb k' k) eqn:E.
  - apply key_eqb_eq in E. subst. intros H. injection H as ->. left. reflexivity.
  - intros H. right. apply IH. exact H.
Qed.

Lemma nth_error_upd_same {A} (l : list A) : forall i x v,
  nth_error l i = Some x -> nth_error (upd_nth l i v) i = Some v.
Proof.
  induction l as [|y ys IH]; intros [|i] x v H; cbn in *; try discriminate; auto. eapply IH. exact H.
Qed.

Lemma nth_error_upd_other {A} (l : list A) : forall i j v,
  j <> i -> nth_error (upd_nth l i v) j = nth_error l j.
Proof.
  induction l as [|y ys IH]; intros [|i] [|j] v H; cbn; auto; try congruence.
Qed.

Lemma upd_nth_length {A} (l : list A) : forall i v, length (upd_nth l i v) = length l.
Proof. induction l as [|y ys IH]; intros [|i] v; cbn; auto. Qed.

Lemma release_in hs i k j : In (k, j) (release hs i) <-> In (k, j) hs /\ j <> i.
Proof.
  unfold release. rewrite filter_In. cbn [snd]. split; intros [H1 H2]; split; auto.
  - apply negb_true_iff in H2. apply Nat.eqb_neq in H2. exact H2.
  - apply negb_true_iff. apply Nat.eqb_neq. exact H2.
Qed.

Lemma release_absent hs i : ~ In i (map snd hs) -> release hs i = hs.
Proof.
  unfold release. induction hs as [|[k j] r IH]; cbn [filter map snd In]; intros H; [reflexivity|].
  destruct (Nat.eqb_spec j i) as [E|E]; cbn [negb].
  - exfalso. apply H. left. exact E.
  - f_equal. apply IH. intros H1. apply H. right. exact H1.
Qed.

(* freezing: idempotent, keeps the lock key *)
Lemma freeze_param_idem s s' p : freeze_param s' (freeze_param s p) = freeze_param s p.
Proof. destruct p; cbn; try reflexivity; destruct (find_obj s b n); reflexivity. Qed.

Lemma freeze_cp_idem s s' cp : freeze_cp s' (freeze_cp s cp) = freeze_cp s cp.
Proof. unfold freeze_cp. cbn. rewrite !freeze_param_idem. reflexivity. Qed.

Lemma freeze_idem s s' r : freeze s' (freeze s r) = freeze s r.
Proof.
  destruct r; cbn [freeze]; try reflexivity; rewrite ?freeze_cp_idem; try reflexivity.
  f_equal. rewrite map_map. apply map_ext. intros [n p]. cbn. rewrite freeze_param_idem. reflexivity.
Qed.

Lemma lock_key_freeze s r : lock_key (freeze s r) = lock_key r.
Proof. destruct r; reflexivity. Qed.

(* ================================================================== *)
(* 1. One scheduler step, case by case                                  *)

(* the checks a handler makes before taking the object lock *)
Definition gearly (s : state) (r : req) : bool :=
  match r with
  | RUploadMedia _ n _ _ cp => match resolve_conds s cp with None => true | Some _ => match n with [] => true | _ => false end end
  | RUploadMultipart _ m _ cp => match resolve_conds s cp with None => true | Some _ => (N.eqb (um_md5 m) 2 || N.eqb (um_md5 m) 3) end
  | RDelete _ _ cp | RPatch _ _ _ cp => match resolve_conds s cp with None => true | Some _ => false end
  | RCompose _ _ bad _ _ cp => match resolve_conds s cp with None => true | Some _ => bad end
  | _ => false
  end.

(* what a commit does to the store *)
Inductive geffect :=
| EHandle (r : req)                   (* the handler's whole effect, atomically *)
| EAdd (b n : str) (o : obj).         (* compose: Store.Add of the object assembled before the yield *)

Definition apply_geffect (s : state) (e : geffect) : state :=
  match e with
  | EHandle r => fst (handle s r)
  | EAdd b n o => store_add s b n (o_data o) (o_ctype o) (o_md5 o) (o_meta o)
  end.

Definition effect_resp (s : state) (e : geffect) : resp :=
  match e with
  | EHandle r => snd (handle s r)
  | EAdd b n o => resp_meta (apply_geffect s e) b n
  end.

(* the effect of the commit of a thread parked at its yield *)
Definition hold_effect (r : req) (cap : option obj) : geffect :=
  match r, cap, lock_key r with
  | RCompose _ _ _ _ _ _, Some o, Some k => EAdd (fst k) (snd k) o
  | _, _, _ => EHandle r
  end.

Definition capture (s : state) (r : req) (k : str * str) : option obj :=
  match r with
  | RCompose _ _ _ _ _ _ => find_obj (fst (handle s r)) (fst k) (snd k)
  | _ => None
  end.

(* a request served in one step from GNew *)
Definition atomic_cond (s : state) (hs : list ((str * str) * nat)) (r : req) : Prop :=
  lock_key r = None
  \/ exists k, lock_key r = Some k /\ (gearly s r = true \/ (holder_of hs k = None /\ reaches_yield s r = false)).

Inductive gstep_spec (st : gstate) (i : nat) : gstate -> outcome -> Prop :=
| GS_idle : gstep_spec st i st OIdle
| GS_blocked th r0 rest k j :
    nth_error (g_threads st) i = Some th -> gt_todo th = r0 :: rest -> gt_prog th = GNew ->
    lock_key (freeze (g_store st) r0) = Some k -> gearly (g_store st) (freeze (g_store st) r0) = false ->
    holder_of (g_holders st) k = Some j -> j <> i ->
    gstep_spec st i
      (mkGState (g_store st) (g_holders st)
                (upd_nth (g_threads st) i (mkGThread (freeze (g_store st) r0 :: rest) GNew))) OBlocked
| GS_at th r0 rest k :
    nth_error (g_threads st) i = Some th -> gt_todo th = r0 :: rest -> gt_prog th = GNew ->
    lock_key (freeze (g_store st) r0) = Some k -> gearly (g_store st) (freeze (g_store st) r0) = false ->
    holder_of (g_holders st) k = None ->
    reaches_yield (g_store st) (freeze (g_store st) r0) = true ->
    gstep_spec st i
      (mkGState (g_store st) ((k, i) :: g_holders st)
                (upd_nth (g_threads st) i
                   (mkGThread (freeze (g_store st) r0 :: rest)
                              (GHold (capture (g_store st) (freeze (g_store st) r0) k))))) OAt
| GS_atomic th r0 rest :
    nth_error (g_threads st) i = Some th -> gt_todo th = r0 :: rest -> gt_prog th = GNew ->
    atomic_cond (g_store st) (g_holders st) (freeze (g_store st) r0) ->
    gstep_spec st i
      (mkGState (apply_geffect (g_store st) (EHandle (freeze (g_store st) r0)))
                (release (g_holders st) i)
                (upd_nth (g_threads st) i (mkGThread rest GNew)))
      (ODone (effect_resp (g_store st) (EHandle (freeze (g_store st) r0))))
| GS_commit th r rest cap :
    nth_error (g_threads st) i = Some th -> gt_todo th = r :: rest -> gt_prog th = GHold cap ->
    gstep_spec st i
      (mkGState (apply_geffect (g_store st) (hold_effect r cap))
                (release (g_holders st) i)
                (upd_nth (g_threads st) i (mkGThread rest GNew)))
      (ODone (effect_resp (g_store st) (hold_effect r cap))).

Lemma gstep_spec_ok st i : gstep_spec st i (fst (gstep st i)) (snd (gstep st i)).
Proof.
  unfold gstep.
  destruct (nth_error (g_threads st) i) as [th|] eqn:Eth; [|apply GS_idle].
  destruct (gt_todo th) as [|r0 rest] eqn:Etodo; [apply GS_idle|].
  destruct (gt_prog th) as [|cap] eqn:Eprog.
  - (* GNew *)
    set (s := g_store st). set (r := freeze s r0).
    destruct (lock_key r) as [k|] eqn:Ek.
    + match goal with |- context [if ?e then _ else _] => change e with (gearly s r) end.
      destruct (gearly s r) eqn:Eearly.
      * destruct (handle s r) as [s' rsp] eqn:Eh. cbn [fst snd].
        replace s' with (apply_geffect s (EHandle r)) by (cbn; rewrite Eh; reflexivity).
        replace rsp with (effect_resp s (EHandle r)) by (cbn; rewrite Eh; reflexivity).
        eapply GS_atomic; eauto. right. exists k. auto.
      * destruct (holder_of (g_holders st) k) as [j|] eqn:Eho.
        -- destruct (Nat.eqb_spec j i) as [Eji|Eji]; cbn [fst snd]; [apply GS_idle|].
           eapply GS_blocked; eauto.
        -- destruct (reaches_yield s r) eqn:Ery.
           ++ cbn [fst snd]. eapply GS_at; eauto.
           ++ destruct (handle s r) as [s' rsp] eqn:Eh. cbn [fst snd].
              replace s' with (apply_geffect s (EHandle r)) by (cbn; rewrite Eh; reflexivity).
              replace rsp with (effect_resp s (EHandle r)) by (cbn; rewrite Eh; reflexivity).
              eapply GS_atomic; eauto. right. exists k. auto.
    + destruct (handle s r) as [s' rsp] eqn:Eh. cbn [fst snd].
      replace s' with (apply_geffect s (EHandle r)) by (cbn; rewrite Eh; reflexivity).
      replace rsp with (effect_resp s (EHandle r)) by (cbn; rewrite Eh; reflexivity).
      eapply GS_atomic; eauto. left. exact Ek.
  - (* GHold *)
    set (s := g_store st).
    assert (Hgoal : forall st' o, (st', o) =
        (mkGState (apply_geffect s (hold_effect r0 cap)) (release (g_holders st) i)
                  (upd_nth (g_threads st) i (mkGThread rest GNew)),
         ODone (effect_resp s (hold_effect r0 cap))) ->
        gstep_spec st i (fst (st', o)) (snd (st', o))).
    { intros st' o E. rewrite E. cbn [fst snd]. eapply GS_commit; eauto. }
    apply Hgoal. unfold hold_effect.
    destruct r0; try (destruct (handle s _) as [s' rsp] eqn:Eh; cbn [apply_geffect effect_resp]; rewrite Eh; reflexivity).
    destruct cap as [o|]; [|destruct (handle s _) as [s' rsp] eqn:Eh; cbn [apply_geffect effect_resp]; rewrite Eh; reflexivity].
    destruct (lock_key _) as [k|]; [reflexivity|].
    destruct (handle s _) as [s' rsp] eqn:Eh; cbn [apply_geffect effect_resp]; rewrite Eh; reflexivity.
Qed.

Lemma grun_cons st i rest :
  grun st (i :: rest) = (fst (grun (fst (gstep st i)) rest), snd (gstep st i) :: snd (grun (fst (gstep st i)) rest)).
Proof. cbn [grun]. destruct (gstep st i) as [st1 o]. cbn [fst snd]. destruct (grun st1 rest). reflexivity. Qed.

Lemma grun_app st l1 : forall st0 l2, st0 = st ->
  grun st0 (l1 ++ l2) = (fst (grun (fst (grun st0 l1)) l2), snd (grun st0 l1) ++ snd (grun (fst (grun st0 l1)) l2)).
Proof.
  revert st. induction l1 as [|i r IH]; intros st st0 l2 ->.
  - cbn. destruct (grun st l2); reflexivity.
  - cbn [app]. rewrite !grun_cons. cbn [fst snd]. rewrite (IH _ _ l2 eq_refl). reflexivity.
Qed.

(* ================================================================== *)
(* 2. The lock invariant (item 1)                                       *)

Definition holds_key (st : gstate) (i : nat) (k : str * str) : Prop :=
  exists th r rest cap, nth_error (g_threads st) i = Some th /\ gt_todo th = r :: rest
    /\ gt_prog th = GHold cap /\ lock_key r = Some k.

Record glock_inv (st : gstate) : Prop := mkGInv {
  gi_keys : NoDup (map fst (g_holders st));          (* at most one holder per object key *)
  gi_thr : NoDup (map snd (g_holders st));           (* a thread holds at most one lock *)
  gi_iff : forall k i, In (k, i) (g_holders st) <-> holds_key st i k;
  gi_hold : forall i th cap, nth_error (g_threads st) i = Some th -> gt_prog th = GHold cap ->
            exists r rest k, gt_todo th = r :: rest /\ lock_key r = Some k }.

Lemma NoDup_map_filter {A B} (f : A -> B) (p : A -> bool) l : NoDup (map f l) -> NoDup (map f (filter p l)).
Proof.
  induction l as [|x r IH]; cbn; intros H; [constructor|].
  inversion H as [|y ys Hn Hr]; subst. destruct (p x); cbn; auto.
  constructor; auto. intros Hin. apply Hn. apply in_map_iff in Hin. destruct Hin as [z [Hz Hin]].
  apply filter_In in Hin. apply in_map_iff. exists z. tauto.
Qed.

Lemma holds_key_upd_other s' hs' st i v j k : j <> i ->
  holds_key (mkGState s' hs' (upd_nth (g_threads st) i v)) j k <-> holds_key st j k.
Proof.
  intros Hne. unfold holds_key. cbn [g_threads]. rewrite nth_error_upd_other by exact Hne. tauto.
Qed.

Lemma holds_key_upd_new s' hs' st i th0 todo k : nth_error (g_threads st) i = Some th0 ->
  ~ holds_key (mkGState s' hs' (upd_nth (g_threads st) i (mkGThread todo GNew))) i k.
Proof.
  intros Hth [th [r [rest [cap [H1 [H2 [H3 H4]]]]]]]. cbn [g_threads] in H1.
  rewrite (nth_error_upd_same _ _ _ _ Hth) in H1. injection H1 as <-. cbn in H3. discriminate.
Qed.

Lemma not_holding_if_new st i th : glock_inv st -> nth_error (g_threads st) i = Some th -> gt_prog th = GNew ->
  ~ In i (map snd (g_holders st)).
Proof.
  intros Hinv Hth Hp Hin. apply in_map_iff in Hin. destruct Hin as [[k j] [E Hin]]. cbn in E. subst j.
  apply (gi_iff _ Hinv) in Hin. destruct Hin as [th' [r [rest [cap [H1 [H2 [H3 H4]]]]]]].
  rewrite Hth in H1. injection H1 as <-. congruence.
Qed.

(* after a step that ends a request (holders released, thread back to GNew) *)
Lemma glock_inv_finish st i th s' todo : glock_inv st -> nth_error (g_threads st) i = Some th ->
  glock_inv (mkGState s' (release (g_holders st) i) (upd_nth (g_threads st) i (mkGThread todo GNew))).
Proof.
  intros Hinv Hth. constructor; cbn [g_holders g_threads].
  - apply NoDup_map_filter. apply (gi_keys _ Hinv).
  - apply NoDup_map_filter. apply (gi_thr _ Hinv).
  - intros k j. rewrite release_in. destruct (Nat.eq_dec j i) as [->|Hne].
    + split; [intros [_ H]; congruence|]. intros H. exfalso. eapply holds_key_upd_new; eauto.
    + rewrite holds_key_upd_other by exact Hne. rewrite (gi_iff _ Hinv). tauto.
  - intros j th' cap Hj Hp. destruct (Nat.eq_dec j i) as [->|Hne].
    + rewrite (nth_error_upd_same _ _ _ _ Hth) in Hj. injection Hj as <-. discriminate.
    + rewrite nth_error_upd_other in Hj by exact Hne. eapply (gi_hold _ Hinv); eauto.
Qed.

Theorem glock_inv_step st i st' o : glock_inv st -> gstep_spec st i st' o -> glock_inv st'.
Proof.
  intros Hinv Hstep. destruct Hstep as [|th r0 rest k j Hth Htodo Hprog Hk Hearly Hho Hji
                                         |th r0 rest k Hth Htodo Hprog Hk Hearly Hho Hry
                                         |th r0 rest Hth Htodo Hprog Hat
                                         |th r rest cap Hth Htodo Hprog].
  - exact Hinv.
  - (* blocked: only the head request of thread i is frozen *)
    constructor; cbn [g_holders g_threads].
    + apply (gi_keys _ Hinv).
    + apply (gi_thr _ Hinv).
    + intros k' j'. destruct (Nat.eq_dec j' i) as [->|Hne].
      * split.
        -- intros Hin. exfalso. eapply not_holding_if_new; eauto. apply in_map_iff. exists (k', i). auto.
        -- intros H. exfalso. eapply holds_key_upd_new; eauto.
      * rewrite holds_key_upd_other by exact Hne. apply (gi_iff _ Hinv).
    + intros j' th' cap Hj Hp. destruct (Nat.eq_dec j' i) as [->|Hne].
      * rewrite (nth_error_upd_same _ _ _ _ Hth) in Hj. injection Hj as <-. discriminate.
      * rewrite nth_error_upd_other in Hj by exact Hne. eapply (gi_hold _ Hinv); eauto.
  - (* the lock is taken *)
    pose proof (not_holding_if_new st i th Hinv Hth Hprog) as Hni.
    constructor; cbn [g_holders g_threads map fst snd].
    + constructor; [apply holder_of_none; exact Hho|apply (gi_keys _ Hinv)].
    + constructor; [exact Hni|apply (gi_thr _ Hinv)].
    + intros k' j'. cbn [In]. destruct (Nat.eq_dec j' i) as [->|Hne].
      * split.
        -- intros [E|Hin].
           ++ injection E as <-. eexists _, _, _, _. cbn [g_threads].
              rewrite (nth_error_upd_same _ _ _ _ Hth). repeat split; cbn; eauto.
           ++ exfalso. apply Hni. apply in_map_iff. exists (k', i). auto.
        -- intros [th' [r [rest' [cap [H1 [H2 [H3 H4]]]]]]]. cbn [g_threads] in H1.
           rewrite (nth_error_upd_same _ _ _ _ Hth) in H1. injection H1 as <-. cbn in H2.
           injection H2 as <- <-. left. congruence.
      * rewrite holds_key_upd_other by exact Hne. rewrite <- (gi_iff _ Hinv). split; [|tauto].
        intros [E|Hin]; [congruence|exact Hin].
    + intros j' th' cap Hj Hp. destruct (Nat.eq_dec j' i) as [->|Hne].
      * rewrite (nth_error_upd_same _ _ _ _ Hth) in Hj. injection Hj as <-. cbn. eauto.
      * rewrite nth_error_upd_other in Hj by exact Hne. eapply (gi_hold _ Hinv); eauto.
  - eapply glock_inv_finish; eauto.
  - eapply glock_inv_finish; eauto.
Qed.

Lemma glock_inv_gstep st i : glock_inv st -> glock_inv (fst (gstep st i)).
Proof. intros H. eapply glock_inv_step; [exact H|apply gstep_spec_ok]. Qed.

Lemma glock_inv_grun sched : forall st, glock_inv st -> glock_inv (fst (grun st sched)).
Proof.
  induction sched as [|i r IH]; intros st H; [exact H|]. rewrite grun_cons. cbn [fst].
  apply IH. apply glock_inv_gstep. exact H.
Qed.

Lemma glock_inv_init s0 progs : glock_inv (init_g s0 progs).
Proof.
  assert (Hnew : forall i th, nth_error (g_threads (init_g s0 progs)) i = Some th -> gt_prog th = GNew).
  { intros i th H. cbn in H. apply nth_error_In in H. apply in_map_iff in H. destruct H as [rs [<- _]]. reflexivity. }
  constructor; cbn [init_g g_holders map]; try constructor.
  - intros [].
  - intros [th [r [rest [cap [H1 [_ [H3 _]]]]]]]. apply Hnew in H1. congruence.
  - intros i th cap H1 H2. apply Hnew in H1. congruence.
Qed.

(* item 1: the invariant holds in every state reachable from the initial one *)
Theorem glock_inv_reachable s0 progs sched : glock_inv (fst (grun (init_g s0 progs) sched)).
Proof. apply glock_inv_grun. apply glock_inv_init. Qed.

(* a step of thread i touches no other thread *)
Theorem gstep_other_threads st i j : j <> i ->
  nth_error (g_threads (fst (gstep st i))) j = nth_error (g_threads st) j.
Proof.
  intros Hne. destruct (gstep_spec_ok st i); cbn [g_threads]; try reflexivity; apply nth_error_upd_other; exact Hne.
Qed.

(* a blocked step: the key is held by ANOTHER thread (parked at its yield), and nothing changes
   but the freezing of the head request of thread i *)
Theorem gstep_blocked_spec st i : glock_inv st -> snd (gstep st i) = OBlocked ->
  exists th r0 rest k j,
    nth_error (g_threads st) i = Some th /\ gt_todo th = r0 :: rest /\ gt_prog th = GNew
    /\ lock_key r0 = Some k /\ j <> i /\ In (k, j) (g_holders st) /\ holds_key st j k
    /\ fst (gstep st i) = mkGState (g_store st) (g_holders st)
                            (upd_nth (g_threads st) i (mkGThread (freeze (g_store st) r0 :: rest) GNew)).
Proof.
  intros Hinv Ho. pose proof (gstep_spec_ok st i) as Hs. rewrite Ho in Hs.
  inversion Hs as [| th r0 rest k j Hth Htodo Hprog Hk Hearly Hho Hji | | |]; subst.
  exists th, r0, rest, k, j. rewrite lock_key_freeze in Hk. apply holder_of_some in Hho.
  repeat split; auto. apply (gi_iff _ Hinv). exact Hho.
Qed.

(* store, holders and the other threads are unchanged by a step that is not a commit *)
Lemma gstep_store_unchanged st i : (forall rsp, snd (gstep st i) <> ODone rsp) -> g_store (fst (gstep st i)) = g_store st.
Proof.
  intros H. destruct (gstep_spec_ok st i); try reflexivity; exfalso; eapply H; reflexivity.
Qed.

(* ================================================================== *)
(* 3. The final store is the fold of the commit effects (item 2)        *)

(* the request thread i is working on, with its preconditions frozen, and its progress *)
Definition cur_req (st : gstate) (i : nat) : option (req * gprogress) :=
  match nth_error (g_threads st) i with
  | Some th => match gt_todo th with
               | r0 :: _ => Some (match gt_prog th with GNew => freeze (g_store st) r0 | GHold _ => r0 end, gt_prog th)
               | [] => None
               end
  | None => None
  end.

(* the effect of the step of thread i, if it is a commit step: a GHold step, or a GNew step that
   serves the request at once *)
Definition step_effect (st : gstate) (i : nat) : option geffect :=
  match snd (gstep st i), cur_req st i with
  | ODone _, Some (r, GHold cap) => Some (hold_effect r cap)
  | ODone _, Some (r, GNew) => Some (EHandle r)
  | _, _ => None
  end.

Fixpoint geffects (st : gstate) (sched : list nat) : list geffect :=
  match sched with
  | [] => []
  | i :: rest => match step_effect st i with Some e => [e] | None => [] end
                 ++ geffects (fst (gstep st i)) rest
  end.

(* a step, summarised by its effect *)
Lemma step_effect_spec st i :
  match step_effect st i with
  | Some e => g_store (fst (gstep st i)) = apply_geffect (g_store st) e
              /\ snd (gstep st i) = ODone (effect_resp (g_store st) e)
  | None => g_store (fst (gstep st i)) = g_store st /\ forall rsp, snd (gstep st i) <> ODone rsp
  end.
Proof.
  unfold step_effect, cur_req.
  destruct (gstep_spec_ok st i) as [|th r0 rest k j Hth Htodo Hprog Hk Hearly Hho Hji
                                         |th r0 rest k Hth Htodo Hprog Hk Hearly Hho Hry
                                         |th r0 rest Hth Htodo Hprog Hat
                                         |th r rest cap Hth Htodo Hprog]; cbn [g_store].
  1-3: split; [reflexivity|intros rsp; discriminate].
  - rewrite Hth, Htodo, Hprog. split; reflexivity.
  - rewrite Hth, Htodo, Hprog. split; reflexivity.
Qed.

Lemma gstep_hold st i th r rest cap :
  nth_error (g_threads st) i = Some th -> gt_todo th = r :: rest -> gt_prog th = GHold cap ->
  gstep st i = (mkGState (apply_geffect (g_store st) (hold_effect r cap)) (release (g_holders st) i)
                         (upd_nth (g_threads st) i (mkGThread rest GNew)),
                ODone (effect_resp (g_store st) (hold_effect r cap))).
Proof.
  intros Hth Htodo Hprog. unfold gstep. rewrite Hth, Htodo, Hprog. set (s := g_store st). unfold hold_effect.
  destruct r; try (destruct (handle s _) as [s' rsp] eqn:Eh; cbn [apply_geffect effect_resp]; rewrite Eh; reflexivity).
  destruct cap as [o|]; [|destruct (handle s _) as [s' rsp] eqn:Eh; cbn [apply_geffect effect_resp]; rewrite Eh; reflexivity].
  destruct (lock_key _) as [k|]; [reflexivity|].
  destruct (handle s _) as [s' rsp] eqn:Eh; cbn [apply_geffect effect_resp]; rewrite Eh; reflexivity.
Qed.

Lemma step_effect_hold st i th r rest cap :
  nth_error (g_threads st) i = Some th -> gt_todo th = r :: rest -> gt_prog th = GHold cap ->
  step_effect st i = Some (hold_effect r cap).
Proof.
  intros Hth Htodo Hprog. unfold step_effect, cur_req. rewrite (gstep_hold _ _ _ _ _ _ Hth Htodo Hprog), Hth, Htodo, Hprog.
  reflexivity.
Qed.

Lemma step_effect_store st i :
  g_store (fst (gstep st i)) = match step_effect st i with Some e => apply_geffect (g_store st) e | None => g_store st end.
Proof. pose proof (step_effect_spec st i) as H. destruct (step_effect st i); tauto. Qed.

Lemma step_effect_done st i rsp : snd (gstep st i) = ODone rsp ->
  exists e, step_effect st i = Some e /\ rsp = effect_resp (g_store st) e.
Proof.
  intros Ho. pose proof (step_effect_spec st i) as H. destruct (step_effect st i) as [e|].
  - exists e. split; [reflexivity|]. destruct H as [_ H]. congruence.
  - destruct H as [_ H]. exfalso. eapply H. exact Ho.
Qed.

Theorem gconc_effects sched : forall st,
  g_store (fst (grun st sched)) = fold_left apply_geffect (geffects st sched) (g_store st).
Proof.
  induction sched as [|i rest IH]; intros st; [reflexivity|].
  rewrite grun_cons. cbn [fst geffects]. rewrite IH, fold_left_app, step_effect_store.
  destruct (step_effect st i); reflexivity.
Qed.

(* the responses, in schedule order, are the responses of the effects *)
Definition done_resps (os : list outcome) : list resp :=
  flat_map (fun o => match o with ODone r => [r] | _ => [] end) os.

Fixpoint effect_resps (s : state) (es : list geffect) : list resp :=
  match es with
  | [] => []
  | e :: r => effect_resp s e :: effect_resps (apply_geffect s e) r
  end.

Theorem gconc_effect_resps sched : forall st,
  done_resps (snd (grun st sched)) = effect_resps (g_store st) (geffects st sched).
Proof.
  induction sched as [|i rest IH]; intros st; [reflexivity|].
  rewrite grun_cons. cbn [snd geffects done_resps flat_map]. fold (done_resps (snd (grun (fst (gstep st i)) rest))).
  rewrite IH. pose proof (step_effect_spec st i) as H. destruct (step_effect st i) as [e|].
  - destruct H as [H1 H2]. rewrite H1, H2. reflexivity.
  - destruct H as [H1 H2]. rewrite H1. destruct (snd (gstep st i)); try reflexivity. exfalso. eapply H2. reflexivity.
Qed.

(* ================================================================== *)
(* 4. Serialisability of object requests (item 3)                       *)

Definition all_reqs (P : req -> Prop) (st : gstate) : Prop :=
  forall th, In th (g_threads st) -> Forall P (gt_todo th).

Lemma in_upd_nth {A} (l : list A) : forall i v x, In x (upd_nth l i v) -> x = v \/ In x l.
Proof.
  induction l as [|y ys IH]; intros [|i] v x H; cbn in *; auto.
  - destruct H; auto.
  - destruct H as [H|H]; auto. apply IH in H. tauto.
Qed.

Lemma all_reqs_step (P : req -> Prop) st i st' o : (forall s r, P r -> P (freeze s r)) ->
  all_reqs P st -> gstep_spec st i st' o -> all_reqs P st'.
Proof.
  intros Hfz Hall Hstep.
  assert (Hth : forall th r0 rest, nth_error (g_threads st) i = Some th -> gt_todo th = r0 :: rest -> P r0 /\ Forall P rest).
  { intros th r0 rest H1 H2. apply nth_error_In in H1. apply Hall in H1. rewrite H2 in H1. inversion H1; auto. }
  destruct Hstep as [|th r0 rest k j Hn Htodo Hprog Hk Hearly Hho Hji
                     |th r0 rest k Hn Htodo Hprog Hk Hearly Hho Hry
                     |th r0 rest Hn Htodo Hprog Hat
                     |th r rest cap Hn Htodo Hprog]; [exact Hall|..];
    destruct (Hth _ _ _ Hn Htodo) as [H1 H2]; intros th' Hin; cbn [g_threads] in Hin;
    apply in_upd_nth in Hin; destruct Hin as [->|Hin]; cbn [gt_todo]; auto.
Qed.

Lemma all_reqs_gstep (P : req -> Prop) st i : (forall s r, P r -> P (freeze s r)) -> all_reqs P st -> all_reqs P (fst (gstep st i)).
Proof. intros Hf H. eapply all_reqs_step; eauto using gstep_spec_ok. Qed.

Lemma all_reqs_grun (P : req -> Prop) sched : (forall s r, P r -> P (freeze s r)) ->
  forall st, all_reqs P st -> all_reqs P (fst (grun st sched)).
Proof.
  intros Hf. induction sched as [|i r IH]; intros st H; [exact H|]. rewrite grun_cons. cbn [fst].
  apply IH. apply all_reqs_gstep; auto.
Qed.

Lemma all_reqs_init (P : req -> Prop) s0 progs : Forall (Forall P) progs -> all_reqs P (init_g s0 progs).
Proof.
  intros H th Hin. cbn in Hin. apply in_map_iff in Hin. destruct Hin as [rs [<- Hin]]. cbn.
  rewrite Forall_forall in H. auto.
Qed.

(* the request of a commit effect satisfies every freeze-stable property of the programs *)
Lemma step_effect_req (P : req -> Prop) st i r : (forall s r, P r -> P (freeze s r)) -> all_reqs P st ->
  forall cap, cur_req st i = Some (r, cap) -> P r.
Proof.
  intros Hf Hall cap. unfold cur_req. destruct (nth_error (g_threads st) i) as [th|] eqn:E; [|discriminate].
  apply nth_error_In in E. apply Hall in E. destruct (gt_todo th) as [|r0 rest]; [discriminate|].
  inversion E; subst. intros H. injection H as <- _. destruct (gt_prog th); auto.
Qed.

Definition not_compose (r : req) : Prop := match r with RCompose _ _ _ _ _ _ => False | _ => True end.

Lemma not_compose_freeze s r : not_compose r -> not_compose (freeze s r).
Proof. destruct r; cbn; auto. Qed.

Lemma hold_effect_not_compose r cap : not_compose r -> hold_effect r cap = EHandle r.
Proof. destruct r; cbn; tauto. Qed.

(* the linearisation: the frozen requests, in the order of their commit steps *)
Definition effect_reqs (es : list geffect) : list req :=
  flat_map (fun e => match e with EHandle r => [r] | EAdd _ _ _ => [] end) es.
Definition glog (st : gstate) (sched : list nat) : list req := effect_reqs (geffects st sched).

Definition is_handle_effect (e : geffect) : Prop := match e with EHandle _ => True | _ => False end.

Lemma step_effect_handle st i e : all_reqs not_compose st -> step_effect st i = Some e -> is_handle_effect e.
Proof.
  intros Hall. unfold step_effect. destruct (snd (gstep st i)); try discriminate.
  destruct (cur_req st i) as [[q [|cap]]|] eqn:E; try discriminate; intros H; injection H as <-; [exact I|].
  rewrite hold_effect_not_compose; [exact I|].
  eapply (step_effect_req not_compose); eauto using not_compose_freeze.
Qed.

Lemma geffects_handle sched : forall st, all_reqs not_compose st -> Forall is_handle_effect (geffects st sched).
Proof.
  induction sched as [|i r IH]; intros st Hall; [constructor|]. cbn [geffects]. apply Forall_app. split.
  - destruct (step_effect st i) as [e|] eqn:E; constructor; [|constructor]. eapply step_effect_handle; eauto.
  - apply IH. apply all_reqs_gstep; auto using not_compose_freeze.
Qed.

Lemma handle_effects_run es : Forall is_handle_effect es -> forall s,
  fold_left apply_geffect es s = fst (run s (effect_reqs es))
  /\ effect_resps s es = snd (run s (effect_reqs es)).
Proof.
  induction 1 as [|e r He Hr IH]; intros s; [split; reflexivity|].
  destruct e as [q|]; [|destruct He]. cbn [fold_left effect_resps effect_reqs flat_map app run apply_geffect effect_resp].
  fold (effect_reqs r). destruct (handle s q) as [s1 rsp] eqn:Eh. cbn [fst snd].
  destruct (IH s1) as [H1 H2]. rewrite H1, H2. destruct (run s1 (effect_reqs r)). split; reflexivity.
Qed.

(* item 3: for programs without compose, every schedule is equivalent to the SEQUENTIAL run of
   the frozen requests in commit order: same final store, same responses *)
Theorem gconc_serializable_object_from st sched : all_reqs not_compose st ->
  g_store (fst (grun st sched)) = fst (run (g_store st) (glog st sched))
  /\ done_resps (snd (grun st sched)) = snd (run (g_store st) (glog st sched)).
Proof.
  intros Hall. rewrite gconc_effects, gconc_effect_resps.
  apply handle_effects_run. apply geffects_handle. exact Hall.
Qed.

Theorem gconc_serializable_object s0 progs sched : Forall (Forall not_compose) progs ->
  let st := init_g s0 progs in
  g_store (fst (grun st sched)) = fst (run s0 (glog st sched))
  /\ done_resps (snd (grun st sched)) = snd (run s0 (glog st sched)).
Proof. intros H st. apply (gconc_serializable_object_from st sched). apply all_reqs_init. exact H. Qed.

(* ---- real-time order ---- *)

Definition todo_len (st : gstate) (i : nat) : nat :=
  match nth_error (g_threads st) i with Some th => length (gt_todo th) | None => O end.

(* an operation is identified by its thread and the number of requests the thread still has to
   serve, this one included (so the k-th request of a program of length L is (i, L - k)) *)
Definition op_of (st : gstate) (i : nat) : nat * nat := (i, todo_len st i).

(* the operation each step of the schedule works on *)
Fixpoint gops (st : gstate) (sched : list nat) : list (nat * nat) :=
  match sched with
  | [] => []
  | i :: rest => op_of st i :: gops (fst (gstep st i)) rest
  end.

(* the linearisation with the identity of each operation *)
Fixpoint glog_t (st : gstate) (sched : list nat) : list ((nat * nat) * req) :=
  match sched with
  | [] => []
  | i :: rest => match step_effect st i with Some (EHandle r) => [(op_of st i, r)] | _ => [] end
                 ++ glog_t (fst (gstep st i)) rest
  end.

Lemma glog_t_reqs sched : forall st, map snd (glog_t st sched) = glog st sched.
Proof.
  induction sched as [|i r IH]; intros st; [reflexivity|]. unfold glog in *. cbn [glog_t geffects].
  unfold effect_reqs in *. rewrite map_app, flat_map_app, IH. f_equal.
  destruct (step_effect st i) as [[q|b n o]|]; reflexivity.
Qed.

Lemma glog_t_app l1 : forall st l2, glog_t st (l1 ++ l2) = glog_t st l1 ++ glog_t (fst (grun st l1)) l2.
Proof.
  induction l1 as [|i r IH]; intros st l2; [reflexivity|]. cbn [app glog_t]. rewrite grun_cons. cbn [fst].
  rewrite IH, app_assoc. reflexivity.
Qed.

Lemma glog_t_in_ops sched : forall st op r, In (op, r) (glog_t st sched) -> In op (gops st sched).
Proof.
  induction sched as [|i rest IH]; intros st op r H; [destruct H|]. cbn [glog_t gops] in *.
  apply in_app_or in H. destruct H as [H|H].
  - left. destruct (step_effect st i) as [[q|b n o]|]; [|destruct H|destruct H].
    destruct H as [H|[]]. congruence.
  - right. eapply IH. exact H.
Qed.

(* item 3, real-time order: if operation A has answered (its ODone is in s1) before the first step
   of operation B (no step of B in s1), then A precedes B in the linearisation *)
Theorem gconc_real_time st s1 s2 A rA B rB :
  In (A, rA) (glog_t st s1) -> ~ In B (gops st s1) -> In (B, rB) (glog_t st (s1 ++ s2)) ->
  exists l1 l2 l3, glog_t st (s1 ++ s2) = l1 ++ (A, rA) :: l2 ++ (B, rB) :: l3.
Proof.
  intros HA HB HBin. rewrite glog_t_app in *. apply in_app_or in HBin. destruct HBin as [HBin|HBin].
  - exfalso. apply HB. eapply glog_t_in_ops. exact HBin.
  - apply in_split in HA. destruct HA as [a1 [a2 ->]]. apply in_split in HBin. destruct HBin as [b1 [b2 ->]].
    exists a1, (a2 ++ b1), b2. rewrite <- !app_assoc. cbn [app]. reflexivity.
Qed.

(* every operation commits at most once: the identities in the linearisation are distinct *)
Lemma todo_len_step st i st' o j : gstep_spec st i st' o ->
  todo_len st' j = if Nat.eqb j i then match o with ODone _ => pred (todo_len st i) | _ => todo_len st i end
                   else todo_len st j.
Proof.
  intros Hs. unfold todo_len. destruct (Nat.eqb_spec j i) as [->|Hne].
  - destruct Hs as [|th r0 rest k j Hn Htodo Hprog Hk Hearly Hho Hji
                     |th r0 rest k Hn Htodo Hprog Hk Hearly Hho Hry
                     |th r0 rest Hn Htodo Hprog Hat
                     |th r rest cap Hn Htodo Hprog]; [reflexivity|..]; cbn [g_threads];
      rewrite (nth_error_upd_same _ _ _ _ Hn), Hn, Htodo; reflexivity.
  - destruct Hs; cbn [g_threads]; try reflexivity; rewrite nth_error_upd_other by exact Hne; reflexivity.
Qed.

Lemma step_effect_todo st i e : step_effect st i = Some e -> (1 <= todo_len st i)%nat.
Proof.
  unfold step_effect, cur_req, todo_len. destruct (snd (gstep st i)); try discriminate.
  destruct (nth_error (g_threads st) i) as [th|]; [|discriminate].
  destruct (gt_todo th); [discriminate|]. cbn. lia.
Qed.

Lemma glog_t_bound sched : forall st j L r, In ((j, L), r) (glog_t st sched) -> (1 <= L <= todo_len st j)%nat.
Proof.
  induction sched as [|i rest IH]; intros st j L r H; [destruct H|]. cbn [glog_t] in H.
  apply in_app_or in H. destruct H as [H|H].
  - destruct (step_effect st i) as [[q|b n o]|] eqn:E; [|destruct H|destruct H].
    destruct H as [H|[]]. unfold op_of in H. injection H as <- <- _. apply step_effect_todo in E. lia.
  - apply IH in H. rewrite (todo_len_step st i _ _ j (gstep_spec_ok st i)) in H.
    destruct (Nat.eqb_spec j i) as [->|Hne]; [|exact H]. destruct (snd (gstep st i)); lia.
Qed.

Theorem glog_t_nodup sched : forall st, NoDup (map fst (glog_t st sched)).
Proof.
  induction sched as [|i rest IH]; intros st; [constructor|]. cbn [glog_t]. rewrite map_app.
  pose proof (step_effect_spec st i) as Hsp.
  destruct (step_effect st i) as [[q|b n o]|] eqn:E; cbn [map app]; try apply IH.
  constructor; [|apply IH]. intros Hin. apply in_map_iff in Hin. destruct Hin as [[[j L] r] [E1 Hin]].
  cbn in E1. unfold op_of in E1. injection E1 as -> ->. apply glog_t_bound in Hin.
  rewrite (todo_len_step st i _ _ i (gstep_spec_ok st i)), Nat.eqb_refl in Hin.
  destruct Hsp as [_ Ho]. rewrite Ho in Hin. lia.
Qed.

(* ---- compose: the weaker, true fact ---- *)

(* the capture step: every source exists (and passes its generation condition) in ONE store
   state, the store at that step, and the parked thread holds their concatenation *)
Theorem compose_capture st i b dst bad srcs dm cp :
  cur_req st i = Some (RCompose b dst bad srcs dm cp, GNew) -> snd (gstep st i) = OAt ->
  exists dstname,
    lock_key (RCompose b dst bad srcs dm cp) = Some (b, dstname)
    /\ Forall (src_usable (g_store st) b) srcs
    /\ g_store (fst (gstep st i)) = g_store st
    /\ cur_req (fst (gstep st i)) i
       = Some (RCompose b dst bad srcs dm cp,
               GHold (Some (mkObj (flat_map (src_data (g_store st) b) srcs) (dm_ctype dm)
                                  (s_clock (g_store st) + 1) 1 false (dm_meta dm)))).
Proof.
  intros Hcur Ho. pose proof (gstep_spec_ok st i) as Hs. rewrite Ho in Hs.
  inversion Hs as [| |th r0 rest k Hth Htodo Hprog Hk Hearly Hho Hry Hst| |]; subst. clear Hs.
  unfold cur_req in Hcur. rewrite Hth, Htodo, Hprog in Hcur. injection Hcur as Hr.
  rewrite Hr in *. unfold reaches_yield in Hry. apply Z.eqb_eq in Hry.
  destruct (compose_200_inv _ _ _ _ _ _ _ Hry) as [dstname [x [Hsplit [Huse Hfst]]]].
  assert (Ek : k = (b, dstname)). { cbn [lock_key] in Hk. rewrite Hsplit in Hk. congruence. }
  subst k. exists dstname. split; [cbn [lock_key]; rewrite Hsplit; reflexivity|]. split; [exact Huse|].
  cbn [g_store]. split; [reflexivity|]. unfold cur_req. cbn [g_threads g_store].
  rewrite (nth_error_upd_same _ _ _ _ Hth). cbn [gt_todo gt_prog]. unfold capture. rewrite Hfst.
  cbn [fst snd]. rewrite find_obj_store_add_same. reflexivity.
Qed.

(* the commit: what was captured is stored, with a generation fresh at COMMIT time *)
Theorem compose_commit st i b dst bad srcs dm cp o d :
  cur_req st i = Some (RCompose b dst bad srcs dm cp, GHold (Some o)) ->
  lock_key (RCompose b dst bad srcs dm cp) = Some (b, d) ->
  let s := g_store st in
  let o' := mkObj (o_data o) (o_ctype o) (s_clock s + 1) 1 (o_md5 o) (o_meta o) in
  step_effect st i = Some (EAdd b d o)
  /\ snd (gstep st i) = ODone (mkResp 200 (BMeta (view b d o')))
  /\ find_obj (g_store (fst (gstep st i))) b d = Some o'
  /\ (forall b' n', (b', n') <> (b, d) -> find_obj (g_store (fst (gstep st i))) b' n' = find_obj s b' n')
  /\ (gens_bounded s -> forall b0 n0 o0, find_obj s b0 n0 = Some o0 -> o_gen o0 < o_gen o').
Proof.
  intros Hcur Hk s o'.
  assert (He : step_effect st i = Some (EAdd b d o)).
  { unfold cur_req in Hcur. destruct (nth_error (g_threads st) i) as [th|] eqn:Hth; [|discriminate].
    destruct (gt_todo th) as [|r0 rest] eqn:Htodo; [discriminate|]. injection Hcur as Hr Hp. rewrite Hp in Hr. subst r0.
    rewrite (step_effect_hold _ _ _ _ _ _ Hth Htodo Hp). unfold hold_effect. rewrite Hk. reflexivity. }
  split; [exact He|]. pose proof (step_effect_spec st i) as Hsp. rewrite He in Hsp. destruct Hsp as [H1 H2].
  cbn [apply_geffect effect_resp] in H1, H2. fold s in H1, H2.
  assert (Hf : find_obj (g_store (fst (gstep st i))) b d = Some o').
  { rewrite H1. apply find_obj_store_add_same. }
  split; [rewrite H2; unfold resp_meta; rewrite <- H1, Hf; reflexivity|]. split; [exact Hf|]. split.
  - intros b' n' Hne. rewrite H1. apply find_obj_store_add_other. exact Hne.
  - intros Hb b0 n0 o0 Hf0. apply (gens_bounded_find _ _ _ _ Hb) in Hf0. cbn. lia.
Qed.

(* Layer B oracles evaluated on OBSERVED histories (the implementation's responses), following the
   model state step by step.  They restate what the property demands without going through the
   handler models, so that a faithful-but-wrong handler model cannot hide a violation. *)
From Coq Require Import List NArith ZArith Bool.
Import ListNotations.
From Emu.Common Require Import Bytes Str.
From Emu.GCS Require Import Model Wire CondsSpec Check.
Local Open Scope Z_scope.

(* ---- C04 ---- *)
Definition resolved (s : state) (cp : cparams) : cval * cval * cval * cval :=
  (resolve s (cp1 cp), resolve s (cp2 cp), resolve s (cp3 cp), resolve s (cp4 cp)).

(* the gated operation of a request: target object, parameters, success code, and whether the
   operation would otherwise succeed (so that its status is decided by the preconditions alone) *)
Definition c04_gated (s : state) (r : req) : option (option obj * cparams * Z) :=
  match r with
  | RUploadMedia b n _ _ cp => match n with [] => None | _ => Some (find_obj s b n, cp, 200) end
  | RUploadMultipart b m _ cp =>
      if (N.eqb (um_md5 m) 0 || N.eqb (um_md5 m) 1)%bool then Some (find_obj s b (um_name m), cp, 200) else None
  | RDelete b n cp => match find_obj s b n with Some o => Some (Some o, cp, 204) | None => None end
  | RPatch b n p cp => if pt_bad p then None else
                       match find_obj s b n with Some o => Some (Some o, cp, 200) | None => None end
  | _ => None
  end.

(* 0 = fine; 1 = unparsable parameter not answered 400; 2 = performed although a precondition fails;
   3 = refused although all hold; 4 = failure code outside the allowed set *)
Definition c04_step (s : state) (r : req) (obs : resp) : N :=
  match c04_gated s r with
  | None => 0%N
  | Some (o, cp, okcode) =>
      let '(p1, p2, p3, p4) := resolved s cp in
      let st := r_status obs in
      if any_bad p1 p2 p3 p4 then (if Z.eqb st 400 then 0 else 1)%N
      else
        let og := obj_gens o in
        if holds p1 p2 p3 p4 og then (if Z.eqb st okcode then 0 else 3)%N
        else if Z.eqb st okcode then 2%N
        else if Z.eqb st 412 then
          (if match og with None => true | _ => false end
              || negb (cond_holds KGenMatch p1 og) || negb (cond_holds KMetaMatch p3 og) then 0 else 4)%N
        else if Z.eqb st 304 then
          (if negb (cond_holds KGenNotMatch p2 og) || negb (cond_holds KMetaNotMatch p4 og) then 0 else 4)%N
        else 4%N
  end.

(* compose: destination conditions and a generation match per source.  Gated when the request is
   otherwise well formed (body parses, destination path parses, at most gcsMaxComposeSources sources,
   every source exists), so that its status is decided by the preconditions alone.  A source
   generation of 0 (or none) is "no condition". *)
Definition src_gen_ok (s : state) (b : str) (sc : str * cparam) : bool :=
  match find_obj s b (fst sc) with
  | None => false
  | Some o => match resolve s (snd sc) with
              | VNum z => Z.eqb z 0 || Z.eqb z (o_gen o)
              | _ => true
              end
  end.

Definition c04_compose_step (s : state) (r : req) (obs : resp) : N :=
  match r with
  | RCompose b dst bad srcs dm cp =>
      match split (dst ++ s_compose) s_compose with
      | [dstname; _] =>
          if bad || (Z.of_nat (length srcs) >? Emu.Gen.Consts.gcsMaxComposeSources)
             || negb (forallb (fun sc => match find_obj s b (fst sc) with Some _ => true | None => false end) srcs)
          then 0%N
          else
            let '(p1, p2, p3, p4) := resolved s cp in
            let st := r_status obs in
            if any_bad p1 p2 p3 p4 then (if Z.eqb st 400 then 0 else 1)%N
            else
              let og := obj_gens (find_obj s b dstname) in
              let srcs_ok := forallb (src_gen_ok s b) srcs in
              if holds p1 p2 p3 p4 og && srcs_ok then (if Z.eqb st 200 then 0 else 3)%N
              else if Z.eqb st 200 then 2%N
              else if Z.eqb st 412 then
                (if negb srcs_ok || match og with None => true | _ => false end
                    || negb (cond_holds KGenMatch p1 og) || negb (cond_holds KMetaMatch p3 og) then 0 else 4)%N
              else if Z.eqb st 304 then
                (if negb (cond_holds KGenNotMatch p2 og) || negb (cond_holds KMetaNotMatch p4 og) then 0 else 4)%N
              else 4%N
      | _ => 0%N
      end
  | _ => 0%N
  end.

(* the request that sends the last byte of a resumable upload: gated by the conditions the session was
   opened with, judged against the object as it is NOW.  (A stored zero is "absent": GCS-7.) *)
Definition cval_of_stored (z : Z) : cval := if Z.eqb z 0 then VAbsent else VNum z.

Definition c04_resumable_step (s : state) (r : req) (obs : resp) : N :=
  match r with
  | RResumablePut id crange data =>
      match alookup id (s_uploads s), crange with
      | Some u, Some cr =>
          match parse_byte_range cr with
          | Some br =>
              match resume_apply (up_data u) br data with
              | Some d' =>
                  if resume_done br d' && negb (N.eqb (up_md5 u) 2 || N.eqb (up_md5 u) 3) then
                    let c := up_conds u in
                    let p1 := if c_dne c then VNum 0 else cval_of_stored (c_gm c) in
                    let p2 := cval_of_stored (c_gnm c) in
                    let p3 := cval_of_stored (c_mm c) in
                    let p4 := cval_of_stored (c_mnm c) in
                    let og := obj_gens (find_obj s (up_bucket u) (up_name u)) in
                    let st := r_status obs in
                    if holds p1 p2 p3 p4 og then (if Z.eqb st 200 then 0 else 3)%N
                    else if Z.eqb st 200 then 2%N
                    else if Z.eqb st 412 then
                      (if match og with None => true | _ => false end
                          || negb (cond_holds KGenMatch p1 og) || negb (cond_holds KMetaMatch p3 og) then 0 else 4)%N
                    else if Z.eqb st 304 then
                      (if negb (cond_holds KGenNotMatch p2 og) || negb (cond_holds KMetaNotMatch p4 og) then 0 else 4)%N
                    else 4%N
                  else 0%N
              | None => 0%N
              end
          | None => 0%N
          end
      | _, _ => 0%N
      end
  | _ => 0%N
  end.

Fixpoint c04_run (s : state) (i : N) (rs : list req) (obs : list resp) : list (N * N) :=
  match rs, obs with
  | r :: rs', o :: obs' =>
      let code := match r with
                  | RCompose _ _ _ _ _ _ => c04_compose_step s r o
                  | RResumablePut _ _ _ => c04_resumable_step s r o
                  | _ => c04_step s r o
                  end in
      let s' := fst (handle s r) in
      if N.eqb code 0 then c04_run s' (i + 1)%N rs' obs' else (i, code) :: c04_run s' (i + 1)%N rs' obs'
  | _, _ => []
  end.

Definition oracle_case_c04 (c : list req * list resp) : list (N * N) := c04_run init_state 0%N (map sanitize (fst c)) (snd c).

(* generic driver: (case index, step, code) flattened as (case index * 1000 + step, code) *)
Fixpoint oracle_all_from (f : list req * list resp -> list (N * N)) (i : N) (cs : list (list req * list resp)) : list (N * N) :=
  match cs with
  | [] => []
  | c :: r => map (fun p => (i * 1000 + fst p, snd p)%N) (f c) ++ oracle_all_from f (i + 1)%N r
  end.
Definition oracle_all_c04 := oracle_all_from oracle_case_c04 0%N.

(* ---- file-store variant of the correspondence check ---- *)
From Emu.GCS Require Import FileList.

Definition check_case_fs (c : list req * list resp) : option N :=
  first_diff 0 (run_fs_canon (map sanitize (fst c))) (snd c).
Fixpoint check_all_fs_from (i : N) (cs : list (list req * list resp)) : list (N * N) :=
  match cs with
  | [] => []
  | c :: r => match check_case_fs c with
              | Some k => (i, k) :: check_all_fs_from (i + 1)%N r
              | None => check_all_fs_from (i + 1)%N r
              end
  end.
Definition check_all_fs := check_all_fs_from 0%N.

(* ---- C11: a complete pagination (a maximal run of consecutive list requests with the same
   bucket/prefix/delimiter/maxResults, starting without cursor, each continuing from the previous
   page's token, ending without token) must yield exactly the matching names, once, in order ---- *)

Definition list_key (r : req) : option (str * str * str * option str) :=
  match r with RList b p d _ m => Some (b, p, d, m) | _ => None end.
Definition list_cursor (r : req) : option str := match r with RList _ _ _ c _ => c | _ => None end.

Definition lkey_eqb (a b : str * str * str * option str) : bool :=
  let '(b1, p1, d1, m1) := a in let '(b2, p2, d2, m2) := b in
  beqb b1 b2 && beqb p1 p2 && beqb d1 d2 && opt_eqb beqb m1 m2.

(* expected items / prefixes of a whole listing per the API semantics *)
Definition collapse (prefix delim name : str) : option str :=
  match delim with
  | [] => None
  | _ => match index_of (skipn (length prefix) name) delim with
         | Some pos => Some (firstn (length prefix + pos + length delim) name)
         | None => None
         end
  end.
Fixpoint dedup_adj (l : list str) (seen : list str) : list str :=
  match l with
  | [] => []
  | x :: r => if existsb (beqb x) seen then dedup_adj r seen else x :: dedup_adj r (x :: seen)
  end.
Definition expected_listing (names : list str) (prefix delim : str) : list str * list str :=
  let matching := filter (fun n => has_prefix n prefix) names in
  (filter (fun n => match collapse prefix delim n with None => true | Some _ => false end) matching,
   dedup_adj (flat_map (fun n => match collapse prefix delim n with Some p => [p] | None => [] end) matching) []).

Definition page_items (o : resp) : option (list str * list str * option str) :=
  match r_body o with
  | BList items prefixes next => Some (map v_name items, prefixes, next)
  | _ => None
  end.

(* consume one chain starting at the head of (rs, obs); returns (items, prefixes, complete?, max page size, rest) *)
Fixpoint chain_collect (k : str * str * str * option str) (cursor : option str)
         (rs : list req) (obs : list resp) (accI accP : list str) (maxpage : nat)
  : list str * list str * bool * nat * nat (* steps consumed *) :=
  match rs, obs with
  | r :: rs', o :: obs' =>
      match list_key r with
      | Some k' =>
          if lkey_eqb k k' && opt_eqb beqb (list_cursor r) cursor && Z.eqb (r_status o) 200 then
            match page_items o with
            | Some (its, prs, next) =>
                let sz := (length its + length prs)%nat in
                let mp := Nat.max maxpage sz in
                match next with
                | None => (accI ++ its, accP ++ prs, true, mp, 1%nat)
                | Some c => let '(i, p, done, m, n) := chain_collect k (Some c) rs' obs' (accI ++ its) (accP ++ prs) mp in
                            (i, p, done, m, S n)
                end
            | None => (accI, accP, false, maxpage, 0%nat)
            end
          else (accI, accP, false, maxpage, 0%nat)
      | None => (accI, accP, false, maxpage, 0%nat)
      end
  | _, _ => (accI, accP, false, maxpage, 0%nat)
  end.

(* codes: 1 items differ from the matching names, 2 collapsed prefixes differ, 3 page larger than maxResults,
   4 a listing of a bucket that does not exist (well-formed page size) is not answered 404 *)
Definition missing_bucket_code (s : state) (b : str) (m : option str) (i : N) (o : resp) : list (N * N) :=
  let size_ok := match m with
                 | None => true
                 | Some ms => match parse_int ms with Some z => (1 <=? z)%Z | None => false end
                 end in
  match get_bucket s b with
  | None => if size_ok && negb (Z.eqb (r_status o) 404) then [(i, 4%N)] else []
  | Some _ => []
  end.

Fixpoint c11_run (fuel : nat) (s : state) (i : N) (rs : list req) (obs : list resp) : list (N * N) :=
  match fuel with
  | O => []
  | S f =>
    match rs, obs with
    | r :: rs', o :: obs' =>
        let s' := fst (handle s r) in
        match list_key r, list_cursor r with
        | Some (b, p, d, m), None =>
            let '(its, prs, done, maxpage, n) := chain_collect (b, p, d, m) None rs obs [] [] 0 in
            let here :=
              if done then
                match get_bucket s b with
                | Some bk =>
                    let '(ei, ep) := expected_listing (map fst bk) p d in
                    let lim := match m with
                               | Some ms => match parse_int ms with Some z => Z.to_nat z | None => 0%nat end
                               | None => 1000%nat end in
                    (if list_eqb beqb its ei then [] else [(i, 1%N)])
                    ++ (if list_eqb beqb prs ep then [] else [(i, 2%N)])
                    ++ (if (maxpage <=? lim)%nat then [] else [(i, 3%N)])
                | None => []
                end
              else [] in
            here ++ missing_bucket_code s b m i o ++ c11_run f s' (i + 1)%N rs' obs'
        | Some (b, _, _, m), Some _ =>
            (missing_bucket_code s b m i o) ++ c11_run f s' (i + 1)%N rs' obs'
        | _, _ => c11_run f s' (i + 1)%N rs' obs'
        end
    | _, _ => []
    end
  end.

Definition oracle_case_c11 (c : list req * list resp) : list (N * N) :=
  c11_run (S (length (fst c))) init_state 0%N (map sanitize (fst c)) (snd c).
Definition oracle_all_c11 := oracle_all_from oracle_case_c11 0%N.

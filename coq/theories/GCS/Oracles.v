(* Layer B oracles evaluated on OBSERVED histories (the implementation's responses), following the
   model state step by step.  They restate what the property demands without going through the
   handler models, so that a faithful-but-wrong handler model cannot hide a violation. *)
From Coq Require Import List NArith ZArith Bool.
Import ListNotations.
From Emu.Common Require Import Bytes Str.
From Emu.GCS Require Import Model CondsSpec Check.
Local Open Scope Z_scope.

(* ---- C04 ---- *)
Definition resolved (s : state) (cp : cparams) : cval * cval * cval * cval :=
  (resolve s (cp1 cp), resolve s (cp2 cp), resolve s (cp3 cp), resolve s (cp4 cp)).

(* the gated operation of a request: target object, parameters, success code, and whether the
   operation would otherwise succeed (so that its status is decided by the preconditions alone) *)
Definition c04_gated (s : state) (r : req) : option (option obj * cparams * Z) :=
  match r with
  | RUploadMedia b n _ _ cp => match n with [] => None | _ => Some (find_obj s b n, cp, 200) end
  | RUploadMultipart b m _ cp =>
      if (N.eqb (um_md5 m) 0 || N.eqb (um_md5 m) 1)%bool then Some (find_obj s b (um_name m), cp, 200) else None
  | RDelete b n cp => match find_obj s b n with Some o => Some (Some o, cp, 204) | None => None end
  | RPatch b n p cp => if pt_bad p then None else
                       match find_obj s b n with Some o => Some (Some o, cp, 200) | None => None end
  | _ => None
  end.

(* 0 = fine; 1 = unparsable parameter not answered 400; 2 = performed although a precondition fails;
   3 = refused although all hold; 4 = failure code outside the allowed set *)
Definition c04_step (s : state) (r : req) (obs : resp) : N :=
  match c04_gated s r with
  | None => 0%N
  | Some (o, cp, okcode) =>
      let '(p1, p2, p3, p4) := resolved s cp in
      let st := r_status obs in
      if any_bad p1 p2 p3 p4 then (if Z.eqb st 400 then 0 else 1)%N
      else
        let og := obj_gens o in
        if holds p1 p2 p3 p4 og then (if Z.eqb st okcode then 0 else 3)%N
        else if Z.eqb st okcode then 2%N
        else if Z.eqb st 412 then
          (if match og with None => true | _ => false end
              || negb (cond_holds KGenMatch p1 og) || negb (cond_holds KMetaMatch p3 og) then 0 else 4)%N
        else if Z.eqb st 304 then
          (if negb (cond_holds KGenNotMatch p2 og) || negb (cond_holds KMetaNotMatch p4 og) then 0 else 4)%N
        else 4%N
  end.

Fixpoint c04_run (s : state) (i : N) (rs : list req) (obs : list resp) : list (N * N) :=
  match rs, obs with
  | r :: rs', o :: obs' =>
      let code := c04_step s r o in
      let s' := fst (handle s r) in
      if N.eqb code 0 then c04_run s' (i + 1)%N rs' obs' else (i, code) :: c04_run s' (i + 1)%N rs' obs'
  | _, _ => []
  end.

Definition oracle_case_c04 (c : list req * list resp) : list (N * N) := c04_run init_state 0%N (fst c) (snd c).

(* generic driver: (case index, step, code) flattened as (case index * 1000 + step, code) *)
Fixpoint oracle_all_from (f : list req * list resp -> list (N * N)) (i : N) (cs : list (list req * list resp)) : list (N * N) :=
  match cs with
  | [] => []
  | c :: r => map (fun p => (i * 1000 + fst p, snd p)%N) (f c) ++ oracle_all_from f (i + 1)%N r
  end.
Definition oracle_all_c04 := oracle_all_from oracle_case_c04 0%N.

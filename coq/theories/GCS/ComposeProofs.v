(* C15 — compose and copy (rewrite) of the GCS model. *)
From Coq Require Import List NArith ZArith Bool Lia.
Import ListNotations.
From Emu.Common Require Import Bytes Str StrProofs.
From Emu.Gen Require Import Consts.
From Emu.GCS Require Import Model StoreProofs HandlerProofs UploadProofs.
Local Open Scope Z_scope.

(* ================================================================== *)
(* 1. The per-source fold of the compose handler                        *)

(* the value of a source's "generation" precondition parameter *)
Definition gen_param (s : state) (p : cparam) : Z :=
  match resolve s p with VNum z => z | _ => 0 end.

(* the handler's local [step], named (convertible with the one in [handle]) *)
Definition compose_step (s : state) (b : str) (acc : option (Z * bytes)) (sc : str * cparam)
  : option (Z * bytes) :=
  match acc with
  | Some (0, data) =>
      match find_obj s b (fst sc) with
      | None => Some (404, data)
      | Some o =>
          let g := match resolve s (snd sc) with VNum z => z | _ => 0 end in
          match validate_conds (Some (o_gen o, o_metagen o)) (mkConds g 0 0 0 false) with
          | VPass => Some (0, data ++ o_data o)
          | v => Some (status_of_vres v, data)
          end
      end
  | other => other
  end.

(* the verdict on one source, in the state before the request: 0 = usable *)
Definition src_code (s : state) (b : str) (sc : str * cparam) : Z :=
  match find_obj s b (fst sc) with
  | None => 404
  | Some o => match validate_conds (Some (o_gen o, o_metagen o)) (mkConds (gen_param s (snd sc)) 0 0 0 false) with
              | VPass => 0
              | v => status_of_vres v
              end
  end.

Definition src_data (s : state) (b : str) (sc : str * cparam) : bytes :=
  match find_obj s b (fst sc) with Some o => o_data o | None => [] end.

Lemma src_code_values s b sc : src_code s b sc = 0 \/ src_code s b sc = 404 \/ src_code s b sc = 412 \/ src_code s b sc = 304.
Proof.
  unfold src_code. destruct (find_obj s b (fst sc)); [|auto].
  destruct (validate_conds _ _); cbn; auto.
Qed.

Lemma compose_step_ok s b data sc : src_code s b sc = 0 ->
  compose_step s b (Some (0, data)) sc = Some (0, data ++ src_data s b sc).
Proof.
  unfold src_code, src_data, compose_step, gen_param. destruct (find_obj s b (fst sc)) as [o|]; [|discriminate].
  destruct (validate_conds _ _); cbn; try discriminate. reflexivity.
Qed.

Lemma compose_step_fail s b data sc : src_code s b sc <> 0 ->
  compose_step s b (Some (0, data)) sc = Some (src_code s b sc, data).
Proof.
  unfold src_code, compose_step, gen_param. destruct (find_obj s b (fst sc)) as [o|]; [|reflexivity].
  destruct (validate_conds _ _); cbn; try reflexivity. intros H. exfalso. apply H. reflexivity.
Qed.

Lemma compose_fold_stuck s b srcs code data : code <> 0 ->
  fold_left (compose_step s b) srcs (Some (code, data)) = Some (code, data).
Proof.
  intros Hc. induction srcs as [|sc rest IH]; cbn [fold_left]; [reflexivity|].
  replace (compose_step s b (Some (code, data)) sc) with (Some (code, data)); [exact IH|].
  unfold compose_step. destruct code; [congruence|reflexivity|reflexivity].
Qed.

Lemma compose_fold_all_ok s b srcs : forall data,
  Forall (fun sc => src_code s b sc = 0) srcs ->
  fold_left (compose_step s b) srcs (Some (0, data)) = Some (0, data ++ flat_map (src_data s b) srcs).
Proof.
  induction srcs as [|sc rest IH]; intros data Hall; cbn [fold_left flat_map].
  - rewrite app_nil_r. reflexivity.
  - inversion Hall as [|x xs H1 H2]; subst. rewrite compose_step_ok by exact H1.
    rewrite IH by exact H2. rewrite app_assoc. reflexivity.
Qed.

(* the first unusable source decides the answer *)
Lemma compose_fold_first_fail s b pre sc post data :
  Forall (fun sc' => src_code s b sc' = 0) pre -> src_code s b sc <> 0 ->
  fold_left (compose_step s b) (pre ++ sc :: post) (Some (0, data))
  = Some (src_code s b sc, data ++ flat_map (src_data s b) pre).
Proof.
  intros Hpre Hsc. rewrite fold_left_app, compose_fold_all_ok by exact Hpre. cbn [fold_left].
  rewrite compose_step_fail by exact Hsc. apply compose_fold_stuck. exact Hsc.
Qed.

(* split a source list at its first unusable source *)
Lemma first_fail_split s b srcs :
  Forall (fun sc => src_code s b sc = 0) srcs
  \/ exists pre sc post, srcs = pre ++ sc :: post
       /\ Forall (fun sc' => src_code s b sc' = 0) pre /\ src_code s b sc <> 0.
Proof.
  induction srcs as [|sc rest IH]; [left; constructor|].
  destruct (Z.eq_dec (src_code s b sc) 0) as [E|E].
  - destruct IH as [IH|[pre [sc' [post [H1 [H2 H3]]]]]].
    + left. constructor; assumption.
    + right. exists (sc :: pre), sc', post. subst rest. repeat split; auto.
  - right. exists [], sc, rest. repeat split; auto.
Qed.

(* the fold's result is always Some (code, _) with code in {0, 404, 412, 304}; code 0 exactly
   when every source is usable *)
Lemma compose_fold_result s b srcs :
  (Forall (fun sc => src_code s b sc = 0) srcs
   /\ fold_left (compose_step s b) srcs (Some (0, [])) = Some (0, flat_map (src_data s b) srcs))
  \/ (exists code data, fold_left (compose_step s b) srcs (Some (0, [])) = Some (code, data)
        /\ (code = 404 \/ code = 412 \/ code = 304)
        /\ exists sc, In sc srcs /\ src_code s b sc = code).
Proof.
  destruct (first_fail_split s b srcs) as [Hall|[pre [sc [post [-> [Hpre Hsc]]]]]].
  - left. split; [exact Hall|]. apply (compose_fold_all_ok s b srcs []). exact Hall.
  - right. eexists _, _. split; [apply compose_fold_first_fail; assumption|].
    split; [destruct (src_code_values s b sc) as [H|H]; [contradiction|exact H]|].
    exists sc. split; [apply in_or_app; right; left; reflexivity|reflexivity].
Qed.

(* ================================================================== *)
(* 2. Parsing the destination out of "<dst>/compose"                    *)

Lemma has_prefix_app_compose x :
  x <> [] -> has_prefix (x ++ s_compose) s_compose = true -> has_prefix x s_compose = true.
Proof.
  intros Hx. unfold s_compose.
  destruct x as [|x1 [|x2 [|x3 [|x4 [|x5 [|x6 [|x7 [|x8 x]]]]]]]]; [congruence| | | | | | | |];
    cbn [app has_prefix].
  8:{ rewrite !has_prefix_nil. intros H; exact H. }
  all: timeout 120 repeat match goal with
       | |- context [N.eqb ?a ?c] =>
           lazymatch a with
           | N.pos _ => fail
           | _ => destruct (N.eqb a c); cbn [andb]; try (intros H; discriminate H)
           end
       end.
  all: cbn; intros H; discriminate H.
Qed.

Lemma split_go_compose dst : forall cur,
  contains dst s_compose = false ->
  split_go s_compose 0 cur (dst ++ s_compose) = [rev cur ++ dst; []].
Proof.
  induction dst as [|c r IH]; intros cur Hc.
  - rewrite app_nil_r. reflexivity.
  - unfold contains in Hc. cbn [index_of] in Hc.
    destruct (has_prefix (c :: r) s_compose) eqn:Hp; [discriminate|].
    assert (Hr : contains r s_compose = false).
    { unfold contains. destruct (index_of r s_compose); [discriminate|reflexivity]. }
    change ((c :: r) ++ s_compose) with (c :: (r ++ s_compose)). cbn [split_go].
    destruct (has_prefix (c :: r ++ s_compose) s_compose) eqn:Hp2.
    + apply (has_prefix_app_compose (c :: r)) in Hp2; [congruence|discriminate].
    + rewrite IH by exact Hr. cbn [rev]. rewrite <- app_assoc. reflexivity.
Qed.

Lemma split_compose dst : contains dst s_compose = false -> split (dst ++ s_compose) s_compose = [dst; []].
Proof. intros H. unfold split. rewrite split_go_compose by exact H. reflexivity. Qed.

(* for a destination path without "/compose" inside, the parsed destination is the path itself *)
Lemma compose_dst_plain dst : contains dst s_compose = false -> compose_dst dst = Some dst.
Proof. intros H. unfold compose_dst. rewrite split_compose by exact H. reflexivity. Qed.

(* ================================================================== *)
(* 3. The compose handler                                               *)

Lemma handle_compose_unfold s b dst bad srcs dm cp :
  handle s (RCompose b dst bad srcs dm cp) =
  match resolve_conds s cp with
  | None => (s, err 400)
  | Some c =>
    if bad then (s, err 400) else
    match split (dst ++ s_compose) s_compose with
    | [dstname; _] =>
        match dstname with [] => (s, err 400) | _ =>
        if (Z.of_nat (length srcs) >? gcsMaxComposeSources) then (s, err 400) else
        match fold_left (compose_step s b) srcs (Some (0, [])) with
        | Some (0, data) =>
            match validate_conds (obj_gens (find_obj s b dstname)) c with
            | VPass =>
                let '(ctype, meta) := match dm with
                                      | Some m => (um_ctype m, um_meta m)
                                      | None => ([], [])
                                      end in
                let s' := store_add s b dstname data ctype false (merge_meta [] meta) in
                (s', resp_meta s' b dstname)
            | v => (s, err (status_of_vres v))
            end
        | Some (code, _) => (s, err code)
        | None => (s, err 500)
        end
        end
    | _ => (s, err 400)
    end
  end.
Proof. reflexivity. Qed.

(* content type and metadata the destination gets *)
Definition dm_ctype (dm : option upmeta) : str := match dm with Some m => um_ctype m | None => [] end.
Definition dm_meta (dm : option upmeta) : list (str * str) :=
  merge_meta [] (match dm with Some m => um_meta m | None => [] end).

(* every source exists and passes its generation condition, in the state before the request *)
Definition src_usable (s : state) (b : str) (sc : str * cparam) : Prop :=
  exists o, find_obj s b (fst sc) = Some o
    /\ validate_conds (Some (o_gen o, o_metagen o)) (mkConds (gen_param s (snd sc)) 0 0 0 false) = VPass.

Lemma src_usable_code s b sc : src_usable s b sc <-> src_code s b sc = 0.
Proof.
  unfold src_usable, src_code. split.
  - intros [o [Hf Hv]]. rewrite Hf, Hv. reflexivity.
  - destruct (find_obj s b (fst sc)) as [o|]; [|discriminate].
    destruct (validate_conds _ _) eqn:Hv; cbn; try discriminate. intros _. exists o. auto.
Qed.

(* name the handler's fold (its initial accumulator is elaborated at type list N, not bytes,
   so rewriting with the lemmas above needs conversion) *)
Ltac name_fold F :=
  match goal with
  | |- context [fold_left (compose_step ?s ?b) ?srcs ?i] => set (F := fold_left (compose_step s b) srcs i) in *
  end.

Theorem compose_concat s b dst srcs dm cp c :
  resolve_conds s cp = Some c ->
  contains dst s_compose = false -> dst <> [] ->
  Z.of_nat (length srcs) <= gcsMaxComposeSources ->
  Forall (src_usable s b) srcs ->
  validate_conds (obj_gens (find_obj s b dst)) c = VPass ->
  let s' := fst (handle s (RCompose b dst false srcs dm cp)) in
  let rsp := snd (handle s (RCompose b dst false srcs dm cp)) in
  let o' := mkObj (flat_map (src_data s b) srcs) (dm_ctype dm) (s_clock s + 1) 1 false (dm_meta dm) in
  rsp = mkResp 200 (BMeta (view b dst o'))
  /\ find_obj s' b dst = Some o'
  /\ forall b' n', (b', n') <> (b, dst) -> find_obj s' b' n' = find_obj s b' n'.
Proof.
  intros Hc Hdst Hdne Hlen Hall Hv. rewrite handle_compose_unfold, Hc, split_compose by exact Hdst.
  cbv beta iota. destruct dst as [|dc0 dst']; [congruence|]. set (dst := dc0 :: dst') in *.
  destruct (Z.gtb_spec (Z.of_nat (length srcs)) gcsMaxComposeSources) as [Hgt|_]; [lia|].
  assert (Hall' : Forall (fun sc => src_code s b sc = 0) srcs).
  { eapply Forall_impl; [|exact Hall]. intros sc. apply src_usable_code. }
  name_fold F. assert (HF : F = Some (0, flat_map (src_data s b) srcs)) by exact (compose_fold_all_ok s b srcs [] Hall').
  rewrite HF, Hv.
  unfold dm_ctype, dm_meta. destruct dm as [m|]; cbn [fst snd]; unfold resp_meta;
    rewrite find_obj_store_add_same; (split; [reflexivity|]); (split; [reflexivity|]);
    intros b' n' Hne; apply find_obj_store_add_other; exact Hne.
Qed.

(* more than the maximum number of sources: always 400, nothing changes *)
Theorem compose_too_many_400 s b dst bad srcs dm cp :
  Z.of_nat (length srcs) > gcsMaxComposeSources ->
  handle s (RCompose b dst bad srcs dm cp) = (s, err 400).
Proof.
  intros Hgt. rewrite handle_compose_unfold.
  destruct (resolve_conds s cp); [|reflexivity]. destruct bad; [reflexivity|].
  destruct (split _ _) as [|d0 [|d1 [|d2 ds]]]; try reflexivity.
  destruct d0 as [|d00 d0']; [reflexivity|].
  destruct (Z.gtb_spec (Z.of_nat (length srcs)) gcsMaxComposeSources) as [_|Hle]; [reflexivity|lia].
Qed.

(* the first source that is missing (all before it usable): 404, nothing changes *)
Theorem compose_missing_source_404 s b dst pre sc post dm cp c :
  resolve_conds s cp = Some c ->
  contains dst s_compose = false -> dst <> [] ->
  Z.of_nat (length (pre ++ sc :: post)) <= gcsMaxComposeSources ->
  Forall (src_usable s b) pre -> find_obj s b (fst sc) = None ->
  handle s (RCompose b dst false (pre ++ sc :: post) dm cp) = (s, err 404).
Proof.
  intros Hc Hdst Hdne Hlen Hpre Hmiss. rewrite handle_compose_unfold, Hc, split_compose by exact Hdst.
  cbv beta iota. destruct dst as [|dc0 dst']; [congruence|]. set (dst := dc0 :: dst') in *.
  destruct (Z.gtb_spec (Z.of_nat (length (pre ++ sc :: post))) gcsMaxComposeSources) as [Hgt|_]; [lia|].
  assert (Hpre' : Forall (fun sc' => src_code s b sc' = 0) pre).
  { eapply Forall_impl; [|exact Hpre]. intros sc'. apply src_usable_code. }
  assert (Hcode : src_code s b sc = 404) by (unfold src_code; rewrite Hmiss; reflexivity).
  name_fold F.
  assert (HF : F = Some (src_code s b sc, [] ++ flat_map (src_data s b) pre))
    by (apply (compose_fold_first_fail s b pre sc post []); [exact Hpre'|rewrite Hcode; discriminate]).
  rewrite HF, Hcode. reflexivity.
Qed.

(* any unusable source anywhere in the list: an error (404, 412 or 304, decided by the first
   unusable one), or 400 for a malformed request; in every case nothing changes *)
Theorem compose_unusable_source_fails s b dst bad srcs dm cp sc :
  In sc srcs -> ~ src_usable s b sc ->
  fst (handle s (RCompose b dst bad srcs dm cp)) = s
  /\ In (r_status (snd (handle s (RCompose b dst bad srcs dm cp)))) [400; 404; 412; 304].
Proof.
  intros Hin Hbad. rewrite handle_compose_unfold.
  destruct (resolve_conds s cp); [|cbn; auto]. destruct bad; [cbn; auto|].
  destruct (split _ _) as [|d0 [|d1 [|d2 ds]]]; try (cbn; auto; fail).
  destruct d0 as [|d00 d0']; [cbn; auto|]. set (d0 := d00 :: d0').
  destruct (_ >? _); [cbn; auto|].
  name_fold F.
  destruct (compose_fold_result s b srcs) as [[Hall _]|[code [data [Hf [Hcode _]]]]].
  - exfalso. apply Hbad. apply src_usable_code. rewrite Forall_forall in Hall. apply Hall. exact Hin.
  - change (F = Some (code, data)) in Hf. rewrite Hf. destruct Hcode as [-> | [-> | ->]]; cbn; auto 6.
Qed.

(* a compose answered 200 is exactly the concatenation case *)
Lemma compose_200_inv s b dst bad srcs dm cp :
  r_status (snd (handle s (RCompose b dst bad srcs dm cp))) = 200 ->
  exists dstname x,
    split (dst ++ s_compose) s_compose = [dstname; x]
    /\ Forall (src_usable s b) srcs
    /\ fst (handle s (RCompose b dst bad srcs dm cp))
       = store_add s b dstname (flat_map (src_data s b) srcs) (dm_ctype dm) false (dm_meta dm).
Proof.
  rewrite handle_compose_unfold.
  destruct (resolve_conds s cp); [|cbn; discriminate]. destruct bad; [cbn; discriminate|].
  destruct (split _ _) as [|d0 [|d1 [|d2 ds]]]; try (cbn; discriminate).
  destruct d0 as [|d00 d0']; [cbn; discriminate|]. set (d0 := d00 :: d0').
  destruct (_ >? _); [cbn; discriminate|].
  name_fold F.
  destruct (compose_fold_result s b srcs) as [[Hall Hf]|[code [data [Hf [Hcode _]]]]];
    [change (F = Some (0, flat_map (src_data s b) srcs)) in Hf|change (F = Some (code, data)) in Hf]; rewrite Hf.
  - destruct (validate_conds _ c); try (cbn; discriminate). intros _.
    exists d0, d1. split; [reflexivity|]. split.
    + eapply Forall_impl; [|exact Hall]. intros sc. apply src_usable_code.
    + unfold dm_ctype, dm_meta. destruct dm; reflexivity.
  - destruct Hcode as [-> | [-> | ->]]; cbn; discriminate.
Qed.

(* ================================================================== *)
(* 4. Copy (rewrite)                                                    *)

Theorem copy_clones s b1 n1 b2 n2 f1 rest b2' f2 o :
  contains (n1 ++ s_rewrite_b ++ b2 ++ s_o ++ n2) s_compose = false ->
  split (n1 ++ s_rewrite_b ++ b2 ++ s_o ++ n2) s_rewrite_b = [f1; rest] ->
  split2 rest s_o = [b2'; f2] -> f2 <> [] ->
  find_obj s b1 f1 = Some o ->
  let s' := fst (handle s (RCopy b1 n1 b2 n2)) in
  let rsp := snd (handle s (RCopy b1 n1 b2 n2)) in
  let o' := mkObj (o_data o) (o_ctype o) (s_clock s + 1) 1 (o_md5 o) (o_meta o) in
  rsp = mkResp 200 (BRewrite (view b2' f2 o'))
  /\ find_obj s' b2' f2 = Some o'
  /\ forall b' n', (b', n') <> (b2', f2) -> find_obj s' b' n' = find_obj s b' n'.
Proof.
  intros Hc Hs1 Hs2 Hfne Hf. cbn [handle]. rewrite Hc, Hs1, Hs2.
  destruct f2 as [|f20 f2']; [congruence|]. set (f2 := f20 :: f2') in *.
  rewrite Hf, find_obj_store_add_same. cbn [fst snd].
  split; [reflexivity|]. split; [apply find_obj_store_add_same|].
  intros b' n' Hne. apply find_obj_store_add_other. exact Hne.
Qed.

Corollary copy_source_untouched s b1 n1 b2 n2 f1 rest b2' f2 o :
  contains (n1 ++ s_rewrite_b ++ b2 ++ s_o ++ n2) s_compose = false ->
  split (n1 ++ s_rewrite_b ++ b2 ++ s_o ++ n2) s_rewrite_b = [f1; rest] ->
  split2 rest s_o = [b2'; f2] -> f2 <> [] ->
  find_obj s b1 f1 = Some o -> (b1, f1) <> (b2', f2) ->
  find_obj (fst (handle s (RCopy b1 n1 b2 n2))) b1 f1 = Some o.
Proof.
  intros Hc Hs1 Hs2 Hf2 Hf Hne.
  destruct (copy_clones s b1 n1 b2 n2 f1 rest b2' f2 o Hc Hs1 Hs2 Hf2 Hf) as [_ [_ H]].
  rewrite H by exact Hne. exact Hf.
Qed.

Theorem copy_missing_404 s b1 n1 b2 n2 f1 rest b2' f2 :
  contains (n1 ++ s_rewrite_b ++ b2 ++ s_o ++ n2) s_compose = false ->
  split (n1 ++ s_rewrite_b ++ b2 ++ s_o ++ n2) s_rewrite_b = [f1; rest] ->
  split2 rest s_o = [b2'; f2] -> f2 <> [] ->
  find_obj s b1 f1 = None ->
  handle s (RCopy b1 n1 b2 n2) = (s, err 404).
Proof.
  intros Hc Hs1 Hs2 Hne Hf. cbn [handle]. rewrite Hc, Hs1, Hs2.
  destruct f2 as [|f20 f2']; [congruence|]. rewrite Hf. reflexivity.
Qed.

(* a copy answered 200 is exactly the clone case *)
Lemma copy_200_inv s b1 n1 b2 n2 :
  r_status (snd (handle s (RCopy b1 n1 b2 n2))) = 200 ->
  exists f1 rest b2' f2 o,
    split (n1 ++ s_rewrite_b ++ b2 ++ s_o ++ n2) s_rewrite_b = [f1; rest]
    /\ split2 rest s_o = [b2'; f2] /\ find_obj s b1 f1 = Some o
    /\ fst (handle s (RCopy b1 n1 b2 n2)) = store_add s b2' f2 (o_data o) (o_ctype o) (o_md5 o) (o_meta o).
Proof.
  cbn [handle]. destruct (contains _ _); [cbn; discriminate|].
  destruct (split _ _) as [|f1 [|rest [|x xs]]] eqn:E1; try (cbn; discriminate).
  destruct (split2 _ _) as [|b2' [|f2 [|y ys]]] eqn:E2; try (cbn; discriminate).
  destruct f2 as [|f20 f2']; [cbn; discriminate|]. set (f2 := f20 :: f2') in *.
  destruct (find_obj s b1 f1) as [o|] eqn:E3; [|cbn; discriminate].
  rewrite find_obj_store_add_same. cbn [fst snd]. intros _. exists f1, rest, b2', f2, o.
  repeat split; auto.
Qed.

(* ================================================================== *)
(* non-vacuity *)
Example compose_copy_example :
  let cp := mkCP (PRaw []) (PRaw []) (PRaw []) (PRaw []) in
  let bk := [98]%N in
  let s := fst (run init_state [RUploadMedia bk [120]%N [116]%N [1; 2]%N cp;
                                RUploadMedia bk [121]%N [116]%N [3]%N cp]) in
  (* x ++ y ++ x into x itself: repeats and destination among the sources *)
  let srcs := [([120]%N, PRaw []); ([121]%N, PGen bk [121]%N 0); ([120]%N, PRaw [])] in
  resolve_conds s cp = Some empty_conds
  /\ contains [120]%N s_compose = false
  /\ Z.of_nat (length srcs) <= gcsMaxComposeSources
  /\ Forall (src_usable s bk) srcs
  /\ validate_conds (obj_gens (find_obj s bk [120]%N)) empty_conds = VPass
  /\ option_map o_data (find_obj (fst (handle s (RCompose bk [120]%N false srcs None cp))) bk [120]%N)
     = Some [1; 2; 3; 1; 2]%N
  /\ r_status (snd (handle s (RCompose bk [122]%N false (srcs ++ [([119]%N, PRaw [])]) None cp))) = 404
  /\ r_status (snd (handle s (RCompose bk [122]%N false (repeat ([120]%N, PRaw []) 33) None cp))) = 400
  /\ (exists f1 rest b2' f2 o,
        split ([120]%N ++ s_rewrite_b ++ bk ++ s_o ++ [122]%N) s_rewrite_b = [f1; rest]
        /\ split2 rest s_o = [b2'; f2] /\ find_obj s bk f1 = Some o /\ (f1, b2', f2) = ([120]%N, bk, [122]%N)
        /\ contains ([120]%N ++ s_rewrite_b ++ bk ++ s_o ++ [122]%N) s_compose = false)
  /\ option_map o_data (find_obj (fst (handle s (RCopy bk [120]%N bk [122]%N))) bk [122]%N) = Some [1; 2]%N
  /\ r_status (snd (handle s (RCopy bk [119]%N bk [122]%N))) = 404.
Proof.
  cbn zeta. split; [timeout 60 vm_compute; reflexivity|]. split; [timeout 60 vm_compute; reflexivity|].
  split; [timeout 60 vm_compute; discriminate|]. split.
  { repeat apply Forall_cons; try apply Forall_nil; apply src_usable_code; timeout 60 vm_compute; reflexivity. }
  split; [timeout 60 vm_compute; reflexivity|]. split; [timeout 60 vm_compute; reflexivity|].
  split; [timeout 60 vm_compute; reflexivity|]. split; [timeout 60 vm_compute; reflexivity|].
  split; [|split; timeout 60 vm_compute; reflexivity].
  eexists _, _, _, _, _. split; [timeout 60 vm_compute; reflexivity|]. split; [timeout 60 vm_compute; reflexivity|].
  split; [timeout 60 vm_compute; reflexivity|]. split; reflexivity.
Qed.

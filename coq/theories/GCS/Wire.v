(* The name check in front of the handlers: a request that would give a NEW object a name that is
   not valid UTF-8 is refused with 400 and changes nothing (gcsemu.go validObjectName, shared with the
   empty-name branch of the media upload, compose and copy handlers).  Names carried in JSON bodies
   (multipart, resumable) reach the handler already valid: the JSON decoder replaces invalid bytes
   by U+FFFD; the model refuses them as well, which no request on the wire can observe.

   [handle] itself is unchanged: [sanitize] maps a request with an invalid new name to the canonical
   refused request, so that every theorem about [run] applies to [run_wire] by instantiation. *)
From Coq Require Import List NArith ZArith Bool.
Import ListNotations.
From Emu.Common Require Import Bytes Str Utf8.
From Emu.GCS Require Import Model.

(* the destination names the compose and copy handlers parse out of the request path *)
Definition wire_compose_dst (dst : str) : option str :=
  match split (dst ++ s_compose) s_compose with
  | [d; _] => Some d
  | _ => None
  end.

Definition wire_copy_dst (n1 b2 n2 : str) : option str :=
  let object := n1 ++ s_rewrite_b ++ b2 ++ s_o ++ n2 in
  if contains object s_compose then None else
  match split object s_rewrite_b with
  | [f1; rest] => match split2 rest s_o with
                  | [b2'; f2] => Some f2
                  | _ => None
                  end
  | _ => None
  end.

(* the name a request would give to a new object, if it gets that far *)
Definition new_name (r : req) : option str :=
  match r with
  | RUploadMedia _ n _ _ _ => Some n
  | RUploadMultipart _ m _ _ => Some (um_name m)
  | RResumableInit _ _ m _ => Some (um_name m)
  | RCompose _ dst _ _ _ _ => wire_compose_dst dst
  | RCopy _ n1 b2 n2 => wire_copy_dst n1 b2 n2
  | _ => None
  end.

Definition names_valid (r : req) : bool :=
  match new_name r with Some n => utf8_valid n | None => true end.

Definition req_bucket (r : req) : str :=
  match r with
  | RUploadMedia b _ _ _ _ | RUploadMultipart b _ _ _ | RUploadMultipartBad b _ | RResumableInit b _ _ _
  | RGetMedia b _ | RGetMeta b _ | RDelete b _ _ | RPatch b _ _ _ | RList b _ _ _ _ | RListBadToken b
  | RCompose b _ _ _ _ _ | RCopy b _ _ _ | RCreateBucket b | RGetBucket b | RDeleteBucket b _ => b
  | RResumablePut _ _ _ => []
  end.

(* the canonical request that is refused with 400 whatever the state *)
Definition refused_request (b : str) : req := RListBadToken b.

Definition sanitize (r : req) : req :=
  if names_valid r then r else refused_request (req_bucket r).

Definition run_wire (s : state) (rs : list req) : state * list resp := run s (map sanitize rs).

(* Correspondence-check glue for the GCS model: decidable equality on responses
   and the comparison of an observed history with the model's run. *)
From Coq Require Import List NArith ZArith Bool.
Import ListNotations.
From Emu.Common Require Import Bytes Str.
From Emu.GCS Require Import Model Wire.

Fixpoint list_eqb {A} (e : A -> A -> bool) (a b : list A) : bool :=
  match a, b with
  | [], [] => true
  | x :: xs, y :: ys => e x y && list_eqb e xs ys
  | _, _ => false
  end.
Definition opt_eqb {A} (e : A -> A -> bool) (a b : option A) : bool :=
  match a, b with
  | None, None => true
  | Some x, Some y => e x y
  | _, _ => false
  end.
Definition kv_eqb (a b : str * str) : bool := beqb (fst a) (fst b) && beqb (snd a) (snd b).

Definition view_eqb (a b : oview) : bool :=
  beqb (v_bucket a) (v_bucket b) && beqb (v_name a) (v_name b) && Z.eqb (v_size a) (v_size b)
  && Z.eqb (v_gen a) (v_gen b) && Z.eqb (v_metagen a) (v_metagen b) && beqb (v_ctype a) (v_ctype b)
  && N.eqb (v_md5 a) (v_md5 b) && list_eqb kv_eqb (v_meta a) (v_meta b).

Definition body_eqb (a b : rbody) : bool :=
  match a, b with
  | BNone, BNone => true
  | BMeta x, BMeta y => view_eqb x y
  | BMedia d c g m, BMedia d' c' g' m' => beqb d d' && beqb c c' && Z.eqb g g' && Z.eqb m m'
  | BList i p n, BList i' p' n' => list_eqb view_eqb i i' && list_eqb beqb p p' && opt_eqb beqb n n'
  | BRewrite x, BRewrite y => view_eqb x y
  | BResume h, BResume h' => Z.eqb h h'
  | BUploadInit i, BUploadInit i' => beqb i i'
  | BBucket x, BBucket y => beqb x y
  | _, _ => false
  end.
Definition resp_eqb (a b : resp) : bool := Z.eqb (r_status a) (r_status b) && body_eqb (r_body a) (r_body b).

(* index of the first differing step, if any *)
Fixpoint first_diff (i : N) (a b : list resp) : option N :=
  match a, b with
  | [], [] => None
  | x :: xs, y :: ys => if resp_eqb x y then first_diff (i + 1) xs ys else Some i
  | _, _ => Some i
  end.

Definition check_case (c : list req * list resp) : option N :=
  first_diff 0 (run_canon (map sanitize (fst c))) (snd c).    (* requests pass the name check first (Wire.v) *)

Fixpoint check_all_from (i : N) (cs : list (list req * list resp)) : list (N * N) :=
  match cs with
  | [] => []
  | c :: r => match check_case c with
              | Some k => (i, k) :: check_all_from (i + 1) r
              | None => check_all_from (i + 1) r
              end
  end.
Definition check_all := check_all_from 0.

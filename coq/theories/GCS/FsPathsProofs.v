(* The file store keeps the files of different objects apart (FsPaths.v). *)
From Coq Require Import List NArith ZArith Bool Lia.
Import ListNotations.
From Emu.Common Require Import Bytes Str StrProofs.
From Emu.GCS Require Import FsPaths.

Lemma has_prefix_app p : forall s, has_prefix (p ++ s) p = true.
Proof. induction p as [|c p IH]; intros s; cbn [has_prefix app]; [destruct s; reflexivity|]. rewrite N.eqb_refl. apply IH. Qed.

Lemma has_suffix_app s suf : has_suffix (s ++ suf) suf = true.
Proof. unfold has_suffix. rewrite rev_app_distr. apply has_prefix_app. Qed.

Lemma storable_not_meta n : storable n = true -> has_suffix n s_meta_ext = false.
Proof. unfold storable. intros H. apply andb_prop in H. destruct H as [_ H]. apply negb_true_iff in H. exact H. Qed.

Lemma segs_go_nonnil cur s : segs_go cur s <> [].
Proof. revert cur. induction s as [|c r IH]; intros cur; cbn [segs_go]; [discriminate|]. destruct (N.eqb c c_slash); [discriminate|apply IH]. Qed.

(* the empty name is refused *)
Theorem storable_nonempty n : storable n = true -> n <> [].
Proof. intros H ->. discriminate H. Qed.

(* a name that ends in the sidecar extension is refused *)
Theorem sidecar_names_refused b n : add_files b (n ++ s_meta_ext) = None.
Proof.
  unfold add_files, storable. rewrite has_suffix_app. cbn [negb]. rewrite andb_false_r, andb_false_r. reflexivity.
Qed.

(* two different storable names of one bucket share no file: neither content file nor sidecar of
   one is the content file or the sidecar of the other *)
Theorem files_apart b n1 n2 :
  storable n1 = true -> storable n2 = true -> n1 <> n2 ->
  forall f, In f [content_file b n1; sidecar_file b n1] -> In f [content_file b n2; sidecar_file b n2] -> False.
Proof.
  intros H1 H2 Hne f Hf1 Hf2.
  assert (Hc : forall a c, content_file b a = content_file b c -> a = c).
  { intros a c E. unfold content_file in E. apply app_inv_head in E. apply app_inv_head in E. exact E. }
  assert (Hs : forall a c, storable c = true -> sidecar_file b a = content_file b c -> False).
  { intros a c Hst E. unfold sidecar_file, content_file in E. rewrite <- !app_assoc in E.
    apply app_inv_head in E. apply app_inv_head in E. subst c.
    apply storable_not_meta in Hst. rewrite has_suffix_app in Hst. discriminate. }
  cbn [In] in Hf1, Hf2.
  destruct Hf1 as [<-|[<-|[]]]; destruct Hf2 as [E|[E|[]]].
  - apply Hne. symmetry. exact (Hc _ _ E).
  - exact (Hs _ _ H1 E).
  - exact (Hs _ _ H2 (eq_sym E)).
  - unfold sidecar_file in E. apply app_inv_tail in E. apply Hne. symmetry. exact (Hc _ _ E).
Qed.

(* ... and so do objects of different buckets *)
Lemma slash_free_prefix (b1 b2 r1 r2 : str) :
  forallb (fun c => negb (N.eqb c c_slash)) b1 = true -> forallb (fun c => negb (N.eqb c c_slash)) b2 = true ->
  b1 ++ c_slash :: r1 = b2 ++ c_slash :: r2 -> b1 = b2 /\ r1 = r2.
Proof.
  revert b2. induction b1 as [|x b1 IH]; intros [|y b2] F1 F2 E; cbn [app] in E.
  - injection E as E. split; [reflexivity|exact E].
  - injection E as Ex _. cbn [forallb] in F2. subst y. rewrite N.eqb_refl in F2. discriminate.
  - injection E as Ex _. cbn [forallb] in F1. subst x. rewrite N.eqb_refl in F1. discriminate.
  - injection E as Ex E. cbn [forallb] in F1, F2. apply andb_prop in F1. apply andb_prop in F2.
    destruct (IH b2 (proj2 F1) (proj2 F2) E) as [-> ->]. subst y. split; reflexivity.
Qed.

Lemma bucket_ok_slash_free b : bucket_ok b = true -> forallb (fun c => negb (N.eqb c c_slash)) b = true.
Proof.
  unfold bucket_ok. intros H. apply andb_prop in H. destruct H as [_ H].
  rewrite forallb_forall in *. intros c Hc. specialize (H c Hc). apply andb_prop in H. destruct H as [H _].
  apply andb_prop in H. exact (proj1 H).
Qed.

Theorem buckets_apart b1 b2 n1 n2 :
  bucket_ok b1 = true -> bucket_ok b2 = true -> storable n1 = true -> storable n2 = true -> b1 <> b2 ->
  forall f, In f [content_file b1 n1; sidecar_file b1 n1] -> In f [content_file b2 n2; sidecar_file b2 n2] -> False.
Proof.
  intros B1 B2 _ _ Hne f Hf1 Hf2. apply bucket_ok_slash_free in B1. apply bucket_ok_slash_free in B2.
  cbn [In] in Hf1, Hf2. unfold sidecar_file, content_file in *.
  destruct Hf1 as [<-|[<-|[]]]; destruct Hf2 as [E|[E|[]]]; cbn [app] in E; rewrite <- ?app_assoc in E; cbn [app] in E;
    apply slash_free_prefix in E; try assumption; destruct E as [E _]; apply Hne; symmetry; exact E.
Qed.

(* whatever Add creates for one object is exactly its two files, and a refused name creates none *)
Theorem add_files_shape b n fs : add_files b n = Some fs -> fs = [content_file b n; sidecar_file b n] /\ storable n = true /\ bucket_ok b = true.
Proof.
  unfold add_files. destruct (bucket_ok b) eqn:B; destruct (storable n) eqn:S; cbn [andb]; intros E; try discriminate.
  injection E as <-. auto.
Qed.

(* sibling names: the endings file-handling code gives its own files are ordinary names *)
Definition n_report : str := [114; 101; 112; 111; 114; 116]%N.                   (* "report" *)
Definition x_tmp : str := [46; 116; 109; 112]%N.                                 (* ".tmp" *)
Definition x_tilde : str := [126]%N.                                             (* "~" *)
Example siblings_storable :
  storable n_report = true /\ storable (n_report ++ x_tmp) = true /\ storable (n_report ++ x_tilde) = true
  /\ storable (n_report ++ s_meta_ext ++ x_tmp) = true /\ storable (n_report ++ s_meta_ext) = false
  /\ storable [] = false /\ storable [46]%N = false /\ storable [46; 46; 47; 120]%N = false
  /\ storable [97; 47; 47; 98]%N = false /\ storable [97; 47]%N = false /\ storable [97; 47; 46; 47; 98]%N = false
  /\ storable [46; 46; 46]%N = true /\ storable [97; 47; 46; 98]%N = true.
Proof. vm_compute. repeat split; reflexivity. Qed.

Example siblings_apart b :
  forall f, In f [content_file b n_report; sidecar_file b n_report] ->
            In f [content_file b (n_report ++ x_tmp); sidecar_file b (n_report ++ x_tmp)] -> False.
Proof. apply files_apart; [reflexivity|reflexivity|discriminate]. Qed.

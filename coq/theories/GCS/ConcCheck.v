(* Correspondence check for scheduled (interleaved) GCS executions. *)
From Coq Require Import List NArith ZArith Bool.
Import ListNotations.
From Emu.Common Require Import Bytes Str.
From Emu.GCS Require Import Model Wire Check Conc.

Record gcase := mkGCase {
  gc_setup : list req;
  gc_threads : list (list req);
  gc_sched : list nat;
  gc_obs : list outcome;             (* generations already replaced by ranks *)
  gc_final : list (req * resp) }.

Definition done_resps (os : list outcome) : list resp :=
  flat_map (fun o => match o with ODone r => [r] | _ => [] end) os.

(* put canonical responses back into the outcome list *)
Fixpoint recanon (os : list outcome) (rs : list resp) : list outcome :=
  match os with
  | [] => []
  | ODone _ :: r => match rs with x :: xs => ODone x :: recanon r xs | [] => [] end
  | o :: r => o :: recanon r rs
  end.

Definition outcome_eqb (m o : outcome) : bool :=
  match m, o with
  | OAt, OAt | OBlocked, OBlocked | OIdle, OIdle => true
  | ODone a, ODone b => resp_eqb a b
  | _, _ => false
  end.

Fixpoint first_bad_out (i : N) (ms os : list outcome) : option N :=
  match ms, os with
  | [], [] => None
  | m :: ms', o :: os' => if outcome_eqb m o then first_bad_out (i + 1)%N ms' os' else Some i
  | _, _ => Some i
  end.

Definition check_gcase (c : gcase) : option N :=
  (* every request passes the name check first (Wire.v) *)
  let s0 := fst (run init_state (map sanitize (gc_setup c))) in
  let st0 := mkGState s0 [] (map (fun rs => mkGThread (map sanitize rs) GNew) (gc_threads c)) in
  let '(st1, outs) := grun st0 (gc_sched c) in
  let finals := snd (run (g_store st1) (map sanitize (map fst (gc_final c)))) in
  let dones := done_resps outs in
  let all := canon (dones ++ finals) in
  let outs' := recanon outs (firstn (length dones) all) in
  match first_bad_out 0%N outs' (gc_obs c) with
  | Some k => Some k
  | None => match first_diff 0%N (skipn (length dones) all) (map snd (gc_final c)) with
            | Some k => Some (1000 + k)%N
            | None => None
            end
  end.

Fixpoint check_gall_from (i : N) (cs : list gcase) : list (N * N) :=
  match cs with
  | [] => []
  | c :: r => match check_gcase c with
              | Some k => (i, k) :: check_gall_from (i + 1)%N r
              | None => check_gall_from (i + 1)%N r
              end
  end.
Definition check_gconc := check_gall_from 0%N.

(* C09 — the file store's listing walk (GCS/FileList.v) against the memory store's.
   The walk now visits directory entries in the order of the names they stand for, so the object
   names come in bytewise order ([fs_sort] sorts by [lex_cmp]).  Consequences proved here:
   - fs_sort is a bytewise sort, and the identity on every bucket of a well-formed state;
   - the file walk (directories, SkipDir pruning, early abort) returns the same page as the memory
     walk for every sorted bucket, every delimiter, cursor, prefix and page size, with NO condition
     on the names (no order-compatibility, no representability);
   - hence handle_fs = handle on every state satisfying the store invariant [state_ok], and
     run_fs init_state rs = run init_state rs for every request list;
   - with the OLD order (filepath.Walk: per-directory lexical order, [fs_sort_walk]) the same
     listing loses a name (what finding GCS-2 was). *)
From Coq Require Import List NArith ZArith Bool Lia Sorting Permutation.
Import ListNotations.
From Emu.Common Require Import Bytes Str StrProofs.
From Emu.Gen Require Import Consts.
From Emu.GCS Require Import Model FileList StoreProofs UploadProofs ListingProofs.
Local Open Scope Z_scope.

(* ================================================================== *)
(* 1. The walk order: fs_sort sorts bytewise                            *)

Lemma sinsert_perm n l : Permutation (n :: l) (sinsert n l).
Proof.
  induction l as [|m r IH]; cbn; [apply Permutation_refl|].
  destruct (lex_cmp n m); try apply Permutation_refl.
  eapply perm_trans; [apply perm_swap|]. apply perm_skip. exact IH.
Qed.

Theorem fs_sort_perm names : Permutation names (fs_sort names).
Proof.
  induction names as [|n r IH]; cbn; [constructor|].
  eapply perm_trans; [apply perm_skip; exact IH|]. apply sinsert_perm.
Qed.

Lemma sinsert_sorted n l : StronglySorted lex_le l -> StronglySorted lex_le (sinsert n l).
Proof.
  induction l as [|m r IH]; intros Hs; cbn.
  - constructor; constructor.
  - apply StronglySorted_inv in Hs. destruct Hs as [Hr Hall].
    assert (Hcase : forall c, lex_cmp n m = c -> c <> Gt -> StronglySorted lex_le (n :: m :: r)).
    { intros c Ec Hc. constructor; [constructor; assumption|].
      assert (Hnm : lex_le n m) by (unfold lex_le; rewrite Ec; exact Hc).
      constructor; [exact Hnm|]. eapply Forall_impl; [|exact Hall]. cbn. intros x Hx.
      eapply lex_le_trans; eauto. }
    destruct (lex_cmp n m) eqn:E.
    + eapply Hcase; [reflexivity|discriminate].
    + eapply Hcase; [reflexivity|discriminate].
    + constructor; [apply IH; exact Hr|].
      assert (Hmn : lex_le m n).
      { unfold lex_le. rewrite (lex_antisym n m), E. cbn. discriminate. }
      eapply Permutation_Forall; [apply sinsert_perm|]. constructor; assumption.
Qed.

(* the walk visits the names in bytewise order *)
Theorem fs_sort_sorted names : StronglySorted lex_le (fs_sort names).
Proof. induction names as [|n r IH]; cbn; [constructor|]. apply sinsert_sorted. exact IH. Qed.

(* ... so it leaves a list that is already in bytewise order (duplicates allowed) as it is *)
Theorem fs_sort_id_on_sorted names : StronglySorted lex_le names -> fs_sort names = names.
Proof.
  induction 1 as [|n r Hr IH Hall]; [reflexivity|]. cbn [fs_sort fold_right]. fold (fs_sort r). rewrite IH.
  destruct r as [|m r']; [reflexivity|]. cbn [sinsert]. inversion Hall as [|x y Hnm _]; subst.
  unfold lex_le in Hnm. destruct (lex_cmp n m); try reflexivity. congruence.
Qed.

Lemma sorted_lt_le names : StronglySorted lex_lt names -> StronglySorted lex_le names.
Proof.
  induction 1 as [|n r Hr IH Hall]; constructor; [exact IH|].
  eapply Forall_impl; [|exact Hall]. intros m Hm. apply lex_lt_le. exact Hm.
Qed.

(* buckets are association lists kept strictly ascending by name ([asorted], the invariant of
   [ainsert]/[aremove]): the walk order of a bucket is the bucket's own order *)
Theorem fs_sort_bucket (bk : bucket) : asorted bk -> fs_sort (map fst bk) = map fst bk.
Proof. intros Hs. apply fs_sort_id_on_sorted, sorted_lt_le, asorted_names. exact Hs. Qed.

Lemma state_ok_bucket s b bk : state_ok s -> get_bucket s b = Some bk -> asorted bk.
Proof. intros [Hb _] H. eapply buckets_ok_lookup; eauto. Qed.

Theorem fs_sort_state_ok s b bk : state_ok s -> get_bucket s b = Some bk ->
  fs_sort (map fst bk) = map fst bk.
Proof. intros Hok H. apply fs_sort_bucket. eapply state_ok_bucket; eauto. Qed.

Theorem fs_sort_reachable rs b bk : get_bucket (fst (run init_state rs)) b = Some bk ->
  fs_sort (map fst bk) = map fst bk.
Proof. intros H. apply fs_sort_bucket. eapply reachable_bucket_sorted; eauto. Qed.

(* ---- the old order (filepath.Walk): a sort by path-segment lists ---- *)

Lemma segs_cmp_refl a : segs_cmp a a = Eq.
Proof. induction a as [|x xs IH]; cbn; auto. rewrite lex_refl. exact IH. Qed.

Lemma segs_cmp_eq a : forall b, segs_cmp a b = Eq -> a = b.
Proof.
  induction a as [|x xs IH]; intros [|y ys] H; cbn in *; try discriminate; auto.
  destruct (lex_cmp x y) eqn:E; try discriminate. apply lex_eq in E. subst. f_equal. auto.
Qed.

Lemma segs_cmp_antisym a : forall b, segs_cmp b a = CompOpp (segs_cmp a b).
Proof.
  induction a as [|x xs IH]; intros [|y ys]; cbn; auto.
  rewrite (lex_antisym x y). destruct (lex_cmp x y); cbn; auto.
Qed.

Definition segs_lt (a b : list bytes) : Prop := segs_cmp a b = Lt.
Definition segs_le (a b : list bytes) : Prop := segs_cmp a b <> Gt.

Lemma segs_lt_trans a : forall b c, segs_lt a b -> segs_lt b c -> segs_lt a c.
Proof.
  unfold segs_lt. induction a as [|x xs IH]; intros [|y ys] [|z zs] H1 H2; cbn in *; try discriminate; auto.
  destruct (lex_cmp x y) eqn:E1; try discriminate.
  - apply lex_eq in E1. subst y. destruct (lex_cmp x z) eqn:E2; try discriminate; auto. eapply IH; eauto.
  - destruct (lex_cmp y z) eqn:E2; try discriminate.
    + apply lex_eq in E2. subst z. rewrite E1. auto.
    + assert (H : lex_cmp x z = Lt) by (eapply lex_lt_trans; eauto). rewrite H. auto.
Qed.

Lemma segs_le_trans a b c : segs_le a b -> segs_le b c -> segs_le a c.
Proof.
  unfold segs_le. intros H1 H2.
  destruct (segs_cmp a b) eqn:E1; [apply segs_cmp_eq in E1; subst; exact H2| |congruence].
  destruct (segs_cmp b c) eqn:E2; [apply segs_cmp_eq in E2; subst; congruence| |congruence].
  rewrite (segs_lt_trans a b c E1 E2). discriminate.
Qed.

(* the order on names the walk used to follow *)
Definition name_le (n m : str) : Prop := segs_le (segs n) (segs m).

Lemma sinsert_walk_perm n l : Permutation (n :: l) (sinsert_walk n l).
Proof.
  induction l as [|m r IH]; cbn; [apply Permutation_refl|].
  destruct (segs_cmp (segs n) (segs m)); try apply Permutation_refl.
  eapply perm_trans; [apply perm_swap|]. apply perm_skip. exact IH.
Qed.

Theorem fs_sort_walk_perm names : Permutation names (fs_sort_walk names).
Proof.
  induction names as [|n r IH]; cbn; [constructor|].
  eapply perm_trans; [apply perm_skip; exact IH|]. apply sinsert_walk_perm.
Qed.

Lemma sinsert_walk_sorted n l : StronglySorted name_le l -> StronglySorted name_le (sinsert_walk n l).
Proof.
  induction l as [|m r IH]; intros Hs; cbn.
  - constructor; constructor.
  - apply StronglySorted_inv in Hs. destruct Hs as [Hr Hall].
    assert (Hcase : forall c, segs_cmp (segs n) (segs m) = c -> c <> Gt ->
                    StronglySorted name_le (n :: m :: r)).
    { intros c Ec Hc. constructor; [constructor; assumption|].
      assert (Hnm : name_le n m) by (unfold name_le, segs_le; rewrite Ec; exact Hc).
      constructor; [exact Hnm|]. eapply Forall_impl; [|exact Hall]. cbn. intros x Hx.
      eapply segs_le_trans; eauto. }
    destruct (segs_cmp (segs n) (segs m)) eqn:E.
    + eapply Hcase; [reflexivity|discriminate].
    + eapply Hcase; [reflexivity|discriminate].
    + constructor; [apply IH; exact Hr|].
      assert (Hmn : name_le m n).
      { unfold name_le, segs_le. rewrite (segs_cmp_antisym (segs n) (segs m)), E. cbn. discriminate. }
      eapply Permutation_Forall; [apply sinsert_walk_perm|]. constructor; assumption.
Qed.

Theorem fs_sort_walk_sorted names : StronglySorted name_le (fs_sort_walk names).
Proof. induction names as [|n r IH]; cbn; [constructor|]. apply sinsert_walk_sorted. exact IH. Qed.

Lemma fs_sort_walk_id_on_sorted names : StronglySorted name_le names -> fs_sort_walk names = names.
Proof.
  induction 1 as [|n r Hr IH Hall]; [reflexivity|]. cbn [fs_sort_walk fold_right]. fold (fs_sort_walk r). rewrite IH.
  destruct r as [|m r']; [reflexivity|]. cbn [sinsert_walk]. inversion Hall as [|x y Hnm _]; subst.
  unfold name_le, segs_le in Hnm. destruct (segs_cmp (segs n) (segs m)); try reflexivity. congruence.
Qed.

(* the old walk visited a list of names in the given order iff that list is in segment order *)
Definition order_compatible (names : list str) : Prop := fs_sort_walk names = names.

Lemma order_compatible_iff names : order_compatible names <-> StronglySorted name_le names.
Proof.
  split; [|apply fs_sort_walk_id_on_sorted]. unfold order_compatible. intros H. rewrite <- H. apply fs_sort_walk_sorted.
Qed.

(* ================================================================== *)
(* 2. Comparison up to the shorter length, and what the walk tests mean *)

Fixpoint pcmp (a p : bytes) : comparison :=
  match a, p with
  | x :: xs, y :: ps => match N.compare x y with Eq => pcmp xs ps | c => c end
  | _, _ => Eq
  end.

Lemma gtp_pcmp p : forall a, greater_than_prefix a p = match pcmp a p with Gt => true | _ => false end.
Proof.
  intros a. rewrite greater_than_prefix_alt. unfold lex_gtb, lex_ltb. revert a.
  induction p as [|y ps IH]; intros a.
  - cbn. destruct a; reflexivity.
  - destruct a as [|x xs]; [reflexivity|]. cbn [length firstn lex_cmp pcmp].
    rewrite (N.compare_antisym x y). destruct (N.compare x y); cbn [CompOpp]; auto.
Qed.

Lemma ltp_pcmp a : forall p, less_than_prefix a p = match pcmp a p with Lt => true | _ => false end.
Proof.
  unfold less_than_prefix, lex_ltb. induction a as [|x xs IH]; intros p.
  - destruct p; reflexivity.
  - destruct p as [|y ps]; [reflexivity|]. cbn [pcmp]. specialize (IH ps).
    change (length (x :: xs) <? length (y :: ps))%nat with (length xs <? length ps)%nat.
    destruct (length xs <? length ps)%nat; cbn [length firstn lex_cmp]; destruct (N.compare x y); auto.
Qed.

Lemma pcmp_ext d t : forall p, pcmp d p <> Eq -> pcmp (d ++ t) p = pcmp d p.
Proof.
  induction d as [|x xs IH]; intros p H; [cbn in H; congruence|]. destruct p as [|y ps]; [cbn in H; congruence|].
  cbn [app pcmp] in *. destruct (N.compare x y); auto.
Qed.

Lemma pcmp_lt_lex n : forall c, pcmp n c = Lt -> lex_cmp n c = Lt.
Proof.
  induction n as [|x xs IH]; intros [|y ys] H; cbn in *; try discriminate.
  destruct (N.compare x y); auto; discriminate.
Qed.

Lemma has_prefix_pcmp n : forall p, has_prefix n p = true -> pcmp n p = Eq.
Proof.
  induction n as [|x xs IH]; intros [|y ps] H; cbn in *; try reflexivity; try discriminate.
  apply andb_prop in H. destruct H as [H1 H2]. apply N.eqb_eq in H1. subst. rewrite N.compare_refl. auto.
Qed.

Lemma has_prefix_app_inv n : forall p, has_prefix n p = true -> exists t, n = p ++ t.
Proof.
  induction n as [|x xs IH]; intros [|y ps] H; cbn in *; try discriminate; eauto.
  apply andb_prop in H. destruct H as [H1 H2]. apply N.eqb_eq in H1. subst. destruct (IH _ H2) as [t ->]. eauto.
Qed.

(* ---- split / join ---- *)

Lemma split_go_nonempty sep s : forall skip cur, split_go sep skip cur s <> [].
Proof.
  induction s as [|c r IH]; intros skip cur; cbn [split_go]; [discriminate|].
  destruct skip; [|apply IH]. destruct (has_prefix (c :: r) sep); [discriminate|apply IH].
Qed.

Lemma join_segs_cons x l : l <> [] -> join_segs (x :: l) = x ++ s_sep ++ join_segs l.
Proof. destruct l; [congruence|reflexivity]. Qed.

Lemma join_split_go s : forall cur, join_segs (split_go s_sep 0 cur s) = rev cur ++ s.
Proof.
  induction s as [|c r IH]; intros cur; cbn [split_go].
  - cbn. rewrite app_nil_r. reflexivity.
  - unfold s_sep at 1. cbn [has_prefix]. rewrite has_prefix_nil, andb_true_r.
    destruct (N.eqb_spec c 47) as [->|Hne].
    + change (length s_sep - 1)%nat with 0%nat. rewrite join_segs_cons by apply split_go_nonempty.
      rewrite (IH []). reflexivity.
    + rewrite (IH (c :: cur)). cbn [rev]. rewrite <- app_assoc. reflexivity.
Qed.

Lemma join_segs_segs n : join_segs (segs n) = n.
Proof. unfold segs, split. apply join_split_go. Qed.

Lemma join_segs_app l1 : forall l2, l1 <> [] -> l2 <> [] ->
  join_segs (l1 ++ l2) = join_segs l1 ++ s_sep ++ join_segs l2.
Proof.
  induction l1 as [|x r IH]; intros l2 H1 H2; [congruence|]. destruct r as [|y r'].
  - cbn [app]. rewrite join_segs_cons by exact H2. reflexivity.
  - change ((x :: y :: r') ++ l2) with (x :: ((y :: r') ++ l2)).
    rewrite !join_segs_cons by discriminate. rewrite IH by (auto; discriminate). rewrite <- !app_assoc. reflexivity.
Qed.

Lemma dir_prefixes_spec ss : forall acc d, In d (dir_prefixes acc ss) ->
  exists l1 l2, ss = l1 ++ l2 /\ l1 <> [] /\ l2 <> [] /\ d = join_segs (acc ++ l1).
Proof.
  induction ss as [|x r IH]; intros acc d H; [destruct H|]. cbn [dir_prefixes] in H.
  destruct r as [|y r']; [destruct H|]. destruct H as [<-|H].
  - exists [x], (y :: r'). repeat split; discriminate.
  - apply IH in H. destruct H as [l1 [l2 [E [H1 [H2 ->]]]]]. exists (x :: l1), l2.
    repeat split; try discriminate; auto.
    + cbn [app]. rewrite E. reflexivity.
    + rewrite <- app_assoc. reflexivity.
Qed.

(* a directory of a name is a proper string prefix of it, followed by the separator *)
Lemma dir_prefix_extends n d : In d (dir_prefixes [] (segs n)) -> exists t, n = (d ++ s_sep) ++ t.
Proof.
  intros H. apply dir_prefixes_spec in H. destruct H as [l1 [l2 [E [H1 [H2 ->]]]]]. cbn [app].
  exists (join_segs l2). rewrite <- app_assoc, <- join_segs_app by assumption. rewrite <- E. symmetry. apply join_segs_segs.
Qed.

(* ================================================================== *)
(* 3. The two walks return the same page                                *)

Section Walk.
  Variables delim cursor prefix : str.
  Variable maxres : nat.
  Let step := list_step delim cursor prefix maxres.

  Definition dirent (d : str) : str * bool := (d, true).

  Lemma step_done a e : la_done a = true -> step a e = a.
  Proof. intros H. unfold step, list_step. destruct e. rewrite H. reflexivity. Qed.

  Lemma step_skipped a f isd : la_done a = false ->
    match la_skip a with Some sd => has_prefix f sd | None => false end = true -> step a (f, isd) = a.
  Proof. intros H1 H2. unfold step, list_step. rewrite H1, H2. reflexivity. Qed.

  Lemma step_reset a f isd : la_done a = false ->
    match la_skip a with Some sd => has_prefix f sd | None => false end = false ->
    step a (f, isd) = step (mkLacc (la_count a) (la_found a) (la_prefixes a) (la_more a) None false (la_last a)) (f, isd).
  Proof. intros H1 H2. unfold step, list_step. rewrite H1, H2. reflexivity. Qed.

  Lemma step_dir c fo pr mo la d :
    step (mkLacc c fo pr mo None false la) (d, true)
    = if greater_than_prefix d prefix then mkLacc c fo pr mo None true la
      else if less_than_prefix d cursor || less_than_prefix d prefix
           then mkLacc c fo pr mo (Some (d ++ s_sep)) false la
           else mkLacc c fo pr mo None false la.
  Proof. reflexivity. Qed.

  Lemma step_file_gtp c fo pr mo la n : greater_than_prefix n prefix = true ->
    step (mkLacc c fo pr mo None false la) (n, false) = mkLacc c fo pr mo None true la.
  Proof.
    intros H. unfold step, list_step. cbn [la_done la_skip la_count la_found la_prefixes la_more la_last].
    rewrite H. reflexivity.
  Qed.

  Lemma step_file_inert c fo pr mo la n : greater_than_prefix n prefix = false ->
    lex_leb n cursor = true \/ has_prefix n prefix = false ->
    step (mkLacc c fo pr mo None false la) (n, false) = mkLacc c fo pr mo None false la.
  Proof.
    intros H1 H2. unfold step, list_step. cbn [la_done la_skip la_count la_found la_prefixes la_more la_last].
    rewrite H1. destruct (lex_leb n cursor); [reflexivity|].
    destruct H2 as [H2|H2]; [discriminate|]. rewrite H2. reflexivity.
  Qed.

  Lemma step_file_skip_none c fo pr mo la n : la_skip (step (mkLacc c fo pr mo None false la) (n, false)) = None.
  Proof.
    unfold step, list_step. cbn [la_done la_skip la_count la_found la_prefixes la_more la_last].
    repeat match goal with
    | |- context [match ?x with _ => _ end] =>
        lazymatch x with
        | context [match _ with _ => _ end] => fail
        | _ => destruct x
        end
    end; reflexivity.
  Qed.

  Definition obs_eq (a b : lacc) : Prop :=
    la_found a = la_found b /\ la_prefixes a = la_prefixes b /\ la_more a = la_more b /\ la_last a = la_last b.

  Lemma obs_eq_refl a : obs_eq a a.
  Proof. repeat split. Qed.
  Lemma obs_eq_trans a b c : obs_eq a b -> obs_eq b c -> obs_eq a c.
  Proof. unfold obs_eq. intuition congruence. Qed.

  (* directory entries never contribute an item, a prefix or the "more" flag *)
  Lemma step_dir_obs a d : obs_eq (step a (d, true)) a.
  Proof.
    unfold step, list_step. destruct (la_done a); [apply obs_eq_refl|].
    destruct (match la_skip a with Some d0 => has_prefix d d0 | None => false end); [apply obs_eq_refl|].
    cbn [la_count la_found la_prefixes la_more la_last]. destruct (greater_than_prefix d prefix); [repeat split|].
    destruct (less_than_prefix d cursor || less_than_prefix d prefix); repeat split.
  Qed.

  Lemma step_file_gtp_obs a n : greater_than_prefix n prefix = true -> obs_eq (step a (n, false)) a.
  Proof.
    intros H. unfold step, list_step. destruct (la_done a); [apply obs_eq_refl|].
    destruct (match la_skip a with Some d0 => has_prefix n d0 | None => false end); [apply obs_eq_refl|].
    cbn [la_count la_found la_prefixes la_more la_last]. rewrite H. repeat split.
  Qed.

  Lemma fold_dirs_obs ds : forall a, obs_eq (fold_left step (map dirent ds) a) a.
  Proof.
    induction ds as [|d r IH]; intros a; [apply obs_eq_refl|]. cbn [map fold_left].
    eapply obs_eq_trans; [apply IH|apply step_dir_obs].
  Qed.

  Lemma fold_step_done l : forall a, la_done a = true -> fold_left step l a = a.
  Proof. induction l as [|e r IH]; intros a H; [reflexivity|]. cbn [fold_left]. rewrite step_done by exact H. auto. Qed.

  (* SkipDir is only ever set on a directory that is, up to its length, below the cursor or below
     the prefix: everything under it is below too *)
  Definition good_skip (sk : option str) : Prop :=
    sk = None \/ exists d, sk = Some (d ++ s_sep) /\ (pcmp d cursor = Lt \/ pcmp d prefix = Lt).

  Definition winv (af am : lacc) (rest : list str) : Prop :=
    obs_eq af am /\ la_skip am = None /\
    ((la_done af = false /\ la_done am = false /\ la_count af = la_count am /\ good_skip (la_skip af))
     \/ (la_done am = true /\ (la_done af = true \/ Forall (fun m => greater_than_prefix m prefix = true) rest))).

  Lemma ltp_lt d X : less_than_prefix d X = true -> pcmp d X = Lt.
  Proof. rewrite ltp_pcmp. destruct (pcmp d X); congruence. Qed.

  Lemma pcmp_lt_facts n X : pcmp n X = Lt ->
    greater_than_prefix n X = false /\ has_prefix n X = false /\ lex_leb n X = true.
  Proof.
    intros H. split; [rewrite gtp_pcmp, H; reflexivity|]. split.
    - destruct (has_prefix n X) eqn:E; [|reflexivity]. apply has_prefix_pcmp in E. congruence.
    - unfold lex_leb. rewrite (pcmp_lt_lex _ _ H). reflexivity.
  Qed.

  (* the directory entries of one name *)
  Lemma dirs_fold n c fo pr mo la : forall ds sk,
    (forall d, In d ds -> exists t, n = (d ++ s_sep) ++ t) -> good_skip sk ->
    (exists sk', good_skip sk' /\ fold_left step (map dirent ds) (mkLacc c fo pr mo sk false la) = mkLacc c fo pr mo sk' false la)
    \/ (greater_than_prefix n prefix = true
        /\ fold_left step (map dirent ds) (mkLacc c fo pr mo sk false la) = mkLacc c fo pr mo None true la).
  Proof.
    induction ds as [|d r IH]; intros sk Hext Hsk; [left; exists sk; auto|]. cbn [map fold_left]. change (dirent d) with (d, true).
    assert (Hr : forall d0, In d0 r -> exists t, n = (d0 ++ s_sep) ++ t) by (intros d0 H0; apply Hext; right; exact H0).
    destruct (match sk with Some sd => has_prefix d sd | None => false end) eqn:Em.
    - rewrite step_skipped by (cbn; auto). apply IH; auto.
    - rewrite step_reset by (cbn; auto). cbn [la_count la_found la_prefixes la_more la_last]. rewrite step_dir.
      destruct (greater_than_prefix d prefix) eqn:Eg.
      + right. rewrite fold_step_done by reflexivity. split; [|reflexivity].
        destruct (Hext d (or_introl eq_refl)) as [t ->]. rewrite gtp_pcmp in Eg |- *.
        rewrite <- app_assoc, pcmp_ext; destruct (pcmp d prefix); congruence.
      + destruct (less_than_prefix d cursor || less_than_prefix d prefix) eqn:El.
        * apply IH; auto. right. exists d. split; [reflexivity|]. apply orb_prop in El.
          destruct El as [El|El]; [left|right]; apply ltp_lt; exact El.
        * apply IH; auto. left. reflexivity.
  Qed.

  Lemma good_skip_under n sk sd : good_skip sk -> sk = Some sd -> has_prefix n sd = true ->
    pcmp n cursor = Lt \/ pcmp n prefix = Lt.
  Proof.
    intros [->|[d [-> Hd]]] E Hp; [discriminate|]. injection E as <-.
    apply has_prefix_app_inv in Hp. destruct Hp as [t ->]. rewrite <- app_assoc.
    destruct Hd as [Hd|Hd]; [left|right]; rewrite pcmp_ext; congruence.
  Qed.

  (* the file entry of a name, both walks in step *)
  Lemma file_sim n c fo pr mo la sk rest : good_skip sk -> Forall (lex_lt n) rest ->
    winv (step (mkLacc c fo pr mo sk false la) (n, false)) (step (mkLacc c fo pr mo None false la) (n, false)) rest.
  Proof.
    intros Hsk Hrest.
    destruct (match sk with Some sd => has_prefix n sd | None => false end) eqn:Em.
    - rewrite step_skipped by (cbn; auto). destruct sk as [sd|]; [|discriminate].
      destruct (good_skip_under n _ sd Hsk eq_refl Em) as [Hc|Hp].
      + destruct (pcmp_lt_facts _ _ Hc) as [_ [_ Hle]].
        destruct (greater_than_prefix n prefix) eqn:Eg.
        * rewrite step_file_gtp by exact Eg. split; [repeat split|]. split; [reflexivity|]. right. split; [reflexivity|].
          right. eapply Forall_impl; [|exact Hrest]. cbn. intros m Hm. eapply gtp_mono; eauto.
        * rewrite step_file_inert by auto. split; [repeat split|]. split; [reflexivity|]. left. auto.
      + destruct (pcmp_lt_facts _ _ Hp) as [Hg [Hnp _]].
        rewrite step_file_inert by auto. split; [repeat split|]. split; [reflexivity|]. left. auto.
    - rewrite step_reset by (cbn; auto). cbn [la_count la_found la_prefixes la_more la_last].
      set (a' := step (mkLacc c fo pr mo None false la) (n, false)).
      split; [apply obs_eq_refl|]. split; [apply step_file_skip_none|].
      destruct (la_done a') eqn:Ed; [right; auto|]. left. repeat split; auto.
      left. apply step_file_skip_none.
  Qed.

  (* one name: its new directories, then the file *)
  Lemma block_sim n ds rest af am :
    (forall d, In d ds -> exists t, n = (d ++ s_sep) ++ t) -> Forall (lex_lt n) rest ->
    winv af am (n :: rest) ->
    winv (fold_left step (map dirent ds ++ [(n, false)]) af) (step am (n, false)) rest.
  Proof.
    intros Hext Hrest [Hobs [Hskm Hcase]]. rewrite fold_left_app. cbn [fold_left].
    destruct Hcase as [[Hdf [Hdm [Hc Hsk]]]|[Hdm Hdead]].
    - destruct af as [c fo pr mo sk df la], am as [c' fo' pr' mo' sk' dm la']. unfold obs_eq in Hobs.
      cbn in Hobs, Hdf, Hdm, Hc, Hsk, Hskm. destruct Hobs as [-> [-> [-> ->]]]. subst.
      destruct (dirs_fold n c' fo' pr' mo' la' ds sk Hext Hsk) as [[sk1 [Hsk1 ->]]|[Hg ->]].
      + apply file_sim; assumption.
      + rewrite step_done by reflexivity. rewrite step_file_gtp by exact Hg.
        split; [repeat split|]. split; [reflexivity|]. right. auto.
    - rewrite (step_done am) by exact Hdm. split; [|split; [exact Hskm|right; split; [exact Hdm|]]].
      + destruct Hdead as [Hdf|Hall].
        * rewrite (fold_step_done _ af Hdf), step_done by exact Hdf. exact Hobs.
        * inversion Hall as [|x y Hn _]; subst.
          eapply obs_eq_trans; [apply step_file_gtp_obs; exact Hn|].
          eapply obs_eq_trans; [apply fold_dirs_obs|exact Hobs].
      + destruct Hdead as [Hdf|Hall].
        * left. rewrite (fold_step_done _ af Hdf), step_done by exact Hdf. exact Hdf.
        * right. inversion Hall; assumption.
  Qed.

  Lemma fs_entries_go_cons seen n r :
    fs_entries_go seen (n :: r)
    = (map dirent (filter (fun d => negb (existsb (beqb d) seen)) (dir_prefixes [] (segs n))) ++ [(n, false)])
      ++ fs_entries_go (filter (fun d => negb (existsb (beqb d) seen)) (dir_prefixes [] (segs n)) ++ seen) r.
  Proof. cbn [fs_entries_go]. rewrite <- app_assoc. reflexivity. Qed.

  Lemma walk_sim names : forall seen af am, StronglySorted lex_lt names -> winv af am names ->
    obs_eq (fold_left step (fs_entries_go seen names) af) (fold_left step (ents names) am).
  Proof.
    induction names as [|n r IH]; intros seen af am Hs Hw; [exact (proj1 Hw)|].
    apply StronglySorted_inv in Hs. destruct Hs as [Hr Hall].
    rewrite fs_entries_go_cons, fold_left_app. cbn [ents map fold_left]. apply IH; [exact Hr|].
    apply block_sim; auto. intros d Hd. apply filter_In in Hd. apply dir_prefix_extends. tauto.
  Qed.

  Lemma step_root a : la_done a = false -> la_skip a = None ->
    step a ([], true) = mkLacc (la_count a) (la_found a) (la_prefixes a) (la_more a) None false (la_last a).
  Proof.
    intros H1 H2. rewrite step_reset by (try rewrite H2; auto). rewrite step_dir.
    rewrite gtp_pcmp, !ltp_pcmp. reflexivity.
  Qed.

  (* the file walk over the names in lex order = the memory walk *)
  Theorem walk_equiv_sorted names : StronglySorted lex_lt names ->
    list_walk delim cursor prefix maxres (([], true) :: fs_entries_go [] names)
    = list_walk delim cursor prefix maxres (ents names).
  Proof.
    intros Hs. unfold list_walk. cbn [fold_left]. fold step. rewrite step_root by reflexivity.
    cbn [la_count la_found la_prefixes la_more la_last].
    destruct (walk_sim names [] (mkLacc 0 [] [] false None false None) (mkLacc 0 [] [] false None false None) Hs) as [H1 [H2 [H3 H4]]].
    { split; [apply obs_eq_refl|]. split; [reflexivity|]. left. repeat split. left. reflexivity. }
    fold step. rewrite H1, H2, H3, H4. reflexivity.
  Qed.
End Walk.

(* ================================================================== *)
(* 4. The file walk of a bucket = the memory walk of the bucket         *)

(* MAIN THEOREM.  For every bucket kept sorted (strictly ascending names, hence duplicate-free:
   what the store invariant gives), every delimiter, cursor, prefix and page size, the file walk
   — root, directory entries, SkipDir pruning, early abort — returns the same
   (found, prefixes, more, last) as the memory walk.
   No "representable" side condition is needed.  In a directory tree a name cannot be a file and a
   directory at once, but [fs_entries] is defined for every name list (a name that is also a
   directory of another name simply yields a file entry and a directory entry with the same path,
   empty segments yield directories such as "a/"), and the simulation below never looks at the
   shape of the names: it only uses (a) a directory entry of n is a string prefix d of n followed
   by "/", (b) the names come in strictly ascending bytewise order. *)
Theorem fs_walk_equiv (bk : bucket) delim cursor prefix maxres :
  asorted bk ->
  list_walk delim cursor prefix maxres (fs_entries bk) = list_walk delim cursor prefix maxres (mem_entries bk).
Proof.
  intros Hs. unfold fs_entries. rewrite (fs_sort_bucket bk Hs), mem_entries_ents.
  apply walk_equiv_sorted. apply asorted_names. exact Hs.
Qed.

(* the same for a bare list of names in strictly ascending order *)
Theorem fs_walk_equiv_names names delim cursor prefix maxres :
  StronglySorted lex_lt names ->
  list_walk delim cursor prefix maxres (([], true) :: fs_entries_go [] (fs_sort names))
  = list_walk delim cursor prefix maxres (ents names).
Proof.
  intros Hs. rewrite (fs_sort_id_on_sorted names (sorted_lt_le names Hs)). apply walk_equiv_sorted. exact Hs.
Qed.

(* without a delimiter the page is the closed form: the first maxres selected names *)
Corollary fs_walk_equiv_nodelim (bk : bucket) cursor prefix maxres :
  asorted bk ->
  list_walk [] cursor prefix maxres (fs_entries bk)
  = (firstn maxres (filter (sel cursor prefix) (map fst bk)), [],
     (maxres <? length (filter (sel cursor prefix) (map fst bk)))%nat,
     last_opt (firstn maxres (filter (sel cursor prefix) (map fst bk)))).
Proof. intros Hs. rewrite fs_walk_equiv by exact Hs. apply page_spec_bucket. exact Hs. Qed.

(* ================================================================== *)
(* 5. The two stores answer alike                                       *)

(* the only thing needed of the state: its buckets are sorted *)
Theorem stores_equivalent_buckets s r :
  (forall b bk, get_bucket s b = Some bk -> asorted bk) -> handle_fs s r = handle s r.
Proof.
  intros Hc. destruct r; try reflexivity. cbn [handle_fs handle]. change gcsDefaultMaxResults with 1000.
  destruct (match maxres with
            | Some ms => match parse_int ms with Some z => if z <? 1 then None else Some z | None => None end
            | None => Some 1000
            end) as [m|]; [|reflexivity].
  destruct (get_bucket s b) as [bk|] eqn:E; [|reflexivity].
  rewrite fs_walk_equiv by (eapply Hc; exact E). reflexivity.
Qed.

(* on every state satisfying the store invariant, every request gets the same answer (and leaves
   the same state) from both stores *)
Theorem stores_equivalent s r : state_ok s -> handle_fs s r = handle s r.
Proof. intros Hok. apply stores_equivalent_buckets. intros b bk H. eapply state_ok_bucket; eauto. Qed.

(* whole histories; the invariant is preserved by [handle] (UploadProofs.state_ok_preserved) *)
Theorem run_fs_equiv rs : forall s, state_ok s -> run_fs s rs = run s rs.
Proof.
  induction rs as [|r rest IH]; intros s Hok; [reflexivity|].
  cbn [run_fs run]. rewrite (stores_equivalent s r Hok).
  pose proof (state_ok_preserved s r Hok) as Hok1. destruct (handle s r) as [s1 rsp]. cbn [fst] in Hok1.
  rewrite (IH s1 Hok1). reflexivity.
Qed.

(* every history from the empty store, no condition on the requests *)
Corollary run_fs_equiv_init rs : run_fs init_state rs = run init_state rs.
Proof. apply run_fs_equiv. apply state_ok_init. Qed.

Corollary run_fs_canon_equiv rs : run_fs_canon rs = run_canon rs.
Proof. unfold run_fs_canon, run_canon. rewrite run_fs_equiv_init. reflexivity. Qed.

(* ================================================================== *)
(* 6. The pruning tests of the walk are sound, for all inputs           *)

(* (a) SkipDir: a directory d below the cursor or below the prefix (up to its length) is not
       entered; no name under d is selected by the listing.
   (b) abort on a directory: a directory beyond the prefix range stops the walk; every name under
       it is beyond the prefix range too, and so (prefix_abort_sound) is every later name of an
       ascending list: none of them has the prefix.
   (a) holds whatever the visiting order; (b) needs the names to come in bytewise order, which is
   what the walk now guarantees (fs_sort_sorted) and what the old order broke. *)
Theorem prune_sound cursor prefix d n : has_prefix n (d ++ s_sep) = true ->
  (less_than_prefix d cursor || less_than_prefix d prefix = true -> sel cursor prefix n = false)
  /\ (greater_than_prefix d prefix = true ->
      greater_than_prefix n prefix = true /\ has_prefix n prefix = false
      /\ forall rest, StronglySorted lex_lt (n :: rest) ->
           Forall (fun g => greater_than_prefix g prefix = true /\ has_prefix g prefix = false) rest).
Proof.
  intros Hp. apply has_prefix_app_inv in Hp. destruct Hp as [t ->]. split.
  - intros Hl. apply orb_prop in Hl. unfold sel. destruct Hl as [Hl|Hl]; apply ltp_lt in Hl.
    + assert (H : pcmp ((d ++ s_sep) ++ t) cursor = Lt) by (rewrite <- app_assoc, pcmp_ext; congruence).
      destruct (pcmp_lt_facts _ _ H) as [_ [_ Hle]]. rewrite lex_ltb_leb, Hle. reflexivity.
    + assert (H : pcmp ((d ++ s_sep) ++ t) prefix = Lt) by (rewrite <- app_assoc, pcmp_ext; congruence).
      destruct (pcmp_lt_facts _ _ H) as [_ [Hnp _]]. rewrite Hnp. apply andb_false_r.
  - intros Hg.
    assert (Hn : greater_than_prefix ((d ++ s_sep) ++ t) prefix = true).
    { rewrite gtp_pcmp in Hg |- *. rewrite <- app_assoc, pcmp_ext; destruct (pcmp d prefix); congruence. }
    split; [exact Hn|]. split; [apply gtp_not_prefix; exact Hn|].
    intros rest Hs. pose proof (prefix_abort_sound _ rest prefix Hs Hn) as H. inversion H; assumption.
Qed.

(* soundness of the file listing on ANY state: every item returned is a stored object whose name
   has the prefix and is above the cursor *)
Theorem fs_list_sound s b prefix delim cursor maxres s' items prefixes next :
  handle_fs s (RList b prefix delim cursor maxres) = (s', mkResp 200 (BList items prefixes next)) ->
  Forall (fun v => exists o, find_obj s b (v_name v) = Some o /\ v = view b (v_name v) o
                    /\ lex_ltb (match cursor with Some c => c | None => [] end) (v_name v) = true
                    /\ has_prefix (v_name v) prefix = true) items.
Proof.
  cbn [handle_fs].
  destruct (match maxres with
            | Some ms => match parse_int ms with Some z => if z <? 1 then None else Some z | None => None end
            | None => Some gcsDefaultMaxResults
            end) as [m|]; [|discriminate].
  unfold find_obj. destruct (get_bucket s b) as [bk|] eqn:E; [|discriminate].
  set (cur := match cursor with Some c => c | None => [] end).
  pose proof (page_sound delim cur prefix (Z.to_nat m) (fs_entries bk)) as Hps.
  destruct (list_walk delim cur prefix (Z.to_nat m) (fs_entries bk)) as [[[found prs] more] lst].
  destruct Hps as [Hf _]. intros H. injection H as _ <- _ _. clear - Hf.
  induction Hf as [|n r [_ [H1 H2]] _ IH]; [constructor|]. cbn [flat_map]. apply Forall_app. split; [|exact IH].
  destruct (alookup n bk) as [o|] eqn:El; constructor; [|constructor]. cbn [view v_name]. exists o. auto.
Qed.

(* ... and completeness, which is what used to fail: on a well-formed state the file listing
   without delimiter returns exactly the first m selected names of the bucket, in order, with a
   page token iff there are more *)
Theorem fs_list_complete s b prefix cursor ms m bk :
  state_ok s -> parse_int ms = Some m -> (1 <= m)%Z -> get_bucket s b = Some bk ->
  let cur := match cursor with Some c => c | None => [] end in
  let F := filter (sel cur prefix) (map fst bk) in
  let found := firstn (Z.to_nat m) F in
  let more := (Z.to_nat m <? length F)%nat in
  exists items,
    handle_fs s (RList b prefix [] cursor (Some ms))
    = (s, mkResp 200 (BList items []
                        (if more then match rev found with l :: _ => Some l | [] => None end else None)))
    /\ map v_name items = found
    /\ Forall (fun v => v_bucket v = b /\ exists o, alookup (v_name v) bk = Some o /\ v = view b (v_name v) o) items.
Proof.
  intros Hok Hp Hm Hb. rewrite (stores_equivalent s _ Hok).
  apply handle_list_page; auto. eapply state_ok_bucket; eauto.
Qed.

(* ================================================================== *)
(* 7. What the repair changed: the old walk order loses a name (GCS-2)  *)

(* the entries the walk produced with filepath.Walk's order *)
Definition fs_entries_walk (bk : bucket) : list (str * bool) :=
  ([], true) :: fs_entries_go [] (fs_sort_walk (map fst bk)).

(* when the two orders agree on a bucket the old walk was right too (the former fs_walk_equiv) *)
Theorem old_walk_equiv_order (bk : bucket) delim cursor prefix maxres :
  asorted bk -> order_compatible (map fst bk) ->
  list_walk delim cursor prefix maxres (fs_entries_walk bk) = list_walk delim cursor prefix maxres (mem_entries bk).
Proof.
  intros Hs Hoc. unfold fs_entries_walk. rewrite Hoc, mem_entries_ents. apply walk_equiv_sorted.
  apply asorted_names. exact Hs.
Qed.

(* bucket "b" holding "foo-bar/x" and "foo/y"; listing with prefix "foo-":
   bytewise "foo-bar/x" < "foo/y" ('-' < '/'), but filepath.Walk visited directory foo before
   foo-bar, met "foo/y" beyond the prefix range and aborted: nothing was listed.  With the names in
   bytewise order "foo-bar/x" is visited first and found. *)
Definition c09_cp0 : cparams := mkCP (PRaw []) (PRaw []) (PRaw []) (PRaw []).
Definition c09_bucket : str := [98]%N.
Definition c09_foo_bar_x : str := [102; 111; 111; 45; 98; 97; 114; 47; 120]%N.
Definition c09_foo_y : str := [102; 111; 111; 47; 121]%N.
Definition c09_foo_dash : str := [102; 111; 111; 45]%N.
Definition c09_state : state :=
  fst (run init_state [RUploadMedia c09_bucket c09_foo_bar_x [116]%N [1]%N c09_cp0;
                       RUploadMedia c09_bucket c09_foo_y [116]%N [2]%N c09_cp0]).
Definition c09_bk : bucket := match get_bucket c09_state c09_bucket with Some bk => bk | None => [] end.
Definition c09_list : req := RList c09_bucket c09_foo_dash [] None None.

Theorem old_walk_order_refuted :
  get_bucket c09_state c09_bucket = Some c09_bk
  /\ map fst c09_bk = [c09_foo_bar_x; c09_foo_y]
  /\ fs_sort_walk (map fst c09_bk) = [c09_foo_y; c09_foo_bar_x]
  /\ fs_sort (map fst c09_bk) = [c09_foo_bar_x; c09_foo_y]
  /\ list_walk [] [] c09_foo_dash 1000 (fs_entries_walk c09_bk) = ([], [], false, None)
  /\ list_walk [] [] c09_foo_dash 1000 (fs_entries c09_bk) = ([c09_foo_bar_x], [], false, Some c09_foo_bar_x)
  /\ list_walk [] [] c09_foo_dash 1000 (mem_entries c09_bk) = ([c09_foo_bar_x], [], false, Some c09_foo_bar_x)
  /\ list_proj (snd (handle_fs c09_state c09_list)) = ([c09_foo_bar_x], [], None)
  /\ handle_fs c09_state c09_list = handle c09_state c09_list.
Proof.
  repeat (split; [timeout 60 vm_compute; reflexivity|]).
  apply stores_equivalent. apply state_ok_run. apply state_ok_init.
Qed.

(* ---- states for the non-vacuity examples ---- *)

(* {"a/b", "a/c/d", "e"}: nested directories *)
Definition c09_ok_state : state :=
  fst (run init_state [RUploadMedia c09_bucket [97; 47; 98]%N [116]%N [1]%N c09_cp0;
                       RUploadMedia c09_bucket [97; 47; 99; 47; 100]%N [116]%N [2]%N c09_cp0;
                       RUploadMedia c09_bucket [101]%N [116]%N [3]%N c09_cp0]).

(* {"a", "a//c", "a/b"}: "a" is a name and a directory of another name, "a//c" has an empty
   segment — not a directory tree, and still covered by the theorems *)
Definition c09_odd_state : state :=
  fst (run init_state [RUploadMedia c09_bucket [97; 47; 98]%N [116]%N [1]%N c09_cp0;
                       RUploadMedia c09_bucket [97]%N [116]%N [2]%N c09_cp0;
                       RUploadMedia c09_bucket [97; 47; 47; 99]%N [116]%N [3]%N c09_cp0]).

(* C09 — the file store's listing walk (GCS/FileList.v) against the memory store's. *)
From Coq Require Import List NArith ZArith Bool Lia Sorting Permutation.
Import ListNotations.
From Emu.Common Require Import Bytes Str StrProofs.
From Emu.Gen Require Import Consts.
From Emu.GCS Require Import Model FileList StoreProofs UploadProofs ListingProofs.
Local Open Scope Z_scope.

(* ================================================================== *)
(* 1. The walk order: fs_sort sorts by segment lists                    *)

Lemma segs_cmp_refl a : segs_cmp a a = Eq.
Proof. induction a as [|x xs IH]; cbn; auto. rewrite lex_refl. exact IH. Qed.

Lemma segs_cmp_eq a : forall b, segs_cmp a b = Eq -> a = b.
Proof.
  induction a as [|x xs IH]; intros [|y ys] H; cbn in *; try discriminate; auto.
  destruct (lex_cmp x y) eqn:E; try discriminate. apply lex_eq in E. subst. f_equal. auto.
Qed.

Lemma segs_cmp_antisym a : forall b, segs_cmp b a = CompOpp (segs_cmp a b).
Proof.
  induction a as [|x xs IH]; intros [|y ys]; cbn; auto.
  rewrite (lex_antisym x y). destruct (lex_cmp x y); cbn; auto.
Qed.

Definition segs_lt (a b : list bytes) : Prop := segs_cmp a b = Lt.
Definition segs_le (a b : list bytes) : Prop := segs_cmp a b <> Gt.

Lemma segs_lt_trans a : forall b c, segs_lt a b -> segs_lt b c -> segs_lt a c.
Proof.
  unfold segs_lt. induction a as [|x xs IH]; intros [|y ys] [|z zs] H1 H2; cbn in *; try discriminate; auto.
  destruct (lex_cmp x y) eqn:E1; try discriminate.
  - apply lex_eq in E1. subst y. destruct (lex_cmp x z) eqn:E2; try discriminate; auto. eapply IH; eauto.
  - destruct (lex_cmp y z) eqn:E2; try discriminate.
    + apply lex_eq in E2. subst z. rewrite E1. auto.
    + assert (H : lex_cmp x z = Lt) by (eapply lex_lt_trans; eauto). rewrite H. auto.
Qed.

Lemma segs_le_trans a b c : segs_le a b -> segs_le b c -> segs_le a c.
Proof.
  unfold segs_le. intros H1 H2.
  destruct (segs_cmp a b) eqn:E1; [apply segs_cmp_eq in E1; subst; exact H2| |congruence].
  destruct (segs_cmp b c) eqn:E2; [apply segs_cmp_eq in E2; subst; congruence| |congruence].
  rewrite (segs_lt_trans a b c E1 E2). discriminate.
Qed.

Lemma segs_le_total a b : segs_le a b \/ segs_le b a.
Proof.
  unfold segs_le. rewrite (segs_cmp_antisym a b). destruct (segs_cmp a b); cbn; [left|left|right]; discriminate.
Qed.

(* the order on names the file walk uses *)
Definition name_le (n m : str) : Prop := segs_le (segs n) (segs m).

Lemma sinsert_perm n l : Permutation (n :: l) (sinsert n l).
Proof.
  induction l as [|m r IH]; cbn; [apply Permutation_refl|].
  destruct (segs_cmp (segs n) (segs m)); try apply Permutation_refl.
  eapply perm_trans; [apply perm_swap|]. apply perm_skip. exact IH.
Qed.

Theorem fs_sort_perm names : Permutation names (fs_sort names).
Proof.
  induction names as [|n r IH]; cbn; [constructor|].
  eapply perm_trans; [apply perm_skip; exact IH|]. apply sinsert_perm.
Qed.

Lemma sinsert_sorted n l : StronglySorted name_le l -> StronglySorted name_le (sinsert n l).
Proof.
  induction l as [|m r IH]; intros Hs; cbn.
  - constructor; constructor.
  - apply StronglySorted_inv in Hs. destruct Hs as [Hr Hall].
    assert (Hcase : forall c, segs_cmp (segs n) (segs m) = c -> c <> Gt ->
                    StronglySorted name_le (n :: m :: r)).
    { intros c Ec Hc. constructor; [constructor; assumption|].
      assert (Hnm : name_le n m) by (unfold name_le, segs_le; rewrite Ec; exact Hc).
      constructor; [exact Hnm|]. eapply Forall_impl; [|exact Hall]. cbn. intros x Hx.
      eapply segs_le_trans; eauto. }
    destruct (segs_cmp (segs n) (segs m)) eqn:E.
    + eapply Hcase; [reflexivity|discriminate].
    + eapply Hcase; [reflexivity|discriminate].
    + constructor; [apply IH; exact Hr|].
      assert (Hmn : name_le m n).
      { unfold name_le, segs_le. rewrite (segs_cmp_antisym (segs n) (segs m)), E. cbn. discriminate. }
      eapply Permutation_Forall; [apply sinsert_perm|]. constructor; assumption.
Qed.

Theorem fs_sort_sorted names : StronglySorted name_le (fs_sort names).
Proof. induction names as [|n r IH]; cbn; [constructor|]. apply sinsert_sorted. exact IH. Qed.

(* ================================================================== *)
(* 4. The two stores answer a listing differently (finding GCS-2)       *)

(* bucket "b" holding "foo-bar/x" and "foo/y"; listing with prefix "foo-":
   bytewise "foo-bar/x" < "foo/y" ('-' < '/'), but the directory walk visits foo/ before
   foo-bar/, meets "foo/y" > prefix range and aborts: the file store returns nothing. *)
Definition c09_cp0 : cparams := mkCP (PRaw []) (PRaw []) (PRaw []) (PRaw []).
Definition c09_bucket : str := [98]%N.
Definition c09_foo_bar_x : str := [102; 111; 111; 45; 98; 97; 114; 47; 120]%N.
Definition c09_foo_y : str := [102; 111; 111; 47; 121]%N.
Definition c09_state : state :=
  fst (run init_state [RUploadMedia c09_bucket c09_foo_bar_x [116]%N [1]%N c09_cp0;
                       RUploadMedia c09_bucket c09_foo_y [116]%N [2]%N c09_cp0]).
Definition c09_list : req := RList c09_bucket [102; 111; 111; 45]%N [] None None.

Theorem stores_listing_refuted :
  list_proj (snd (handle c09_state c09_list)) = ([c09_foo_bar_x], [], None)
  /\ list_proj (snd (handle_fs c09_state c09_list)) = ([], [], None)
  /\ handle_fs c09_state c09_list <> handle c09_state c09_list.
Proof.
  split; [timeout 60 vm_compute; reflexivity|]. split; [timeout 60 vm_compute; reflexivity|].
  intros H. apply (f_equal (fun x => list_proj (snd x))) in H. revert H. timeout 60 vm_compute. discriminate.
Qed.

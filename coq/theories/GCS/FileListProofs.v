(* C09 — the file store's listing walk (GCS/FileList.v) against the memory store's. *)
From Coq Require Import List NArith ZArith Bool Lia Sorting Permutation.
Import ListNotations.
From Emu.Common Require Import Bytes Str StrProofs.
From Emu.Gen Require Import Consts.
From Emu.GCS Require Import Model FileList StoreProofs UploadProofs ListingProofs.
Local Open Scope Z_scope.

(* ================================================================== *)
(* 1. The walk order: fs_sort sorts by segment lists                    *)

Lemma segs_cmp_refl a : segs_cmp a a = Eq.
Proof. induction a as [|x xs IH]; cbn; auto. rewrite lex_refl. exact IH. Qed.

Lemma segs_cmp_eq a : forall b, segs_cmp a b = Eq -> a = b.
Proof.
  induction a as [|x xs IH]; intros [|y ys] H; cbn in *; try discriminate; auto.
  destruct (lex_cmp x y) eqn:E; try discriminate. apply lex_eq in E. subst. f_equal. auto.
Qed.

Lemma segs_cmp_antisym a : forall b, segs_cmp b a = CompOpp (segs_cmp a b).
Proof.
  induction a as [|x xs IH]; intros [|y ys]; cbn; auto.
  rewrite (lex_antisym x y). destruct (lex_cmp x y); cbn; auto.
Qed.

Definition segs_lt (a b : list bytes) : Prop := segs_cmp a b = Lt.
Definition segs_le (a b : list bytes) : Prop := segs_cmp a b <> Gt.

Lemma segs_lt_trans a : forall b c, segs_lt a b -> segs_lt b c -> segs_lt a c.
Proof.
  unfold segs_lt. induction a as [|x xs IH]; intros [|y ys] [|z zs] H1 H2; cbn in *; try discriminate; auto.
  destruct (lex_cmp x y) eqn:E1; try discriminate.
  - apply lex_eq in E1. subst y. destruct (lex_cmp x z) eqn:E2; try discriminate; auto. eapply IH; eauto.
  - destruct (lex_cmp y z) eqn:E2; try discriminate.
    + apply lex_eq in E2. subst z. rewrite E1. auto.
    + assert (H : lex_cmp x z = Lt) by (eapply lex_lt_trans; eauto). rewrite H. auto.
Qed.

Lemma segs_le_trans a b c : segs_le a b -> segs_le b c -> segs_le a c.
Proof.
  unfold segs_le. intros H1 H2.
  destruct (segs_cmp a b) eqn:E1; [apply segs_cmp_eq in E1; subst; exact H2| |congruence].
  destruct (segs_cmp b c) eqn:E2; [apply segs_cmp_eq in E2; subst; congruence| |congruence].
  rewrite (segs_lt_trans a b c E1 E2). discriminate.
Qed.

Lemma segs_le_total a b : segs_le a b \/ segs_le b a.
Proof.
  unfold segs_le. rewrite (segs_cmp_antisym a b). destruct (segs_cmp a b); cbn; [left|left|right]; discriminate.
Qed.

(* the order on names the file walk uses *)
Definition name_le (n m : str) : Prop := segs_le (segs n) (segs m).

Lemma sinsert_perm n l : Permutation (n :: l) (sinsert n l).
Proof.
  induction l as [|m r IH]; cbn; [apply Permutation_refl|].
  destruct (segs_cmp (segs n) (segs m)); try apply Permutation_refl.
  eapply perm_trans; [apply perm_swap|]. apply perm_skip. exact IH.
Qed.

Theorem fs_sort_perm names : Permutation names (fs_sort names).
Proof.
  induction names as [|n r IH]; cbn; [constructor|].
  eapply perm_trans; [apply perm_skip; exact IH|]. apply sinsert_perm.
Qed.

Lemma sinsert_sorted n l : StronglySorted name_le l -> StronglySorted name_le (sinsert n l).
Proof.
  induction l as [|m r IH]; intros Hs; cbn.
  - constructor; constructor.
  - apply StronglySorted_inv in Hs. destruct Hs as [Hr Hall].
    assert (Hcase : forall c, segs_cmp (segs n) (segs m) = c -> c <> Gt ->
                    StronglySorted name_le (n :: m :: r)).
    { intros c Ec Hc. constructor; [constructor; assumption|].
      assert (Hnm : name_le n m) by (unfold name_le, segs_le; rewrite Ec; exact Hc).
      constructor; [exact Hnm|]. eapply Forall_impl; [|exact Hall]. cbn. intros x Hx.
      eapply segs_le_trans; eauto. }
    destruct (segs_cmp (segs n) (segs m)) eqn:E.
    + eapply Hcase; [reflexivity|discriminate].
    + eapply Hcase; [reflexivity|discriminate].
    + constructor; [apply IH; exact Hr|].
      assert (Hmn : name_le m n).
      { unfold name_le, segs_le. rewrite (segs_cmp_antisym (segs n) (segs m)), E. cbn. discriminate. }
      eapply Permutation_Forall; [apply sinsert_perm|]. constructor; assumption.
Qed.

Theorem fs_sort_sorted names : StronglySorted name_le (fs_sort names).
Proof. induction names as [|n r IH]; cbn; [constructor|]. apply sinsert_sorted. exact IH. Qed.

(* ================================================================== *)
(* 4. The two stores answer a listing differently (finding GCS-2)       *)

(* bucket "b" holding "foo-bar/x" and "foo/y"; listing with prefix "foo-":
   bytewise "foo-bar/x" < "foo/y" ('-' < '/'), but the directory walk visits foo/ before
   foo-bar/, meets "foo/y" > prefix range and aborts: the file store returns nothing. *)
Definition c09_cp0 : cparams := mkCP (PRaw []) (PRaw []) (PRaw []) (PRaw []).
Definition c09_bucket : str := [98]%N.
Definition c09_foo_bar_x : str := [102; 111; 111; 45; 98; 97; 114; 47; 120]%N.
Definition c09_foo_y : str := [102; 111; 111; 47; 121]%N.
Definition c09_state : state :=
  fst (run init_state [RUploadMedia c09_bucket c09_foo_bar_x [116]%N [1]%N c09_cp0;
                       RUploadMedia c09_bucket c09_foo_y [116]%N [2]%N c09_cp0]).
Definition c09_list : req := RList c09_bucket [102; 111; 111; 45]%N [] None None.

Theorem stores_listing_refuted :
  list_proj (snd (handle c09_state c09_list)) = ([c09_foo_bar_x], [], None)
  /\ list_proj (snd (handle_fs c09_state c09_list)) = ([], [], None)
  /\ handle_fs c09_state c09_list <> handle c09_state c09_list.
Proof.
  split; [timeout 60 vm_compute; reflexivity|]. split; [timeout 60 vm_compute; reflexivity|].
  intros H. apply (f_equal (fun x => list_proj (snd x))) in H. revert H. timeout 60 vm_compute. discriminate.
Qed.

(* ================================================================== *)
(* 2. Order-compatible and representable name sets                      *)

(* the bytewise order and the segment-list order agree on the names: the file walk visits a
   lex-ascending list of names in that same order *)
Definition order_compatible (names : list str) : Prop := fs_sort names = names.

(* what a file system can hold: no empty name, no empty path segment, no name that is also a
   directory of another name *)
Definition proper_dir_prefix (n m : str) : Prop := exists t, t <> [] /\ segs m = segs n ++ t.
Definition representable (names : list str) : Prop :=
  Forall (fun n => n <> [] /\ ~ In [] (segs n)) names
  /\ forall n m, In n names -> In m names -> ~ proper_dir_prefix n m.

Lemma sorted_fs_sort_id names : StronglySorted name_le names -> fs_sort names = names.
Proof.
  induction 1 as [|n r Hr IH Hall]; [reflexivity|]. cbn [fs_sort fold_right]. fold (fs_sort r). rewrite IH.
  destruct r as [|m r']; [reflexivity|]. cbn [sinsert]. inversion Hall as [|x y Hnm _]; subst.
  unfold name_le, segs_le in Hnm. destruct (segs_cmp (segs n) (segs m)); try reflexivity. congruence.
Qed.

Lemma order_compatible_iff names : order_compatible names <-> StronglySorted name_le names.
Proof.
  split; [|apply sorted_fs_sort_id]. unfold order_compatible. intros H. rewrite <- H. apply fs_sort_sorted.
Qed.

(* ================================================================== *)
(* 3. Comparison up to the shorter length, and what the walk tests mean *)

Fixpoint pcmp (a p : bytes) : comparison :=
  match a, p with
  | x :: xs, y :: ps => match N.compare x y with Eq => pcmp xs ps | c => c end
  | _, _ => Eq
  end.

Lemma gtp_pcmp p : forall a, greater_than_prefix a p = match pcmp a p with Gt => true | _ => false end.
Proof.
  intros a. rewrite greater_than_prefix_alt. unfold lex_gtb, lex_ltb. revert a.
  induction p as [|y ps IH]; intros a.
  - cbn. destruct a; reflexivity.
  - destruct a as [|x xs]; [reflexivity|]. cbn [length firstn lex_cmp pcmp].
    rewrite (N.compare_antisym x y). destruct (N.compare x y); cbn [CompOpp]; auto.
Qed.

Lemma ltp_pcmp a : forall p, less_than_prefix a p = match pcmp a p with Lt => true | _ => false end.
Proof.
  unfold less_than_prefix, lex_ltb. induction a as [|x xs IH]; intros p.
  - destruct p; reflexivity.
  - destruct p as [|y ps]; [reflexivity|]. cbn [pcmp]. specialize (IH ps).
    change (length (x :: xs) <? length (y :: ps))%nat with (length xs <? length ps)%nat.
    destruct (length xs <? length ps)%nat; cbn [length firstn lex_cmp]; destruct (N.compare x y); auto.
Qed.

Lemma pcmp_ext d t : forall p, pcmp d p <> Eq -> pcmp (d ++ t) p = pcmp d p.
Proof.
  induction d as [|x xs IH]; intros p H; [cbn in H; congruence|]. destruct p as [|y ps]; [cbn in H; congruence|].
  cbn [app pcmp] in *. destruct (N.compare x y); auto.
Qed.

Lemma pcmp_lt_lex n : forall c, pcmp n c = Lt -> lex_cmp n c = Lt.
Proof.
  induction n as [|x xs IH]; intros [|y ys] H; cbn in *; try discriminate.
  destruct (N.compare x y); auto; discriminate.
Qed.

Lemma has_prefix_pcmp n : forall p, has_prefix n p = true -> pcmp n p = Eq.
Proof.
  induction n as [|x xs IH]; intros [|y ps] H; cbn in *; try reflexivity; try discriminate.
  apply andb_prop in H. destruct H as [H1 H2]. apply N.eqb_eq in H1. subst. rewrite N.compare_refl. auto.
Qed.

Lemma has_prefix_app_inv n : forall p, has_prefix n p = true -> exists t, n = p ++ t.
Proof.
  induction n as [|x xs IH]; intros [|y ps] H; cbn in *; try discriminate; eauto.
  apply andb_prop in H. destruct H as [H1 H2]. apply N.eqb_eq in H1. subst. destruct (IH _ H2) as [t ->]. eauto.
Qed.

(* ---- split / join ---- *)

Lemma split_go_nonempty sep s : forall skip cur, split_go sep skip cur s <> [].
Proof.
  induction s as [|c r IH]; intros skip cur; cbn [split_go]; [discriminate|].
  destruct skip; [|apply IH]. destruct (has_prefix (c :: r) sep); [discriminate|apply IH].
Qed.

Lemma join_segs_cons x l : l <> [] -> join_segs (x :: l) = x ++ s_sep ++ join_segs l.
Proof. destruct l; [congruence|reflexivity]. Qed.

Lemma join_split_go s : forall cur, join_segs (split_go s_sep 0 cur s) = rev cur ++ s.
Proof.
  induction s as [|c r IH]; intros cur; cbn [split_go].
  - cbn. rewrite app_nil_r. reflexivity.
  - unfold s_sep at 1. cbn [has_prefix]. rewrite has_prefix_nil, andb_true_r.
    destruct (N.eqb_spec c 47) as [->|Hne].
    + change (length s_sep - 1)%nat with 0%nat. rewrite join_segs_cons by apply split_go_nonempty.
      rewrite (IH []). reflexivity.
    + rewrite (IH (c :: cur)). cbn [rev]. rewrite <- app_assoc. reflexivity.
Qed.

Lemma join_segs_segs n : join_segs (segs n) = n.
Proof. unfold segs, split. apply join_split_go. Qed.

Lemma join_segs_app l1 : forall l2, l1 <> [] -> l2 <> [] ->
  join_segs (l1 ++ l2) = join_segs l1 ++ s_sep ++ join_segs l2.
Proof.
  induction l1 as [|x r IH]; intros l2 H1 H2; [congruence|]. destruct r as [|y r'].
  - cbn [app]. rewrite join_segs_cons by exact H2. reflexivity.
  - change ((x :: y :: r') ++ l2) with (x :: ((y :: r') ++ l2)).
    rewrite !join_segs_cons by discriminate. rewrite IH by (auto; discriminate). rewrite <- !app_assoc. reflexivity.
Qed.

Lemma dir_prefixes_spec ss : forall acc d, In d (dir_prefixes acc ss) ->
  exists l1 l2, ss = l1 ++ l2 /\ l1 <> [] /\ l2 <> [] /\ d = join_segs (acc ++ l1).
Proof.
  induction ss as [|x r IH]; intros acc d H; [destruct H|]. cbn [dir_prefixes] in H.
  destruct r as [|y r']; [destruct H|]. destruct H as [<-|H].
  - exists [x], (y :: r'). repeat split; discriminate.
  - apply IH in H. destruct H as [l1 [l2 [E [H1 [H2 ->]]]]]. exists (x :: l1), l2.
    repeat split; try discriminate; auto.
    + cbn [app]. rewrite E. reflexivity.
    + rewrite <- app_assoc. reflexivity.
Qed.

(* a directory of a name is a proper string prefix of it, followed by the separator *)
Lemma dir_prefix_extends n d : In d (dir_prefixes [] (segs n)) -> exists t, n = (d ++ s_sep) ++ t.
Proof.
  intros H. apply dir_prefixes_spec in H. destruct H as [l1 [l2 [E [H1 [H2 ->]]]]]. cbn [app].
  exists (join_segs l2). rewrite <- app_assoc, <- join_segs_app by assumption. rewrite <- E. symmetry. apply join_segs_segs.
Qed.

(* ================================================================== *)
(* 4. The two walks return the same page                                *)

Section Walk.
  Variables delim cursor prefix : str.
  Variable maxres : nat.
  Let step := list_step delim cursor prefix maxres.

  Definition dirent (d : str) : str * bool := (d, true).

  Lemma step_done a e : la_done a = true -> step a e = a.
  Proof. intros H. unfold step, list_step. destruct e. rewrite H. reflexivity. Qed.

  Lemma step_skipped a f isd : la_done a = false ->
    match la_skip a with Some sd => has_prefix f sd | None => false end = true -> step a (f, isd) = a.
  Proof. intros H1 H2. unfold step, list_step. rewrite H1, H2. reflexivity. Qed.

  Lemma step_reset a f isd : la_done a = false ->
    match la_skip a with Some sd => has_prefix f sd | None => false end = false ->
    step a (f, isd) = step (mkLacc (la_count a) (la_found a) (la_prefixes a) (la_more a) None false) (f, isd).
  Proof. intros H1 H2. unfold step, list_step. rewrite H1, H2. reflexivity. Qed.

  Lemma step_dir c fo pr mo d :
    step (mkLacc c fo pr mo None false) (d, true)
    = if greater_than_prefix d prefix then mkLacc c fo pr mo None true
      else if less_than_prefix d cursor || less_than_prefix d prefix
           then mkLacc c fo pr mo (Some (d ++ s_sep)) false
           else mkLacc c fo pr mo None false.
  Proof. reflexivity. Qed.

  Lemma step_file_gtp c fo pr mo n : greater_than_prefix n prefix = true ->
    step (mkLacc c fo pr mo None false) (n, false) = mkLacc c fo pr mo None true.
  Proof. intros H. unfold step, list_step. cbn. rewrite H. reflexivity. Qed.

  Lemma step_file_inert c fo pr mo n : greater_than_prefix n prefix = false ->
    lex_leb n cursor = true \/ has_prefix n prefix = false ->
    step (mkLacc c fo pr mo None false) (n, false) = mkLacc c fo pr mo None false.
  Proof.
    intros H1 H2. unfold step, list_step. cbn. rewrite H1. destruct (lex_leb n cursor); [reflexivity|].
    destruct H2 as [H2|H2]; [discriminate|]. rewrite H2. reflexivity.
  Qed.

  Lemma step_file_skip_none c fo pr mo n : la_skip (step (mkLacc c fo pr mo None false) (n, false)) = None.
  Proof.
    unfold step, list_step. cbn [la_done la_skip la_count la_found la_prefixes la_more].
    repeat match goal with
    | |- context [match ?x with _ => _ end] =>
        lazymatch x with
        | context [match _ with _ => _ end] => fail
        | _ => destruct x
        end
    end; reflexivity.
  Qed.

  Definition obs_eq (a b : lacc) : Prop :=
    la_found a = la_found b /\ la_prefixes a = la_prefixes b /\ la_more a = la_more b.

  Lemma obs_eq_refl a : obs_eq a a.
  Proof. repeat split. Qed.
  Lemma obs_eq_trans a b c : obs_eq a b -> obs_eq b c -> obs_eq a c.
  Proof. unfold obs_eq. intuition congruence. Qed.

  (* directory entries never contribute an item, a prefix or the "more" flag *)
  Lemma step_dir_obs a d : obs_eq (step a (d, true)) a.
  Proof.
    unfold step, list_step. destruct (la_done a); [apply obs_eq_refl|].
    destruct (match la_skip a with Some d0 => has_prefix d d0 | None => false end); [apply obs_eq_refl|].
    cbn [la_count la_found la_prefixes la_more]. destruct (greater_than_prefix d prefix); [repeat split|].
    destruct (less_than_prefix d cursor || less_than_prefix d prefix); repeat split.
  Qed.

  Lemma step_file_gtp_obs a n : greater_than_prefix n prefix = true -> obs_eq (step a (n, false)) a.
  Proof.
    intros H. unfold step, list_step. destruct (la_done a); [apply obs_eq_refl|].
    destruct (match la_skip a with Some d0 => has_prefix n d0 | None => false end); [apply obs_eq_refl|].
    cbn [la_count la_found la_prefixes la_more]. rewrite H. repeat split.
  Qed.

  Lemma fold_dirs_obs ds : forall a, obs_eq (fold_left step (map dirent ds) a) a.
  Proof.
    induction ds as [|d r IH]; intros a; [apply obs_eq_refl|]. cbn [map fold_left].
    eapply obs_eq_trans; [apply IH|apply step_dir_obs].
  Qed.

  Lemma fold_step_done l : forall a, la_done a = true -> fold_left step l a = a.
  Proof. induction l as [|e r IH]; intros a H; [reflexivity|]. cbn [fold_left]. rewrite step_done by exact H. auto. Qed.

  (* SkipDir is only ever set on a directory that is, up to its length, below the cursor or below
     the prefix: everything under it is below too *)
  Definition good_skip (sk : option str) : Prop :=
    sk = None \/ exists d, sk = Some (d ++ s_sep) /\ (pcmp d cursor = Lt \/ pcmp d prefix = Lt).

  Definition winv (af am : lacc) (rest : list str) : Prop :=
    obs_eq af am /\ la_skip am = None /\
    ((la_done af = false /\ la_done am = false /\ la_count af = la_count am /\ good_skip (la_skip af))
     \/ (la_done am = true /\ (la_done af = true \/ Forall (fun m => greater_than_prefix m prefix = true) rest))).

  Lemma ltp_lt d X : less_than_prefix d X = true -> pcmp d X = Lt.
  Proof. rewrite ltp_pcmp. destruct (pcmp d X); congruence. Qed.

  Lemma pcmp_lt_facts n X : pcmp n X = Lt ->
    greater_than_prefix n X = false /\ has_prefix n X = false /\ lex_leb n X = true.
  Proof.
    intros H. split; [rewrite gtp_pcmp, H; reflexivity|]. split.
    - destruct (has_prefix n X) eqn:E; [|reflexivity]. apply has_prefix_pcmp in E. congruence.
    - unfold lex_leb. rewrite (pcmp_lt_lex _ _ H). reflexivity.
  Qed.

  (* the directory entries of one name *)
  Lemma dirs_fold n c fo pr mo : forall ds sk,
    (forall d, In d ds -> exists t, n = (d ++ s_sep) ++ t) -> good_skip sk ->
    (exists sk', good_skip sk' /\ fold_left step (map dirent ds) (mkLacc c fo pr mo sk false) = mkLacc c fo pr mo sk' false)
    \/ (greater_than_prefix n prefix = true
        /\ fold_left step (map dirent ds) (mkLacc c fo pr mo sk false) = mkLacc c fo pr mo None true).
  Proof.
    induction ds as [|d r IH]; intros sk Hext Hsk; [left; exists sk; auto|]. cbn [map fold_left]. change (dirent d) with (d, true).
    assert (Hr : forall d0, In d0 r -> exists t, n = (d0 ++ s_sep) ++ t) by (intros d0 H0; apply Hext; right; exact H0).
    destruct (match sk with Some sd => has_prefix d sd | None => false end) eqn:Em.
    - rewrite step_skipped by (cbn; auto). apply IH; auto.
    - rewrite step_reset by (cbn; auto). cbn [la_count la_found la_prefixes la_more]. rewrite step_dir.
      destruct (greater_than_prefix d prefix) eqn:Eg.
      + right. rewrite fold_step_done by reflexivity. split; [|reflexivity].
        destruct (Hext d (or_introl eq_refl)) as [t ->]. rewrite gtp_pcmp in Eg |- *.
        rewrite <- app_assoc, pcmp_ext; destruct (pcmp d prefix); congruence.
      + destruct (less_than_prefix d cursor || less_than_prefix d prefix) eqn:El.
        * apply IH; auto. right. exists d. split; [reflexivity|]. apply orb_prop in El.
          destruct El as [El|El]; [left|right]; apply ltp_lt; exact El.
        * apply IH; auto. left. reflexivity.
  Qed.

  Lemma good_skip_under n sk sd : good_skip sk -> sk = Some sd -> has_prefix n sd = true ->
    pcmp n cursor = Lt \/ pcmp n prefix = Lt.
  Proof.
    intros [->|[d [-> Hd]]] E Hp; [discriminate|]. injection E as <-.
    apply has_prefix_app_inv in Hp. destruct Hp as [t ->]. rewrite <- app_assoc.
    destruct Hd as [Hd|Hd]; [left|right]; rewrite pcmp_ext; congruence.
  Qed.

  (* the file entry of a name, both walks in step *)
  Lemma file_sim n c fo pr mo sk rest : good_skip sk -> Forall (lex_lt n) rest ->
    winv (step (mkLacc c fo pr mo sk false) (n, false)) (step (mkLacc c fo pr mo None false) (n, false)) rest.
  Proof.
    intros Hsk Hrest.
    destruct (match sk with Some sd => has_prefix n sd | None => false end) eqn:Em.
    - rewrite step_skipped by (cbn; auto). destruct sk as [sd|]; [|discriminate].
      destruct (good_skip_under n _ sd Hsk eq_refl Em) as [Hc|Hp].
      + destruct (pcmp_lt_facts _ _ Hc) as [_ [_ Hle]].
        destruct (greater_than_prefix n prefix) eqn:Eg.
        * rewrite step_file_gtp by exact Eg. split; [repeat split|]. split; [reflexivity|]. right. split; [reflexivity|].
          right. eapply Forall_impl; [|exact Hrest]. cbn. intros m Hm. eapply gtp_mono; eauto.
        * rewrite step_file_inert by auto. split; [repeat split|]. split; [reflexivity|]. left. auto.
      + destruct (pcmp_lt_facts _ _ Hp) as [Hg [Hnp _]].
        rewrite step_file_inert by auto. split; [repeat split|]. split; [reflexivity|]. left. auto.
    - rewrite step_reset by (cbn; auto). cbn [la_count la_found la_prefixes la_more].
      set (a' := step (mkLacc c fo pr mo None false) (n, false)).
      split; [apply obs_eq_refl|]. split; [apply step_file_skip_none|].
      destruct (la_done a') eqn:Ed; [right; auto|]. left. repeat split; auto.
      left. apply step_file_skip_none.
  Qed.

  (* one name: its new directories, then the file *)
  Lemma block_sim n ds rest af am :
    (forall d, In d ds -> exists t, n = (d ++ s_sep) ++ t) -> Forall (lex_lt n) rest ->
    winv af am (n :: rest) ->
    winv (fold_left step (map dirent ds ++ [(n, false)]) af) (step am (n, false)) rest.
  Proof.
    intros Hext Hrest [Hobs [Hskm Hcase]]. rewrite fold_left_app. cbn [fold_left].
    destruct Hcase as [[Hdf [Hdm [Hc Hsk]]]|[Hdm Hdead]].
    - destruct af as [c fo pr mo sk df], am as [c' fo' pr' mo' sk' dm]. unfold obs_eq in Hobs.
      cbn in Hobs, Hdf, Hdm, Hc, Hsk, Hskm. destruct Hobs as [-> [-> ->]]. subst.
      destruct (dirs_fold n c' fo' pr' mo' ds sk Hext Hsk) as [[sk1 [Hsk1 ->]]|[Hg ->]].
      + apply file_sim; assumption.
      + rewrite step_done by reflexivity. rewrite step_file_gtp by exact Hg.
        split; [repeat split|]. split; [reflexivity|]. right. auto.
    - rewrite (step_done am) by exact Hdm. split; [|split; [exact Hskm|right; split; [exact Hdm|]]].
      + destruct Hdead as [Hdf|Hall].
        * rewrite (fold_step_done _ af Hdf), step_done by exact Hdf. exact Hobs.
        * inversion Hall as [|x y Hn _]; subst.
          eapply obs_eq_trans; [apply step_file_gtp_obs; exact Hn|].
          eapply obs_eq_trans; [apply fold_dirs_obs|exact Hobs].
      + destruct Hdead as [Hdf|Hall].
        * left. rewrite (fold_step_done _ af Hdf), step_done by exact Hdf. exact Hdf.
        * right. inversion Hall; assumption.
  Qed.

  Lemma fs_entries_go_cons seen n r :
    fs_entries_go seen (n :: r)
    = (map dirent (filter (fun d => negb (existsb (beqb d) seen)) (dir_prefixes [] (segs n))) ++ [(n, false)])
      ++ fs_entries_go (filter (fun d => negb (existsb (beqb d) seen)) (dir_prefixes [] (segs n)) ++ seen) r.
  Proof. cbn [fs_entries_go]. rewrite <- app_assoc. reflexivity. Qed.

  Lemma walk_sim names : forall seen af am, StronglySorted lex_lt names -> winv af am names ->
    obs_eq (fold_left step (fs_entries_go seen names) af) (fold_left step (ents names) am).
  Proof.
    induction names as [|n r IH]; intros seen af am Hs Hw; [exact (proj1 Hw)|].
    apply StronglySorted_inv in Hs. destruct Hs as [Hr Hall].
    rewrite fs_entries_go_cons, fold_left_app. cbn [ents map fold_left]. apply IH; [exact Hr|].
    apply block_sim; auto. intros d Hd. apply filter_In in Hd. apply dir_prefix_extends. tauto.
  Qed.

  Lemma step_root a : la_done a = false -> la_skip a = None ->
    step a ([], true) = mkLacc (la_count a) (la_found a) (la_prefixes a) (la_more a) None false.
  Proof.
    intros H1 H2. rewrite step_reset by (try rewrite H2; auto). rewrite step_dir.
    rewrite gtp_pcmp, !ltp_pcmp. reflexivity.
  Qed.

  (* the file walk over the names in lex order = the memory walk *)
  Theorem walk_equiv_sorted names : StronglySorted lex_lt names ->
    list_walk delim cursor prefix maxres (([], true) :: fs_entries_go [] names)
    = list_walk delim cursor prefix maxres (ents names).
  Proof.
    intros Hs. unfold list_walk. cbn [fold_left]. fold step. rewrite step_root by reflexivity.
    cbn [la_count la_found la_prefixes la_more].
    destruct (walk_sim names [] (mkLacc 0 [] [] false None false) (mkLacc 0 [] [] false None false) Hs) as [H1 [H2 H3]].
    { split; [apply obs_eq_refl|]. split; [reflexivity|]. left. repeat split. left. reflexivity. }
    fold step. rewrite H1, H2, H3. reflexivity.
  Qed.
End Walk.

(* fs_walk_equiv, from order-compatibility alone (the model needs no more) *)
Theorem fs_walk_equiv_order (bk : bucket) delim cursor prefix maxres :
  asorted bk -> order_compatible (map fst bk) ->
  list_walk delim cursor prefix maxres (fs_entries bk) = list_walk delim cursor prefix maxres (mem_entries bk).
Proof.
  intros Hs Hoc. unfold fs_entries. rewrite Hoc, mem_entries_ents. apply walk_equiv_sorted. apply asorted_names. exact Hs.
Qed.

Theorem fs_walk_equiv (bk : bucket) delim cursor prefix maxres :
  asorted bk -> representable (map fst bk) -> order_compatible (map fst bk) ->
  list_walk delim cursor prefix maxres (fs_entries bk) = list_walk delim cursor prefix maxres (mem_entries bk).
Proof. intros Hs _ Hoc. apply fs_walk_equiv_order; assumption. Qed.

Corollary fs_walk_equiv_nodelim (bk : bucket) cursor prefix maxres :
  asorted bk -> order_compatible (map fst bk) ->
  list_walk [] cursor prefix maxres (fs_entries bk)
  = (firstn maxres (filter (sel cursor prefix) (map fst bk)), [],
     (maxres <? length (filter (sel cursor prefix) (map fst bk)))%nat).
Proof. intros Hs Hoc. rewrite fs_walk_equiv_order by assumption. apply page_spec_bucket. exact Hs. Qed.

(* ================================================================== *)
(* 5. The two stores answer alike on compatible states                  *)

Definition fs_compatible (s : state) : Prop :=
  forall b bk, get_bucket s b = Some bk ->
    asorted bk /\ representable (map fst bk) /\ order_compatible (map fst bk).

Theorem stores_equivalent s r : fs_compatible s -> handle_fs s r = handle s r.
Proof.
  intros Hc. destruct r; try reflexivity. cbn [handle_fs handle]. change gcsDefaultMaxResults with 1000.
  destruct (match maxres with
            | Some ms => match parse_int ms with Some z => if z <? 1 then None else Some z | None => None end
            | None => Some 1000
            end) as [m|]; [|reflexivity].
  destruct (get_bucket s b) as [bk|] eqn:E; [|reflexivity].
  destruct (Hc b bk E) as [Hs [_ Hoc]]. rewrite fs_walk_equiv_order by assumption. reflexivity.
Qed.

(* every intermediate state of the run is compatible *)
Fixpoint fs_compatible_run (s : state) (rs : list req) : Prop :=
  match rs with
  | [] => True
  | r :: rest => fs_compatible s /\ fs_compatible_run (fst (handle s r)) rest
  end.

Theorem run_fs_equiv rs : forall s, fs_compatible_run s rs -> run_fs s rs = run s rs.
Proof.
  induction rs as [|r rest IH]; intros s H; [reflexivity|]. destruct H as [H1 H2].
  cbn [run_fs run]. rewrite (stores_equivalent s r H1). destruct (handle s r) as [s1 rsp]. cbn [fst] in H2.
  rewrite (IH s1 H2). reflexivity.
Qed.

(* soundness of the file walk without any hypothesis on the names: every item returned is a
   stored object whose name has the prefix and is above the cursor (completeness is what fails) *)
Theorem prune_sound_partial s b prefix delim cursor maxres s' items prefixes next :
  handle_fs s (RList b prefix delim cursor maxres) = (s', mkResp 200 (BList items prefixes next)) ->
  Forall (fun v => exists o, find_obj s b (v_name v) = Some o /\ v = view b (v_name v) o
                    /\ lex_ltb (match cursor with Some c => c | None => [] end) (v_name v) = true
                    /\ has_prefix (v_name v) prefix = true) items.
Proof.
  cbn [handle_fs].
  destruct (match maxres with
            | Some ms => match parse_int ms with Some z => if z <? 1 then None else Some z | None => None end
            | None => Some gcsDefaultMaxResults
            end) as [m|]; [|discriminate].
  unfold find_obj. destruct (get_bucket s b) as [bk|] eqn:E; [|discriminate].
  set (cur := match cursor with Some c => c | None => [] end).
  pose proof (page_sound delim cur prefix (Z.to_nat m) (fs_entries bk)) as Hps.
  destruct (list_walk delim cur prefix (Z.to_nat m) (fs_entries bk)) as [[found prs] more].
  destruct Hps as [Hf _]. intros H. injection H as _ <- _ _. clear - Hf.
  induction Hf as [|n r [_ [H1 H2]] _ IH]; [constructor|]. cbn [flat_map]. apply Forall_app. split; [|exact IH].
  destruct (alookup n bk) as [o|] eqn:El; constructor; [|constructor]. cbn [view v_name]. exists o. auto.
Qed.

(* non-vacuity: a bucket with nested names on which the orders agree *)
Definition c09_ok_state : state :=
  fst (run init_state [RUploadMedia c09_bucket [97; 47; 98]%N [116]%N [1]%N c09_cp0;
                       RUploadMedia c09_bucket [97; 47; 99; 47; 100]%N [116]%N [2]%N c09_cp0;
                       RUploadMedia c09_bucket [101]%N [116]%N [3]%N c09_cp0]).

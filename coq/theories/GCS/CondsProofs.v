From Coq Require Import List NArith ZArith Bool Lia.
Import ListNotations.
From Emu.Common Require Import Bytes Str.
From Emu.GCS Require Import Model CondsSpec.
Local Open Scope Z_scope.

Ltac zb :=
  repeat match goal with
  | |- context [Z.eqb ?a ?b] => destruct (Z.eqb_spec a b); subst; cbn [negb andb orb Bool.eqb]
  | H : context [Z.eqb ?a ?b] |- _ => destruct (Z.eqb_spec a b); subst; cbn [negb andb orb Bool.eqb] in H
  end.

Lemma parse_conds_none p1 p2 p3 p4 :
  parse_conds p1 p2 p3 p4 = None <-> any_bad p1 p2 p3 p4 = true.
Proof. destruct p1, p2, p3, p4; cbn; split; intros; try discriminate; auto. Qed.

Lemma validate_iff_holds p1 p2 p3 p4 o c :
  no_zero_but_genmatch p2 p3 p4 = true ->
  parse_conds p1 p2 p3 p4 = Some c ->
  (validate_conds o c = VPass <-> holds p1 p2 p3 p4 o = true).
Proof.
  intros Hg Hp. unfold no_zero_but_genmatch in Hg; rewrite !andb_true_iff, !negb_true_iff in Hg; destruct Hg as [[G2 G3] G4].
  destruct p1 as [| |z1], p2 as [| |z2], p3 as [| |z3], p4 as [| |z4]; cbn in Hp; try discriminate;
    injection Hp as <-;
    destruct o as [[g m]|]; unfold validate_conds, holds, conds_eqb, empty_conds; cbn;
    zb; cbn in G2, G3, G4; try discriminate; cbn; split; intros; try discriminate; try reflexivity; try lia; try congruence.
Qed.

Lemma validate_code_allowed p1 p2 p3 p4 o c :
  no_zero_but_genmatch p2 p3 p4 = true ->
  parse_conds p1 p2 p3 p4 = Some c ->
  allowed_code p1 p2 p3 p4 o (validate_conds o c).
Proof.
  intros Hg Hp. unfold no_zero_but_genmatch in Hg; rewrite !andb_true_iff, !negb_true_iff in Hg; destruct Hg as [[G2 G3] G4].
  destruct p1 as [| |z1], p2 as [| |z2], p3 as [| |z3], p4 as [| |z4]; cbn in Hp; try discriminate;
    injection Hp as <-;
    destruct o as [[g m]|]; unfold validate_conds, allowed_code, conds_eqb, empty_conds; cbn;
    zb; cbn in G2, G3, G4; try discriminate; cbn; auto; try (right; left; reflexivity); try (right; right; reflexivity);
    try (left; reflexivity); try (right; reflexivity).
Qed.

(* the defect GCS-7: a literal zero for ifMetagenerationMatch is treated as absent *)
Lemma conds_zero_refuted :
  exists p1 p2 p3 p4 o c, parse_conds p1 p2 p3 p4 = Some c
    /\ holds p1 p2 p3 p4 o = false /\ validate_conds o c = VPass.
Proof. exists VAbsent, VAbsent, (VNum 0), VAbsent, (Some (5, 1)), empty_conds. cbn. auto. Qed.

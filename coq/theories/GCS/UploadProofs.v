(* C02 — "what is uploaded is what is served, until overwritten or deleted".
   Proofs about the upload protocols (media, multipart, resumable), the frame of every
   request (which objects it can touch), and delete; plus the sortedness invariant
   [state_ok] of the store that the delete theorem needs. *)
From Coq Require Import List NArith ZArith Bool Lia.
Import ListNotations.
From Emu.Common Require Import Bytes Str StrProofs IntProofs.
From Emu.Gen Require Import Consts.
From Emu.GCS Require Import Model StoreProofs HandlerProofs.
Local Open Scope Z_scope.

(* ================================================================== *)
(* 1. Resumable uploads assemble the payload                            *)

Definition is_prefix (h P : bytes) : Prop := exists t, P = h ++ t.

Lemma is_prefix_nil P : is_prefix [] P.
Proof. exists P. reflexivity. Qed.

Lemma is_prefix_refl P : is_prefix P P.
Proof. exists []. rewrite app_nil_r. reflexivity. Qed.

Lemma is_prefix_firstn k (P : bytes) : is_prefix (firstn k P) P.
Proof. exists (skipn k P). symmetry. apply firstn_skipn. Qed.

Lemma is_prefix_full h P : is_prefix h P -> (length P <= length h)%nat -> h = P.
Proof.
  intros [t Ht] Hlen. subst P. rewrite app_length in Hlen.
  destruct t as [|x t]; [rewrite app_nil_r; reflexivity|]. cbn in Hlen. lia.
Qed.

Lemma firstn_add {A} (a b : nat) (l : list A) : firstn (a + b) l = firstn a l ++ firstn b (skipn a l).
Proof.
  revert l. induction a as [|a IH]; intros l; cbn; [reflexivity|].
  destruct l as [|x l]; cbn.
  - rewrite firstn_nil. reflexivity.
  - rewrite IH. reflexivity.
Qed.

Lemma firstn_prefix_le (h t : bytes) k : (k <= length h)%nat -> firstn k (h ++ t) = firstn k h.
Proof.
  intros Hk. rewrite firstn_app. replace (k - length h)%nat with 0%nat by lia.
  cbn. rewrite app_nil_r. reflexivity.
Qed.

(* What a client that is uploading payload P may send in one PUT, as the parsed
   Content-Range and the body:
   - a chunk P[lo, lo+len) with "bytes lo-(lo+len-1)/T", T = "*" (-1) or |P|;
   - a status / finalise request "bytes */*" or "bytes */|P|" with an empty body. *)
Inductive consistent (P : bytes) : byte_range -> bytes -> Prop :=
| cons_chunk (lo len : nat) (T : Z) :
    (lo + len <= length P)%nat ->
    T = -1 \/ T = Z.of_nat (length P) ->
    consistent P (mkBR (Z.of_nat lo) (Z.of_nat lo + Z.of_nat len - 1) T) (firstn len (skipn lo P))
| cons_status (hi T : Z) :
    T = -1 \/ T = Z.of_nat (length P) ->
    consistent P (mkBR (-1) hi T) [].

(* one step preserves "held is a prefix of P" (whatever offset the client chose: an
   offset beyond the bytes held is refused and changes nothing) *)
Lemma resume_apply_prefix P held br data held' :
  is_prefix held P -> consistent P br data ->
  resume_apply held br data = Some held' -> is_prefix held' P.
Proof.
  intros [t Ht] Hc Ha. unfold resume_apply in Ha.
  destruct Hc as [lo len T Hlen HT | hi T HT]; cbn [br_lo br_hi br_sz] in Ha.
  - destruct (Z.eqb_spec (Z.of_nat lo) (-1)) as [Hm|_]; [lia|].
    cbn [andb negb orb] in Ha.
    destruct (negb _); [discriminate|].
    destruct (Z.ltb_spec (Z.of_nat (length held)) (Z.of_nat lo)) as [|Hle]; [discriminate|].
    injection Ha as <-. rewrite Nat2Z.id.
    assert (Hf : firstn lo held = firstn lo P).
    { subst P. symmetry. apply firstn_prefix_le. lia. }
    rewrite Hf, <- firstn_add. apply is_prefix_firstn.
  - cbn [Z.eqb andb negb orb length Z.of_nat] in Ha.
    destruct (Z.of_nat (length held) <? -1); [discriminate|].
    injection Ha as <-. rewrite app_nil_r. exists t. exact Ht.
Qed.

(* completion is reached only with the whole payload *)
Lemma resume_done_whole P held br data held' :
  is_prefix held P -> consistent P br data ->
  resume_apply held br data = Some held' -> resume_done br held' = true -> held' = P.
Proof.
  intros Hp Hc Ha Hd.
  pose proof (resume_apply_prefix _ _ _ _ _ Hp Hc Ha) as Hp'.
  assert (Hsz : br_sz br = -1 \/ br_sz br = Z.of_nat (length P)) by (destruct Hc; cbn; assumption).
  unfold resume_done in Hd. apply negb_true_iff, orb_false_iff in Hd. destruct Hd as [Hd1 Hd2].
  apply Z.ltb_ge in Hd1, Hd2. destruct Hsz as [Hsz|Hsz]; [lia|].
  apply is_prefix_full; [exact Hp'|lia].
Qed.

(* the bytes held after a request (a refused request changes nothing), and whether the
   request completed the upload, i.e. whether the handler calls finish_upload with them *)
Definition resume_next (held : bytes) (st : byte_range * bytes) : bytes * bool :=
  match resume_apply held (fst st) (snd st) with
  | Some h' => (h', resume_done (fst st) h')
  | None => (held, false)
  end.

Fixpoint session (held : bytes) (steps : list (byte_range * bytes)) : list (bytes * bool) :=
  match steps with
  | [] => []
  | st :: rest => let hf := resume_next held st in hf :: session (fst hf) rest
  end.

Theorem resumable_assembles_payload P steps : forall held,
  is_prefix held P ->
  Forall (fun st => consistent P (fst st) (snd st)) steps ->
  Forall (fun hf => is_prefix (fst hf) P /\ (snd hf = true -> fst hf = P)) (session held steps).
Proof.
  induction steps as [|[br data] rest IH]; intros held Hp Hall; cbn [session]; [constructor|].
  inversion Hall as [|x xs Hc Hrest]; subst. cbn [fst snd] in Hc.
  assert (Hstep : is_prefix (fst (resume_next held (br, data))) P
                  /\ (snd (resume_next held (br, data)) = true -> fst (resume_next held (br, data)) = P)).
  { unfold resume_next. cbn [fst snd].
    destruct (resume_apply held br data) as [h'|] eqn:Ha; cbn [fst snd].
    - split; [eapply resume_apply_prefix; eauto|]. intros Hd. eapply resume_done_whole; eauto.
    - split; [exact Hp|discriminate]. }
  constructor; [exact Hstep|]. apply IH; [apply Hstep|exact Hrest].
Qed.

(* progress: within the int64 domain of lengths, a consistent request whose offset does
   not exceed the bytes held is accepted, and holds exactly the bytes up to its end *)
Lemma resume_apply_accepts_chunk P held lo len T :
  Z.of_nat (length P) <= int64_max ->
  is_prefix held P -> (lo <= length held)%nat -> (lo + len <= length P)%nat ->
  resume_apply held (mkBR (Z.of_nat lo) (Z.of_nat lo + Z.of_nat len - 1) T) (firstn len (skipn lo P))
  = Some (firstn (lo + len) P).
Proof.
  intros Hmax [t Ht] Hlo Hlen. unfold resume_apply. cbn [br_lo br_hi br_sz].
  destruct (Z.eqb_spec (Z.of_nat lo) (-1)) as [Hm|_]; [lia|]. cbn [andb negb orb].
  rewrite firstn_length, skipn_length. rewrite Nat.min_l by lia.
  replace (Z.of_nat lo + Z.of_nat len - 1 + 1 - Z.of_nat lo) with (Z.of_nat len) by lia.
  assert (Hw : wrap64 (Z.of_nat len) = Z.of_nat len).
  { unfold wrap64. unfold int64_max in Hmax. rewrite Z.mod_small by lia. lia. }
  rewrite Hw, Z.eqb_refl. cbn [negb].
  destruct (Z.ltb_spec (Z.of_nat (length held)) (Z.of_nat lo)); [lia|].
  rewrite Nat2Z.id. f_equal. rewrite firstn_add. f_equal.
  subst P. symmetry. apply firstn_prefix_le. exact Hlo.
Qed.

Lemma resume_apply_accepts_status held hi T :
  resume_apply held (mkBR (-1) hi T) [] = Some held.
Proof.
  unfold resume_apply. cbn [br_lo br_hi br_sz length Z.of_nat Z.eqb andb negb orb].
  destruct (Z.ltb_spec (Z.of_nat (length held)) (-1)); [lia|]. rewrite app_nil_r. reflexivity.
Qed.

(* non-vacuity: "hello" in two overlapping chunks with a status probe in between and the
   total announced only with the last chunk; and the empty payload finalised by "bytes */0" *)
Example session_example :
  let P := [104; 101; 108; 108; 111]%N in
  session [] [ (mkBR 0 2 (-1), [104; 101; 108]%N);
               (mkBR (-1) (-1) (-1), []);
               (mkBR 2 4 5, [108; 108; 111]%N) ]
  = [ ([104; 101; 108]%N, false); ([104; 101; 108]%N, false); (P, true) ]
  /\ Forall (fun st => consistent P (fst st) (snd st))
       [ (mkBR 0 2 (-1), [104; 101; 108]%N); (mkBR (-1) (-1) (-1), []); (mkBR 2 4 5, [108; 108; 111]%N) ]
  /\ session [] [ (mkBR (-1) (-1) 0, []) ] = [ ([], true) ]
  /\ consistent [] (mkBR (-1) (-1) 0) [].
Proof.
  cbn zeta. split; [timeout 60 vm_compute; reflexivity|]. split.
  - apply Forall_cons; [|apply Forall_cons; [|apply Forall_cons; [|apply Forall_nil]]]; cbn [fst snd].
    + apply (cons_chunk [104; 101; 108; 108; 111]%N 0 3 (-1)); cbn; [lia|auto].
    + apply cons_status. auto.
    + apply (cons_chunk [104; 101; 108; 108; 111]%N 2 3 5); cbn; [lia|auto].
  - split; [timeout 60 vm_compute; reflexivity|]. apply cons_status. cbn. auto.
Qed.

(* ================================================================== *)
(* 2. Content-Range text -> byte_range                                  *)

Theorem parse_byte_range_rejects_non_bytes cr :
  has_prefix cr s_bytes_sp = false -> parse_byte_range cr = None.
Proof. intros H. unfold parse_byte_range. rewrite H. reflexivity. Qed.

Lemma has_prefix_nil s : has_prefix s [] = true.
Proof. destruct s; reflexivity. Qed.

Lemma split_go_single_no c cur s : ~ In c s -> split_go [c] 0 cur s = [rev cur ++ s].
Proof.
  revert cur. induction s as [|x r IH]; intros cur Hn; cbn [split_go].
  - rewrite app_nil_r. reflexivity.
  - cbn [has_prefix]. destruct (N.eqb_spec x c) as [->|Hne].
    + exfalso. apply Hn. left. reflexivity.
    + cbn [andb]. rewrite IH by (intros Hin; apply Hn; right; exact Hin).
      cbn [rev]. rewrite <- app_assoc. reflexivity.
Qed.

Lemma split_go_single_hit c cur a r : ~ In c a ->
  split_go [c] 0 cur (a ++ c :: r) = (rev cur ++ a) :: split_go [c] 0 [] r.
Proof.
  revert cur. induction a as [|x a IH]; intros cur Hn.
  - cbn [app split_go has_prefix]. rewrite N.eqb_refl, has_prefix_nil. cbn [andb length Nat.sub].
    rewrite app_nil_r. reflexivity.
  - cbn [app split_go has_prefix]. destruct (N.eqb_spec x c) as [->|Hne].
    + exfalso. apply Hn. left. reflexivity.
    + cbn [andb]. rewrite IH by (intros Hin; apply Hn; right; exact Hin).
      cbn [rev]. rewrite <- app_assoc. reflexivity.
Qed.

Lemma split_single_two c a b : ~ In c a -> ~ In c b -> split (a ++ c :: b) [c] = [a; b].
Proof.
  intros Ha Hb. unfold split. rewrite split_go_single_hit by exact Ha.
  rewrite split_go_single_no by exact Hb. reflexivity.
Qed.

(* "bytes */T": T = "*" or a decimal *)
Lemma parse_byte_range_star t : ~ In 47%N t ->
  parse_byte_range (s_bytes_sp ++ s_star ++ s_slash ++ t)
  = if beqb t s_star then Some (mkBR (-1) (-1) (-1))
    else match parse_int t with Some sz => Some (mkBR (-1) (-1) sz) | None => None end.
Proof.
  intros Ht. unfold parse_byte_range.
  change (has_prefix (s_bytes_sp ++ s_star ++ s_slash ++ t) s_bytes_sp) with true.
  change (skipn 6 (s_bytes_sp ++ s_star ++ s_slash ++ t)) with ([42%N] ++ 47%N :: t).
  cbn [negb]. unfold s_slash. rewrite split_single_two; [|intros [H|[]]; discriminate H|exact Ht].
  reflexivity.
Qed.

Example parse_star_star : parse_byte_range (s_bytes_sp ++ s_star ++ s_slash ++ s_star) = Some (mkBR (-1) (-1) (-1)).
Proof. reflexivity. Qed.

Lemma beqb_dash_star a b : beqb (a ++ 45%N :: b) s_star = false.
Proof. destruct a as [|x [|y a]]; cbn; auto; destruct (N.eqb x 42); reflexivity. Qed.

(* "bytes A-B/T" for texts A, B without '-' and '/', T without '/' *)
Lemma parse_byte_range_chunk a b t :
  ~ In 47%N a -> ~ In 47%N b -> ~ In 47%N t -> ~ In 45%N a -> ~ In 45%N b ->
  parse_byte_range (s_bytes_sp ++ a ++ s_dash ++ b ++ s_slash ++ t)
  = match parse_int a, parse_int b with
    | Some lo, Some hi =>
        if beqb t s_star then Some (mkBR lo hi (-1))
        else match parse_int t with Some sz => Some (mkBR lo hi sz) | None => None end
    | _, _ => None
    end.
Proof.
  intros Ha Hb Ht Ha' Hb'. unfold parse_byte_range.
  assert (Hp : has_prefix (s_bytes_sp ++ a ++ s_dash ++ b ++ s_slash ++ t) s_bytes_sp = true)
    by (unfold s_bytes_sp; cbn [app has_prefix N.eqb Pos.eqb andb]; apply has_prefix_nil).
  rewrite Hp. cbn [negb].
  change (skipn 6 (s_bytes_sp ++ a ++ s_dash ++ b ++ s_slash ++ t)) with (a ++ s_dash ++ b ++ s_slash ++ t).
  unfold s_slash, s_dash.
  replace (a ++ [45%N] ++ b ++ [47%N] ++ t) with ((a ++ 45%N :: b) ++ 47%N :: t)
    by (rewrite <- app_assoc; reflexivity).
  rewrite split_single_two; [| |exact Ht].
  2:{ intros Hin. apply in_app_or in Hin. destruct Hin as [Hin|[Hin|Hin]]; [auto|discriminate Hin|auto]. }
  rewrite beqb_dash_star. rewrite split_single_two by assumption.
  destruct (parse_int a) as [lo|]; [|reflexivity]. destruct (parse_int b) as [hi|]; reflexivity.
Qed.

(* decimal digit strings contain neither '-' nor '/' *)
Lemma digits_no_sep s : forallb is_digit s = true -> ~ In 45%N s /\ ~ In 47%N s.
Proof.
  induction s as [|c r IH]; cbn; intros H; [split; intros []|].
  apply andb_prop in H. destruct H as [Hc Hr]. specialize (IH Hr). destruct IH as [I1 I2].
  unfold is_digit in Hc. apply andb_prop in Hc. destruct Hc as [Hc _]. apply N.leb_le in Hc.
  split; intros [E|Hin]; auto; subst c; lia.
Qed.

Theorem parse_byte_range_digits a b t :
  forallb is_digit a = true -> forallb is_digit b = true ->
  forallb is_digit t = true \/ t = s_star ->
  parse_byte_range (s_bytes_sp ++ a ++ s_dash ++ b ++ s_slash ++ t)
  = match parse_int a, parse_int b with
    | Some lo, Some hi =>
        if beqb t s_star then Some (mkBR lo hi (-1))
        else match parse_int t with Some sz => Some (mkBR lo hi sz) | None => None end
    | _, _ => None
    end.
Proof.
  intros Ha Hb Ht. apply digits_no_sep in Ha, Hb. destruct Ha, Hb.
  apply parse_byte_range_chunk; auto.
  destruct Ht as [Ht| ->]; [apply digits_no_sep in Ht; tauto|]. intros [E|[]]. discriminate E.
Qed.

Example parse_chunk_example :
  parse_byte_range [98;121;116;101;115;32; 50; 45; 52; 47; 53]%N (* "bytes 2-4/5" *) = Some (mkBR 2 4 5)
  /\ parse_byte_range [98;121;116;101;115;32; 48; 45; 50; 47; 42]%N (* "bytes 0-2/*" *) = Some (mkBR 0 2 (-1))
  /\ parse_byte_range [98;121;116;101;115;32; 42; 47; 53]%N (* "bytes */5" *) = Some (mkBR (-1) (-1) 5).
Proof. repeat split; reflexivity. Qed.

(* ================================================================== *)
(* 3. The sortedness invariant of the store                             *)

Section AListMore.
  Context {V : Type}.
  Implicit Types l : list (bytes * V).

  Lemma ainsert_in k v l kv : In kv (ainsert k v l) -> kv = (k, v) \/ In kv l.
  Proof.
    induction l as [|[k0 v0] r IH]; cbn.
    - intros [H|[]]; auto.
    - destruct (lex_cmp k k0); cbn; intros [H|H]; auto. destruct (IH H); auto.
  Qed.

  Lemma alookup_in k l v : alookup k l = Some v -> In (k, v) l.
  Proof.
    induction l as [|[k0 v0] r IH]; cbn; [discriminate|].
    destruct (beqb k k0) eqn:E.
    - apply beqb_eq in E. subst k0. intros H. injection H as ->. left. reflexivity.
    - intros H. right. auto.
  Qed.
End AListMore.

Definition buckets_ok (bs : list (str * bucket)) : Prop :=
  asorted bs /\ forall b bk, In (b, bk) bs -> asorted bk.

Definition state_ok (s : state) : Prop := buckets_ok (s_buckets s) /\ asorted (s_uploads s).

Lemma state_ok_init : state_ok init_state.
Proof. repeat split; try constructor. intros b bk []. Qed.

Lemma buckets_ok_insert bs b bk : buckets_ok bs -> asorted bk -> buckets_ok (ainsert b bk bs).
Proof.
  intros [H1 H2] Hbk. split; [apply ainsert_sorted; exact H1|].
  intros b' bk' Hin. apply ainsert_in in Hin. destruct Hin as [E|Hin]; [injection E as -> ->; exact Hbk|eauto].
Qed.

Lemma buckets_ok_remove bs b : buckets_ok bs -> buckets_ok (aremove b bs).
Proof.
  intros [H1 H2]. split; [apply aremove_sorted; exact H1|].
  intros b' bk' Hin. apply aremove_in in Hin. eauto.
Qed.

Lemma buckets_ok_lookup bs b bk : buckets_ok bs -> alookup b bs = Some bk -> asorted bk.
Proof. intros [_ H2] Hl. apply alookup_in in Hl. eauto. Qed.

Lemma create_bucket_buckets_ok s b : buckets_ok (s_buckets s) -> buckets_ok (s_buckets (create_bucket s b)).
Proof.
  intros H. unfold create_bucket. destruct (get_bucket s b); [exact H|]. cbn.
  apply buckets_ok_insert; [exact H|constructor].
Qed.

Lemma create_bucket_uploads s b : s_uploads (create_bucket s b) = s_uploads s.
Proof. unfold create_bucket. destruct (get_bucket s b); reflexivity. Qed.

Lemma store_add_ok s b n data ct md meta : state_ok s -> state_ok (store_add s b n data ct md meta).
Proof.
  intros [Hb Hu]. unfold state_ok, store_add. cbn [s_buckets s_uploads]. rewrite create_bucket_uploads.
  split; [|exact Hu]. pose proof (create_bucket_buckets_ok s b Hb) as Hb1.
  apply buckets_ok_insert; [exact Hb1|]. apply ainsert_sorted.
  destruct (get_bucket (create_bucket s b) b) as [bk|] eqn:E; [|constructor].
  eapply buckets_ok_lookup; eauto.
Qed.

Lemma finish_upload_ok s b n ct md meta data c :
  state_ok s -> state_ok (fst (finish_upload s b n ct md meta data c)).
Proof.
  intros H. unfold finish_upload.
  destruct md as [|p]; [|destruct p as [p|p|]; try destruct p; cbn; auto];
    (destruct (validate_conds _ c); cbn [fst]; auto using store_add_ok).
Qed.

Lemma finish_upload_uploads s b n ct md meta data c :
  s_uploads (fst (finish_upload s b n ct md meta data c)) = s_uploads s.
Proof.
  unfold finish_upload.
  destruct md as [|p]; [|destruct p as [p|p|]; try destruct p; cbn; auto];
    (destruct (validate_conds _ c); cbn [fst]; auto; unfold store_add; cbn; apply create_bucket_uploads).
Qed.

Theorem state_ok_preserved s r : state_ok s -> state_ok (fst (handle s r)).
Proof.
  intros Hok. pose proof Hok as [Hb Hu].
  destruct r as [b n ctype data cp | b m data cp | b cp | b bad m cp | id crange data | b n | b n | b n cp
                | b n p cp | b prefix delim cursor maxres | b | b dst bad srcs dm cp | b1 n1 b2 n2 | b | b | b cp];
    cbn [handle].
  - destruct (resolve_conds s cp); [|exact Hok]. destruct n; [exact Hok|]. apply finish_upload_ok. exact Hok.
  - destruct (resolve_conds s cp); [|exact Hok]. destruct (um_name m); [exact Hok|]. apply finish_upload_ok. exact Hok.
  - destruct (resolve_conds s cp); exact Hok.
  - destruct (resolve_conds s cp); [|exact Hok]. destruct bad; [exact Hok|]. destruct (um_name m); [exact Hok|].
    cbn. split; [exact Hb|]. apply ainsert_sorted. exact Hu.
  - destruct (alookup id (s_uploads s)) as [u|]; [|exact Hok].
    destruct crange as [cr|]; [|exact Hok].
    destruct (parse_byte_range cr) as [br|]; [|exact Hok].
    destruct (resume_apply (up_data u) br data) as [data'|]; [|exact Hok].
    match goal with |- context [set_uploads s ?c ?ups] => set (s1 := set_uploads s c ups) end.
    assert (Hok1 : state_ok s1).
    { split; [exact Hb|]. cbn. apply ainsert_sorted. exact Hu. }
    destruct (resume_done br data'); [|exact Hok1].
    match goal with
    | |- context [finish_upload s1 ?b ?n ?ct ?md ?meta ?d ?c] =>
        pose proof (finish_upload_ok s1 b n ct md meta d c Hok1) as HF;
        destruct (finish_upload s1 b n ct md meta d c) as [s2 rsp]
    end.
    cbn [fst] in HF. destruct (Z.eqb (r_status rsp) 200); cbn [fst]; [|exact HF].
    destruct HF as [HF1 HF2]. split; [exact HF1|]. cbn. apply aremove_sorted. exact HF2.
  - destruct (find_obj s b n); exact Hok.
  - destruct (find_obj s b n); exact Hok.
  - destruct (resolve_conds s cp); [|exact Hok].
    destruct (validate_conds _ c); try exact Hok.
    unfold store_delete_obj. destruct (get_bucket s b) as [bk|] eqn:E; [|exact Hok].
    destruct (alookup n bk); [|exact Hok]. cbn. split; [|exact Hu].
    apply buckets_ok_insert; [exact Hb|]. apply aremove_sorted. eapply buckets_ok_lookup; eauto.
  - destruct (resolve_conds s cp); [|exact Hok].
    destruct (find_obj s b n) as [o|]; [|exact Hok].
    destruct (validate_conds _ c); try exact Hok.
    destruct (pt_bad p); [exact Hok|]. cbn [fst].
    unfold store_put_obj. destruct (get_bucket s b) as [bk|] eqn:E; [|exact Hok].
    split; [|exact Hu]. cbn. apply buckets_ok_insert; [exact Hb|]. apply ainsert_sorted.
    eapply buckets_ok_lookup; eauto.
  - destruct maxres as [ms|].
    + destruct (parse_int ms) as [z|]; [|exact Hok]. destruct (z <? 1); [exact Hok|].
      destruct (get_bucket s b); [|exact Hok]. destruct (list_walk _ _ _ _ _) as [[[f p] m] lst]. exact Hok.
    + destruct (get_bucket s b); [|exact Hok]. destruct (list_walk _ _ _ _ _) as [[[f p] m] lst]. exact Hok.
  - exact Hok.
  - destruct (resolve_conds s cp); [|exact Hok]. destruct bad; [exact Hok|].
    destruct (split _ _) as [|d0 [|d1 [|d2 ds]]]; try exact Hok.
    destruct d0 as [|d00 d0']; [exact Hok|]. set (d0 := d00 :: d0').
    destruct (_ >? _); [exact Hok|].
    destruct (fold_left _ srcs _) as [[code data]|]; [|exact Hok].
    destruct code; try exact Hok.
    destruct (validate_conds _ c); try exact Hok.
    destruct dm as [m|]; cbn [fst]; apply store_add_ok; exact Hok.
  - destruct (contains _ _); [exact Hok|].
    destruct (split _ _) as [|f1 [|rest [|x xs]]]; try exact Hok.
    destruct (split2 _ _) as [|b2' [|f2 [|y ys]]]; try exact Hok.
    destruct f2 as [|f20 f2']; [exact Hok|]. set (f2 := f20 :: f2').
    destruct (find_obj s b1 f1) as [o|]; [|exact Hok].
    destruct (find_obj _ b2' f2); cbn [fst]; apply store_add_ok; exact Hok.
  - cbn [fst]. split; [apply create_bucket_buckets_ok; exact Hb|]. rewrite create_bucket_uploads. exact Hu.
  - destruct (get_bucket s b); exact Hok.
  - destruct (resolve_conds s cp); [|exact Hok].
    destruct (validate_conds _ c); try exact Hok.
    unfold store_delete_bucket. destruct (get_bucket s b); [|exact Hok].
    cbn. split; [|exact Hu]. apply buckets_ok_remove. exact Hb.
Qed.

Theorem state_ok_run rs : forall s, state_ok s -> state_ok (fst (run s rs)).
Proof.
  induction rs as [|r rest IH]; intros s Hok; cbn [run]; [exact Hok|].
  pose proof (state_ok_preserved s r Hok) as H1. destruct (handle s r) as [s1 rsp]. cbn [fst] in H1.
  specialize (IH s1 H1). destruct (run s1 rest) as [s2 rsps]. exact IH.
Qed.

(* ================================================================== *)
(* 3b. No stored object has the empty name                              *)

(* an upload without object name is refused (400 "missing object name") by all three upload
   paths — media, multipart, resumable initiation — whatever the state; nothing changes *)
Theorem empty_name_rejected s :
  (forall b ct data cp, handle s (RUploadMedia b [] ct data cp) = (s, err 400))
  /\ (forall b m data cp, um_name m = [] -> handle s (RUploadMultipart b m data cp) = (s, err 400))
  /\ (forall b bad m cp, um_name m = [] -> handle s (RResumableInit b bad m cp) = (s, err 400)).
Proof.
  split; [|split].
  - intros b ct data cp. cbn [handle]. destruct (resolve_conds s cp); reflexivity.
  - intros b m data cp E. cbn [handle]. rewrite E. destruct (resolve_conds s cp); reflexivity.
  - intros b bad m cp E. cbn [handle]. rewrite E. destruct (resolve_conds s cp); [|reflexivity].
    destruct bad; reflexivity.
Qed.

Definition bk_named (bk : bucket) : Prop := forall n o, In (n, o) bk -> n <> [].

(* every stored object, and every object a resumable session will store, has a non-empty name *)
Definition names_ok (s : state) : Prop :=
  (forall b bk, In (b, bk) (s_buckets s) -> bk_named bk)
  /\ (forall id u, In (id, u) (s_uploads s) -> up_name u <> []).

(* the destination name compose and copy parse out of the request path; both handlers refuse the
   empty one (empty_destination_rejected), like the uploads refuse an empty object name *)
Definition compose_dst (dst : str) : option str :=
  match split (dst ++ s_compose) s_compose with
  | [d; _] => Some d
  | _ => None
  end.

Definition copy_dst (n1 b2 n2 : str) : option str :=
  let object := n1 ++ s_rewrite_b ++ b2 ++ s_o ++ n2 in
  if contains object s_compose then None else
  match split object s_rewrite_b with
  | [f1; rest] => match split2 rest s_o with
                  | [b2'; f2] => Some f2
                  | _ => None
                  end
  | _ => None
  end.

Lemma names_ok_init : names_ok init_state.
Proof. split; intros ? ? []. Qed.

Lemma bk_named_insert n o (bk : bucket) : n <> [] -> bk_named bk -> bk_named (ainsert n o bk).
Proof.
  intros Hn Hbk n' o' Hin. apply ainsert_in in Hin. destruct Hin as [E|Hin]; [injection E as -> _; exact Hn|eauto].
Qed.

Lemma bk_named_remove n (bk : bucket) : bk_named bk -> bk_named (aremove n bk).
Proof. intros Hbk n' o' Hin. apply aremove_in in Hin. eauto. Qed.

Lemma buckets_named_insert (bs : list (str * bucket)) b bk :
  (forall b' bk', In (b', bk') bs -> bk_named bk') -> bk_named bk ->
  forall b' bk', In (b', bk') (ainsert b bk bs) -> bk_named bk'.
Proof.
  intros H Hbk b' bk' Hin. apply ainsert_in in Hin. destruct Hin as [E|Hin]; [injection E as _ ->; exact Hbk|eauto].
Qed.

Lemma buckets_named_remove (bs : list (str * bucket)) b :
  (forall b' bk', In (b', bk') bs -> bk_named bk') ->
  forall b' bk', In (b', bk') (aremove b bs) -> bk_named bk'.
Proof. intros H b' bk' Hin. apply aremove_in in Hin. eauto. Qed.

Lemma names_ok_lookup s b bk : names_ok s -> get_bucket s b = Some bk -> bk_named bk.
Proof. intros [H _] Hl. apply alookup_in in Hl. eauto. Qed.

Lemma create_bucket_named s b : names_ok s -> names_ok (create_bucket s b).
Proof.
  intros [H1 H2]. unfold create_bucket. destruct (get_bucket s b); [split; assumption|].
  split; [|exact H2]. cbn [set_buckets s_buckets]. apply buckets_named_insert; [exact H1|]. intros n o [].
Qed.

Lemma store_add_named s b n data ct md meta : n <> [] -> names_ok s -> names_ok (store_add s b n data ct md meta).
Proof.
  intros Hn Hok. pose proof (create_bucket_named s b Hok) as Hok1. destruct Hok1 as [H1 H2].
  unfold store_add. split; cbn [s_buckets s_uploads]; [|exact H2].
  apply buckets_named_insert; [exact H1|]. apply bk_named_insert; [exact Hn|].
  destruct (get_bucket (create_bucket s b) b) as [bk|] eqn:E; [|intros n' o' []].
  eapply names_ok_lookup; [split; eassumption|exact E].
Qed.

Lemma finish_upload_named s b n ct md meta data c :
  n <> [] -> names_ok s -> names_ok (fst (finish_upload s b n ct md meta data c)).
Proof.
  intros Hn H. unfold finish_upload.
  destruct md as [|p]; [|destruct p as [p|p|]; try destruct p; cbn; auto];
    (destruct (validate_conds _ c); cbn [fst]; auto using store_add_named).
Qed.

(* the invariant is preserved by EVERY request *)
Theorem names_ok_preserved s r : names_ok s -> names_ok (fst (handle s r)).
Proof.
  intros Hok. pose proof Hok as [Hb Hu].
  destruct r as [b n ctype data cp | b m data cp | b cp | b bad m cp | id crange data | b n | b n | b n cp
                | b n p cp | b prefix delim cursor maxres | b | b dst bad srcs dm cp | b1 n1 b2 n2 | b | b | b cp];
    cbn [handle].
  - destruct (resolve_conds s cp); [|exact Hok]. destruct n as [|n0 n']; [exact Hok|].
    apply finish_upload_named; [discriminate|exact Hok].
  - destruct (resolve_conds s cp); [|exact Hok]. destruct (um_name m) as [|n0 n'] eqn:En; [exact Hok|]. rewrite <- En.
    apply finish_upload_named; [rewrite En; discriminate|exact Hok].
  - destruct (resolve_conds s cp); exact Hok.
  - destruct (resolve_conds s cp); [|exact Hok]. destruct bad; [exact Hok|].
    destruct (um_name m) as [|n0 n'] eqn:En; [exact Hok|]. rewrite <- En.
    cbn [fst]. split; [exact Hb|]. cbn [set_uploads s_uploads]. intros id u Hin. apply ainsert_in in Hin.
    destruct Hin as [E|Hin]; [|eauto]. injection E as _ ->. cbn [up_name]. rewrite En. discriminate.
  - destruct (alookup id (s_uploads s)) as [u|] eqn:Eu; [|exact Hok].
    assert (Hun : up_name u <> []) by (apply alookup_in in Eu; eauto).
    destruct crange as [cr|]; [|exact Hok].
    destruct (parse_byte_range cr) as [br|]; [|exact Hok].
    destruct (resume_apply (up_data u) br data) as [data'|]; [|exact Hok].
    match goal with |- context [set_uploads s ?c ?ups] => set (s1 := set_uploads s c ups) end.
    assert (Hok1 : names_ok s1).
    { split; [exact Hb|]. subst s1. cbn [set_uploads s_uploads]. intros id' u' Hin. apply ainsert_in in Hin.
      destruct Hin as [E|Hin]; [|eauto]. injection E as _ ->. exact Hun. }
    destruct (resume_done br data'); [|exact Hok1].
    match goal with
    | |- context [finish_upload s1 ?b ?n ?ct ?md ?meta ?d ?c] =>
        pose proof (finish_upload_named s1 b n ct md meta d c Hun Hok1) as HF;
        destruct (finish_upload s1 b n ct md meta d c) as [s2 rsp]
    end.
    cbn [fst] in HF. destruct (Z.eqb (r_status rsp) 200); cbn [fst]; [|exact HF].
    destruct HF as [HF1 HF2]. split; [exact HF1|]. cbn [set_uploads s_uploads]. intros id' u' Hin.
    apply aremove_in in Hin. eauto.
  - destruct (find_obj s b n); exact Hok.
  - destruct (find_obj s b n); exact Hok.
  - destruct (resolve_conds s cp); [|exact Hok].
    destruct (validate_conds _ c); try exact Hok.
    unfold store_delete_obj. destruct (get_bucket s b) as [bk|] eqn:E; [|exact Hok].
    destruct (alookup n bk); [|exact Hok]. cbn [fst]. split; [|exact Hu]. cbn [set_buckets s_buckets].
    apply buckets_named_insert; [exact Hb|]. apply bk_named_remove. eapply names_ok_lookup; eauto.
  - destruct (resolve_conds s cp); [|exact Hok].
    unfold find_obj. destruct (get_bucket s b) as [bk|] eqn:E; [|exact Hok].
    destruct (alookup n bk) as [o|] eqn:Eo; [|exact Hok].
    destruct (validate_conds _ c); try exact Hok.
    destruct (pt_bad p); [exact Hok|]. cbn [fst].
    unfold store_put_obj. rewrite E. split; [|exact Hu]. cbn [set_buckets s_buckets].
    pose proof (names_ok_lookup s b bk Hok E) as Hbk.
    apply buckets_named_insert; [exact Hb|]. apply bk_named_insert; [|exact Hbk].
    apply alookup_in in Eo. eauto.
  - destruct maxres as [ms|].
    + destruct (parse_int ms) as [z|]; [|exact Hok]. destruct (z <? 1); [exact Hok|].
      destruct (get_bucket s b); [|exact Hok]. destruct (list_walk _ _ _ _ _) as [[[f p] m] lst]. exact Hok.
    + destruct (get_bucket s b); [|exact Hok]. destruct (list_walk _ _ _ _ _) as [[[f p] m] lst]. exact Hok.
  - exact Hok.
  - destruct (resolve_conds s cp); [|exact Hok]. destruct bad; [exact Hok|].
    destruct (split _ _) as [|d0 [|d1 [|d2 ds]]]; try exact Hok.
    destruct d0 as [|d00 d0']; [exact Hok|]. set (d0 := d00 :: d0').
    assert (Hd : d0 <> []) by discriminate.
    destruct (_ >? _); [exact Hok|].
    destruct (fold_left _ srcs _) as [[code data]|]; [|exact Hok].
    destruct code; try exact Hok.
    destruct (validate_conds _ c); try exact Hok.
    destruct dm as [m|]; cbn [fst]; apply store_add_named; assumption.
  - destruct (contains _ _); [exact Hok|].
    destruct (split _ _) as [|f1 [|rest [|x xs]]]; try exact Hok.
    destruct (split2 _ _) as [|b2' [|f2 [|y ys]]]; try exact Hok.
    destruct f2 as [|f20 f2']; [exact Hok|]. set (f2 := f20 :: f2').
    assert (Hd : f2 <> []) by discriminate.
    destruct (find_obj s b1 f1) as [o|]; [|exact Hok].
    destruct (find_obj _ b2' f2); cbn [fst]; apply store_add_named; assumption.
  - cbn [fst]. apply create_bucket_named. exact Hok.
  - destruct (get_bucket s b); exact Hok.
  - destruct (resolve_conds s cp); [|exact Hok].
    destruct (validate_conds _ c); try exact Hok.
    unfold store_delete_bucket. destruct (get_bucket s b); [|exact Hok].
    cbn [fst]. split; [|exact Hu]. cbn [set_buckets s_buckets]. apply buckets_named_remove. exact Hb.
Qed.

Theorem names_ok_run rs : forall s, names_ok s -> names_ok (fst (run s rs)).
Proof.
  induction rs as [|r rest IH]; intros s Hok; cbn [run]; [exact Hok|].
  pose proof (names_ok_preserved s r Hok) as H1. destruct (handle s r) as [s1 rsp]. cbn [fst] in H1.
  specialize (IH s1 H1). destruct (run s1 rest) as [s2 rsps]. exact IH.
Qed.

Lemma bk_named_names (bk : bucket) : bk_named bk -> ~ In [] (map fst bk).
Proof.
  intros H Hin. apply in_map_iff in Hin. destruct Hin as [[n o] [E Hin]]. cbn in E. subst n.
  exact (H [] o Hin eq_refl).
Qed.

(* no bucket of a reachable state holds an object with the empty name: every history, no guard *)
Theorem reachable_names_nonempty rs b bk :
  get_bucket (fst (run init_state rs)) b = Some bk -> ~ In [] (map fst bk).
Proof.
  intros H. apply bk_named_names. eapply names_ok_lookup; [|exact H].
  apply names_ok_run. apply names_ok_init.
Qed.

(* compose and copy refuse a destination name that parses to "" (400 "missing destination object
   name"), whatever the state, and change nothing *)
Theorem empty_destination_rejected s :
  (forall b dst bad srcs dm cp, compose_dst dst = Some [] ->
     handle s (RCompose b dst bad srcs dm cp) = (s, err 400))
  /\ (forall b1 n1 b2 n2, copy_dst n1 b2 n2 = Some [] ->
     handle s (RCopy b1 n1 b2 n2) = (s, err 400)).
Proof.
  split.
  - intros b dst bad srcs dm cp H. unfold compose_dst in H. cbn [handle].
    destruct (resolve_conds s cp); [|reflexivity]. destruct bad; [reflexivity|].
    destruct (split _ _) as [|d0 [|d1 [|d2 ds]]]; try discriminate. injection H as ->. reflexivity.
  - intros b1 n1 b2 n2 H. unfold copy_dst in H. cbv zeta in H. cbn [handle].
    destruct (contains _ _); [discriminate|].
    destruct (split _ _) as [|f1 [|rest [|x xs]]]; try discriminate.
    destruct (split2 _ _) as [|b2' [|f2 [|y ys]]]; try discriminate. injection H as ->. reflexivity.
Qed.

(* the requests that used to store an object named "" (compose with the destination path
   "/compose", copy to the destination path ".../o/") are answered 400 now and store nothing *)
Example empty_destination_rejected_example :
  let cp := mkCP (PRaw []) (PRaw []) (PRaw []) (PRaw []) in
  let bk := [98]%N in
  let r1 := RCompose bk [] false [] None cp in
  let rs2 := [RUploadMedia bk [97]%N [116]%N [1]%N cp; RCopy bk [97]%N bk []] in
  compose_dst [] = Some [] /\ copy_dst [97]%N bk [] = Some []
  /\ map r_status (snd (run init_state [r1])) = [400]
  /\ get_bucket (fst (run init_state [r1])) bk = None
  /\ map r_status (snd (run init_state rs2)) = [200; 400]
  /\ option_map (map fst) (get_bucket (fst (run init_state rs2)) bk) = Some [[97]%N].
Proof. cbn zeta. repeat split; timeout 60 vm_compute; reflexivity. Qed.

(* ================================================================== *)
(* 4. Upload, then read                                                 *)

Lemma finish_upload_200 s b n ct md meta data c :
  r_status (snd (finish_upload s b n ct md meta data c)) = 200 ->
  fst (finish_upload s b n ct md meta data c) = store_add s b n data ct true (merge_meta [] meta)
  /\ snd (finish_upload s b n ct md meta data c)
     = mkResp 200 (BMeta (view b n (mkObj data ct (s_clock s + 1) 1 true (merge_meta [] meta))))
  /\ validate_conds (obj_gens (find_obj s b n)) c = VPass /\ md <> 2%N /\ md <> 3%N.
Proof.
  unfold finish_upload.
  destruct md as [|p]; [|destruct p as [p|p|]; try destruct p; cbn; try discriminate];
    (destruct (validate_conds _ c); cbn [fst snd status_of_vres err r_status]; try discriminate;
     unfold resp_meta; rewrite find_obj_store_add_same; intros _; repeat split; discriminate).
Qed.

Lemma finish_upload_not200 s b n ct md meta data c :
  r_status (snd (finish_upload s b n ct md meta data c)) <> 200 ->
  fst (finish_upload s b n ct md meta data c) = s.
Proof.
  unfold finish_upload.
  destruct md as [|p]; [|destruct p as [p|p|]; try destruct p; cbn; auto];
    (destruct (validate_conds _ c); cbn [fst snd]; auto;
     unfold resp_meta; rewrite find_obj_store_add_same; cbn; intros H; exfalso; apply H; reflexivity).
Qed.

(* what GET media / GET metadata answer for a stored object *)
Lemma get_of_find s b n o : find_obj s b n = Some o ->
  handle s (RGetMedia b n) = (s, mkResp 200 (BMedia (o_data o) (o_ctype o) (o_gen o) (o_metagen o)))
  /\ handle s (RGetMeta b n) = (s, mkResp 200 (BMeta (view b n o))).
Proof. intros H. cbn [handle]. rewrite H. auto. Qed.

Theorem upload_then_get s b n ctype data cp :
  r_status (snd (handle s (RUploadMedia b n ctype data cp))) = 200 ->
  let s' := fst (handle s (RUploadMedia b n ctype data cp)) in
  handle s' (RGetMedia b n) = (s', mkResp 200 (BMedia data ctype (s_clock s + 1) 1))
  /\ exists v, handle s' (RGetMeta b n) = (s', mkResp 200 (BMeta v))
       /\ v_bucket v = b /\ v_name v = n /\ v_size v = Z.of_nat (length data) /\ v_ctype v = ctype
       /\ v_md5 v = 1%N /\ v_metagen v = 1 /\ v_gen v = s_clock s + 1 /\ v_meta v = [].
Proof.
  cbn [handle]. destruct (resolve_conds s cp) as [c|]; [|cbn; discriminate].
  destruct n as [|x n]; [cbn; discriminate|].
  intros H200. apply finish_upload_200 in H200. destruct H200 as [Hs _]. rewrite Hs. cbn zeta.
  set (o := mkObj data ctype (s_clock s + 1) 1 true (merge_meta [] [])).
  pose proof (find_obj_store_add_same s b (x :: n) data ctype true (merge_meta [] [])) as Hf.
  destruct (get_of_find _ _ _ _ Hf) as [G1 G2]. split; [exact G1|].
  eexists. split; [exact G2|]. cbn. repeat split; reflexivity.
Qed.

(* the same for a multipart upload (declared md5 absent or correct) *)
Theorem multipart_upload_then_get s b m data cp :
  r_status (snd (handle s (RUploadMultipart b m data cp))) = 200 ->
  let s' := fst (handle s (RUploadMultipart b m data cp)) in
  handle s' (RGetMedia b (um_name m)) = (s', mkResp 200 (BMedia data (um_ctype m) (s_clock s + 1) 1))
  /\ exists v, handle s' (RGetMeta b (um_name m)) = (s', mkResp 200 (BMeta v))
       /\ v_size v = Z.of_nat (length data) /\ v_ctype v = um_ctype m
       /\ v_md5 v = 1%N /\ v_metagen v = 1 /\ v_gen v = s_clock s + 1
       /\ v_meta v = merge_meta [] (um_meta m).
Proof.
  cbn [handle]. destruct (resolve_conds s cp) as [c|]; [|cbn; discriminate].
  destruct (um_name m) as [|n0 nm] eqn:En; [cbn; discriminate|]. rewrite <- En.
  intros H200. apply finish_upload_200 in H200. destruct H200 as [Hs _]. rewrite Hs. cbn zeta.
  pose proof (find_obj_store_add_same s b (um_name m) data (um_ctype m) true (merge_meta [] (um_meta m))) as Hf.
  destruct (get_of_find _ _ _ _ Hf) as [G1 G2]. split; [exact G1|].
  eexists. split; [exact G2|]. cbn. repeat split; reflexivity.
Qed.

(* a declared md5 that is wrong (2) or malformed (3): 400, nothing changes *)
Theorem bad_md5_keeps_previous s b m data cp :
  um_md5 m = 2%N \/ um_md5 m = 3%N ->
  handle s (RUploadMultipart b m data cp) = (s, err 400).
Proof.
  intros Hmd. cbn [handle]. destruct (resolve_conds s cp) as [c|]; [|reflexivity].
  destruct (um_name m); [reflexivity|].
  unfold finish_upload. destruct Hmd as [-> | ->]; reflexivity.
Qed.

(* ================================================================== *)
(* 5. Frame: a request touches only the objects it targets              *)

Lemma find_obj_set_uploads s c ups b n : find_obj (set_uploads s c ups) b n = find_obj s b n.
Proof. reflexivity. Qed.

Lemma find_obj_create_bucket s b b' n' : find_obj (create_bucket s b) b' n' = find_obj s b' n'.
Proof.
  unfold create_bucket. destruct (get_bucket s b) eqn:E; [reflexivity|].
  unfold find_obj at 1. unfold get_bucket, set_buckets. cbn [s_buckets].
  destruct (list_eq_dec N.eq_dec b' b) as [->|Hb].
  - rewrite alookup_ainsert_same. unfold find_obj. rewrite E. reflexivity.
  - rewrite alookup_ainsert_other by exact Hb. reflexivity.
Qed.

Lemma find_obj_put_other s b n o b' n' : (b', n') <> (b, n) ->
  find_obj (store_put_obj s b n o) b' n' = find_obj s b' n'.
Proof.
  intros Hne. unfold store_put_obj. destruct (get_bucket s b) as [bk|] eqn:E; [|reflexivity].
  unfold find_obj. unfold get_bucket at 1. cbn [set_buckets s_buckets].
  destruct (list_eq_dec N.eq_dec b' b) as [->|Hb].
  - rewrite alookup_ainsert_same, E. apply alookup_ainsert_other. congruence.
  - rewrite alookup_ainsert_other by exact Hb. reflexivity.
Qed.

Lemma find_obj_put_same s b n o : get_bucket s b <> None ->
  find_obj (store_put_obj s b n o) b n = Some o.
Proof.
  intros Hb. unfold store_put_obj. destruct (get_bucket s b) as [bk|] eqn:E; [|congruence].
  unfold find_obj, get_bucket. cbn [set_buckets s_buckets].
  rewrite alookup_ainsert_same. apply alookup_ainsert_same.
Qed.

Lemma find_obj_delete_other s b n s' b' n' : store_delete_obj s b n = Some s' -> (b', n') <> (b, n) ->
  find_obj s' b' n' = find_obj s b' n'.
Proof.
  unfold store_delete_obj. destruct (get_bucket s b) as [bk|] eqn:E; [|discriminate].
  destruct (alookup n bk); [|discriminate]. intros H Hne. injection H as <-.
  unfold find_obj. unfold get_bucket at 1. cbn [set_buckets s_buckets].
  destruct (list_eq_dec N.eq_dec b' b) as [->|Hb].
  - rewrite alookup_ainsert_same, E. apply alookup_aremove_other. congruence.
  - rewrite alookup_ainsert_other by exact Hb. reflexivity.
Qed.

Lemma find_obj_delete_bucket_other s b s' b' n' : store_delete_bucket s b = Some s' -> b' <> b ->
  find_obj s' b' n' = find_obj s b' n'.
Proof.
  unfold store_delete_bucket. destruct (get_bucket s b); [|discriminate]. intros H Hne. injection H as <-.
  unfold find_obj, get_bucket. cbn [set_buckets s_buckets]. rewrite alookup_aremove_other by exact Hne. reflexivity.
Qed.

Lemma finish_upload_other s b n ct md meta data c b' n' : (b', n') <> (b, n) ->
  find_obj (fst (finish_upload s b n ct md meta data c)) b' n' = find_obj s b' n'.
Proof.
  intros Hne. unfold finish_upload.
  destruct md as [|p]; [|destruct p as [p|p|]; try destruct p; cbn; auto];
    (destruct (validate_conds _ c); cbn [fst]; auto using find_obj_store_add_other).
Qed.

(* the (bucket, object) pairs whose stored object a request may create, replace or remove *)
Definition targets (s : state) (r : req) : list (str * str) :=
  match r with
  | RUploadMedia b n _ _ _ => [(b, n)]
  | RUploadMultipart b m _ _ => [(b, um_name m)]
  | RResumablePut id _ _ => match alookup id (s_uploads s) with
                            | Some u => [(up_bucket u, up_name u)]
                            | None => []
                            end
  | RDelete b n _ => [(b, n)]
  | RPatch b n _ _ => [(b, n)]
  | RCompose b dst _ _ _ _ => match split (dst ++ s_compose) s_compose with
                              | [dstname; _] => [(b, dstname)]
                              | _ => []
                              end
  | RCopy b1 n1 b2 n2 => match split (n1 ++ s_rewrite_b ++ b2 ++ s_o ++ n2) s_rewrite_b with
                         | [f1; rest] => match split2 rest s_o with
                                         | [b2'; f2] => [(b2', f2)]
                                         | _ => []
                                         end
                         | _ => []
                         end
  | _ => []
  end.

(* the bucket a request may remove as a whole *)
Definition bucket_target (r : req) : option str :=
  match r with RDeleteBucket b _ => Some b | _ => None end.

Theorem other_objects_untouched s r b' n' :
  ~ In (b', n') (targets s r) -> bucket_target r <> Some b' ->
  find_obj (fst (handle s r)) b' n' = find_obj s b' n'.
Proof.
  intros Hnt Hnb.
  destruct r as [b n ctype data cp | b m data cp | b cp | b bad m cp | id crange data | b n | b n | b n cp
                | b n p cp | b prefix delim cursor maxres | b | b dst bad srcs dm cp | b1 n1 b2 n2 | b | b | b cp];
    cbn [handle]; cbn [targets] in Hnt; cbn [bucket_target] in Hnb.
  - destruct (resolve_conds s cp); [|reflexivity]. destruct n; [reflexivity|].
    apply finish_upload_other. intros E. apply Hnt. left. symmetry. exact E.
  - destruct (resolve_conds s cp); [|reflexivity].
    destruct (um_name m) as [|n0 nm] eqn:En; [reflexivity|]. rewrite <- En in *.
    apply finish_upload_other. intros E. apply Hnt. left. symmetry. exact E.
  - destruct (resolve_conds s cp); reflexivity.
  - destruct (resolve_conds s cp); [|reflexivity]. destruct bad; [reflexivity|]. destruct (um_name m); reflexivity.
  - destruct (alookup id (s_uploads s)) as [u|]; [|reflexivity].
    destruct crange as [cr|]; [|reflexivity].
    destruct (parse_byte_range cr) as [br|]; [|reflexivity].
    destruct (resume_apply (up_data u) br data) as [data'|]; [|reflexivity].
    destruct (resume_done br data'); [|reflexivity].
    match goal with
    | |- context [finish_upload ?s1 ?b ?n ?ct ?md ?meta ?d ?c] =>
        assert (HF : find_obj (fst (finish_upload s1 b n ct md meta d c)) b' n' = find_obj s b' n')
          by (rewrite finish_upload_other; [reflexivity|intros E; apply Hnt; left; symmetry; exact E]);
        destruct (finish_upload s1 b n ct md meta d c) as [s2 rsp]
    end.
    cbn [fst] in HF. destruct (Z.eqb (r_status rsp) 200); cbn [fst]; exact HF.
  - destruct (find_obj s b n); reflexivity.
  - destruct (find_obj s b n); reflexivity.
  - destruct (resolve_conds s cp); [|reflexivity].
    destruct (validate_conds _ c); try reflexivity.
    destruct (store_delete_obj s b n) as [s1|] eqn:E; [|reflexivity]. cbn [fst].
    eapply find_obj_delete_other; [exact E|]. intros E'. apply Hnt. left. symmetry. exact E'.
  - destruct (resolve_conds s cp); [|reflexivity].
    destruct (find_obj s b n) as [o|]; [|reflexivity].
    destruct (validate_conds _ c); try reflexivity.
    destruct (pt_bad p); [reflexivity|]. cbn [fst].
    apply find_obj_put_other. intros E'. apply Hnt. left. symmetry. exact E'.
  - destruct maxres as [ms|].
    + destruct (parse_int ms) as [z|]; [|reflexivity]. destruct (z <? 1); [reflexivity|].
      destruct (get_bucket s b); [|reflexivity]. destruct (list_walk _ _ _ _ _) as [[[f p] m] lst]. reflexivity.
    + destruct (get_bucket s b); [|reflexivity]. destruct (list_walk _ _ _ _ _) as [[[f p] m] lst]. reflexivity.
  - reflexivity.
  - destruct (resolve_conds s cp); [|reflexivity]. destruct bad; [reflexivity|].
    destruct (split _ _) as [|d0 [|d1 [|d2 ds]]]; try reflexivity.
    destruct d0 as [|d00 d0']; [reflexivity|]. set (d0 := d00 :: d0') in *.
    destruct (_ >? _); [reflexivity|].
    destruct (fold_left _ srcs _) as [[code data]|]; [|reflexivity].
    destruct code; try reflexivity.
    destruct (validate_conds _ c); try reflexivity.
    destruct dm as [m|]; cbn [fst]; apply find_obj_store_add_other;
      intros E'; apply Hnt; left; symmetry; exact E'.
  - destruct (contains _ _); [reflexivity|].
    destruct (split _ _) as [|f1 [|rest [|x xs]]]; try reflexivity.
    destruct (split2 _ _) as [|b2' [|f2 [|y ys]]]; try reflexivity.
    destruct f2 as [|f20 f2']; [reflexivity|]. set (f2 := f20 :: f2') in *.
    destruct (find_obj s b1 f1) as [o|]; [|reflexivity].
    assert (Hne : (b', n') <> (b2', f2)) by (intros E'; apply Hnt; left; symmetry; exact E').
    destruct (find_obj (store_add _ _ _ _ _ _ _) b2' f2); cbn [fst]; apply find_obj_store_add_other; exact Hne.
  - cbn [fst]. apply find_obj_create_bucket.
  - destruct (get_bucket s b); reflexivity.
  - destruct (resolve_conds s cp); [|reflexivity].
    destruct (validate_conds _ c); try reflexivity.
    destruct (store_delete_bucket s b) as [s1|] eqn:E; [|reflexivity]. cbn [fst].
    eapply find_obj_delete_bucket_other; [exact E|]. congruence.
Qed.

(* run-level: an object nobody targets keeps being served *)
Fixpoint untouched_run (s : state) (rs : list req) (b n : str) : Prop :=
  match rs with
  | [] => True
  | r :: rest => ~ In (b, n) (targets s r) /\ bucket_target r <> Some b
                 /\ untouched_run (fst (handle s r)) rest b n
  end.

Theorem served_until_overwritten rs : forall s b n,
  untouched_run s rs b n -> find_obj (fst (run s rs)) b n = find_obj s b n.
Proof.
  induction rs as [|r rest IH]; intros s b n Hu; cbn [run]; [reflexivity|].
  cbn [untouched_run] in Hu. destruct Hu as [H1 [H2 H3]].
  pose proof (other_objects_untouched s r b n H1 H2) as Hf.
  destruct (handle s r) as [s1 rsp]. cbn [fst] in *.
  specialize (IH s1 b n H3). destruct (run s1 rest) as [s2 rsps]. cbn [fst] in *. congruence.
Qed.

(* ================================================================== *)
(* 6. Delete                                                            *)

Theorem delete_makes_absent s b n cp :
  state_ok s -> r_status (snd (handle s (RDelete b n cp))) = 204 ->
  find_obj (fst (handle s (RDelete b n cp))) b n = None.
Proof.
  intros [Hb _]. cbn [handle]. destruct (resolve_conds s cp); [|cbn; discriminate].
  destruct (validate_conds _ c); cbn; try discriminate.
  unfold store_delete_obj. destruct (get_bucket s b) as [bk|] eqn:E; [|cbn; discriminate].
  destruct (alookup n bk); [|cbn; discriminate]. cbn [fst snd]. intros _.
  unfold find_obj, get_bucket. cbn [set_buckets s_buckets]. rewrite alookup_ainsert_same.
  apply alookup_aremove_same. eapply buckets_ok_lookup; eauto.
Qed.

Theorem delete_then_get_404 s b n cp :
  state_ok s -> r_status (snd (handle s (RDelete b n cp))) = 204 ->
  let s' := fst (handle s (RDelete b n cp)) in
  handle s' (RGetMedia b n) = (s', err 404) /\ handle s' (RGetMeta b n) = (s', err 404).
Proof.
  intros Hok H. pose proof (delete_makes_absent s b n cp Hok H) as Hf. cbn zeta. cbn [handle].
  set (s' := fst _) in *. rewrite Hf. auto.
Qed.

(* ================================================================== *)
(* 7. Resumable upload, at the level of [handle]                        *)

Definition same_target (u' u : upload) : Prop :=
  up_bucket u' = up_bucket u /\ up_name u' = up_name u /\ up_ctype u' = up_ctype u
  /\ up_md5 u' = up_md5 u /\ up_meta u' = up_meta u /\ up_conds u' = up_conds u.

Lemma same_target_refl u : same_target u u.
Proof. repeat split. Qed.

Lemma same_target_trans a b c : same_target a b -> same_target b c -> same_target a c.
Proof. unfold same_target. intuition congruence. Qed.

(* a PUT of the session, as sent: Content-Range text and body *)
Definition put_req (id : str) (st : str * bytes) : req := RResumablePut id (Some (fst st)) (snd st).

Definition step_consistent (P : bytes) (st : str * bytes) : Prop :=
  exists br, parse_byte_range (fst st) = Some br /\ consistent P br (snd st).

(* the stored object a completed upload of payload P produces *)
Definition stored_as (s : state) (u : upload) (P : bytes) : Prop :=
  exists o, find_obj s (up_bucket u) (up_name u) = Some o
    /\ o_data o = P /\ o_ctype o = up_ctype u /\ o_md5 o = true /\ o_metagen o = 1
    /\ o_meta o = merge_meta [] (up_meta u).

Lemma resumable_put_step P id s u st :
  state_ok s -> alookup id (s_uploads s) = Some u -> is_prefix (up_data u) P ->
  step_consistent P st ->
  let s' := fst (handle s (put_req id st)) in
  let rsp := snd (handle s (put_req id st)) in
  (r_status rsp = 200 /\ alookup id (s_uploads s') = None /\ stored_as s' u P
   /\ find_obj s' (up_bucket u) (up_name u)
      = Some (mkObj P (up_ctype u) (s_clock s + 1) 1 true (merge_meta [] (up_meta u))))
  \/ (r_status rsp <> 200 /\ s_buckets s' = s_buckets s /\ s_clock s' = s_clock s
      /\ exists u', alookup id (s_uploads s') = Some u' /\ same_target u' u /\ is_prefix (up_data u') P).
Proof.
  intros [Hb Hu] Hl Hp [br [Hparse Hc]]. destruct st as [cr data]. cbn [fst snd] in Hparse, Hc.
  unfold put_req. cbn [fst snd handle]. rewrite Hl, Hparse.
  destruct (resume_apply (up_data u) br data) as [data'|] eqn:Ha.
  2:{ right. cbn. split; [discriminate|]. repeat split; auto. exists u. auto using same_target_refl. }
  pose proof (resume_apply_prefix _ _ _ _ _ Hp Hc Ha) as Hp'.
  set (u' := mkUpload (up_bucket u) (up_name u) (up_ctype u) (up_md5 u) (up_meta u) (up_conds u) data').
  set (s1 := set_uploads s (s_upcount s) (ainsert id u' (s_uploads s))).
  assert (Hright : alookup id (s_uploads s1) = Some u' /\ same_target u' u /\ is_prefix (up_data u') P).
  { split; [cbn; apply alookup_ainsert_same|]. split; [repeat split|exact Hp']. }
  destruct (resume_done br data') eqn:Hd.
  2:{ right. cbn [fst snd r_status]. split; [discriminate|]. repeat split; auto. exists u'. exact Hright. }
  assert (HP : data' = P) by exact (resume_done_whole _ _ _ _ _ Hp Hc Ha Hd).
  clear Ha Hd. subst data'.
  pose proof (finish_upload_200 s1 (up_bucket u) (up_name u) (up_ctype u) (up_md5 u) (up_meta u) P (up_conds u)) as H200.
  pose proof (finish_upload_not200 s1 (up_bucket u) (up_name u) (up_ctype u) (up_md5 u) (up_meta u) P (up_conds u)) as Hn200.
  pose proof (finish_upload_uploads s1 (up_bucket u) (up_name u) (up_ctype u) (up_md5 u) (up_meta u) P (up_conds u)) as Hups.
  destruct (finish_upload s1 (up_bucket u) (up_name u) (up_ctype u) (up_md5 u) (up_meta u) P (up_conds u)) as [s2 rsp].
  cbn [fst snd] in H200, Hn200, Hups.
  destruct (Z.eqb_spec (r_status rsp) 200) as [E|E]; cbn [fst snd].
  - left. destruct (H200 E) as [Hs2 _]. split; [exact E|].
    assert (Hfind : find_obj (set_uploads s2 (s_upcount s2) (aremove id (s_uploads s2))) (up_bucket u) (up_name u)
                    = Some (mkObj P (up_ctype u) (s_clock s + 1) 1 true (merge_meta [] (up_meta u)))).
    { rewrite find_obj_set_uploads, Hs2. change (s_clock s) with (s_clock s1). apply find_obj_store_add_same. }
    split; [|split; [|exact Hfind]].
    + cbn. rewrite Hups. cbn. apply alookup_aremove_same. apply ainsert_sorted. exact Hu.
    + eexists. split; [exact Hfind|]. cbn. repeat split.
  - right. rewrite (Hn200 E). split; [exact E|]. repeat split; auto. exists u'. exact Hright.
Qed.

Lemma put_without_upload_500 id steps : forall s,
  alookup id (s_uploads s) = None ->
  run s (map (put_req id) steps) = (s, map (fun _ => err 500) steps).
Proof.
  induction steps as [|st rest IH]; intros s Hl; cbn [map run]; [reflexivity|].
  unfold put_req at 1. cbn [handle]. rewrite Hl. rewrite (IH s Hl). reflexivity.
Qed.

Lemma existsb_500 {A} (l : list A) : existsb (fun r => Z.eqb (r_status r) 200) (map (fun _ => err 500) l) = false.
Proof. induction l; cbn; auto. Qed.

(* a whole session of PUTs consistent with P on a pending upload: if some request was
   answered 200 the stored object is exactly P; otherwise no object has changed and the
   upload is still pending with a prefix of P *)
Theorem resumable_session_end_to_end P id steps : forall s u,
  state_ok s -> alookup id (s_uploads s) = Some u -> is_prefix (up_data u) P ->
  Forall (step_consistent P) steps ->
  let s' := fst (run s (map (put_req id) steps)) in
  let rsps := snd (run s (map (put_req id) steps)) in
  if existsb (fun r => Z.eqb (r_status r) 200) rsps
  then stored_as s' u P
  else s_buckets s' = s_buckets s
       /\ exists u', alookup id (s_uploads s') = Some u' /\ same_target u' u /\ is_prefix (up_data u') P.
Proof.
  induction steps as [|st rest IH]; intros s u Hok Hl Hp Hall; cbn [map run].
  - cbn. split; [reflexivity|]. exists u. auto using same_target_refl.
  - inversion Hall as [|x xs Hc Hrest]; subst.
    pose proof (resumable_put_step P id s u st Hok Hl Hp Hc) as Hstep.
    pose proof (state_ok_preserved s (put_req id st) Hok) as Hok1.
    destruct (handle s (put_req id st)) as [s1 rsp]. cbn [fst snd] in Hstep, Hok1.
    destruct Hstep as [[E [Hnone [Hst _]]] | [E [Hbk [_ [u' [Hl' [Hsame Hp']]]]]]].
    + rewrite (put_without_upload_500 id rest s1 Hnone). cbn [fst snd existsb].
      rewrite E. cbn. exact Hst.
    + specialize (IH s1 u' Hok1 Hl' Hp' Hrest).
      destruct (run s1 (map (put_req id) rest)) as [s2 rsps]. cbn [fst snd existsb] in *.
      destruct (Z.eqb_spec (r_status rsp) 200) as [E'|_]; [contradiction|]. cbn [orb].
      destruct (existsb _ rsps).
      * destruct IH as [o [Hf Ho]]. destruct Hsame as [S1 [S2 [S3 [S4 [S5 S6]]]]].
        exists o. rewrite <- S1, <- S2, <- S3, <- S5. split; [exact Hf|exact Ho].
      * destruct IH as [Hbk2 [u2 [Hl2 [Hs2 Hp2]]]]. split; [congruence|].
        exists u2. split; [exact Hl2|]. split; [eapply same_target_trans; eauto|exact Hp2].
Qed.

(* non-vacuity, end to end through [handle]: initiate, send "hello" as "bytes 0-2/*",
   a status probe "bytes */*", then the overlapping "bytes 2-4/5"; GET returns "hello" *)
Example resumable_end_to_end_example :
  let cp := mkCP (PRaw []) (PRaw []) (PRaw []) (PRaw []) in
  let bk := [98]%N in let nm := [111]%N in
  let s0 := fst (handle init_state (RResumableInit bk false (mkUpMeta nm [116]%N 0 []) cp)) in
  let id := print_int 1 in
  let steps := [ ([98;121;116;101;115;32; 48; 45; 50; 47; 42]%N, [104; 101; 108]%N);
                 ([98;121;116;101;115;32; 42; 47; 42]%N, []);
                 ([98;121;116;101;115;32; 50; 45; 52; 47; 53]%N, [108; 108; 111]%N) ] in
  map r_status (snd (run s0 (map (put_req id) steps))) = [308; 308; 200]
  /\ snd (handle (fst (run s0 (map (put_req id) steps))) (RGetMedia bk nm))
     = mkResp 200 (BMedia [104; 101; 108; 108; 111]%N [116]%N (clock0 + 1) 1)
  /\ state_ok s0 /\ (exists u, alookup id (s_uploads s0) = Some u /\ is_prefix (up_data u) [104; 101; 108; 108; 111]%N)
  /\ Forall (step_consistent [104; 101; 108; 108; 111]%N) steps.
Proof.
  cbn zeta. split; [timeout 60 vm_compute; reflexivity|]. split; [timeout 60 vm_compute; reflexivity|].
  split; [apply state_ok_preserved; apply state_ok_init|].
  split; [eexists; split; [timeout 60 vm_compute; reflexivity|apply is_prefix_nil]|].
  apply Forall_cons; [|apply Forall_cons; [|apply Forall_cons; [|apply Forall_nil]]].
  - exists (mkBR 0 2 (-1)). split; [reflexivity|].
    apply (cons_chunk [104; 101; 108; 108; 111]%N 0 3 (-1)); cbn; [lia|auto].
  - exists (mkBR (-1) (-1) (-1)). split; [reflexivity|]. apply cons_status. auto.
  - exists (mkBR 2 4 5). split; [reflexivity|].
    apply (cons_chunk [104; 101; 108; 108; 111]%N 2 3 5); cbn; [lia|auto].
Qed.

(* non-vacuity for upload/get, frame and delete on a concrete two-object state *)
Example upload_get_delete_example :
  let cp := mkCP (PRaw []) (PRaw []) (PRaw []) (PRaw []) in
  let bk := [98]%N in
  let s1 := fst (run init_state [RUploadMedia bk [120]%N [116]%N [1; 2; 3]%N cp;
                                 RUploadMedia bk [121]%N [116]%N [4; 5]%N cp]) in
  r_status (snd (handle s1 (RUploadMedia bk [120]%N [117]%N [9]%N cp))) = 200
  /\ r_status (snd (handle s1 (RDelete bk [120]%N cp))) = 204
  /\ ~ In (bk, [121]%N) (targets s1 (RDelete bk [120]%N cp))
  /\ find_obj s1 bk [121]%N <> None
  /\ untouched_run s1 [RDelete bk [120]%N cp; RUploadMedia bk [120]%N [117]%N [9]%N cp] bk [121]%N
  /\ r_status (snd (handle s1 (RUploadMultipart bk (mkUpMeta [120]%N [116]%N 2 []) [7]%N cp))) = 400.
Proof.
  cbn zeta. split; [timeout 60 vm_compute; reflexivity|]. split; [timeout 60 vm_compute; reflexivity|].
  split; [cbn; intros [E|[]]; discriminate E|]. split; [timeout 60 vm_compute; discriminate|].
  split; [|timeout 60 vm_compute; reflexivity].
  cbn [untouched_run targets bucket_target In].
  repeat split; try discriminate; intros [E|[]]; discriminate E.
Qed.

(* ================================================================== *)
(* 8. Headers as a client prints them (strconv.FormatInt) parse back    *)

Definition total_text (total : option Z) : str :=
  match total with Some T => print_int T | None => s_star end.
Definition total_value (total : option Z) : Z := match total with Some T => T | None => -1 end.

(* "bytes <lo>-<hi>/<total or *>" and "bytes */<total or *>" *)
Definition chunk_header (lo hi : Z) (total : option Z) : str :=
  s_bytes_sp ++ print_int lo ++ s_dash ++ print_int hi ++ s_slash ++ total_text total.
Definition status_header (total : option Z) : str :=
  s_bytes_sp ++ s_star ++ s_slash ++ total_text total.

Lemma total_text_parse total :
  match total with Some T => 0 <= T <= int64_max | None => True end ->
  (forallb is_digit (total_text total) = true \/ total_text total = s_star)
  /\ (if beqb (total_text total) s_star then Some (-1)
      else parse_int (total_text total)) = Some (total_value total).
Proof.
  destruct total as [T|]; cbn [total_text total_value]; [|intros _; split; [right|]; reflexivity].
  intros HT. destruct (print_int_digits T) as [Hd [h [t [E Hh]]]]; [lia|]. split; [left; exact Hd|].
  assert (Hb : beqb (print_int T) s_star = false).
  { rewrite E. unfold s_star. cbn [beqb]. unfold is_digit in Hh. apply andb_prop in Hh. destruct Hh as [Hh _].
    apply N.leb_le in Hh. destruct (N.eqb_spec h 42) as [->|_]; [lia|reflexivity]. }
  rewrite Hb. apply parse_print_int_roundtrip. unfold int64_min. unfold int64_max in *. lia.
Qed.

Theorem chunk_header_parses lo hi total :
  0 <= lo <= int64_max -> 0 <= hi <= int64_max ->
  match total with Some T => 0 <= T <= int64_max | None => True end ->
  parse_byte_range (chunk_header lo hi total) = Some (mkBR lo hi (total_value total)).
Proof.
  intros Hlo Hhi HT. unfold chunk_header.
  destruct (print_int_digits lo) as [Dlo _]; [lia|]. destruct (print_int_digits hi) as [Dhi _]; [lia|].
  destruct (total_text_parse total HT) as [Dt Pt].
  rewrite parse_byte_range_digits by assumption.
  rewrite !parse_print_int_roundtrip by (unfold int64_min; unfold int64_max in *; lia).
  destruct (beqb (total_text total) s_star).
  - injection Pt as <-. reflexivity.
  - rewrite Pt. reflexivity.
Qed.

Theorem status_header_parses total :
  match total with Some T => 0 <= T <= int64_max | None => True end ->
  parse_byte_range (status_header total) = Some (mkBR (-1) (-1) (total_value total)).
Proof.
  intros HT. unfold status_header. destruct (total_text_parse total HT) as [Dt Pt].
  rewrite parse_byte_range_star.
  - destruct (beqb (total_text total) s_star).
    + injection Pt as <-. reflexivity.
    + rewrite Pt. reflexivity.
  - destruct Dt as [Dt|Dt]; [apply digits_no_sep in Dt; tauto|]. rewrite Dt. intros [E|[]]. discriminate E.
Qed.

(* so the requests of a real client are consistent steps: a non-empty chunk P[lo, lo+len) with
   total "*" or |P|, and a status/finalise request with total "*" or |P| *)
Theorem chunk_step_consistent P lo len total :
  Z.of_nat (length P) <= int64_max -> (1 <= len)%nat -> (lo + len <= length P)%nat ->
  total = None \/ total = Some (Z.of_nat (length P)) ->
  step_consistent P (chunk_header (Z.of_nat lo) (Z.of_nat lo + Z.of_nat len - 1) total,
                     firstn len (skipn lo P)).
Proof.
  intros Hmax Hlen Hle Ht. exists (mkBR (Z.of_nat lo) (Z.of_nat lo + Z.of_nat len - 1) (total_value total)).
  cbn [fst snd]. split.
  - apply chunk_header_parses; try lia. destruct Ht as [-> | ->]; [exact I|lia].
  - apply cons_chunk; [exact Hle|]. destruct Ht as [-> | ->]; cbn; auto.
Qed.

Theorem status_step_consistent P total :
  Z.of_nat (length P) <= int64_max ->
  total = None \/ total = Some (Z.of_nat (length P)) ->
  step_consistent P (status_header total, []).
Proof.
  intros Hmax Ht. exists (mkBR (-1) (-1) (total_value total)). cbn [fst snd]. split.
  - apply status_header_parses. destruct Ht as [-> | ->]; [exact I|lia].
  - apply cons_status. destruct Ht as [-> | ->]; cbn; auto.
Qed.

(* ================================================================== *)
(* 9. Findings about the resumable protocol (concrete witnesses)        *)

(* the declared total is not checked against the data: "bytes 0-4/3" with five bytes is accepted
   and completes the upload with all five *)
Lemma resume_total_smaller_than_data_witness :
  resume_apply [] (mkBR 0 4 3) [1; 2; 3; 4; 5]%N = Some [1; 2; 3; 4; 5]%N
  /\ resume_done (mkBR 0 4 3) [1; 2; 3; 4; 5]%N = true.
Proof. split; reflexivity. Qed.

(* a re-send at a lower offset discards the bytes held beyond it, even if the new chunk is shorter
   (still a prefix of the payload for a consistent client, so C02 is unaffected) *)
Lemma resume_resend_truncates_witness :
  resume_apply [1; 2; 3; 4; 5; 6]%N (mkBR 0 1 (-1)) [1; 2]%N = Some [1; 2]%N.
Proof. reflexivity. Qed.

(* placeholder; regenerated from /repo by tools/goconsts on every run *)
From Coq Require Import ZArith.
Definition gcsMaxComposeSources : Z := 32%Z.

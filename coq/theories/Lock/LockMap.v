From Coq Require Import List Arith Lia Bool.
Import ListNotations.

Definition key := nat. Definition id := nat.

Inductive tstate :=
| Idle
| Wait (k : key) (i : id)
| Held (k : key) (i : id)
| Rel  (k : key) (i : id)
| Unl1 (k : key) (i : id)
| Unl2 (k : key) (i : id).

Record state := {
  mp : key -> option id;
  full : id -> bool;
  rc : id -> nat;
  next : id;
  thr : list tstate }.

Definition updf {A} (f : nat -> A) (x : nat) (v : A) : nat -> A :=
  fun y => if Nat.eqb y x then v else f y.

Fixpoint upd {A} (l : list A) (n : nat) (v : A) : list A :=
  match l, n with
  | [], _ => []
  | _ :: xs, 0 => v :: xs
  | x :: xs, S n => x :: upd xs n v
  end.

Definition refs (k : key) (i : id) (s : tstate) : bool :=
  match s with
  | Idle => false
  | Wait k' i' | Held k' i' | Rel k' i' | Unl1 k' i' | Unl2 k' i' => Nat.eqb k k' && Nat.eqb i i'
  end.
Definition refsid (i : id) (s : tstate) : bool :=
  match s with
  | Idle => false
  | Wait _ i' | Held _ i' | Rel _ i' | Unl1 _ i' | Unl2 _ i' => Nat.eqb i i'
  end.
Definition owns (i : id) (s : tstate) : bool :=
  match s with
  | Held _ i' | Unl1 _ i' => Nat.eqb i i'
  | _ => false
  end.

Definition cnt (p : tstate -> bool) (l : list tstate) : nat := length (filter p l).

(* release of the lock object: refcount--, delete at 0 *)
Definition ret_obj (s : state) (k : key) (i : id) (t : nat) : state :=
  let r := rc s i - 1 in
  {| mp := if Nat.eqb r 0 then updf (mp s) k None else mp s;
     full := full s; rc := updf (rc s) i r; next := next s;
     thr := upd (thr s) t Idle |}.

Inductive step : state -> state -> Prop :=
| L1_existing s t k i :
    nth_error (thr s) t = Some Idle -> mp s k = Some i ->
    step s {| mp := mp s; full := full s; rc := updf (rc s) i (S (rc s i)); next := next s;
              thr := upd (thr s) t (Wait k i) |}
| L1_fresh s t k :
    nth_error (thr s) t = Some Idle -> mp s k = None ->
    step s {| mp := updf (mp s) k (Some (next s)); full := updf (full s) (next s) false;
              rc := updf (rc s) (next s) 1; next := S (next s);
              thr := upd (thr s) t (Wait k (next s)) |}
| L2_acquire s t k i :
    nth_error (thr s) t = Some (Wait k i) -> full s i = false ->
    step s {| mp := mp s; full := updf (full s) i true; rc := rc s; next := next s;
              thr := upd (thr s) t (Held k i) |}
| L2_cancel s t k i :
    nth_error (thr s) t = Some (Wait k i) ->
    step s {| mp := mp s; full := full s; rc := rc s; next := next s;
              thr := upd (thr s) t (Rel k i) |}
| L3_return s t k i :
    nth_error (thr s) t = Some (Rel k i) -> step s (ret_obj s k i t)
| U1_lookup s t k i j :
    nth_error (thr s) t = Some (Held k i) -> mp s k = Some j ->
    step s {| mp := mp s; full := full s; rc := rc s; next := next s;
              thr := upd (thr s) t (Unl1 k j) |}
| U2_receive s t k j :
    nth_error (thr s) t = Some (Unl1 k j) -> full s j = true ->
    step s {| mp := mp s; full := updf (full s) j false; rc := rc s; next := next s;
              thr := upd (thr s) t (Unl2 k j) |}
| U3_return s t k j :
    nth_error (thr s) t = Some (Unl2 k j) -> step s (ret_obj s k j t).

Record Inv (s : state) : Prop := {
  invA : forall t st k i, nth_error (thr s) t = Some st -> refs k i st = true -> mp s k = Some i;
  invB : forall i, rc s i = cnt (refsid i) (thr s);
  invC : forall i, cnt (owns i) (thr s) = if full s i then 1 else 0;
  invD : forall k i, mp s k = Some i -> i < next s /\ 0 < rc s i;
  invE : forall k k' i, mp s k = Some i -> mp s k' = Some i -> k = k';
  invF : forall i, next s <= i -> rc s i = 0 /\ full s i = false;
  invG : forall t st i, nth_error (thr s) t = Some st -> refsid i st = true -> i < next s }.

Lemma cnt_upd p l t old new :
  nth_error l t = Some old ->
  cnt p (upd l t new) + (if p old then 1 else 0) = cnt p l + (if p new then 1 else 0).
Proof.
  unfold cnt. revert t. induction l as [|x xs IH]; intros [|t] H; simpl in *; try discriminate.
  - injection H as ->. destruct (p old), (p new); simpl; lia.
  - specialize (IH t H). destruct (p x); simpl; lia.
Qed.

Lemma nth_upd_same {A} (l : list A) t v old : nth_error l t = Some old -> nth_error (upd l t v) t = Some v.
Proof. revert t. induction l; intros [|t] H; simpl in *; try discriminate; auto. Qed.
Lemma nth_upd_other {A} (l : list A) t u v : t <> u -> nth_error (upd l t v) u = nth_error l u.
Proof. revert t u. induction l; intros [|t] [|u] H; simpl in *; auto; try congruence. Qed.

Definition init (n : nat) : state :=
  {| mp := fun _ => None; full := fun _ => false; rc := fun _ => 0; next := 0; thr := repeat Idle n |}.

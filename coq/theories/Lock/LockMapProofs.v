From Coq Require Import List Arith Lia Bool.
Import ListNotations.
From Emu.Lock Require Import LockMap.

Lemma nth_upd_inv {A} (l : list A) t u v st old :
  nth_error l t = Some old ->
  nth_error (upd l t v) u = Some st ->
  (u = t /\ st = v) \/ (u <> t /\ nth_error l u = Some st).
Proof.
  intros Ht H. destruct (Nat.eq_dec u t) as [->|Hne].
  - left. rewrite (nth_upd_same _ _ _ _ Ht) in H. injection H as <-. auto.
  - right. rewrite nth_upd_other in H by auto. auto.
Qed.

Lemma updf_same {A} (f : nat -> A) x v : updf f x v x = v.
Proof. unfold updf. rewrite Nat.eqb_refl. reflexivity. Qed.
Lemma updf_other {A} (f : nat -> A) x y v : y <> x -> updf f x v y = f y.
Proof. unfold updf. intros H. apply Nat.eqb_neq in H. rewrite H. reflexivity. Qed.

Lemma refs_refsid k i st : refs k i st = true -> refsid i st = true.
Proof. destruct st; simpl; auto; intros H; apply andb_prop in H; tauto. Qed.

Lemma cnt_pos p l t st : nth_error l t = Some st -> p st = true -> 0 < cnt p l.
Proof.
  unfold cnt. revert t. induction l as [|x xs IH]; intros [|t] H Hp; simpl in *; try discriminate.
  - injection H as ->. rewrite Hp. simpl. lia.
  - specialize (IH t H Hp). destruct (p x); simpl; lia.
Qed.

Ltac beq :=
  repeat match goal with
  | H : (_ && _)%bool = true |- _ => apply andb_prop in H; destruct H
  | H : Nat.eqb _ _ = true |- _ => apply Nat.eqb_eq in H; subst
  | H : Nat.eqb _ _ = false |- _ => apply Nat.eqb_neq in H
  end.

Theorem inv_init n : Inv (init n).
Proof.
  constructor; simpl; intros.
  - apply nth_error_In in H. apply repeat_spec in H. subst. discriminate.
  - unfold cnt. induction n; simpl; auto.
  - unfold cnt. induction n; simpl; auto.
  - discriminate.
  - discriminate.
  - auto.
  - apply nth_error_In in H. apply repeat_spec in H. subst. discriminate.
Qed.


Lemma ret_obj_inv s t k i st :
  Inv s -> nth_error (thr s) t = Some st -> refs k i st = true -> (forall j, owns j st = false) ->
  Inv (ret_obj s k i t).
Proof.
  intros [A B C D E F G] Ht Hr Ho.
  pose proof (A _ _ _ _ Ht Hr) as Hm.
  pose proof (refs_refsid _ _ _ Hr) as Hri.
  assert (Hcnt : cnt (refsid i) (upd (thr s) t Idle) + 1 = cnt (refsid i) (thr s)).
  { pose proof (cnt_upd (refsid i) _ _ _ Idle Ht) as Hc. rewrite Hri in Hc. simpl in Hc. lia. }
  assert (Hlt : i < next s) by (eapply G; eauto).
  constructor; unfold ret_obj; simpl.
  - intros u st0 k0 i0 Hu Hr0. destruct (nth_upd_inv _ _ _ _ _ _ Ht Hu) as [[-> ->]|[Hne Hu']].
    + discriminate.
    + pose proof (A _ _ _ _ Hu' Hr0) as Hk0.
      destruct (Nat.eqb (rc s i - 1) 0) eqn:Ez; auto.
      destruct (Nat.eq_dec k0 k) as [->|Hk]; [|rewrite updf_other; auto].
      exfalso. assert (i0 = i) by congruence. subst i0. beq.
      assert (0 < cnt (refsid i) (upd (thr s) t Idle)).
      { eapply cnt_pos; [rewrite nth_upd_other; eauto|]. apply refs_refsid in Hr0. exact Hr0. }
      rewrite B in Ez. lia.
  - intros i0. pose proof (cnt_upd (refsid i0) _ _ _ Idle Ht) as Hc. simpl in Hc.
    unfold updf. destruct (Nat.eqb i0 i) eqn:Ei; beq.
    + rewrite B. lia.
    + assert (refsid i0 st = false).
      { destruct st; simpl in *; auto; beq; apply Nat.eqb_neq; auto. }
      rewrite H in Hc. rewrite B. lia.
  - intros i0. pose proof (cnt_upd (owns i0) _ _ _ Idle Ht) as Hc. rewrite Ho in Hc. simpl in Hc.
    rewrite <- C. lia.
  - intros k0 i0 Hk0.
    assert (Hk0' : mp s k0 = Some i0).
    { destruct (Nat.eqb (rc s i - 1) 0); auto. unfold updf in Hk0. destruct (Nat.eqb k0 k); [discriminate|auto]. }
    destruct (D _ _ Hk0'). split; auto.
    unfold updf. destruct (Nat.eqb i0 i) eqn:Ei; beq; auto.
    assert (k0 = k) by eauto. subst k0.
    destruct (Nat.eqb (rc s i - 1) 0) eqn:Ez; beq; [|lia].
    rewrite updf_same in Hk0. discriminate.
  - intros k0 k' i0 H1 H2.
    assert (H1' : mp s k0 = Some i0).
    { destruct (Nat.eqb (rc s i - 1) 0); auto. unfold updf in H1. destruct (Nat.eqb k0 k); [discriminate|auto]. }
    assert (H2' : mp s k' = Some i0).
    { destruct (Nat.eqb (rc s i - 1) 0); auto. unfold updf in H2. destruct (Nat.eqb k' k); [discriminate|auto]. }
    eauto.
  - intros i0 Hi. destruct (F _ Hi). split; auto. rewrite updf_other by lia. auto.
  - intros u st0 i0 Hu Hr0. destruct (nth_upd_inv _ _ _ _ _ _ Ht Hu) as [[-> ->]|[Hne Hu']].
    + discriminate.
    + eauto.
Qed.

Theorem inv_step s s' : Inv s -> step s s' -> Inv s'.
Proof.
  intros [A B C D E F G] Hs. inversion Hs; subst; clear Hs.
  - (* L1_existing *)
    match goal with HH : nth_error _ t = Some Idle |- _ => rename HH into Ht end.
    match goal with HH : mp s k = Some i |- _ => rename HH into Hm end.
    constructor; simpl.
    + intros u st k0 i0 Hu Hr. destruct (nth_upd_inv _ _ _ _ _ _ Ht Hu) as [[-> ->]|[Hne Hu']].
      * simpl in Hr. beq. assumption.
      * eauto.
    + intros i0. pose proof (cnt_upd (refsid i0) _ _ _ (Wait k i) Ht) as Hc. simpl in Hc.
      unfold updf. destruct (Nat.eqb i0 i) eqn:Ei; beq.
      * try rewrite Nat.eqb_refl in Hc. rewrite B. lia.
      * assert (Hne : Nat.eqb i0 i = false) by (apply Nat.eqb_neq; auto). try rewrite Hne in Hc. rewrite B. lia.
    + intros i0. pose proof (cnt_upd (owns i0) _ _ _ (Wait k i) Ht) as Hc. simpl in Hc. rewrite <- C. lia.
    + intros k0 i0 Hm0. destruct (D _ _ Hm0). split; auto. unfold updf. destruct (Nat.eqb i0 i); lia.
    + eauto.
    + intros i0 Hi. destruct (F _ Hi). destruct (D _ _ Hm). split; auto.
      rewrite updf_other by lia. auto.
    + intros u st i0 Hu Hr. destruct (nth_upd_inv _ _ _ _ _ _ Ht Hu) as [[-> ->]|[Hne Hu']].
      * simpl in Hr. beq. destruct (D _ _ Hm); auto.
      * eauto.
  - (* L1_fresh *)
    match goal with HH : nth_error _ t = Some Idle |- _ => rename HH into Ht end.
    match goal with HH : mp s k = None |- _ => rename HH into Hm end.
    assert (Hfresh : forall u st, nth_error (thr s) u = Some st -> refsid (next s) st = false).
    { intros u st Hu. destruct (refsid (next s) st) eqn:Er; auto. specialize (G _ _ _ Hu Er). lia. }
    constructor; simpl.
    + intros u st k0 i0 Hu Hr. destruct (nth_upd_inv _ _ _ _ _ _ Ht Hu) as [[-> ->]|[Hne Hu']].
      * simpl in Hr. beq. apply updf_same.
      * pose proof (A _ _ _ _ Hu' Hr) as Hk. destruct (Nat.eq_dec k0 k) as [->|Hk0]; [congruence|].
        rewrite updf_other; auto.
    + intros i0. pose proof (cnt_upd (refsid i0) _ _ _ (Wait k (next s)) Ht) as Hc. simpl in Hc.
      unfold updf. destruct (Nat.eqb i0 (next s)) eqn:Ei; beq.
      * try rewrite Nat.eqb_refl in Hc. destruct (F (next s) (le_n _)) as [Hz _]. rewrite B in Hz. lia.
      * assert (Hne : Nat.eqb i0 (next s) = false) by (apply Nat.eqb_neq; auto). try rewrite Hne in Hc. rewrite B. lia.
    + intros i0. pose proof (cnt_upd (owns i0) _ _ _ (Wait k (next s)) Ht) as Hc. simpl in Hc.
      unfold updf. destruct (Nat.eqb i0 (next s)) eqn:Ei; beq.
      * destruct (F (next s) (le_n _)) as [_ Hf]. specialize (C (next s)). rewrite Hf in C. lia.
      * rewrite <- C. lia.
    + intros k0 i0 Hk. unfold updf in *. destruct (Nat.eqb k0 k) eqn:Ek.
      * injection Hk as <-. rewrite Nat.eqb_refl. lia.
      * destruct (D _ _ Hk). assert (Hne : Nat.eqb i0 (next s) = false) by (apply Nat.eqb_neq; lia). rewrite Hne. lia.
    + intros k0 k' i0 H1 H2. unfold updf in *.
      destruct (Nat.eqb k0 k) eqn:E1, (Nat.eqb k' k) eqn:E2; beq; auto.
      * injection H1 as <-. destruct (D _ _ H2). lia.
      * injection H2 as <-. destruct (D _ _ H1). lia.
      * eauto.
    + intros i0 Hi. destruct (F i0 ltac:(lia)). rewrite !updf_other by lia. auto.
    + intros u st i0 Hu Hr. destruct (nth_upd_inv _ _ _ _ _ _ Ht Hu) as [[-> ->]|[Hne Hu']].
      * simpl in Hr. beq. lia.
      * specialize (G _ _ _ Hu' Hr). lia.
  - (* L2_acquire *)
    match goal with HH : nth_error _ t = Some _ |- _ => rename HH into Ht end.
    match goal with HH : full s i = false |- _ => rename HH into Hf end.
    constructor; simpl.
    + intros u st k0 i0 Hu Hr. destruct (nth_upd_inv _ _ _ _ _ _ Ht Hu) as [[-> ->]|[Hne Hu']].
      * simpl in Hr. apply (A t (Wait k i)); auto.
      * eauto.
    + intros i0. pose proof (cnt_upd (refsid i0) _ _ _ (Held k i) Ht) as Hc. simpl in Hc. rewrite B.
      destruct (Nat.eqb i0 i); lia.
    + intros i0. pose proof (cnt_upd (owns i0) _ _ _ (Held k i) Ht) as Hc. simpl in Hc.
      unfold updf. destruct (Nat.eqb i0 i) eqn:Ei; beq.
      * specialize (C i). rewrite Hf in C. lia.
      * rewrite <- C. lia.
    + auto.
    + auto.
    + intros i0 Hi. destruct (F _ Hi). split; auto. rewrite updf_other; auto.
      assert (i < next s) by (apply (G t (Wait k i)); simpl; auto using Nat.eqb_refl). lia.
    + intros u st i0 Hu Hr. destruct (nth_upd_inv _ _ _ _ _ _ Ht Hu) as [[-> ->]|[Hne Hu']].
      * apply (G t (Wait k i)); auto.
      * eauto.
  - (* L2_cancel *)
    match goal with HH : nth_error _ t = Some _ |- _ => rename HH into Ht end.
    constructor; simpl; auto.
    + intros u st k0 i0 Hu Hr. destruct (nth_upd_inv _ _ _ _ _ _ Ht Hu) as [[-> ->]|[Hne Hu']].
      * apply (A t (Wait k i)); auto.
      * eauto.
    + intros i0. pose proof (cnt_upd (refsid i0) _ _ _ (Rel k i) Ht) as Hc. simpl in Hc. rewrite B.
      destruct (Nat.eqb i0 i); lia.
    + intros i0. pose proof (cnt_upd (owns i0) _ _ _ (Rel k i) Ht) as Hc. simpl in Hc. rewrite <- C. lia.
    + intros u st i0 Hu Hr. destruct (nth_upd_inv _ _ _ _ _ _ Ht Hu) as [[-> ->]|[Hne Hu']].
      * apply (G t (Wait k i)); auto.
      * eauto.
  - (* L3_return *)
    eapply ret_obj_inv; [constructor; eauto| eassumption | simpl; rewrite !Nat.eqb_refl; reflexivity | reflexivity].
  - (* U1 *)
    match goal with HH : nth_error _ t = Some _ |- _ => rename HH into Ht end.
    match goal with HH : mp s k = Some j |- _ => rename HH into Hm end.
    assert (j = i).
    { assert (mp s k = Some i) by (apply (A t (Held k i)); simpl; auto; rewrite !Nat.eqb_refl; reflexivity). congruence. }
    subst j.
    constructor; simpl; auto.
    + intros u st k0 i0 Hu Hr. destruct (nth_upd_inv _ _ _ _ _ _ Ht Hu) as [[-> ->]|[Hne Hu']].
      * apply (A t (Held k i)); auto.
      * eauto.
    + intros i0. pose proof (cnt_upd (refsid i0) _ _ _ (Unl1 k i) Ht) as Hc. simpl in Hc. rewrite B.
      destruct (Nat.eqb i0 i); lia.
    + intros i0. pose proof (cnt_upd (owns i0) _ _ _ (Unl1 k i) Ht) as Hc. simpl in Hc. rewrite <- C.
      destruct (Nat.eqb i0 i); lia.
    + intros u st i0 Hu Hr. destruct (nth_upd_inv _ _ _ _ _ _ Ht Hu) as [[-> ->]|[Hne Hu']].
      * apply (G t (Held k i)); auto.
      * eauto.
  - (* U2 *)
    match goal with HH : nth_error _ t = Some _ |- _ => rename HH into Ht end.
    match goal with HH : full s j = true |- _ => rename HH into Hf end.
    constructor; simpl; auto.
    + intros u st k0 i0 Hu Hr. destruct (nth_upd_inv _ _ _ _ _ _ Ht Hu) as [[-> ->]|[Hne Hu']].
      * apply (A t (Unl1 k j)); auto.
      * eauto.
    + intros i0. pose proof (cnt_upd (refsid i0) _ _ _ (Unl2 k j) Ht) as Hc. simpl in Hc. rewrite B.
      destruct (Nat.eqb i0 j); lia.
    + intros i0. pose proof (cnt_upd (owns i0) _ _ _ (Unl2 k j) Ht) as Hc. simpl in Hc.
      unfold updf. destruct (Nat.eqb i0 j) eqn:Ei; beq.
      * specialize (C j). rewrite Hf in C. lia.
      * rewrite <- C. lia.
    + intros i0 Hi. destruct (F _ Hi). split; auto. rewrite updf_other; auto.
      assert (j < next s) by (apply (G t (Unl1 k j)); simpl; auto using Nat.eqb_refl). lia.
    + intros u st i0 Hu Hr. destruct (nth_upd_inv _ _ _ _ _ _ Ht Hu) as [[-> ->]|[Hne Hu']].
      * apply (G t (Unl1 k j)); auto.
      * eauto.
  - (* U3 *)
    eapply ret_obj_inv; [constructor; eauto| eassumption | simpl; rewrite !Nat.eqb_refl; reflexivity | reflexivity].
Qed.

Inductive reachable (n : nat) : state -> Prop :=
| r_init : reachable n (init n)
| r_step s s' : reachable n s -> step s s' -> reachable n s'.

Theorem lm_invariant n s : reachable n s -> Inv s.
Proof. induction 1; [apply inv_init | eapply inv_step; eauto]. Qed.

Definition owner_of_key (k : key) (st : tstate) : bool :=
  match st with Held k' _ | Unl1 k' _ => Nat.eqb k k' | _ => false end.

Lemma cnt_le p q l : (forall x, In x l -> p x = true -> q x = true) -> cnt p l <= cnt q l.
Proof.
  unfold cnt. induction l as [|x xs IH]; simpl; intros H; auto.
  assert (IH' : length (filter p xs) <= length (filter q xs)) by (apply IH; intros; apply H; auto).
  destruct (p x) eqn:Ep.
  - rewrite (H x (or_introl eq_refl) Ep). simpl. lia.
  - destruct (q x); simpl; lia.
Qed.

Lemma cnt_zero p l : (forall x, In x l -> p x = false) -> cnt p l = 0.
Proof. unfold cnt. induction l as [|x xs IH]; simpl; intros H; auto. rewrite (H x (or_introl eq_refl)). apply IH. intros; apply H; auto. Qed.

Theorem lm_mutual_exclusion n s k : reachable n s -> cnt (owner_of_key k) (thr s) <= 1.
Proof.
  intros Hr. pose proof (lm_invariant _ _ Hr) as [A B C D E F G].
  destruct (mp s k) as [i|] eqn:Hm.
  - specialize (C i). assert (cnt (owner_of_key k) (thr s) <= cnt (owns i) (thr s)).
    { apply cnt_le. intros x Hin Hx. apply In_nth_error in Hin. destruct Hin as [t Ht].
      destruct x as [|k1 j|k1 j|k1 j|k1 j|k1 j]; simpl in *; try discriminate;
      apply Nat.eqb_eq in Hx; subst k1;
      [ assert (Hj : mp s k = Some j) by (apply (A t (Held k j)); simpl; auto; rewrite !Nat.eqb_refl; reflexivity)
      | assert (Hj : mp s k = Some j) by (apply (A t (Unl1 k j)); simpl; auto; rewrite !Nat.eqb_refl; reflexivity) ];
      assert (j = i) by congruence; subst; apply Nat.eqb_refl. }
    destruct (full s i); lia.
  - assert (Hz : cnt (owner_of_key k) (thr s) = 0); [|lia].
    apply cnt_zero. intros x Hin. destruct (owner_of_key k x) eqn:Hx; auto. exfalso.
    apply In_nth_error in Hin. destruct Hin as [t Ht].
    destruct x as [|k1 j|k1 j|k1 j|k1 j|k1 j]; simpl in *; try discriminate;
    apply Nat.eqb_eq in Hx; subst k1;
    [ assert (Hj : mp s k = Some j) by (apply (A t (Held k j)); simpl; auto; rewrite !Nat.eqb_refl; reflexivity)
    | assert (Hj : mp s k = Some j) by (apply (A t (Unl1 k j)); simpl; auto; rewrite !Nat.eqb_refl; reflexivity) ];
    congruence.
Qed.

Theorem lm_no_leak n s : reachable n s -> Forall (fun st => st = Idle) (thr s) -> forall k, mp s k = None.
Proof.
  intros Hr Hall k. pose proof (lm_invariant _ _ Hr) as [A B C D E F G].
  destruct (mp s k) as [i|] eqn:Hm; auto. destruct (D _ _ Hm) as [_ Hpos]. rewrite B in Hpos.
  exfalso. assert (Hz : cnt (refsid i) (thr s) = 0); [|lia].
  apply cnt_zero. intros x Hin. rewrite Forall_forall in Hall. rewrite (Hall x Hin). reflexivity.
Qed.
Print Assumptions lm_mutual_exclusion.
Print Assumptions lm_no_leak.


(* C19 — correspondence checker: compares what the Go harness observed on the real
   TransientLockMap (driven step by step through the yield points) with the executable model
   of LockExec.v on the same schedule, plus a model-independent oracle on the observations. *)
From Coq Require Import List Arith Bool NArith.
Import ListNotations.
From Emu.Lock Require Import LockExec.

(* what the harness can see of one action *)
Inductive oclass :=
| KStepped   (* the goroutine arrived at its next yield point *)
| KBlocked   (* the goroutine is parked inside the select; nothing else happened *)
| KTrue      (* Lock returned true *)
| KFalse     (* Lock returned false *)
| KDone      (* Unlock returned *)
| KPanic.    (* the call panicked (recovered by the harness) *)

Definition oclass_eqb (a b : oclass) : bool :=
  match a, b with
  | KStepped, KStepped | KBlocked, KBlocked | KTrue, KTrue | KFalse, KFalse | KDone, KDone | KPanic, KPanic => true
  | _, _ => false
  end.

Definition class_of (o : outcome) : option oclass :=
  match o with
  | OStepped => Some KStepped
  | OBlocked => Some KBlocked
  | ORet true => Some KTrue
  | ORet false => Some KFalse
  | ODone => Some KDone
  | OPanic => Some KPanic
  | OInvalid => None
  end.

(* observed class, observed len(l.locks) after the action *)
Definition obs := (oclass * nat)%type.
Definition cstep := (action * obs)%type.
(* number of threads, schedule with observations *)
Definition case := (nat * list cstep)%type.

Definition try1 (s : state) (a : action) (ob : obs) : option state :=
  let '(s', o) := step s a in
  match class_of o with
  | Some c => if oclass_eqb c (fst ob) && Nat.eqb (map_size s') (snd ob) then Some s' else None
  | None => None
  end.

(* The harness cannot know how the runtime resolves a select with two ready alternatives:
   the recorded choice is tried first, the other one only where the model says both are ready. *)
Definition explain (s : state) (a : action) (ob : obs) : option state :=
  match a with
  | AStep t c =>
      match try1 s a ob with
      | Some s' => Some s'
      | None => if both_ready s t then try1 s (AStep t (negb c)) ob else None
      end
  | _ => try1 s a ob
  end.

Fixpoint check_steps (i : N) (s : state) (l : list cstep) : option N :=
  match l with
  | [] => None
  | (a, ob) :: r =>
      match explain s a ob with
      | Some s' => check_steps (i + 1) s' r
      | None => Some i
      end
  end.

Definition check_case (c : case) : option N := check_steps 0 (init (fst c)) (snd c).

Fixpoint check_all_from (i : N) (cs : list case) : list (N * N) :=
  match cs with
  | [] => []
  | c :: r => match check_case c with
              | Some k => (i, k) :: check_all_from (i + 1) r
              | None => check_all_from (i + 1) r
              end
  end.
(* (case index, first step that no model choice explains) *)
Definition check_all : list case -> list (N * N) := check_all_from 0.

(* ---------- Layer B: oracle on the observations alone (does not use [step]) ----------
   codes: 1  Lock returned true on a key that another caller still holds (mutual exclusion)
          2  no caller is inside a call or holds a key, yet the map is not empty (leak)
          3  Lock returned false although the caller's context was never cancelled
          4  the holder's own Unlock panicked
          5  an Unlock by a caller that does not hold the key returned normally although
             nobody held that key at any time during the call *)
Record ostate := {
  o_call : tid -> option op;     (* the call thread t is in *)
  o_phase : tid -> nat;          (* completed internal steps of that call *)
  o_has : tid -> option key;     (* the key thread t holds (Lock returned true, receive of Unlock not done) *)
  o_canc : tid -> bool;
  o_hold : key -> nat;           (* number of current holders of a key *)
  o_seen : tid -> bool }.        (* Unlock only: somebody held the key at some point during the call *)

Definition o_init : ostate :=
  {| o_call := fun _ => None; o_phase := fun _ => 0; o_has := fun _ => None; o_canc := fun _ => false;
     o_hold := fun _ => 0; o_seen := fun _ => false |}.

Definition okey_eqb (a : option key) (k : key) : bool :=
  match a with Some k' => Nat.eqb k k' | None => false end.

(* threads inside a call or holding a key *)
Definition o_busy (n : nat) (s : ostate) : nat :=
  cnt (fun t => is_some (o_call s t) || is_some (o_has s t)) (seq 0 n).

(* returns the new oracle state and a violation code (0 = fine) *)
Definition o_step (s : ostate) (a : action) (ob : obs) : ostate * N :=
  match a, fst ob with
  | ACancel t, _ =>
      ({| o_call := o_call s; o_phase := o_phase s; o_has := o_has s; o_canc := updf (o_canc s) t true;
          o_hold := o_hold s; o_seen := o_seen s |}, 0%N)
  | ACall t o, KStepped =>
      ({| o_call := updf (o_call s) t (Some o); o_phase := updf (o_phase s) t 0; o_has := o_has s;
          o_canc := o_canc s; o_hold := o_hold s; o_seen := updf (o_seen s) t false |}, 0%N)
  | AStep t _, KStepped =>
      let ph := S (o_phase s t) in
      (* the second completed step of an Unlock is the receive: the key is free from here on.
         If the caller is not the holder (allowed by the code, like sync.Mutex), the holder has
         lost the lock: it holds nothing any more. *)
      let is_recv := match o_call s t with Some (Unlock _) => Nat.eqb ph 2 | _ => false end in
      let k := match o_call s t with Some (Unlock k) => k | Some (Lock k) => k | None => 0 end in
      ({| o_call := o_call s; o_phase := updf (o_phase s) t ph;
          o_has := if is_recv then (fun u => if okey_eqb (o_has s u) k then None else o_has s u) else o_has s;
          o_canc := o_canc s;
          o_hold := if is_recv then updf (o_hold s) k (o_hold s k - 1) else o_hold s;
          o_seen := o_seen s |}, 0%N)
  | AStep t _, KTrue =>
      match o_call s t with
      | Some (Lock k) =>
          ({| o_call := updf (o_call s) t None; o_phase := o_phase s; o_has := updf (o_has s) t (Some k);
              o_canc := o_canc s; o_hold := updf (o_hold s) k (S (o_hold s k)); o_seen := o_seen s |},
           if Nat.ltb 0 (o_hold s k) then 1%N else 0%N)
      | _ => (s, 0%N)
      end
  | AStep t _, KFalse =>
      ({| o_call := updf (o_call s) t None; o_phase := o_phase s; o_has := o_has s; o_canc := o_canc s;
          o_hold := o_hold s; o_seen := o_seen s |},
       if o_canc s t then 0%N else 3%N)
  | AStep t _, KDone =>
      let fine := match o_call s t with
                  | Some (Unlock k) => o_seen s t
                  | _ => true end in
      ({| o_call := updf (o_call s) t None; o_phase := o_phase s; o_has := o_has s; o_canc := o_canc s;
          o_hold := o_hold s; o_seen := o_seen s |},
       if fine then 0%N else 5%N)
  | AStep t _, KPanic =>
      let own := match o_call s t with Some (Unlock k) => okey_eqb (o_has s t) k | _ => false end in
      ({| o_call := updf (o_call s) t None; o_phase := o_phase s; o_has := o_has s; o_canc := o_canc s;
          o_hold := o_hold s; o_seen := o_seen s |},
       if own then 4%N else 0%N)
  | _, _ => (s, 0%N)
  end.

(* while an Unlock is in flight, remember whether anybody held its key *)
Definition o_mark (s : ostate) : ostate :=
  {| o_call := o_call s; o_phase := o_phase s; o_has := o_has s; o_canc := o_canc s; o_hold := o_hold s;
     o_seen := fun t => o_seen s t || match o_call s t with Some (Unlock k) => Nat.ltb 0 (o_hold s k) | _ => false end |}.

Fixpoint oracle_steps (c i : N) (n : nat) (s : ostate) (l : list cstep) : list (N * N) :=
  match l with
  | [] => []
  | (a, ob) :: r =>
      let '(s1, code) := o_step s a ob in
      let s2 := o_mark s1 in
      let code := if N.eqb code 0 then (if Nat.eqb (o_busy n s2) 0 && negb (Nat.eqb (snd ob) 0) then 2%N else 0%N) else code in
      if N.eqb code 0 then oracle_steps c (i + 1) n s2 r
      else (c * 1000 + i, code)%N :: oracle_steps c (i + 1) n s2 r
  end.

Fixpoint oracle_all_from (c : N) (cs : list case) : list (N * N) :=
  match cs with
  | [] => []
  | x :: r => oracle_steps c 0 (fst x) o_init (snd x) ++ oracle_all_from (c + 1) r
  end.
(* (case index * 1000 + step, code) *)
Definition oracle_all : list case -> list (N * N) := oracle_all_from 0.

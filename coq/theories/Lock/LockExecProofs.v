(* C19 — theorems about the executable lock-map model (LockExec.v): inductive invariant and
   its consequences, for any number of threads, keys and steps, any schedule and any
   cancellations.  Ported from the relational prototype LockMapProofs.v. *)
From Coq Require Import List Arith Lia Bool.
Import ListNotations.
From Emu.Lock Require Import LockExec.

(* ---------- which lock object a thread refers to ---------- *)

Definition refs (k : key) (i : id) (p : pc) : bool :=
  match p with
  | L2a k' i' | L2b k' i' | L3 k' i' | Held k' i' | U3 k' i' | U1 k' (Some i') | U2 k' i' true =>
      Nat.eqb k k' && Nat.eqb i i'
  | _ => false
  end.
Definition refsid (i : id) (p : pc) : bool :=
  match p with
  | L2a _ i' | L2b _ i' | L3 _ i' | Held _ i' | U3 _ i' | U1 _ (Some i') | U2 _ i' true => Nat.eqb i i'
  | _ => false
  end.
(* the thread owns the token in the channel of object i *)
Definition owns (i : id) (p : pc) : bool :=
  match p with
  | Held _ i' | U1 _ (Some i') | U2 _ i' true => Nat.eqb i i'
  | _ => false
  end.
(* states that only an undisciplined Unlock can produce *)
Definition rogue (p : pc) : bool :=
  match p with U1 _ None | U2 _ _ false => true | _ => false end.

Record Inv (s : state) : Prop := {
  invA : forall t p k i, nth_error (thr s) t = Some p -> refs k i p = true -> mp s k = Some i;
  invB : forall i, rc s i = cnt (refsid i) (thr s);
  invC : forall i, cnt (owns i) (thr s) = if full s i then 1 else 0;
  invD : forall k i, mp s k = Some i -> i < next s /\ 0 < rc s i;
  invE : forall k k' i, mp s k = Some i -> mp s k' = Some i -> k = k';
  invF : forall i, next s <= i -> rc s i = 0 /\ full s i = false;
  invG : forall t p i, nth_error (thr s) t = Some p -> refsid i p = true -> i < next s;
  invH : forall t k i, nth_error (thr s) t = Some (L3 k i) -> canc s t = true;
  invI : forall t p, nth_error (thr s) t = Some p -> rogue p = false;
  invJ : forall k i, mp s k = Some i -> k < kb s }.

(* ---------- list / function update lemmas ---------- *)

Lemma cnt_upd {A} (p : A -> bool) l t old new :
  nth_error l t = Some old ->
  cnt p (upd l t new) + (if p old then 1 else 0) = cnt p l + (if p new then 1 else 0).
Proof.
  unfold cnt. revert t. induction l as [|x xs IH]; intros [|t] H; simpl in *; try discriminate.
  - injection H as ->. destruct (p old), (p new); simpl; lia.
  - specialize (IH t H). destruct (p x); simpl; lia.
Qed.

Lemma nth_upd_same {A} (l : list A) t v old : nth_error l t = Some old -> nth_error (upd l t v) t = Some v.
Proof. revert t. induction l; intros [|t] H; simpl in *; try discriminate; auto. Qed.
Lemma nth_upd_other {A} (l : list A) t u v : t <> u -> nth_error (upd l t v) u = nth_error l u.
Proof. revert t u. induction l; intros [|t] [|u] H; simpl in *; auto; try congruence. Qed.

Lemma nth_upd_inv {A} (l : list A) t u v st old :
  nth_error l t = Some old ->
  nth_error (upd l t v) u = Some st ->
  (u = t /\ st = v) \/ (u <> t /\ nth_error l u = Some st).
Proof.
  intros Ht H. destruct (Nat.eq_dec u t) as [->|Hne].
  - left. rewrite (nth_upd_same _ _ _ _ Ht) in H. injection H as <-. auto.
  - right. rewrite nth_upd_other in H by auto. auto.
Qed.

Lemma upd_id {A} (l : list A) t v : nth_error l t = Some v -> upd l t v = l.
Proof. revert t. induction l; intros [|t] H; simpl in *; try discriminate; [injection H as ->; auto|f_equal; auto]. Qed.
Lemma upd_upd {A} (l : list A) t v w : upd (upd l t v) t w = upd l t w.
Proof. revert t. induction l; intros [|t]; simpl; auto. f_equal; auto. Qed.

Lemma updf_same {A} (f : nat -> A) x v : updf f x v x = v.
Proof. unfold updf. rewrite Nat.eqb_refl. reflexivity. Qed.
Lemma updf_other {A} (f : nat -> A) x y v : y <> x -> updf f x v y = f y.
Proof. unfold updf. intros H. apply Nat.eqb_neq in H. rewrite H. reflexivity. Qed.

Lemma cnt_pos {A} (p : A -> bool) l t st : nth_error l t = Some st -> p st = true -> 0 < cnt p l.
Proof.
  unfold cnt. revert t. induction l as [|x xs IH]; intros [|t] H Hp; simpl in *; try discriminate.
  - injection H as ->. rewrite Hp. simpl. lia.
  - specialize (IH t H Hp). destruct (p x); simpl; lia.
Qed.

Lemma cnt_pos_ex {A} (p : A -> bool) l : 0 < cnt p l -> exists t st, nth_error l t = Some st /\ p st = true.
Proof.
  unfold cnt. induction l as [|x xs IH]; simpl; intros H; [lia|].
  destruct (p x) eqn:Ep.
  - exists 0, x. auto.
  - destruct (IH H) as (t & st & Ht & Hp). exists (S t), st. auto.
Qed.

Lemma cnt_le {A} (p q : A -> bool) l : (forall x, In x l -> p x = true -> q x = true) -> cnt p l <= cnt q l.
Proof.
  unfold cnt. induction l as [|x xs IH]; simpl; intros H; auto.
  assert (IH' : length (filter p xs) <= length (filter q xs)) by (apply IH; intros; apply H; auto).
  destruct (p x) eqn:Ep.
  - rewrite (H x (or_introl eq_refl) Ep). simpl. lia.
  - destruct (q x); simpl; lia.
Qed.

Lemma cnt_zero {A} (p : A -> bool) l : (forall x, In x l -> p x = false) -> cnt p l = 0.
Proof.
  unfold cnt. induction l as [|x xs IH]; simpl; intros H; auto.
  rewrite (H x (or_introl eq_refl)). apply IH. intros; apply H; auto.
Qed.

Ltac beq :=
  repeat match goal with
  | H : (_ && _)%bool = true |- _ => apply andb_prop in H; destruct H
  | H : Nat.eqb _ _ = true |- _ => apply Nat.eqb_eq in H; subst
  | H : Nat.eqb _ _ = false |- _ => apply Nat.eqb_neq in H
  end.

Lemma refs_refsid k i p : refs k i p = true -> refsid i p = true.
Proof.
  destruct p as [ | | | | | |? [?|]|? ? [|]| ]; simpl; auto; intros H; apply andb_prop in H; tauto.
Qed.
Lemma refs_self_key k i p : refs k i p = true -> pc_key p = Some k.
Proof.
  destruct p as [ | | | | | |? [?|]|? ? [|]| ]; simpl; try discriminate; intros H; beq; reflexivity.
Qed.
Lemma owns_refsid i p : owns i p = true -> refsid i p = true.
Proof. destruct p as [ | | | | | |? [?|]|? ? [|]| ]; simpl; auto; discriminate. Qed.
Lemma refsid_refs i p : refsid i p = true -> exists k, refs k i p = true /\ pc_key p = Some k.
Proof.
  destruct p as [ |k|k j|k j|k j|k j|k [j|]|k j [|]|k j]; simpl; try discriminate; intros H; exists k;
    rewrite Nat.eqb_refl; simpl; auto.
Qed.

(* ---------- the invariant holds initially ---------- *)

Theorem inv_init n : Inv (init n).
Proof.
  constructor; simpl; intros; try discriminate; auto.
  - apply nth_error_In in H. apply repeat_spec in H. subst. discriminate.
  - unfold cnt. induction n; simpl; auto.
  - unfold cnt. induction n; simpl; auto.
  - apply nth_error_In in H. apply repeat_spec in H. subst. discriminate.
  - apply nth_error_In in H. apply repeat_spec in H. discriminate.
  - apply nth_error_In in H. apply repeat_spec in H. subst. reflexivity.
Qed.

(* ---------- preservation, one lemma per kind of state change ---------- *)

(* a change of program counter that keeps the thread's references and ownership *)
Lemma inv_set_pc s t old new :
  Inv s -> nth_error (thr s) t = Some old ->
  (forall k i, refs k i new = refs k i old) ->
  (forall i, refsid i new = refsid i old) ->
  (forall i, owns i new = owns i old) ->
  (forall k i, new = L3 k i -> canc s t = true) ->
  rogue new = false ->
  Inv (set_pc s t new).
Proof.
  intros [A B C D E F G H I J] Ht Hr Hri Ho HL Hrg.
  constructor; unfold set_pc; simpl; auto.
  - intros u p k i Hu Hrf. destruct (nth_upd_inv _ _ _ _ _ _ Ht Hu) as [[-> ->]|[Hne Hu']].
    + rewrite Hr in Hrf. eauto.
    + eauto.
  - intros i. pose proof (cnt_upd (refsid i) _ _ _ new Ht) as Hc. rewrite Hri in Hc. rewrite B.
    destruct (refsid i old); lia.
  - intros i. pose proof (cnt_upd (owns i) _ _ _ new Ht) as Hc. rewrite Ho in Hc. rewrite <- C.
    destruct (owns i old); lia.
  - intros u p i Hu Hrf. destruct (nth_upd_inv _ _ _ _ _ _ Ht Hu) as [[-> ->]|[Hne Hu']].
    + rewrite Hri in Hrf. eauto.
    + eauto.
  - intros u k i Hu. destruct (nth_upd_inv _ _ _ _ _ _ Ht Hu) as [[-> Heq]|[Hne Hu']].
    + eapply HL. symmetry. exact Heq.
    + eauto.
  - intros u p Hu. destruct (nth_upd_inv _ _ _ _ _ _ Ht Hu) as [[-> ->]|[Hne Hu']]; eauto.
Qed.

Lemma inv_set_canc s t : Inv s -> Inv (set_canc s t).
Proof.
  intros [A B C D E F G H I J]. constructor; unfold set_canc; simpl; auto.
  intros u k i Hu. unfold updf. destruct (Nat.eqb u t); eauto.
Qed.

Lemma inv_L1 s t k : Inv s -> nth_error (thr s) t = Some (L1 k) -> Inv (do_L1 s t k).
Proof.
  intros [A B C D E F G H I J] Ht. unfold do_L1. destruct (mp s k) as [i|] eqn:Hm.
  - constructor; simpl.
    + intros u st k0 i0 Hu Hr. destruct (nth_upd_inv _ _ _ _ _ _ Ht Hu) as [[-> ->]|[Hne Hu']].
      * simpl in Hr. beq. assumption.
      * eauto.
    + intros i0. pose proof (cnt_upd (refsid i0) _ _ _ (L2a k i) Ht) as Hc. simpl in Hc.
      unfold updf. destruct (Nat.eqb i0 i) eqn:Ei; beq.
      * rewrite B. lia.
      * rewrite B. lia.
    + intros i0. pose proof (cnt_upd (owns i0) _ _ _ (L2a k i) Ht) as Hc. simpl in Hc. rewrite <- C. lia.
    + intros k0 i0 Hm0. destruct (D _ _ Hm0). split; auto. unfold updf. destruct (Nat.eqb i0 i); lia.
    + eauto.
    + intros i0 Hi. destruct (F _ Hi). destruct (D _ _ Hm). split; auto.
      rewrite updf_other by lia. auto.
    + intros u st i0 Hu Hr. destruct (nth_upd_inv _ _ _ _ _ _ Ht Hu) as [[-> ->]|[Hne Hu']].
      * simpl in Hr. beq. destruct (D _ _ Hm); auto.
      * eauto.
    + intros u k0 i0 Hu. destruct (nth_upd_inv _ _ _ _ _ _ Ht Hu) as [[-> Heq]|[Hne Hu']]; [discriminate|eauto].
    + intros u p Hu. destruct (nth_upd_inv _ _ _ _ _ _ Ht Hu) as [[-> ->]|[Hne Hu']]; eauto.
    + auto.
  - assert (Hfresh : forall u st, nth_error (thr s) u = Some st -> refsid (next s) st = false).
    { intros u st Hu. destruct (refsid (next s) st) eqn:Er; auto. specialize (G _ _ _ Hu Er). lia. }
    constructor; simpl.
    + intros u st k0 i0 Hu Hr. destruct (nth_upd_inv _ _ _ _ _ _ Ht Hu) as [[-> ->]|[Hne Hu']].
      * simpl in Hr. beq. apply updf_same.
      * pose proof (A _ _ _ _ Hu' Hr) as Hk. destruct (Nat.eq_dec k0 k) as [->|Hk0]; [congruence|].
        rewrite updf_other; auto.
    + intros i0. pose proof (cnt_upd (refsid i0) _ _ _ (L2a k (next s)) Ht) as Hc. simpl in Hc.
      unfold updf. destruct (Nat.eqb i0 (next s)) eqn:Ei; beq.
      * destruct (F (next s) (le_n _)) as [Hz _]. rewrite B in Hz. lia.
      * rewrite B. lia.
    + intros i0. pose proof (cnt_upd (owns i0) _ _ _ (L2a k (next s)) Ht) as Hc. simpl in Hc.
      unfold updf. destruct (Nat.eqb i0 (next s)) eqn:Ei; beq.
      * destruct (F (next s) (le_n _)) as [_ Hf]. specialize (C (next s)). rewrite Hf in C. lia.
      * rewrite <- C. lia.
    + intros k0 i0 Hk. unfold updf in *. destruct (Nat.eqb k0 k) eqn:Ek.
      * injection Hk as <-. rewrite Nat.eqb_refl. lia.
      * destruct (D _ _ Hk). assert (Hne : Nat.eqb i0 (next s) = false) by (apply Nat.eqb_neq; lia). rewrite Hne. lia.
    + intros k0 k' i0 H1 H2. unfold updf in *.
      destruct (Nat.eqb k0 k) eqn:E1, (Nat.eqb k' k) eqn:E2; beq; auto.
      * injection H1 as <-. destruct (D _ _ H2). lia.
      * injection H2 as <-. destruct (D _ _ H1). lia.
      * eauto.
    + intros i0 Hi. destruct (F i0 ltac:(lia)). rewrite !updf_other by lia. auto.
    + intros u st i0 Hu Hr. destruct (nth_upd_inv _ _ _ _ _ _ Ht Hu) as [[-> ->]|[Hne Hu']].
      * simpl in Hr. beq. lia.
      * specialize (G _ _ _ Hu' Hr). lia.
    + intros u k0 i0 Hu. destruct (nth_upd_inv _ _ _ _ _ _ Ht Hu) as [[-> Heq]|[Hne Hu']]; [discriminate|eauto].
    + intros u p Hu. destruct (nth_upd_inv _ _ _ _ _ _ Ht Hu) as [[-> ->]|[Hne Hu']]; eauto.
    + intros k0 i0 Hk. unfold updf in Hk. destruct (Nat.eqb k0 k) eqn:Ek; beq.
      * lia.
      * specialize (J _ _ Hk). lia.
Qed.

Lemma inv_acquire s t k i :
  Inv s -> nth_error (thr s) t = Some (L2b k i) -> full s i = false -> Inv (do_acquire s t k i).
Proof.
  intros [A B C D E F G H I J] Ht Hf. constructor; unfold do_acquire; simpl; auto.
  - intros u st k0 i0 Hu Hr. destruct (nth_upd_inv _ _ _ _ _ _ Ht Hu) as [[-> ->]|[Hne Hu']].
    + apply (A t (L2b k i)); auto.
    + eauto.
  - intros i0. pose proof (cnt_upd (refsid i0) _ _ _ (Held k i) Ht) as Hc. simpl in Hc. rewrite B.
    destruct (Nat.eqb i0 i); lia.
  - intros i0. pose proof (cnt_upd (owns i0) _ _ _ (Held k i) Ht) as Hc. simpl in Hc.
    unfold updf. destruct (Nat.eqb i0 i) eqn:Ei; beq.
    + specialize (C i). rewrite Hf in C. lia.
    + rewrite <- C. lia.
  - intros i0 Hi. destruct (F _ Hi). split; auto. rewrite updf_other; auto.
    assert (i < next s) by (apply (G t (L2b k i)); simpl; auto using Nat.eqb_refl). lia.
  - intros u st i0 Hu Hr. destruct (nth_upd_inv _ _ _ _ _ _ Ht Hu) as [[-> ->]|[Hne Hu']].
    + apply (G t (L2b k i)); auto.
    + eauto.
  - intros u k0 i0 Hu. destruct (nth_upd_inv _ _ _ _ _ _ Ht Hu) as [[-> Heq]|[Hne Hu']]; [discriminate|eauto].
  - intros u p Hu. destruct (nth_upd_inv _ _ _ _ _ _ Ht Hu) as [[-> ->]|[Hne Hu']]; eauto.
Qed.

Lemma inv_recv s t k j :
  Inv s -> nth_error (thr s) t = Some (U2 k j true) -> full s j = true -> Inv (do_recv s t k j).
Proof.
  intros [A B C D E F G H I J] Ht Hf. constructor; unfold do_recv; simpl; auto.
  - intros u st k0 i0 Hu Hr. destruct (nth_upd_inv _ _ _ _ _ _ Ht Hu) as [[-> ->]|[Hne Hu']].
    + apply (A t (U2 k j true)); auto.
    + eauto.
  - intros i0. pose proof (cnt_upd (refsid i0) _ _ _ (U3 k j) Ht) as Hc. simpl in Hc. rewrite B.
    destruct (Nat.eqb i0 j); lia.
  - intros i0. pose proof (cnt_upd (owns i0) _ _ _ (U3 k j) Ht) as Hc. simpl in Hc.
    unfold updf. destruct (Nat.eqb i0 j) eqn:Ei; beq.
    + specialize (C j). rewrite Hf in C. lia.
    + rewrite <- C. lia.
  - intros i0 Hi. destruct (F _ Hi). split; auto. rewrite updf_other; auto.
    assert (j < next s) by (apply (G t (U2 k j true)); simpl; auto using Nat.eqb_refl). lia.
  - intros u st i0 Hu Hr. destruct (nth_upd_inv _ _ _ _ _ _ Ht Hu) as [[-> ->]|[Hne Hu']].
    + apply (G t (U2 k j true)); auto.
    + eauto.
  - intros u k0 i0 Hu. destruct (nth_upd_inv _ _ _ _ _ _ Ht Hu) as [[-> Heq]|[Hne Hu']]; [discriminate|eauto].
  - intros u p Hu. destruct (nth_upd_inv _ _ _ _ _ _ Ht Hu) as [[-> ->]|[Hne Hu']]; eauto.
Qed.

Lemma inv_ret_obj s t k i st :
  Inv s -> nth_error (thr s) t = Some st -> refs k i st = true -> (forall j, owns j st = false) ->
  Inv (ret_obj s t k i).
Proof.
  intros [A B C D E F G H I J] Ht Hr Ho.
  pose proof (A _ _ _ _ Ht Hr) as Hm.
  pose proof (refs_refsid _ _ _ Hr) as Hri.
  assert (Hcnt : cnt (refsid i) (upd (thr s) t Idle) + 1 = cnt (refsid i) (thr s)).
  { pose proof (cnt_upd (refsid i) _ _ _ Idle Ht) as Hc. rewrite Hri in Hc. simpl in Hc. lia. }
  assert (Hlt : i < next s) by (eapply G; eauto).
  constructor; unfold ret_obj; simpl; auto.
  - intros u st0 k0 i0 Hu Hr0. destruct (nth_upd_inv _ _ _ _ _ _ Ht Hu) as [[-> ->]|[Hne Hu']].
    + discriminate.
    + pose proof (A _ _ _ _ Hu' Hr0) as Hk0.
      destruct (Nat.eqb (rc s i - 1) 0) eqn:Ez; auto.
      destruct (Nat.eq_dec k0 k) as [->|Hk]; [|rewrite updf_other; auto].
      exfalso. assert (i0 = i) by congruence. subst i0. beq.
      assert (0 < cnt (refsid i) (upd (thr s) t Idle)).
      { eapply cnt_pos; [rewrite nth_upd_other; eauto|]. apply refs_refsid in Hr0. exact Hr0. }
      rewrite B in Ez. lia.
  - intros i0. pose proof (cnt_upd (refsid i0) _ _ _ Idle Ht) as Hc. simpl in Hc.
    unfold updf. destruct (Nat.eqb i0 i) eqn:Ei; beq.
    + rewrite B. lia.
    + assert (Hz : refsid i0 st = false).
      { destruct (refsid i0 st) eqn:Ers; auto. exfalso.
        destruct (refsid_refs _ _ Ers) as (k1 & Hr1 & Hk1).
        rewrite (refs_self_key _ _ _ Hr) in Hk1. injection Hk1 as <-.
        pose proof (A _ _ _ _ Ht Hr1). congruence. }
      rewrite Hz in Hc. rewrite B. lia.
  - intros i0. pose proof (cnt_upd (owns i0) _ _ _ Idle Ht) as Hc. rewrite Ho in Hc. simpl in Hc.
    rewrite <- C. lia.
  - intros k0 i0 Hk0.
    assert (Hk0' : mp s k0 = Some i0).
    { destruct (Nat.eqb (rc s i - 1) 0); auto. unfold updf in Hk0. destruct (Nat.eqb k0 k); [discriminate|auto]. }
    destruct (D _ _ Hk0'). split; auto.
    unfold updf. destruct (Nat.eqb i0 i) eqn:Ei; beq; auto.
    assert (k0 = k) by eauto. subst k0.
    destruct (Nat.eqb (rc s i - 1) 0) eqn:Ez; beq; [|lia].
    rewrite updf_same in Hk0. discriminate.
  - intros k0 k' i0 H1 H2.
    assert (H1' : mp s k0 = Some i0).
    { destruct (Nat.eqb (rc s i - 1) 0); auto. unfold updf in H1. destruct (Nat.eqb k0 k); [discriminate|auto]. }
    assert (H2' : mp s k' = Some i0).
    { destruct (Nat.eqb (rc s i - 1) 0); auto. unfold updf in H2. destruct (Nat.eqb k' k); [discriminate|auto]. }
    eauto.
  - intros i0 Hi. destruct (F _ Hi). split; auto. rewrite updf_other by lia. auto.
  - intros u st0 i0 Hu Hr0. destruct (nth_upd_inv _ _ _ _ _ _ Ht Hu) as [[-> ->]|[Hne Hu']].
    + discriminate.
    + eauto.
  - intros u k0 i0 Hu. destruct (nth_upd_inv _ _ _ _ _ _ Ht Hu) as [[-> Heq]|[Hne Hu']]; [discriminate|eauto].
  - intros u p Hu. destruct (nth_upd_inv _ _ _ _ _ _ Ht Hu) as [[-> ->]|[Hne Hu']]; eauto.
  - intros k0 i0 Hk0. apply (J k0 i0).
    destruct (Nat.eqb (rc s i - 1) 0); auto. unfold updf in Hk0. destruct (Nat.eqb k0 k); [discriminate|auto].
Qed.

(* ---------- facts about single states that follow from the invariant ---------- *)

Lemma inv_rc_pos s t p i : Inv s -> nth_error (thr s) t = Some p -> refsid i p = true -> Nat.eqb (rc s i) 0 = false.
Proof.
  intros HI Ht Hr. apply Nat.eqb_neq. rewrite (invB _ HI). pose proof (cnt_pos _ _ _ _ Ht Hr). lia.
Qed.

Lemma inv_owner_full s t p i : Inv s -> nth_error (thr s) t = Some p -> owns i p = true -> full s i = true.
Proof.
  intros HI Ht Ho. pose proof (invC _ HI i) as C. pose proof (cnt_pos _ _ _ _ Ht Ho).
  destruct (full s i); auto. lia.
Qed.

(* ---------- every step preserves the invariant ---------- *)

Theorem inv_step s a : Inv s -> disciplined s a = true -> Inv (fst (step s a)).
Proof.
  intros HI Hd. destruct a as [t o|t c|t]; simpl in *.
  - (* ACall *)
    destruct (nth_error (thr s) t) as [p|] eqn:Ht; [|exact HI].
    destruct p; try (destruct o; exact HI).
    + destruct o as [k|k]; [|discriminate]. simpl.
      eapply inv_set_pc; eauto; try reflexivity; discriminate.
    + destruct o as [k0|k0]; [exact HI|].
      destruct (Nat.eqb k0 k) eqn:Ek; [|exact HI]. beq. simpl.
      eapply inv_set_pc; eauto; try reflexivity; discriminate.
  - (* AStep *)
    destruct (nth_error (thr s) t) as [p|] eqn:Ht; [|exact HI].
    destruct p as [ |k|k i|k i|k i|k i|k g|k j own|k j]; simpl; try exact HI.
    + apply inv_L1; auto.
    + destruct (canc s t) eqn:Ec; eapply inv_set_pc; eauto; try reflexivity; try discriminate.
    + destruct (negb (full s i) && (negb (canc s t) || c)) eqn:Eg; simpl.
      * apply inv_acquire; auto. apply andb_prop in Eg. destruct Eg as [Eg _]. apply negb_true_iff in Eg. exact Eg.
      * destruct (canc s t) eqn:Ec; simpl; [|exact HI].
        eapply inv_set_pc; eauto; try reflexivity; discriminate.
    + rewrite (inv_rc_pos s t (L3 k i) i HI Ht) by (simpl; apply Nat.eqb_refl). simpl.
      eapply inv_ret_obj; eauto. simpl. rewrite !Nat.eqb_refl. reflexivity.
    + destruct g as [i|]; [|pose proof (invI _ HI _ _ Ht); discriminate].
      rewrite (invA _ HI t (U1 k (Some i)) k i Ht) by (simpl; rewrite !Nat.eqb_refl; reflexivity). simpl.
      eapply inv_set_pc; eauto; try reflexivity; discriminate.
    + destruct own; [|pose proof (invI _ HI _ _ Ht); discriminate].
      rewrite (inv_owner_full s t (U2 k j true) j HI Ht) by (simpl; apply Nat.eqb_refl). simpl.
      apply inv_recv; auto. eapply inv_owner_full; eauto. simpl. apply Nat.eqb_refl.
    + rewrite (inv_rc_pos s t (U3 k j) j HI Ht) by (simpl; apply Nat.eqb_refl). simpl.
      eapply inv_ret_obj; eauto. simpl. rewrite !Nat.eqb_refl. reflexivity.
  - (* ACancel *)
    destruct (nth_error (thr s) t); simpl; [apply inv_set_canc; auto|exact HI].
Qed.

(* ---------- reachability: any number of threads, any disciplined schedule ---------- *)

Inductive reachable (n : nat) : state -> Prop :=
| r_init : reachable n (init n)
| r_step s a : reachable n s -> disciplined s a = true -> reachable n (fst (step s a)).

Lemma run_fst s a r : fst (run s (a :: r)) = fst (run (fst (step s a)) r).
Proof. simpl. destruct (step s a) as [s1 o]. simpl. destruct (run s1 r). reflexivity. Qed.

Lemma reachable_run_from n s acts : reachable n s -> run_disc s acts = true -> reachable n (fst (run s acts)).
Proof.
  revert s. induction acts as [|a r IH]; intros s Hr Hd; [exact Hr|].
  simpl in Hd. apply andb_prop in Hd. destruct Hd as [Hd1 Hd2].
  rewrite run_fst. apply IH; auto. constructor; auto.
Qed.

Theorem reachable_run n acts : run_disc (init n) acts = true -> reachable n (fst (run (init n) acts)).
Proof. apply reachable_run_from. constructor. Qed.

Theorem lm_invariant n s : reachable n s -> Inv s.
Proof. induction 1; [apply inv_init | apply inv_step; auto]. Qed.

(* ---------- mutual exclusion ---------- *)

Lemma holds_refs k p : holds_key k p = true -> exists i, refs k i p = true /\ owns i p = true.
Proof.
  destruct p as [ |k'|k' j|k' j|k' j|k' j|k' [j|]|k' j [|]|k' j]; simpl; try discriminate; intros H; beq;
    exists j; rewrite !Nat.eqb_refl; auto.
Qed.

Lemma holders_le_owns s k i : Inv s -> mp s k = Some i -> holders k s <= cnt (owns i) (thr s).
Proof.
  intros HI Hm. apply cnt_le. intros x Hin Hx. apply In_nth_error in Hin. destruct Hin as [t Ht].
  destruct (holds_refs _ _ Hx) as (j & Hr & Ho).
  pose proof (invA _ HI _ _ _ _ Ht Hr). assert (j = i) by congruence. subst. exact Ho.
Qed.

Lemma owns_le_holders s k i : Inv s -> mp s k = Some i -> cnt (owns i) (thr s) <= holders k s.
Proof.
  intros HI Hm. apply cnt_le. intros x Hin Hx. apply In_nth_error in Hin. destruct Hin as [t Ht].
  destruct (refsid_refs _ _ (owns_refsid _ _ Hx)) as (k1 & Hr & Hk).
  pose proof (invA _ HI _ _ _ _ Ht Hr) as Hm1. assert (k1 = k) by (eapply (invE _ HI); eauto). subst k1.
  destruct x as [ |k'|k' j|k' j|k' j|k' j|k' [j|]|k' j [|]|k' j]; simpl in *; try discriminate;
    injection Hk as ->; apply Nat.eqb_refl.
Qed.

Lemma holders_unmapped s k : Inv s -> mp s k = None -> holders k s = 0.
Proof.
  intros HI Hm. apply cnt_zero. intros x Hin. destruct (holds_key k x) eqn:Hx; auto. exfalso.
  apply In_nth_error in Hin. destruct Hin as [t Ht]. destruct (holds_refs _ _ Hx) as (j & Hr & _).
  pose proof (invA _ HI _ _ _ _ Ht Hr). congruence.
Qed.

Lemma inv_mutex s k : Inv s -> holders k s <= 1.
Proof.
  intros HI. destruct (mp s k) as [i|] eqn:Hm.
  - pose proof (holders_le_owns _ _ _ HI Hm). pose proof (invC _ HI i). destruct (full s i); lia.
  - rewrite holders_unmapped; auto.
Qed.

Theorem lm_mutual_exclusion n s k : reachable n s -> holders k s <= 1.
Proof. intros Hr. apply inv_mutex. eapply lm_invariant; eauto. Qed.

(* ---------- shape of a step: only the acting thread's program counter changes ---------- *)

Definition act_thread (a : action) : tid :=
  match a with ACall t _ | AStep t _ | ACancel t => t end.

Lemma step_other_threads s a u : u <> act_thread a -> nth_error (thr (fst (step s a))) u = nth_error (thr s) u.
Proof.
  intros Hne. destruct a as [t o|t c|t]; simpl in *.
  - destruct (nth_error (thr s) t) as [p|]; [|reflexivity].
    destruct p; destruct o; simpl; try reflexivity; try (apply nth_upd_other; auto).
    destruct (Nat.eqb k0 k); simpl; [apply nth_upd_other; auto|reflexivity].
  - destruct (nth_error (thr s) t) as [p|]; [|reflexivity].
    destruct p as [ |k|k i|k i|k i|k i|k g|k j own|k j]; simpl; try reflexivity.
    + unfold do_L1. destruct (mp s k); simpl; apply nth_upd_other; auto.
    + apply nth_upd_other; auto.
    + destruct (negb (full s i) && (negb (canc s t) || c)); simpl; [apply nth_upd_other; auto|].
      destruct (canc s t); simpl; [apply nth_upd_other; auto|reflexivity].
    + destruct (Nat.eqb (rc s i) 0); simpl; apply nth_upd_other; auto.
    + destruct (mp s k); simpl; apply nth_upd_other; auto.
    + destruct (full s j); simpl; apply nth_upd_other; auto.
    + destruct (Nat.eqb (rc s j) 0); simpl; apply nth_upd_other; auto.
  - destruct (nth_error (thr s) t); reflexivity.
Qed.

(* ---------- Lock returns true exactly when the thread acquires ---------- *)

(* a step with outcome "returned true" is the send alternative of thread t's select *)
Lemma step_ret_true s a s' :
  step s a = (s', ORet true) ->
  exists t c k i, a = AStep t c /\ nth_error (thr s) t = Some (L2b k i) /\ full s i = false
                  /\ s' = do_acquire s t k i.
Proof.
  intros H. destruct a as [t o|t c|t]; simpl in H.
  - destruct (nth_error (thr s) t) as [p|]; [|discriminate].
    destruct p; destruct o; try discriminate. destruct (Nat.eqb k0 k); discriminate.
  - destruct (nth_error (thr s) t) as [p|] eqn:Ht; [|discriminate].
    destruct p as [ |k|k i|k i|k i|k i|k g|k j own|k j]; try discriminate.
    + destruct (negb (full s i) && (negb (canc s t) || c)) eqn:Eg.
      * injection H as <-. exists t, c, k, i. repeat split; auto.
        apply andb_prop in Eg. destruct Eg as [Eg _]. apply negb_true_iff in Eg. exact Eg.
      * destruct (canc s t); discriminate.
    + destruct (Nat.eqb (rc s i) 0); discriminate.
    + destruct (mp s k); discriminate.
    + destruct (full s j); discriminate.
    + destruct (Nat.eqb (rc s j) 0); discriminate.
  - destruct (nth_error (thr s) t); discriminate.
Qed.

Theorem lm_lock_true_acquires n s a s' :
  reachable n s -> step s a = (s', ORet true) ->
  exists t c k i, a = AStep t c
    /\ nth_error (thr s) t = Some (L2b k i) /\ nth_error (thr s') t = Some (Held k i)
    /\ mp s' k = Some i /\ full s i = false /\ full s' i = true
    /\ holders k s = 0 /\ holders k s' = 1.
Proof.
  intros Hr Hs. pose proof (lm_invariant _ _ Hr) as HI.
  destruct (step_ret_true _ _ _ Hs) as (t & c & k & i & -> & Ht & Hf & ->).
  assert (Hm : mp s k = Some i) by (apply (invA _ HI t (L2b k i)); auto; simpl; rewrite !Nat.eqb_refl; reflexivity).
  assert (HI' : Inv (do_acquire s t k i)) by (apply inv_acquire; auto).
  assert (Ht' : nth_error (thr (do_acquire s t k i)) t = Some (Held k i)) by (simpl; eapply nth_upd_same; eauto).
  exists t, c, k, i. repeat split; auto.
  - simpl. apply updf_same.
  - pose proof (holders_le_owns _ _ _ HI Hm). pose proof (invC _ HI i) as C. rewrite Hf in C. lia.
  - pose proof (inv_mutex _ k HI').
    assert (0 < holders k (do_acquire s t k i)).
    { unfold holders. eapply cnt_pos; eauto. simpl. apply Nat.eqb_refl. }
    lia.
Qed.

(* converse: a thread becomes a holder only through a step whose outcome is "returned true" *)
Theorem lm_lock_true_iff_acquired n s a :
  reachable n s -> disciplined s a = true ->
  (snd (step s a) = ORet true
   <-> exists t k i, nth_error (thr (fst (step s a))) t = Some (Held k i) /\ nth_error (thr s) t <> Some (Held k i)).
Proof.
  intros Hr Hd. split.
  - intros Ho. destruct (step s a) as [s' o] eqn:Hs. simpl in Ho. subst o.
    destruct (lm_lock_true_acquires _ _ _ _ Hr Hs) as (t & c & k & i & _ & Ht & Ht' & _).
    exists t, k, i. simpl. split; auto. rewrite Ht. discriminate.
  - intros (u & k0 & i0 & Hu' & Hu).
    destruct (Nat.eq_dec u (act_thread a)) as [->|Hne]; [|rewrite step_other_threads in Hu' by auto; contradiction].
    destruct a as [t o|t c|t]; simpl in *.
    + destruct (nth_error (thr s) t) as [p|] eqn:Ht; [|(simpl in *; congruence)].
      destruct p; destruct o; simpl in *; try (simpl in *; congruence);
        try (rewrite (nth_upd_same _ _ _ _ Ht) in Hu'; discriminate).
      destruct (Nat.eqb k1 k); simpl in *; [rewrite (nth_upd_same _ _ _ _ Ht) in Hu'; discriminate|(simpl in *; congruence)].
    + destruct (nth_error (thr s) t) as [p|] eqn:Ht; [|(simpl in *; congruence)].
      destruct p as [ |k|k i|k i|k i|k i|k g|k j own|k j]; simpl in *; try (simpl in *; congruence).
      * unfold do_L1 in Hu'. destruct (mp s k); simpl in Hu'; rewrite (nth_upd_same _ _ _ _ Ht) in Hu'; discriminate.
      * rewrite (nth_upd_same _ _ _ _ Ht) in Hu'. destruct (canc s t); discriminate.
      * destruct (negb (full s i) && (negb (canc s t) || c)); simpl in *; [reflexivity|].
        destruct (canc s t); simpl in *; [rewrite (nth_upd_same _ _ _ _ Ht) in Hu'; discriminate|(simpl in *; congruence)].
      * destruct (Nat.eqb (rc s i) 0); simpl in *; rewrite (nth_upd_same _ _ _ _ Ht) in Hu'; discriminate.
      * destruct (mp s k); simpl in *; rewrite (nth_upd_same _ _ _ _ Ht) in Hu'; discriminate.
      * destruct (full s j); simpl in *; rewrite (nth_upd_same _ _ _ _ Ht) in Hu'; discriminate.
      * destruct (Nat.eqb (rc s j) 0); simpl in *; rewrite (nth_upd_same _ _ _ _ Ht) in Hu'; discriminate.
    + destruct (nth_error (thr s) t) eqn:Ht; simpl in *; congruence.
Qed.

(* ---------- a failed Lock holds nothing ---------- *)

Lemma step_ret_false s a s' :
  step s a = (s', ORet false) ->
  exists t c k i, a = AStep t c /\ nth_error (thr s) t = Some (L3 k i) /\ s' = ret_obj s t k i.
Proof.
  intros H. destruct a as [t o|t c|t]; simpl in H.
  - destruct (nth_error (thr s) t) as [p|]; [|discriminate].
    destruct p; destruct o; try discriminate. destruct (Nat.eqb k0 k); discriminate.
  - destruct (nth_error (thr s) t) as [p|] eqn:Ht; [|discriminate].
    destruct p as [ |k|k i|k i|k i|k i|k g|k j own|k j]; try discriminate.
    + destruct (negb (full s i) && (negb (canc s t) || c)); [discriminate|]. destruct (canc s t); discriminate.
    + destruct (Nat.eqb (rc s i) 0); [discriminate|]. injection H as <-. exists t, c, k, i. auto.
    + destruct (mp s k); discriminate.
    + destruct (full s j); discriminate.
    + destruct (Nat.eqb (rc s j) 0); discriminate.
  - destruct (nth_error (thr s) t); discriminate.
Qed.

(* Lock returns false only when the caller's context has ended; at that point the thread is
   not a holder of anything, it leaves as idle, the channel of every lock object is exactly
   as it was (so nobody is blocked by it), its refcount contribution is removed, and the map
   entry goes away if it was the last user. *)
Theorem lm_cancel_holds_nothing n s a s' :
  reachable n s -> step s a = (s', ORet false) ->
  exists t c k i, a = AStep t c
    /\ nth_error (thr s) t = Some (L3 k i) /\ canc s t = true
    /\ nth_error (thr s') t = Some Idle
    /\ (forall j, full s' j = full s j)
    /\ S (rc s' i) = rc s i /\ (forall j, j <> i -> rc s' j = rc s j)
    /\ (forall k', holders k' s' = holders k' s)
    /\ (forall k', holds_key k' (L3 k i) = false)
    /\ (rc s i = 1 -> mp s' k = None)
    /\ (forall k', k' <> k -> mp s' k' = mp s k').
Proof.
  intros Hr Hs. pose proof (lm_invariant _ _ Hr) as HI.
  destruct (step_ret_false _ _ _ Hs) as (t & c & k & i & -> & Ht & ->).
  exists t, c, k, i. repeat split; auto.
  - eapply (invH _ HI); eauto.
  - simpl. eapply nth_upd_same; eauto.
  - simpl. rewrite updf_same.
    pose proof (inv_rc_pos s t (L3 k i) i HI Ht) as Hp. simpl in Hp. rewrite Nat.eqb_refl in Hp.
    specialize (Hp eq_refl). apply Nat.eqb_neq in Hp. lia.
  - intros j Hj. simpl. apply updf_other; auto.
  - intros k'. unfold holders. simpl.
    pose proof (cnt_upd (holds_key k') _ _ _ Idle Ht) as Hc. simpl in Hc. lia.
  - intros H1. simpl. rewrite H1. simpl. apply updf_same.
  - intros k' Hk. simpl. destruct (Nat.eqb (rc s i - 1) 0); auto. apply updf_other; auto.
Qed.

(* giving up (L2a with a cancelled context, or the ctx.Done alternative of the select) does not
   touch any channel, refcount or map entry *)
Theorem lm_giveup_touches_nothing s t c k i s' :
  (nth_error (thr s) t = Some (L2a k i) \/ nth_error (thr s) t = Some (L2b k i)) ->
  step s (AStep t c) = (s', OStepped) ->
  (forall j, full s' j = full s j) /\ (forall j, rc s' j = rc s j) /\ (forall k', mp s' k' = mp s k').
Proof.
  intros [Ht|Ht] Hs; simpl in Hs; rewrite Ht in Hs.
  - injection Hs as <-. simpl. auto.
  - destruct (negb (full s i) && (negb (canc s t) || c)); [discriminate|].
    destruct (canc s t); [|discriminate]. injection Hs as <-. simpl. auto.
Qed.

(* ---------- no lost wake-up ---------- *)

(* a waiter whose channel is empty is enabled, and acquires unless it prefers to give up *)
Lemma waiter_enabled s t k i c :
  nth_error (thr s) t = Some (L2b k i) -> full s i = false ->
  progress (snd (step s (AStep t c))) = true
  /\ (canc s t = false \/ c = true -> snd (step s (AStep t c)) = ORet true).
Proof.
  intros Ht Hf. simpl. rewrite Ht, Hf. simpl.
  destruct (canc s t) eqn:Ec; destruct c; simpl; split; auto; intros [H|H]; discriminate.
Qed.

(* when the holder's Unlock performs its receive, every thread waiting in the select for that
   key is enabled in the resulting state, whatever lock object it waits on: there is only one *)
Theorem lm_no_lost_wakeup n s h k j c :
  reachable n s -> nth_error (thr s) h = Some (U2 k j true) ->
  snd (step s (AStep h c)) = OStepped
  /\ forall w i c', nth_error (thr (fst (step s (AStep h c)))) w = Some (L2b k i) ->
       progress (snd (step (fst (step s (AStep h c))) (AStep w c'))) = true
       /\ (canc s w = false \/ c' = true -> snd (step (fst (step s (AStep h c))) (AStep w c')) = ORet true).
Proof.
  intros Hr Hh. pose proof (lm_invariant _ _ Hr) as HI.
  assert (Hf : full s j = true) by (eapply inv_owner_full; eauto; simpl; apply Nat.eqb_refl).
  assert (Hs : step s (AStep h c) = (do_recv s h k j, OStepped)) by (simpl; rewrite Hh, Hf; reflexivity).
  rewrite Hs. simpl fst. simpl snd. split; auto.
  intros w i c' Hw.
  assert (Hwh : w <> h).
  { intros ->. simpl in Hw. rewrite (nth_upd_same _ _ _ _ Hh) in Hw. discriminate. }
  assert (Hw0 : nth_error (thr s) w = Some (L2b k i)) by (simpl in Hw; rewrite nth_upd_other in Hw; auto).
  assert (i = j).
  { pose proof (invA _ HI w _ k i Hw0) as H1. pose proof (invA _ HI h _ k j Hh) as H2.
    simpl in H1, H2. rewrite !Nat.eqb_refl in *. specialize (H1 eq_refl). specialize (H2 eq_refl). congruence. }
  subst i. apply (waiter_enabled (do_recv s h k j) w k j c'); auto. simpl. apply updf_same.
Qed.

(* ---------- independent keys ---------- *)

(* the lock objects a step can touch are the one mapped from the acting thread's key and a
   freshly allocated one *)
Theorem lm_independent_keys n s t c k k' :
  reachable n s -> thread_key s t = Some k -> k' <> k ->
  mp (fst (step s (AStep t c))) k' = mp s k'
  /\ (forall i', mp s k' = Some i' ->
        full (fst (step s (AStep t c))) i' = full s i' /\ rc (fst (step s (AStep t c))) i' = rc s i')
  /\ (forall u, u <> t -> nth_error (thr (fst (step s (AStep t c)))) u = nth_error (thr s) u)
  /\ (forall u, canc (fst (step s (AStep t c))) u = canc s u)
  /\ (forall u c', u <> t -> thread_key s u = Some k' ->
        snd (step (fst (step s (AStep t c))) (AStep u c')) = snd (step s (AStep u c'))).
Proof.
  intros Hr Hk Hne. pose proof (lm_invariant _ _ Hr) as HI.
  assert (Hthr : forall u, u <> t -> nth_error (thr (fst (step s (AStep t c)))) u = nth_error (thr s) u).
  { intros u Hu. apply (step_other_threads s (AStep t c) u). exact Hu. }
  unfold thread_key in Hk. destruct (nth_error (thr s) t) as [p|] eqn:Ht; [|discriminate].
  (* the id of the acting thread, if any, is the one mapped from k *)
  assert (Hid : forall i, refsid i p = true -> mp s k = Some i).
  { intros i Hi. destruct (refsid_refs _ _ Hi) as (k1 & Hr1 & Hk1). rewrite Hk in Hk1. injection Hk1 as <-.
    eapply (invA _ HI); eauto. }
  assert (Hdiff : forall i i', refsid i p = true -> mp s k' = Some i' -> i' <> i).
  { intros i i' Hi Hm' ->. apply Hne. eapply (invE _ HI); eauto. }
  assert (Hshared :
    mp (fst (step s (AStep t c))) k' = mp s k'
    /\ (forall i', mp s k' = Some i' ->
          full (fst (step s (AStep t c))) i' = full s i' /\ rc (fst (step s (AStep t c))) i' = rc s i')
    /\ (forall u, canc (fst (step s (AStep t c))) u = canc s u)).
  { assert (Htriv : forall s1 : state, mp s1 = mp s -> full s1 = full s -> rc s1 = rc s -> canc s1 = canc s ->
        mp s1 k' = mp s k'
        /\ (forall i', mp s k' = Some i' -> full s1 i' = full s i' /\ rc s1 i' = rc s i')
        /\ (forall u, canc s1 u = canc s u)).
    { intros s1 E1 E2 E3 E4. rewrite E1, E2, E3, E4. split; [reflexivity|split; [intros i' Hm'; split; reflexivity|reflexivity]]. }
    simpl. rewrite Ht.
    destruct p as [ |k0|k0 i|k0 i|k0 i|k0 i|k0 g|k0 j own|k0 j]; simpl in Hk; try discriminate;
      injection Hk as ->; simpl.
    - unfold do_L1. destruct (mp s k) as [i|] eqn:Hm; simpl.
      + split; [reflexivity|split; [|reflexivity]]. intros i' Hm'. split; [reflexivity|].
        apply updf_other. intros ->. apply Hne. eapply (invE _ HI); eauto.
      + split; [apply updf_other; auto|split; [|reflexivity]]. intros i' Hm'.
        destruct (invD _ HI _ _ Hm') as [Hlt _]. split; apply updf_other; lia.
    - apply Htriv; reflexivity.
    - destruct (negb (full s i) && (negb (canc s t) || c)); simpl.
      + split; [reflexivity|split; [|reflexivity]]. intros i' Hm'. split; [|reflexivity].
        apply updf_other. eapply Hdiff; eauto. simpl. apply Nat.eqb_refl.
      + destruct (canc s t); simpl; apply Htriv; reflexivity.
    - destruct (Nat.eqb (rc s i) 0); simpl; [apply Htriv; reflexivity|].
      split; [|split; [|reflexivity]].
      + destruct (Nat.eqb (rc s i - 1) 0); auto. apply updf_other; auto.
      + intros i' Hm'. split; [reflexivity|].
        apply updf_other. eapply Hdiff; eauto. simpl. apply Nat.eqb_refl.
    - apply Htriv; reflexivity.
    - destruct (mp s k); simpl; apply Htriv; reflexivity.
    - destruct (full s j) eqn:Efj; simpl; [|apply Htriv; reflexivity].
      destruct own; [|pose proof (invI _ HI _ _ Ht) as Hrg; discriminate].
      split; [reflexivity|split; [|reflexivity]]. intros i' Hm'. split; [|reflexivity].
      apply updf_other. eapply Hdiff; eauto. simpl. apply Nat.eqb_refl.
    - destruct (Nat.eqb (rc s j) 0); simpl; [apply Htriv; reflexivity|].
      split; [|split; [|reflexivity]].
      + destruct (Nat.eqb (rc s j - 1) 0); auto. apply updf_other; auto.
      + intros i' Hm'. split; [reflexivity|].
        apply updf_other. eapply Hdiff; eauto. simpl. apply Nat.eqb_refl. }
  destruct Hshared as (Hmp & Hobj & Hcanc).
  split; [exact Hmp|split; [exact Hobj|split; [exact Hthr|split; [exact Hcanc|]]]].
  intros u c' Hu Hku.
  unfold thread_key in Hku. destruct (nth_error (thr s) u) as [q|] eqn:Hq; [|discriminate].
  assert (Hidu : forall i, refsid i q = true -> mp s k' = Some i).
  { intros i Hi. destruct (refsid_refs _ _ Hi) as (k1 & Hr1 & Hk1). rewrite Hku in Hk1. injection Hk1 as <-.
    eapply (invA _ HI); eauto. }
  remember (fst (step s (AStep t c))) as s1 eqn:Es1.
  assert (Hq1 : nth_error (thr s1) u = Some q) by (rewrite Hthr; auto).
  simpl. rewrite Hq1, Hq.
  destruct q as [ |k0|k0 i|k0 i|k0 i|k0 i|k0 g|k0 j own|k0 j]; simpl in Hku; try discriminate;
    injection Hku as ->; simpl; auto.
  - destruct (Hobj i (Hidu i ltac:(simpl; apply Nat.eqb_refl))) as [Hf _]. rewrite Hf, Hcanc.
    destruct (negb (full s i) && (negb (canc s u) || c')); auto. destruct (canc s u); auto.
  - destruct (Hobj i (Hidu i ltac:(simpl; apply Nat.eqb_refl))) as [_ Hrc]. rewrite Hrc.
    destruct (Nat.eqb (rc s i) 0); auto.
  - rewrite Hmp. destruct (mp s k'); auto.
  - destruct own; [|pose proof (invI _ HI _ _ Hq); discriminate].
    destruct (Hobj j (Hidu j ltac:(simpl; apply Nat.eqb_refl))) as [Hf _]. rewrite Hf.
    destruct (full s j); auto.
  - destruct (Hobj j (Hidu j ltac:(simpl; apply Nat.eqb_refl))) as [_ Hrc]. rewrite Hrc.
    destruct (Nat.eqb (rc s j) 0); auto.
Qed.

(* ---------- Unlock of a key that is not held panics and changes nothing ---------- *)

(* the shared part of two states is the same *)
Definition same_shared (s s' : state) : Prop :=
  mp s' = mp s /\ full s' = full s /\ rc s' = rc s /\ next s' = next s /\ kb s' = kb s /\ canc s' = canc s.

(* step level, in any state: U1 without a map entry and U2 on an empty channel panic, the
   shared state is untouched and the thread is idle again *)
Theorem lm_unlock_step_panics s t c :
  (forall k g, nth_error (thr s) t = Some (U1 k g) -> mp s k = None ->
     step s (AStep t c) = (set_pc s t Idle, OPanic))
  /\ (forall k j own, nth_error (thr s) t = Some (U2 k j own) -> full s j = false ->
     step s (AStep t c) = (set_pc s t Idle, OPanic))
  /\ same_shared s (set_pc s t Idle).
Proof.
  split; [|split].
  - intros k g Ht Hm. simpl. rewrite Ht, Hm. reflexivity.
  - intros k j own Ht Hf. simpl. rewrite Ht, Hf. reflexivity.
  - unfold same_shared. simpl. repeat split.
Qed.

Lemma step_at_U1 s t k g c : nth_error (thr s) t = Some (U1 k g) ->
  step s (AStep t c) = match mp s k with
                       | Some j => (set_pc s t (U2 k j (is_some g)), OStepped)
                       | None => (set_pc s t Idle, OPanic)
                       end.
Proof. intros H. simpl. rewrite H. reflexivity. Qed.
Lemma step_at_U2 s t k j own c : nth_error (thr s) t = Some (U2 k j own) ->
  step s (AStep t c) = if full s j then (do_recv s t k j, OStepped) else (set_pc s t Idle, OPanic).
Proof. intros H. simpl. rewrite H. reflexivity. Qed.
Lemma step_at_Idle s t c : nth_error (thr s) t = Some Idle -> step s (AStep t c) = (s, OInvalid).
Proof. intros H. simpl. rewrite H. reflexivity. Qed.
Lemma set_pc_nth s t p old : nth_error (thr s) t = Some old -> nth_error (thr (set_pc s t p)) t = Some p.
Proof. intros H. simpl. eapply nth_upd_same; eauto. Qed.

(* whole call, in a reachable state: an idle thread that calls Unlock(k) while nobody holds k
   and runs the call without interference panics (at U1 if there is no entry, at U2 if
   waiters keep an entry alive), and the final state is exactly the state before the call *)
Theorem lm_unlock_unheld_panics n s t k c1 c2 :
  reachable n s -> nth_error (thr s) t = Some Idle -> holders k s = 0 ->
  exists s' outs, run s [ACall t (Unlock k); AStep t c1; AStep t c2] = (s', outs)
    /\ In OPanic outs /\ same_shared s s' /\ thr s' = thr s.
Proof.
  intros Hr Ht Hh. pose proof (lm_invariant _ _ Hr) as HI.
  assert (H0 : step s (ACall t (Unlock k)) = (set_pc s t (U1 k None), OStepped)) by (simpl; rewrite Ht; reflexivity).
  pose proof (set_pc_nth s t (U1 k None) _ Ht) as Ht1.
  destruct (mp s k) as [j|] eqn:Hm.
  - (* an entry exists (kept alive by waiters): the channel is empty, U2 panics *)
    assert (Hf : full s j = false).
    { pose proof (owns_le_holders _ _ _ HI Hm) as Hle. pose proof (invC _ HI j) as C.
      destruct (full s j); auto. lia. }
    pose proof (step_at_U1 _ _ _ _ c1 Ht1) as H1. simpl mp in H1. rewrite Hm in H1. simpl is_some in H1.
    pose proof (set_pc_nth _ t (U2 k j false) _ Ht1) as Ht2.
    pose proof (step_at_U2 _ _ _ _ _ c2 Ht2) as H2. simpl full in H2. rewrite Hf in H2.
    exists (set_pc (set_pc (set_pc s t (U1 k None)) t (U2 k j false)) t Idle), [OStepped; OStepped; OPanic].
    split; [|split; [|split]].
    + unfold run. rewrite H0, H1, H2. reflexivity.
    + simpl. auto.
    + unfold same_shared. simpl. repeat split.
    + simpl. rewrite !upd_upd. apply upd_id. exact Ht.
  - (* no entry: U1 panics; the third action finds the thread idle *)
    pose proof (step_at_U1 _ _ _ _ c1 Ht1) as H1. simpl mp in H1. rewrite Hm in H1.
    pose proof (set_pc_nth _ t Idle _ Ht1) as Ht2.
    pose proof (step_at_Idle _ _ c2 Ht2) as H2.
    exists (set_pc (set_pc s t (U1 k None)) t Idle), [OStepped; OPanic; OInvalid].
    split; [|split; [|split]].
    + unfold run. rewrite H0, H1, H2. reflexivity.
    + simpl. auto.
    + unfold same_shared. simpl. repeat split.
    + simpl. rewrite !upd_upd. apply upd_id. exact Ht.
Qed.

(* under the client discipline nothing ever panics *)
Theorem lm_no_panic n s a : reachable n s -> disciplined s a = true -> snd (step s a) <> OPanic.
Proof.
  intros Hr Hd. pose proof (lm_invariant _ _ Hr) as HI.
  destruct a as [t o|t c|t]; simpl in *.
  - destruct (nth_error (thr s) t) as [p|]; [|discriminate].
    destruct p; destruct o; simpl; try discriminate. destruct (Nat.eqb k0 k); discriminate.
  - destruct (nth_error (thr s) t) as [p|] eqn:Ht; [|discriminate].
    destruct p as [ |k|k i|k i|k i|k i|k g|k j own|k j]; simpl; try discriminate.
    + destruct (negb (full s i) && (negb (canc s t) || c)); [discriminate|]. destruct (canc s t); discriminate.
    + rewrite (inv_rc_pos s t (L3 k i) i HI Ht) by (simpl; apply Nat.eqb_refl). discriminate.
    + destruct g as [i|]; [|pose proof (invI _ HI _ _ Ht) as Hrg; discriminate].
      rewrite (invA _ HI t (U1 k (Some i)) k i Ht) by (simpl; rewrite !Nat.eqb_refl; reflexivity). discriminate.
    + destruct own; [|pose proof (invI _ HI _ _ Ht) as Hrg; discriminate].
      rewrite (inv_owner_full s t (U2 k j true) j HI Ht) by (simpl; apply Nat.eqb_refl). discriminate.
    + rewrite (inv_rc_pos s t (U3 k j) j HI Ht) by (simpl; apply Nat.eqb_refl). discriminate.
  - destruct (nth_error (thr s) t); discriminate.
Qed.

(* ---------- no leak ---------- *)

Theorem lm_no_leak n s :
  reachable n s -> Forall (fun p => p = Idle) (thr s) -> (forall k, mp s k = None) /\ map_size s = 0.
Proof.
  intros Hr Hall. pose proof (lm_invariant _ _ Hr) as HI.
  assert (Hnone : forall k, mp s k = None).
  { intros k. destruct (mp s k) as [i|] eqn:Hm; auto. destruct (invD _ HI _ _ Hm) as [_ Hpos].
    rewrite (invB _ HI) in Hpos. exfalso.
    assert (Hz : cnt (refsid i) (thr s) = 0); [|lia].
    apply cnt_zero. intros x Hin. rewrite Forall_forall in Hall. rewrite (Hall x Hin). reflexivity. }
  split; auto. unfold map_size. apply cnt_zero. intros k _. rewrite Hnone. reflexivity.
Qed.

(* the entry of a key exists exactly while some thread is between its L1 and its L3/U3 on it *)
Theorem lm_entry_iff_referenced n s k :
  reachable n s ->
  (mp s k <> None <-> exists t p i, nth_error (thr s) t = Some p /\ refs k i p = true).
Proof.
  intros Hr. pose proof (lm_invariant _ _ Hr) as HI. split.
  - intros Hm. destruct (mp s k) as [i|] eqn:Hmk; [|congruence].
    destruct (invD _ HI _ _ Hmk) as [_ Hpos]. rewrite (invB _ HI) in Hpos.
    destruct (cnt_pos_ex _ _ Hpos) as (t & p & Ht & Hp).
    destruct (refsid_refs _ _ Hp) as (k1 & Hr1 & _).
    pose proof (invA _ HI _ _ _ _ Ht Hr1) as Hm1.
    assert (k1 = k) by (eapply (invE _ HI); eauto). subst k1. eauto.
  - intros (t & p & i & Ht & Hp). rewrite (invA _ HI _ _ _ _ Ht Hp). discriminate.
Qed.

(* ---------- no deadlock ---------- *)

(* every thread inside a call is enabled, except a waiter whose lock is held; then the holder
   either is inside its Unlock (and enabled) or is idle-holding and its Unlock call is enabled *)
Lemma busy_thread_progress s t p :
  Inv s -> nth_error (thr s) t = Some p -> quiescent p = false ->
  (forall c, progress (snd (step s (AStep t c))) = true)
  \/ (exists k i, p = L2b k i /\ full s i = true /\ canc s t = false).
Proof.
  intros HI Ht Hq.
  destruct p as [ |k|k i|k i|k i|k i|k g|k j own|k j]; simpl in Hq; try discriminate.
  - left. intros c. simpl. rewrite Ht. reflexivity.
  - left. intros c. simpl. rewrite Ht. reflexivity.
  - destruct (full s i) eqn:Ef; [destruct (canc s t) eqn:Ec|].
    + left. intros c. simpl. rewrite Ht, Ef, Ec. reflexivity.
    + right. exists k, i. auto.
    + left. intros c. apply (waiter_enabled s t k i c); auto.
  - left. intros c. simpl. rewrite Ht. destruct (Nat.eqb (rc s i) 0); reflexivity.
  - left. intros c. simpl. rewrite Ht. destruct (mp s k); reflexivity.
  - left. intros c. simpl. rewrite Ht. destruct (full s j); reflexivity.
  - left. intros c. simpl. rewrite Ht. destruct (Nat.eqb (rc s j) 0); reflexivity.
Qed.

Theorem lm_no_deadlock n s :
  reachable n s ->
  (exists t p, nth_error (thr s) t = Some p /\ quiescent p = false) ->
  (exists t c, progress (snd (step s (AStep t c))) = true)
  \/ (exists w h k i, nth_error (thr s) w = Some (L2b k i) /\ nth_error (thr s) h = Some (Held k i)
        /\ disciplined s (ACall h (Unlock k)) = true
        /\ snd (step s (ACall h (Unlock k))) = OStepped).
Proof.
  intros Hr (t & p & Ht & Hq). pose proof (lm_invariant _ _ Hr) as HI.
  destruct (busy_thread_progress s t p HI Ht Hq) as [Hp|(k & i & -> & Hf & Hc)].
  - left. exists t, true. apply Hp.
  - (* t waits on a full channel: find the owner of the token *)
    pose proof (invC _ HI i) as C. rewrite Hf in C.
    assert (Hpos : 0 < cnt (owns i) (thr s)) by lia.
    destruct (cnt_pos_ex _ _ Hpos) as (h & q & Hh & Ho).
    assert (Hmk : mp s k = Some i) by (apply (invA _ HI t (L2b k i)); auto; simpl; rewrite !Nat.eqb_refl; reflexivity).
    destruct (refsid_refs _ _ (owns_refsid _ _ Ho)) as (k1 & Hr1 & Hk1).
    pose proof (invA _ HI _ _ _ _ Hh Hr1) as Hm1.
    assert (k1 = k) by (eapply (invE _ HI); eauto). subst k1.
    destruct q as [ |k0|k0 j|k0 j|k0 j|k0 j|k0 [j|]|k0 j [|]|k0 j]; simpl in Ho; try discriminate;
      apply Nat.eqb_eq in Ho; subst j; simpl in Hk1; injection Hk1 as ->.
    + right. exists t, h, k, i. repeat split; auto.
      * simpl. rewrite Hh. apply Nat.eqb_refl.
      * simpl. rewrite Hh, Nat.eqb_refl. reflexivity.
    + left. exists h, true. simpl. rewrite Hh. destruct (mp s k); reflexivity.
    + left. exists h, true. simpl. rewrite Hh. destruct (full s i); reflexivity.
Qed.

(* ---------- non-vacuity: concrete runs (3 threads, 2 keys), computed ---------- *)

Definition lock_call (t : tid) (k : key) : list action := [ACall t (Lock k); AStep t true; AStep t true; AStep t true].
Definition unlock_call (t : tid) (k : key) : list action := [ACall t (Unlock k); AStep t true; AStep t true; AStep t true].

(* thread 0 takes key 0; thread 1 blocks on key 0; thread 2 takes key 1 meanwhile; thread 1 is
   cancelled and gives up; everybody unlocks; the map is empty again *)
Definition ex_sched1 : list action :=
  lock_call 0 0 ++ lock_call 1 0 ++ lock_call 2 1
  ++ [ACancel 1; AStep 1 true; AStep 1 true] ++ unlock_call 0 0 ++ unlock_call 2 1.

Example ex_cancel_run :
  run_disc (init 3) ex_sched1 = true
  /\ snd (run (init 3) ex_sched1) =
       [OStepped; OStepped; OStepped; ORet true;
        OStepped; OStepped; OStepped; OBlocked;
        OStepped; OStepped; OStepped; ORet true;
        OStepped; OStepped; ORet false;
        OStepped; OStepped; OStepped; ODone;
        OStepped; OStepped; OStepped; ODone]
  /\ map_size (fst (run (init 3) ex_sched1)) = 0
  /\ thr (fst (run (init 3) ex_sched1)) = [Idle; Idle; Idle].
Proof. vm_compute. repeat split. Qed.

(* the state in the middle: two keys held by two different threads, one waiter, two entries *)
Definition ex_mid : state := fst (run (init 3) (lock_call 0 0 ++ lock_call 1 0 ++ lock_call 2 1)).
Example ex_mid_state :
  thr ex_mid = [Held 0 0; L2b 0 0; Held 1 1] /\ map_size ex_mid = 2
  /\ holders 0 ex_mid = 1 /\ holders 1 ex_mid = 1 /\ rc ex_mid 0 = 2 /\ rc ex_mid 1 = 1
  /\ snd (step ex_mid (AStep 1 true)) = OBlocked.
Proof. vm_compute. repeat split. Qed.

(* hand-over: the waiter acquires right after the holder's receive (before the holder's U3),
   on the same lock object; the entry survives until the last user leaves *)
Definition ex_sched2 : list action :=
  lock_call 0 0 ++ lock_call 1 0 ++ [ACall 0 (Unlock 0); AStep 0 true; AStep 0 true; AStep 1 true; AStep 0 true]
  ++ unlock_call 1 0.
Example ex_handover_run :
  run_disc (init 3) ex_sched2 = true
  /\ snd (run (init 3) ex_sched2) =
       [OStepped; OStepped; OStepped; ORet true;
        OStepped; OStepped; OStepped; OBlocked;
        OStepped; OStepped; OStepped; ORet true; ODone;
        OStepped; OStepped; OStepped; ODone]
  /\ map_size (fst (run (init 3) ex_sched2)) = 0.
Proof. vm_compute. repeat split. Qed.

(* a select with both alternatives ready: the choice decides *)
Definition ex_both : state := fst (run (init 3) [ACall 0 (Lock 1); AStep 0 true; AStep 0 true; ACancel 0]).
Example ex_both_ready :
  both_ready ex_both 0 = true
  /\ snd (step ex_both (AStep 0 true)) = ORet true /\ snd (step ex_both (AStep 0 false)) = OStepped.
Proof. vm_compute. repeat split. Qed.

(* Unlock of a key nobody holds: panics at U1 (no entry) or at U2 (entry kept by a waiter) *)
Example ex_unheld_panics :
  snd (run (init 3) [ACall 2 (Unlock 0); AStep 2 true]) = [OStepped; OPanic]
  /\ snd (run (init 3) ([ACall 0 (Lock 0); AStep 0 true] ++ [ACall 2 (Unlock 0); AStep 2 true; AStep 2 true]))
     = [OStepped; OStepped; OStepped; OStepped; OPanic].
Proof. vm_compute. repeat split. Qed.

(* the client discipline is necessary: an Unlock by a thread that does not hold the key (while
   another one does) succeeds in the code and in the model, and mutual exclusion is gone *)
Definition ex_sched_rogue : list action := lock_call 0 0 ++ unlock_call 1 0 ++ lock_call 2 0.
Example ex_undisciplined_unlock_breaks_mutex :
  run_disc (init 3) ex_sched_rogue = false
  /\ holders 0 (fst (run (init 3) ex_sched_rogue)) = 2.
Proof. vm_compute. repeat split. Qed.

Print Assumptions lm_invariant.
Print Assumptions lm_independent_keys.
Print Assumptions lm_no_deadlock.
Print Assumptions ex_cancel_run.

(* C19 — executable small-step model of storage/gcsutil/transient_lock_map.go + counted_lock.go.

   Granularity: one model step = the code between two consecutive yield points of the
   implementation (hooks "L1", "L2a", "L2b", "L3", "U1", "U2", "U3").  No proofs here; the
   theorems are in LockExecProofs.v, the correspondence checker in LockCheck.v.

   A model "thread" is one caller session: it is idle, inside one Lock/Unlock call, or holds
   one key (returned true from Lock and has not called Unlock yet).  The lock map never looks
   at goroutine identities, so a goroutine holding several keys at once is represented by
   several model threads.

     TransientLockMap.Lock(ctx, key)
   L1    map mutex section: lock := locks[key] or a fresh countedLock stored under key; lock.refcount++
   L2a   if ctx.Err() != nil -> (false) L3
   L2b   select { case lock.ch <- token: return true ; case <-ctx.Done(): (false) L3 }
   L3    returnLockObj: refcount--, delete(locks, key) at 0 ; return false

     TransientLockMap.Unlock(key)
   U1    map mutex section: lock := locks[key] or panic("lock not held for key")
   U2    select { case <-lock.ch: ; default: panic("BUG: lock not held") }
   U3    returnLockObj ; return
*)
From Coq Require Import List Arith Bool.
Import ListNotations.

Definition key := nat.
Definition id := nat.   (* identity of a countedLock object (allocation number) *)
Definition tid := nat.

Inductive pc :=
| Idle
| L1 (k : key)
| L2a (k : key) (i : id)
| L2b (k : key) (i : id)
| L3 (k : key) (i : id)
| Held (k : key) (i : id)             (* Lock returned true; i is ghost: the object acquired *)
| U1 (k : key) (g : option id)        (* g = Some i: called by the holder (ghost i); None: by a non-holder *)
| U2 (k : key) (j : id) (own : bool)  (* j: the object found in the map *)
| U3 (k : key) (j : id).

Record state := {
  mp : key -> option id;      (* l.locks *)
  full : id -> bool;          (* len(lock.ch) == 1 *)
  rc : id -> nat;             (* lock.refcount *)
  next : id;                  (* allocation counter *)
  kb : nat;                   (* ghost: every key ever inserted is < kb (makes map_size computable) *)
  canc : tid -> bool;         (* ctx of thread t is done *)
  thr : list pc }.

Inductive op := Lock (k : key) | Unlock (k : key).

Inductive action :=
| ACall (t : tid) (o : op)       (* thread t (idle / holding) enters a call and stops at its first yield point *)
| AStep (t : tid) (choice : bool) (* thread t runs its next internal step; choice resolves the select
                                     when both alternatives are ready: true = the send wins *)
| ACancel (t : tid).             (* the context of thread t ends *)

Inductive outcome :=
| OStepped            (* moved to the next yield point *)
| OBlocked            (* the step is disabled (select with no ready alternative); state unchanged *)
| ORet (b : bool)     (* Lock returned b *)
| ODone               (* Unlock returned *)
| OPanic              (* the call panicked; shared state unchanged, the thread is idle again *)
| OInvalid.           (* the action does not apply (no such thread, thread busy / not inside a call); state unchanged *)

Definition updf {A} (f : nat -> A) (x : nat) (v : A) : nat -> A :=
  fun y => if Nat.eqb y x then v else f y.

Fixpoint upd {A} (l : list A) (n : nat) (v : A) : list A :=
  match l, n with
  | [], _ => []
  | _ :: xs, 0 => v :: xs
  | x :: xs, S n => x :: upd xs n v
  end.

Definition is_some {A} (o : option A) : bool := match o with Some _ => true | None => false end.

Definition set_pc (s : state) (t : tid) (p : pc) : state :=
  {| mp := mp s; full := full s; rc := rc s; next := next s; kb := kb s; canc := canc s;
     thr := upd (thr s) t p |}.

Definition set_canc (s : state) (t : tid) : state :=
  {| mp := mp s; full := full s; rc := rc s; next := next s; kb := kb s; canc := updf (canc s) t true;
     thr := thr s |}.

(* L1: lookup or create, refcount++ (one critical section of the map mutex) *)
Definition do_L1 (s : state) (t : tid) (k : key) : state :=
  match mp s k with
  | Some i =>
      {| mp := mp s; full := full s; rc := updf (rc s) i (S (rc s i)); next := next s; kb := kb s;
         canc := canc s; thr := upd (thr s) t (L2a k i) |}
  | None =>
      {| mp := updf (mp s) k (Some (next s)); full := updf (full s) (next s) false;
         rc := updf (rc s) (next s) 1; next := S (next s); kb := Nat.max (kb s) (S k);
         canc := canc s; thr := upd (thr s) t (L2a k (next s)) |}
  end.

(* L2b, send alternative *)
Definition do_acquire (s : state) (t : tid) (k : key) (i : id) : state :=
  {| mp := mp s; full := updf (full s) i true; rc := rc s; next := next s; kb := kb s; canc := canc s;
     thr := upd (thr s) t (Held k i) |}.

(* U2, receive *)
Definition do_recv (s : state) (t : tid) (k : key) (j : id) : state :=
  {| mp := mp s; full := updf (full s) j false; rc := rc s; next := next s; kb := kb s; canc := canc s;
     thr := upd (thr s) t (U3 k j) |}.

(* returnLockObj: refcount--, delete(l.locks, key) at 0 — deletion is by KEY *)
Definition ret_obj (s : state) (t : tid) (k : key) (i : id) : state :=
  let r := rc s i - 1 in
  {| mp := if Nat.eqb r 0 then updf (mp s) k None else mp s;
     full := full s; rc := updf (rc s) i r; next := next s; kb := kb s; canc := canc s;
     thr := upd (thr s) t Idle |}.

Definition step (s : state) (a : action) : state * outcome :=
  match a with
  | ACancel t =>
      match nth_error (thr s) t with
      | Some _ => (set_canc s t, OStepped)
      | None => (s, OInvalid)
      end
  | ACall t o =>
      match nth_error (thr s) t, o with
      | Some Idle, Lock k => (set_pc s t (L1 k), OStepped)
      | Some Idle, Unlock k => (set_pc s t (U1 k None), OStepped)
      | Some (Held k' i), Unlock k =>
          if Nat.eqb k k' then (set_pc s t (U1 k (Some i)), OStepped) else (s, OInvalid)
      | _, _ => (s, OInvalid)
      end
  | AStep t c =>
      match nth_error (thr s) t with
      | Some (L1 k) => (do_L1 s t k, OStepped)
      | Some (L2a k i) => (set_pc s t (if canc s t then L3 k i else L2b k i), OStepped)
      | Some (L2b k i) =>
          if negb (full s i) && (negb (canc s t) || c) then (do_acquire s t k i, ORet true)
          else if canc s t then (set_pc s t (L3 k i), OStepped)
          else (s, OBlocked)
      | Some (L3 k i) =>
          (* the code panics when the refcount drops below zero (after decrementing) *)
          if Nat.eqb (rc s i) 0 then (set_pc s t Idle, OPanic) else (ret_obj s t k i, ORet false)
      | Some (U1 k g) =>
          match mp s k with
          | Some j => (set_pc s t (U2 k j (is_some g)), OStepped)
          | None => (set_pc s t Idle, OPanic)
          end
      | Some (U2 k j own) =>
          if full s j then (do_recv s t k j, OStepped) else (set_pc s t Idle, OPanic)
      | Some (U3 k j) =>
          if Nat.eqb (rc s j) 0 then (set_pc s t Idle, OPanic) else (ret_obj s t k j, ODone)
      | Some Idle | Some (Held _ _) | None => (s, OInvalid)
      end
  end.

Fixpoint run (s : state) (acts : list action) : state * list outcome :=
  match acts with
  | [] => (s, [])
  | a :: r => let '(s1, o) := step s a in let '(s2, os) := run s1 r in (s2, o :: os)
  end.

Definition init (n : nat) : state :=
  {| mp := fun _ => None; full := fun _ => false; rc := fun _ => 0; next := 0; kb := 0;
     canc := fun _ => false; thr := repeat Idle n |}.

(* ---------- observations ---------- *)

Definition cnt {A} (p : A -> bool) (l : list A) : nat := length (filter p l).

(* len(l.locks) *)
Definition map_size (s : state) : nat := cnt (fun k => is_some (mp s k)) (seq 0 (kb s)).

(* a thread between a successful acquisition of key k and the receive in its Unlock *)
Definition holds_key (k : key) (p : pc) : bool :=
  match p with
  | Held k' _ => Nat.eqb k k'
  | U1 k' (Some _) => Nat.eqb k k'
  | U2 k' _ true => Nat.eqb k k'
  | _ => false
  end.
Definition holders (k : key) (s : state) : nat := cnt (holds_key k) (thr s).

(* the key a thread is working on *)
Definition pc_key (p : pc) : option key :=
  match p with
  | Idle => None
  | L1 k | L2a k _ | L2b k _ | L3 k _ | Held k _ | U1 k _ | U2 k _ _ | U3 k _ => Some k
  end.
Definition thread_key (s : state) (t : tid) : option key :=
  match nth_error (thr s) t with Some p => pc_key p | None => None end.

(* both alternatives of thread t's select are ready (the only place where [choice] matters) *)
Definition both_ready (s : state) (t : tid) : bool :=
  match nth_error (thr s) t with
  | Some (L2b _ i) => negb (full s i) && canc s t
  | _ => false
  end.

Definition quiescent (p : pc) : bool := match p with Idle | Held _ _ => true | _ => false end.
Definition progress (o : outcome) : bool := match o with OBlocked | OInvalid => false | _ => true end.

(* client discipline under which the safety theorems are stated: Unlock(k) is only called by
   the thread that holds k.  ([step] itself also models undisciplined calls faithfully.) *)
Definition disciplined (s : state) (a : action) : bool :=
  match a with
  | ACall t (Unlock k) =>
      match nth_error (thr s) t with Some (Held k' _) => Nat.eqb k k' | _ => false end
  | _ => true
  end.

(* [run] that also reports whether the schedule was disciplined throughout *)
Fixpoint run_disc (s : state) (acts : list action) : bool :=
  match acts with
  | [] => true
  | a :: r => disciplined s a && run_disc (fst (step s a)) r
  end.

(* Compact descriptions of large rows for the scan / GC hand-over scenarios: the harness writes
   "bulk_muts fam nq nv base v" instead of nq*nv SetCell literals and "bulk_fams ..." for an observed
   row that equals the generated one. *)
From Coq Require Import List NArith ZArith Bool.
Import ListNotations.
From Emu.Common Require Import Bytes Str.
From Emu.BT Require Import Types.
Local Open Scope Z_scope.

Definition qname (i : nat) : bytes :=
  let n := N.of_nat i in
  [113; 48 + (n / 100) mod 10; 48 + (n / 10) mod 10; 48 + n mod 10]%N.

Definition bulk_muts (fam : bytes) (nq nv : nat) (base : Z) (v : bytes) : list mutation :=
  flat_map (fun q => map (fun j => SetCell fam (qname q) (base + 1000 * Z.of_nat j) v) (seq 0 nv)) (seq 0 nq).

Definition bulk_fams (fam : bytes) (nq nv : nat) (base : Z) (v : bytes) : list family :=
  [mkFam fam (map (fun q => mkCol (qname q)
                               (map (fun j => mkCell (base + 1000 * Z.of_nat j) v []) (rev (seq 0 nv))))
                  (seq 0 nq))].

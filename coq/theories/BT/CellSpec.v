(* Layer-B specification of a Bigtable row: the Bigtable data model says a row is a finite map
   (family, qualifier, timestamp) -> value.  Mutations are described on that map only; nothing
   here mentions lists, indices, searches or the order in which the emulator stores things.
   The invariants of the concrete representation (fams_ok / stored_ok / server_ok) are stated
   at the end.  No proofs in this file. *)
From Coq Require Import List NArith ZArith Bool.
Import ListNotations.
From Emu.Common Require Import Bytes Str StrProofs.
From Emu.BT Require Import Types Mutate Server.
Local Open Scope Z_scope.

(* ---- the abstract content of a row ---- *)
Definition cellmap := bytes -> bytes -> Z -> option bytes.

(* equality of contents is pointwise (no functional extensionality anywhere) *)
Definition cm_eq (m1 m2 : cellmap) : Prop := forall f q t, m1 f q t = m2 f q t.

Definition cm_empty : cellmap := fun _ _ _ => None.

(* the value of the first cell carrying timestamp t *)
Fixpoint cell_lookup (cs : list cell) (t : Z) : option bytes :=
  match cs with
  | [] => None
  | c :: r => if Z.eqb (c_ts c) t then Some (c_val c) else cell_lookup r t
  end.

(* the cells of column (fam, q) of a concrete row, [] when the family or column is absent *)
Definition cells_of (fs : list family) (fam q : bytes) : list cell :=
  match get_family fs fam with
  | None => []
  | Some fm => match get_column (fam_cols fm) q with
               | None => []
               | Some c => col_cells c
               end
  end.

(* abstraction function: concrete family list -> content *)
Definition abs_fams (fs : list family) : cellmap :=
  fun f q t =>
    match get_family fs f with
    | None => None
    | Some fm => match get_column (fam_cols fm) q with
                 | None => None
                 | Some c => cell_lookup (col_cells c) t
                 end
    end.

(* ---- mutations on contents ---- *)
(* the time range of DeleteFromColumn: [s, e), where s = 0 means "no lower bound" and
   e = 0 means "no upper bound" *)
Definition in_del_range (s e t : Z) : bool :=
  ((s =? 0) || (s <=? t)) && ((e =? 0) || (t <? e)).

Definition cm_set (fam q : bytes) (ts : Z) (v : bytes) (cm : cellmap) : cellmap :=
  fun f q' t => if beqb f fam && beqb q' q && (t =? ts) then Some v else cm f q' t.

Definition cm_clear (doomed : bytes -> bytes -> Z -> bool) (cm : cellmap) : cellmap :=
  fun f q t => if doomed f q t then None else cm f q t.

Definition spec_mutation (tf : list (bytes * option gcrule)) (now : Z) (m : mutation) (cm : cellmap)
  : option cellmap :=
  match m with
  | SetCell fam q ts v =>
      if known_family tf fam then
        let ts' := if ts =? -1 then trunc_ms now else ts in
        if valid_timestamp ts' then Some (cm_set fam q ts' v cm) else None
      else None
  | DeleteFromColumn fam q (Some (s, e)) =>
      if known_family tf fam && range_valid s e
      then Some (cm_clear (fun f q' t => beqb f fam && beqb q' q && in_del_range s e t) cm)
      else None
  | DeleteFromColumn fam q None =>
      if known_family tf fam
      then Some (cm_clear (fun f q' _ => beqb f fam && beqb q' q) cm)
      else None
  | DeleteFromFamily fam =>
      if known_family tf fam
      then Some (cm_clear (fun f _ _ => beqb f fam) cm)
      else None
  | DeleteFromRow => Some cm_empty
  | MutUnset => None
  end.

(* a request's mutation list: in order, the first invalid one fails the whole list *)
Fixpoint spec_mutations (tf : list (bytes * option gcrule)) (now : Z) (ms : list mutation) (cm : cellmap)
  : option cellmap :=
  match ms with
  | [] => Some cm
  | m :: r => match spec_mutation tf now m cm with
              | Some cm' => spec_mutations tf now r cm'
              | None => None
              end
  end.

(* ---- invariants of the concrete representation ---- *)
(* strictly descending timestamps (so at most one cell per timestamp) *)
Fixpoint desc (cs : list cell) : Prop :=
  match cs with
  | [] => True
  | c :: r => (forall d, In d r -> c_ts d < c_ts c) /\ desc r
  end.

Definition col_ok (c : column) : Prop := desc (col_cells c).
Definition fam_ok (f : family) : Prop :=
  NoDup (map col_q (fam_cols f)) /\ Forall col_ok (fam_cols f).

(* any row the emulator ever holds, also in the middle of a request *)
Definition fams_ok (fs : list family) : Prop :=
  NoDup (map fam_name fs) /\ Forall fam_ok fs.

(* strictly ascending qualifiers *)
Fixpoint qsorted (cs : list column) : Prop :=
  match cs with
  | [] => True
  | c :: r => (forall d, In d r -> lex_lt (col_q c) (col_q d)) /\ qsorted r
  end.

Definition fam_stored (tf : list (bytes * option gcrule)) (f : family) : Prop :=
  known_family tf (fam_name f) = true
  /\ fam_cols f <> []
  /\ Forall (fun c => col_cells c <> []) (fam_cols f)
  /\ qsorted (fam_cols f).

(* a row as it is stored / returned by an unfiltered read *)
Definition stored_ok (tf : list (bytes * option gcrule)) (fs : list family) : Prop :=
  fams_ok fs /\ Forall (fam_stored tf) fs.

Definition all_known (tf : list (bytes * option gcrule)) (fs : list family) : Prop :=
  Forall (fun f => known_family tf (fam_name f) = true) fs.

(* a table: rows sorted by key (one entry per key), every stored row well formed and non-empty *)
Definition table_ok (t : table) : Prop :=
  asorted (t_rows t)
  /\ Forall (fun p => stored_ok (t_fams t) (snd p) /\ snd p <> []) (t_rows t).

Definition server_ok (s : server) : Prop := Forall (fun p => table_ok (snd p)) s.

(* ---- ReadModifyWrite on contents (C13) ---- *)
(* newest timestamp of a column and the value there *)
Definition newest (cs : list cell) : option (Z * bytes) :=
  match cs with [] => None | c :: _ => Some (c_ts c, c_val c) end.

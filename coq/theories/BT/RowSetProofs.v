From Coq Require Import List NArith Lia Bool Sorting Permutation.
Import ListNotations.
From Emu.Common Require Import Bytes.
From Emu.BT Require Import RowSet.


Lemma end_cmp_lt_spec a b : end_cmp a b = Lt -> re a <> [] /\ (re b = [] \/ lex_lt (re a) (re b)).
Proof.
  unfold end_cmp. destruct (re a) eqn:Ea, (re b) eqn:Eb; try discriminate; intros H; split; try congruence; auto.
Qed.
Lemma end_cmp_nlt_spec a b : end_cmp a b <> Lt -> re a = [] \/ (re b <> [] /\ lex_le (re b) (re a)).
Proof.
  unfold end_cmp. destruct (re a) eqn:Ea, (re b) eqn:Eb; auto; intros H; try congruence.
  right. split; [congruence|]. apply lex_not_lt_le. exact H.
Qed.

Lemma merge2_some a b m k : start_le a b -> merge2 a b = Some m ->
  (in_srange m k <-> in_srange a k \/ in_srange b k).
Proof.
  unfold merge2, start_le, in_srange. intros Hs H.
  destruct (negb (is_nil (re a)) && match lex_cmp (re a) (rs b) with Lt => true | _ => false end) eqn:Hd; [discriminate|].
  injection H as <-. simpl.
  assert (Hnd : re a = [] \/ lex_le (rs b) (re a)).
  { destruct (re a) as [|n l] eqn:Ea; auto. right. cbn [negb is_nil andb] in Hd. apply lex_not_lt_le. unfold lex_lt. destruct (lex_cmp (n :: l) (rs b)); congruence. }
  destruct (end_cmp a b) eqn:Ec.
  - (* equal ends: keep a's *)
    assert (Hn : end_cmp a b <> Lt) by congruence. apply end_cmp_nlt_spec in Hn.
    split; [tauto|]. intros [H|[H1 H2]]; auto. split; [eapply lex_le_trans; eauto|].
    destruct Hn as [Hn|[Hn1 Hn2]]; auto. destruct H2 as [H2|H2]; [congruence|]. right. eapply lex_lt_le_trans; eauto.
  - (* a's end smaller: take b's *)
    apply end_cmp_lt_spec in Ec. destruct Ec as [Hna Hb].
    destruct Hnd as [Hnd|Hnd]; [congruence|].
    split.
    + intros [H1 H2]. destruct (lex_cmp k (re a)) eqn:Ek.
      * right. apply lex_eq in Ek. subst k. auto.
      * left. split; auto.
      * right. split; auto. apply lex_le_trans with (re a); auto. apply lex_not_lt_le. unfold lex_lt. rewrite Ek. discriminate.
    + intros [[H1 H2]|[H1 H2]].
      * split; auto. destruct H2 as [H2|H2]; [congruence|]. destruct Hb as [Hb|Hb]; auto. right. eapply lex_lt_trans; eauto.
      * split; auto. eapply lex_le_trans; eauto.
  - assert (Hn : end_cmp a b <> Lt) by congruence. apply end_cmp_nlt_spec in Hn.
    split; [tauto|]. intros [H|[H1 H2]]; auto. split; [eapply lex_le_trans; eauto|].
    destruct Hn as [Hn|[Hn1 Hn2]]; auto. destruct H2 as [H2|H2]; [congruence|]. right. eapply lex_lt_le_trans; eauto.
Qed.

Lemma merge2_start a b m : merge2 a b = Some m -> rs m = rs a.
Proof. unfold merge2. destruct (_ && _); [discriminate|]. intros H; injection H as <-. reflexivity. Qed.

Lemma coalesce_union rest : forall a k, StronglySorted start_le (a :: rest) ->
  (in_any (coalesce a rest) k <-> in_srange a k \/ in_any rest k).
Proof.
  induction rest as [|b rest IH]; intros a k Hs; simpl.
  - unfold in_any. simpl. split.
    + intros [r [[<-|[]] H]]. auto.
    + intros [H|[r [[] _]]]. exists a. auto.
  - inversion Hs as [|? ? Hs' Hall]; subst. inversion Hall as [|? ? Hab Hall']; subst.
    destruct (merge2 a b) as [m|] eqn:Hm.
    + assert (Hsm : StronglySorted start_le (m :: rest)).
      { constructor. { inversion Hs'; auto. }
        unfold start_le in *. rewrite (merge2_start _ _ _ Hm). exact Hall'. }
      rewrite (IH m k Hsm). rewrite (merge2_some a b m k Hab Hm).
      unfold in_any. simpl. split.
      * intros [[H|H]|[r [Hr H]]]; auto. { right. exists b. auto. } right. exists r. auto.
      * intros [H|[r [[<-|Hr] H]]]; auto. right. exists r. auto.
    + unfold in_any at 1. simpl. split.
      * intros [r [[<-|Hr] H]]; auto. right.
        assert (in_any (coalesce b rest) k) by (exists r; auto).
        rewrite (IH b k Hs') in H0. destruct H0 as [H0|[r' [Hr' H0]]]; [exists b|exists r']; simpl; auto.
      * intros [H|[r [[<-|Hr] H]]].
        -- exists a. auto.
        -- assert (Hx : in_any (coalesce b rest) k) by (rewrite (IH b k Hs'); auto).
           destruct Hx as [r' [Hr' Hx]]. exists r'. auto.
        -- assert (Hx : in_any (coalesce b rest) k) by (rewrite (IH b k Hs'); right; exists r; auto).
           destruct Hx as [r' [Hr' Hx]]. exists r'. auto.
Qed.

(* sorting facts *)
Lemma range_leb_start a b : range_leb a b = true -> start_le a b.
Proof.
  unfold range_leb, range_less, start_le, lex_le. rewrite (lex_antisym (rs a) (rs b)).
  destruct (lex_cmp (rs a) (rs b)); simpl; try discriminate; auto; discriminate.
Qed.
Lemma range_leb_total a b : range_leb a b = false -> start_le b a.
Proof.
  unfold range_leb, range_less, start_le, lex_le. intros H. apply negb_false_iff in H.
  destruct (lex_cmp (rs b) (rs a)); try discriminate.
Qed.
Lemma start_le_trans a b c : start_le a b -> start_le b c -> start_le a c.
Proof. unfold start_le. apply lex_le_trans. Qed.

Lemma insert_perm x l : Permutation (x :: l) (insert x l).
Proof. induction l as [|y ys IH]; simpl; auto. destruct (range_leb x y); auto. rewrite perm_swap. constructor. auto. Qed.
Lemma isort_perm l : Permutation l (isort l).
Proof. induction l; simpl; auto. rewrite <- insert_perm. constructor. auto. Qed.

Lemma insert_sorted x l : StronglySorted start_le l -> StronglySorted start_le (insert x l).
Proof.
  induction l as [|y ys IH]; simpl; intros Hs.
  - repeat constructor.
  - inversion Hs as [|? ? Hs' Hall]; subst. destruct (range_leb x y) eqn:E.
    + constructor; auto. constructor. { apply range_leb_start; auto. }
      rewrite Forall_forall in *. intros z Hz. eapply start_le_trans; [apply range_leb_start; eauto|]. auto.
    + constructor; auto. rewrite Forall_forall in *. intros z Hz.
      apply (Permutation_in _ (Permutation_sym (insert_perm x ys))) in Hz. destruct Hz as [<-|Hz]; auto.
      apply range_leb_total; auto.
Qed.
Lemma isort_sorted l : StronglySorted start_le (isort l).
Proof. induction l; simpl; [constructor|apply insert_sorted; auto]. Qed.

Theorem merge_union l k : in_any (merge_simple_ranges l) k <-> in_any l k.
Proof.
  unfold merge_simple_ranges. pose proof (isort_sorted l) as Hs. pose proof (isort_perm l) as Hp.
  assert (Hiff : in_any (isort l) k <-> in_any l k).
  { unfold in_any. split; intros [r [Hr H]]; exists r; split; auto;
    [eapply Permutation_in; [apply Permutation_sym|]; eauto | eapply Permutation_in; eauto]. }
  rewrite <- Hiff. destruct (isort l) as [|a rest].
  - tauto.
  - rewrite (coalesce_union rest a k Hs). unfold in_any. simpl. split.
    + intros [H|[r [Hr H]]]; [exists a|exists r]; auto.
    + intros [r [[<-|Hr] H]]; auto. right. exists r. auto.
Qed.
Print Assumptions merge_union.

(* C01 — the emulator's mutation code refines the Layer-B cell-map spec (BT/CellSpec.v);
   server-level invariant and read-after-write theorems. *)
From Coq Require Import List NArith ZArith Bool Lia ZifyBool ZifyNat ZifyN Arith.
Import ListNotations.
From Emu.Common Require Import Bytes Str StrProofs.
From Emu.Gen Require Import Consts.
From Emu.BT Require Import Types Mutate Gc Server CellSpec CellProofs RmwProofs GcProofs.
Local Open Scope Z_scope.

(* ------------------------------------------------------------------ *)
(* 2e. timestamps *)
Theorem valid_timestamp_iff : forall ts,
  valid_timestamp ts = true <-> btMinValidTs <= ts <= btMaxValidTs /\ (btTsGranularity | ts).
Proof.
  intros ts. unfold valid_timestamp.
  rewrite <- (Z.rem_divide ts btTsGranularity) by (unfold btTsGranularity; lia).
  rewrite andb_true_iff, negb_true_iff, orb_false_iff. lia.
Qed.

(* with the constants of the Go source: 0 <= ts <= 9223372036854775000, whole milliseconds *)
Corollary valid_timestamp_concrete : forall ts,
  valid_timestamp ts = true <-> 0 <= ts <= 9223372036854775000 /\ (1000 | ts).
Proof. intros ts. rewrite valid_timestamp_iff. reflexivity. Qed.

Lemma valid_timestamp_nonneg ts : valid_timestamp ts = true -> 0 <= ts.
Proof. rewrite valid_timestamp_concrete. lia. Qed.

Theorem trunc_ms_multiple : forall now, now <> -1 -> (1000 | trunc_ms now).
Proof.
  intros now H. unfold trunc_ms. replace (now =? -1) with false by lia.
  exists (Z.quot now 1000). pose proof (Z.quot_rem' now 1000). lia.
Qed.

(* truncation is towards zero and loses less than a millisecond *)
Theorem trunc_ms_close : forall now, 0 <= now -> trunc_ms now <= now < trunc_ms now + 1000.
Proof.
  intros now H. unfold trunc_ms. replace (now =? -1) with false by lia.
  pose proof (Z.rem_bound_pos now 1000). lia.
Qed.

Lemma range_valid_nonneg s e : range_valid s e = true -> 0 <= s /\ 0 <= e.
Proof.
  unfold range_valid. rewrite !andb_true_iff, orb_true_iff. intros [[Hs He] _].
  apply valid_timestamp_nonneg in Hs. destruct He as [He|He]; [apply valid_timestamp_nonneg in He|]; lia.
Qed.

(* what the API calls a valid range: whole-millisecond bounds, end 0 or strictly above start *)
Theorem range_valid_iff : forall s e,
  range_valid s e = true <->
  valid_timestamp s = true /\ (valid_timestamp e = true \/ e = 0) /\ (e = 0 \/ s < e).
Proof.
  intros s e. unfold range_valid. rewrite !andb_true_iff, orb_true_iff, negb_true_iff.
  rewrite andb_false_iff, negb_false_iff. lia.
Qed.

(* ------------------------------------------------------------------ *)
(* 2c. one mutation refines the spec *)
Lemma cells_of_absent_family fs fam q : get_family fs fam = None -> cells_of fs fam q = [].
Proof. intros H. unfold cells_of. rewrite H. reflexivity. Qed.

Lemma cells_of_absent_column fs fam fm q :
  get_family fs fam = Some fm -> get_column (fam_cols fm) q = None -> cells_of fs fam q = [].
Proof. intros H1 H2. unfold cells_of. rewrite H1, H2. reflexivity. Qed.

Lemma cm_clear_absent fs fam q (cm : cellmap) (d : Z -> bool) :
  cells_of fs fam q = [] -> cm_eq (abs_fams fs) cm ->
  cm_eq (abs_fams fs) (cm_clear (fun f q' t => beqb f fam && beqb q' q && d t) cm).
Proof.
  intros Hc Hcm f q' t. unfold cm_clear.
  destruct (beqb f fam) eqn:Ef; cbn [andb]; [|apply Hcm].
  destruct (beqb q' q) eqn:Eq; cbn [andb]; [|apply Hcm].
  destruct (d t); [|apply Hcm].
  apply beqb_eq in Ef. apply beqb_eq in Eq. subst. rewrite abs_cells_of, Hc. reflexivity.
Qed.

Lemma apply_mutation_refines_gen tf now fs m cm :
  fams_ok fs -> cm_eq (abs_fams fs) cm ->
  match apply_mutation tf now fs m with
  | Some fs' => fams_ok fs' /\ exists cm', spec_mutation tf now m cm = Some cm' /\ cm_eq (abs_fams fs') cm'
  | None => spec_mutation tf now m cm = None
  end.
Proof.
  intros Hok Hcm. destruct m as [fam q ts v|fam q tr|fam| |]; cbn [apply_mutation spec_mutation].
  - (* SetCell *)
    destruct (known_family tf fam); cbn [negb]; auto.
    set (ts' := if ts =? -1 then trunc_ms now else ts).
    destruct (valid_timestamp ts'); cbn [negb]; auto.
    split.
    + apply upd_col_ok; auto. apply insert_cell_desc. apply fams_ok_cells_desc. exact Hok.
    + eexists. split; [reflexivity|]. intros f q' t.
      rewrite abs_upd_col, insert_cell_lookup. unfold cm_set. cbn [c_ts c_val].
      destruct (beqb f fam && beqb q' q) eqn:E; cbn [andb].
      * apply andb_prop in E. destruct E as [Ef Eq]. apply beqb_eq in Ef. apply beqb_eq in Eq. subst.
        destruct (t =? ts'); auto. rewrite <- abs_cells_of. apply Hcm.
      * apply Hcm.
  - (* DeleteFromColumn *)
    destruct (known_family tf fam); cbn [negb andb]; [|destruct tr as [[s e]|]; auto].
    destruct tr as [[s e]|].
    + destruct (range_valid s e) eqn:Erv; cbn [negb]; auto.
      destruct (range_valid_nonneg s e Erv) as [Hs He].
      destruct (get_family fs fam) as [fm|] eqn:Ef.
      * destruct (get_column (fam_cols fm) q) as [c|] eqn:Ec.
        -- split.
           ++ apply upd_col_ok; auto.
              apply (delete_range_spec _ s e (fams_ok_cells_desc fs fam q Hok) Hs He).
           ++ eexists. split; [reflexivity|]. intros f q' t. rewrite abs_upd_col. unfold cm_clear.
              destruct (beqb f fam && beqb q' q) eqn:E; cbn [andb]; [|apply Hcm].
              destruct (delete_range_spec _ s e (fams_ok_cells_desc fs fam q Hok) Hs He) as [_ [_ [_ Hl]]].
              rewrite Hl. destruct (in_del_range s e t); auto.
              apply andb_prop in E. destruct E as [E1 E2]. apply beqb_eq in E1. apply beqb_eq in E2. subst.
              rewrite <- abs_cells_of. apply Hcm.
        -- split; auto. eexists. split; [reflexivity|].
           apply cm_clear_absent; auto. eapply cells_of_absent_column; eauto.
      * split; auto. eexists. split; [reflexivity|].
        apply cm_clear_absent; auto. apply cells_of_absent_family; auto.
    + destruct (get_family fs fam) as [fm|] eqn:Ef.
      * destruct (get_column (fam_cols fm) q) as [c|] eqn:Ec.
        -- split.
           ++ apply upd_col_ok; auto. exact I.
           ++ eexists. split; [reflexivity|]. intros f q' t. rewrite abs_upd_col. unfold cm_clear.
              destruct (beqb f fam && beqb q' q) eqn:E; cbn [andb]; [reflexivity|apply Hcm].
        -- split; auto. eexists. split; [reflexivity|].
           pose proof (cm_clear_absent fs fam q cm (fun _ => true)) as H. cbn beta in H.
           intros f q' t. specialize (H (cells_of_absent_column _ _ _ _ Ef Ec) Hcm f q' t).
           unfold cm_clear in *. rewrite andb_true_r in H. exact H.
      * split; auto. eexists. split; [reflexivity|].
        pose proof (cm_clear_absent fs fam q cm (fun _ => true)) as H. cbn beta in H.
        intros f q' t. specialize (H (cells_of_absent_family _ _ _ Ef) Hcm f q' t).
        unfold cm_clear in *. rewrite andb_true_r in H. exact H.
  - (* DeleteFromFamily *)
    destruct (known_family tf fam); cbn [negb]; auto.
    destruct (get_family fs fam) as [fm|] eqn:Ef.
    + split.
      * destruct Hok as [Hn Hf]. split; [apply set_family_nodup; exact Hn|].
        apply set_family_forall; auto. split; cbn; constructor.
      * eexists. split; [reflexivity|]. intros f q t. unfold cm_clear, abs_fams.
        rewrite get_set_family. cbn [fam_name]. rewrite (beqb_sym fam f).
        destruct (beqb f fam); [reflexivity|apply Hcm].
    + split; auto. eexists. split; [reflexivity|]. intros f q t. unfold cm_clear.
      destruct (beqb f fam) eqn:E; [|apply Hcm]. apply beqb_eq in E. subst.
      unfold abs_fams. rewrite Ef. reflexivity.
  - (* DeleteFromRow *)
    split; [apply fams_ok_nil|]. eexists. split; [reflexivity|]. intros f q t. reflexivity.
  - reflexivity.
Qed.

Theorem apply_mutation_refines : forall tf now fs m, fams_ok fs ->
  match apply_mutation tf now fs m with
  | Some fs' => fams_ok fs' /\ exists cm', spec_mutation tf now m (abs_fams fs) = Some cm' /\ cm_eq (abs_fams fs') cm'
  | None => spec_mutation tf now m (abs_fams fs) = None
  end.
Proof. intros tf now fs m Hok. apply apply_mutation_refines_gen; auto. intros f q t. reflexivity. Qed.

(* the spec respects pointwise equality of contents *)
Lemma spec_mutation_congr tf now m cm1 cm2 : cm_eq cm1 cm2 ->
  match spec_mutation tf now m cm1, spec_mutation tf now m cm2 with
  | Some a, Some b => cm_eq a b
  | None, None => True
  | _, _ => False
  end.
Proof.
  intros H. destruct m as [fam q ts v|fam q [[s e]|]|fam| |]; cbn [spec_mutation].
  - destruct (known_family tf fam); auto. destruct (valid_timestamp _); auto.
    intros f q' t. unfold cm_set. destruct (_ && _); auto.
  - destruct (known_family tf fam && range_valid s e); auto.
    intros f q' t. unfold cm_clear. destruct (_ && _); auto.
  - destruct (known_family tf fam); auto. intros f q' t. unfold cm_clear. destruct (_ && _); auto.
  - destruct (known_family tf fam); auto. intros f q' t. unfold cm_clear. destruct (beqb f fam); auto.
  - intros f q t. reflexivity.
  - exact I.
Qed.

Lemma spec_mutations_congr tf now ms : forall cm1 cm2, cm_eq cm1 cm2 ->
  match spec_mutations tf now ms cm1, spec_mutations tf now ms cm2 with
  | Some a, Some b => cm_eq a b
  | None, None => True
  | _, _ => False
  end.
Proof.
  induction ms as [|m r IH]; intros cm1 cm2 H; cbn [spec_mutations]; auto.
  pose proof (spec_mutation_congr tf now m cm1 cm2 H) as Hm.
  destruct (spec_mutation tf now m cm1), (spec_mutation tf now m cm2); try contradiction.
  - apply IH. exact Hm.
  - exact I.
Qed.

Lemma apply_mutations_refines_gen tf now ms : forall fs cm,
  fams_ok fs -> cm_eq (abs_fams fs) cm ->
  match apply_mutations tf now fs ms with
  | Some fs' => fams_ok fs' /\ exists cm', spec_mutations tf now ms cm = Some cm' /\ cm_eq (abs_fams fs') cm'
  | None => spec_mutations tf now ms cm = None
  end.
Proof.
  induction ms as [|m r IH]; intros fs cm Hok Hcm; cbn [apply_mutations spec_mutations].
  - split; auto. exists cm. auto.
  - pose proof (apply_mutation_refines_gen tf now fs m cm Hok Hcm) as Hm.
    destruct (apply_mutation tf now fs m) as [fs1|].
    + destruct Hm as [Hok1 [cm1 [-> Hcm1]]]. apply IH; auto.
    + rewrite Hm. reflexivity.
Qed.

(* a whole request: mutations in order; the first invalid one makes the result None (and then,
   see mutate_row_then_get, nothing at all is stored) *)
Theorem apply_mutations_refines : forall tf now ms fs, fams_ok fs ->
  match apply_mutations tf now fs ms with
  | Some fs' => fams_ok fs' /\ exists cm', spec_mutations tf now ms (abs_fams fs) = Some cm' /\ cm_eq (abs_fams fs') cm'
  | None => spec_mutations tf now ms (abs_fams fs) = None
  end.
Proof. intros tf now ms fs Hok. apply apply_mutations_refines_gen; auto. intros f q t. reflexivity. Qed.

(* exactly which requests are invalid *)
Theorem spec_mutation_none_iff : forall tf now m cm,
  spec_mutation tf now m cm = None <->
  match m with
  | SetCell fam _ ts _ => known_family tf fam = false
                          \/ valid_timestamp (if ts =? -1 then trunc_ms now else ts) = false
  | DeleteFromColumn fam _ (Some (s, e)) => known_family tf fam = false \/ range_valid s e = false
  | DeleteFromColumn fam _ None => known_family tf fam = false
  | DeleteFromFamily fam => known_family tf fam = false
  | DeleteFromRow => False
  | MutUnset => True
  end.
Proof.
  intros tf now m cm. destruct m as [fam q ts v|fam q [[s e]|]|fam| |]; cbn [spec_mutation].
  - destruct (known_family tf fam); [|tauto]. destruct (valid_timestamp _); split; try tauto; try discriminate.
    intros [H|H]; discriminate.
  - destruct (known_family tf fam), (range_valid s e); cbn; split; try tauto; try discriminate.
    intros [H|H]; discriminate.
  - destruct (known_family tf fam); split; auto; discriminate.
  - destruct (known_family tf fam); split; auto; discriminate.
  - split; [discriminate|tauto].
  - tauto.
Qed.

Lemma apply_mutations_none_prefix tf now ms1 m ms2 fs fs1 :
  apply_mutations tf now fs ms1 = Some fs1 -> apply_mutation tf now fs1 m = None ->
  apply_mutations tf now fs (ms1 ++ m :: ms2) = None.
Proof.
  revert fs. induction ms1 as [|a r IH]; intros fs H1 H2; cbn in *.
  - injection H1 as ->. rewrite H2. reflexivity.
  - destruct (apply_mutation tf now fs a); [|discriminate]. apply IH; auto.
Qed.

(* 2e. server-assigned time *)
Theorem server_time_truncated : forall tf now fs fam q v,
  apply_mutation tf now fs (SetCell fam q (-1) v) = apply_mutation tf now fs (SetCell fam q (trunc_ms now) v)
  /\ (fams_ok fs ->
      match apply_mutation tf now fs (SetCell fam q (-1) v) with
      | Some fs' => valid_timestamp (trunc_ms now) = true
                    /\ (1000 | trunc_ms now)
                    /\ abs_fams fs' fam q (trunc_ms now) = Some v
                    /\ forall f q' t, (f, q', t) <> (fam, q, trunc_ms now) -> abs_fams fs' f q' t = abs_fams fs f q' t
      | None => known_family tf fam = false \/ valid_timestamp (trunc_ms now) = false
      end).
Proof.
  intros tf now fs fam q v. split.
  - cbn [apply_mutation]. change (-1 =? -1) with true. cbn iota.
    destruct (trunc_ms now =? -1); reflexivity.
  - intros Hok. pose proof (apply_mutation_refines tf now fs (SetCell fam q (-1) v) Hok) as H.
    cbn [spec_mutation] in H. change (-1 =? -1) with true in H. cbn iota in H.
    destruct (apply_mutation tf now fs (SetCell fam q (-1) v)) as [fs'|].
    + destruct H as [_ [cm' [Hs Hcm]]].
      destruct (known_family tf fam); [|discriminate].
      destruct (valid_timestamp (trunc_ms now)) eqn:Ev; [|discriminate].
      injection Hs as <-. split; auto. split.
      { apply trunc_ms_multiple. intros ->. vm_compute in Ev. discriminate. }
      split.
      * rewrite Hcm. unfold cm_set. rewrite !beqb_refl, Z.eqb_refl. reflexivity.
      * intros f q' t Hne. rewrite Hcm. unfold cm_set.
        destruct (beqb f fam) eqn:E1; cbn [andb]; auto.
        destruct (beqb q' q) eqn:E2; cbn [andb]; auto.
        destruct (t =? trunc_ms now) eqn:E3; auto.
        apply beqb_eq in E1. apply beqb_eq in E2. exfalso. apply Hne. f_equal; [f_equal; auto|lia].
    + destruct (known_family tf fam); auto. destruct (valid_timestamp (trunc_ms now)); auto. discriminate.
Qed.

(* ------------------------------------------------------------------ *)
(* 2f. server level *)
Lemma apply_mutation_known tf now fs m fs' :
  all_known tf fs -> apply_mutation tf now fs m = Some fs' -> all_known tf fs'.
Proof.
  intros Hk. destruct m as [fam q ts v|fam q tr|fam| |]; cbn [apply_mutation].
  - destruct (known_family tf fam) eqn:Ef; cbn [negb]; [|discriminate].
    destruct (valid_timestamp _); cbn [negb]; [|discriminate].
    intros H. injection H as <-. apply known_upd_col; auto.
  - destruct (known_family tf fam) eqn:Ef; cbn [negb]; [|discriminate].
    destruct tr as [[s e]|].
    + destruct (range_valid s e); cbn [negb]; [|discriminate].
      destruct (get_family fs fam) as [fm|]; [destruct (get_column (fam_cols fm) q)|];
        intros H; injection H as <-; auto; apply known_upd_col; auto.
    + destruct (get_family fs fam) as [fm|]; [destruct (get_column (fam_cols fm) q)|];
        intros H; injection H as <-; auto; apply known_upd_col; auto.
  - destruct (known_family tf fam) eqn:Ef; cbn [negb]; [|discriminate].
    destruct (get_family fs fam); intros H; injection H as <-; auto.
    unfold all_known. apply set_family_forall; auto.
  - intros H. injection H as <-. constructor.
  - discriminate.
Qed.

Lemma apply_mutations_known tf now ms : forall fs fs',
  all_known tf fs -> apply_mutations tf now fs ms = Some fs' -> all_known tf fs'.
Proof.
  induction ms as [|m r IH]; intros fs fs' Hk H; cbn in H.
  - injection H as <-. exact Hk.
  - destruct (apply_mutation tf now fs m) as [fs1|] eqn:E; [|discriminate].
    eapply IH; [|exact H]. eapply apply_mutation_known; eauto.
Qed.

Lemma apply_mutations_ok tf now ms fs fs' : fams_ok fs -> apply_mutations tf now fs ms = Some fs' -> fams_ok fs'.
Proof.
  intros Hok H. pose proof (apply_mutations_refines tf now ms fs Hok) as Hr. rewrite H in Hr. apply Hr.
Qed.

(* MutateRows: one entry *)
Definition mrows_step (now : Z) (acc : table * list N) (e : bytes * list mutation) : table * list N :=
  let '(ta, cs) := acc in
  match apply_mutations (t_fams ta) now (get_row ta (fst e)) (snd e) with
  | None => (ta, cs ++ [cInternal])
  | Some fs => (update_row ta (fst e) fs, cs ++ [cOK])
  end.

Lemma mrows_step_ok now acc e : table_ok (fst acc) -> table_ok (fst (mrows_step now acc e)).
Proof.
  destruct acc as [ta cs]. cbn [fst mrows_step]. intros Hok.
  destruct (apply_mutations (t_fams ta) now (get_row ta (fst e)) (snd e)) as [fs|] eqn:E; cbn [fst]; auto.
  apply update_row_ok; auto. eapply apply_mutations_ok; [|exact E]. apply table_ok_get_row_fams. exact Hok.
Qed.

Lemma mrows_fold_ok now entries : forall acc, table_ok (fst acc) -> table_ok (fst (fold_left (mrows_step now) entries acc)).
Proof.
  induction entries as [|e r IH]; intros acc Hok; cbn [fold_left]; auto.
  apply IH. apply mrows_step_ok. exact Hok.
Qed.

(* schema changes *)
Lemma known_ainsert tf id r f : known_family tf f = true -> known_family (ainsert id r tf) f = true.
Proof.
  unfold known_family. induction tf as [|[k v] l IH]; cbn; [discriminate|].
  destruct (lex_cmp id k) eqn:E; cbn.
  - apply lex_eq in E. subst k. auto.
  - intros H. rewrite H. apply orb_true_r.
  - intros H. apply orb_prop in H. destruct H as [H|H]; [rewrite H; reflexivity|].
    rewrite (IH H). apply orb_true_r.
Qed.

Lemma stored_ok_mono tf tf' fs : (forall f, known_family tf f = true -> known_family tf' f = true) ->
  stored_ok tf fs -> stored_ok tf' fs.
Proof.
  intros Hm [Hok Hst]. split; auto. rewrite Forall_forall in *. intros f Hf.
  destruct (Hst f Hf) as [H1 H2]. split; auto.
Qed.

Lemma table_ok_mono tf' t : (forall f, known_family (t_fams t) f = true -> known_family tf' f = true) ->
  table_ok t -> table_ok (mkTable tf' (t_rows t)).
Proof.
  intros Hm [Hs Hr]. split; cbn [t_rows t_fams]; auto.
  rewrite Forall_forall in *. intros p Hp. destruct (Hr p Hp) as [H1 H2]. split; auto.
  eapply stored_ok_mono; eauto.
Qed.

Definition purge_step (acc : table) (p : bytes * list family) : table := update_row acc (fst p) (snd p).

Lemma purge_fold tf : forall rem acc,
  t_fams acc = tf -> asorted (t_rows acc) ->
  Forall (fun p => (stored_ok tf (snd p) /\ snd p <> []) \/ In p rem) (t_rows acc) ->
  Forall (fun p => fams_ok (snd p)) rem ->
  table_ok (fold_left purge_step rem acc).
Proof.
  induction rem as [|[k fs] rem IH]; intros acc Htf Hs Hall Hrem; cbn [fold_left].
  - split; auto. rewrite Htf. rewrite Forall_forall in *. intros p Hp. destruct (Hall p Hp) as [H|[]]. exact H.
  - inversion Hrem as [|x l Hfs Hrem']; subst. cbn [snd] in Hfs.
    apply IH; auto.
    + apply update_row_fams.
    + unfold purge_step, update_row. cbn [fst snd].
      destruct (scrub_fams (t_fams acc) fs); cbn [t_rows]; [apply aremove_sorted|apply ainsert_sorted]; exact Hs.
    + unfold purge_step, update_row. cbn [fst snd].
      pose proof (scrub_stored_ok (t_fams acc) fs Hfs) as Hst.
      rewrite Forall_forall in *.
      assert (Hold : forall x, In x (t_rows acc) -> fst x <> k ->
                (stored_ok (t_fams acc) (snd x) /\ snd x <> []) \/ In x rem).
      { intros x Hx Hne. destruct (Hall x Hx) as [H|[H|H]]; auto. subst x. cbn in Hne. contradiction. }
      destruct (scrub_fams (t_fams acc) fs) as [|f r] eqn:E; cbn [t_rows]; intros x Hx.
      * apply aremove_in_sorted in Hx; auto. destruct Hx as [Hx Hne]. auto.
      * apply ainsert_in_sorted in Hx; auto. destruct Hx as [->|[Hx Hne]]; auto.
        left. cbn [snd]. split; auto. discriminate.
Qed.

Lemma purge_ok tf rows : asorted rows -> Forall (fun p => fams_ok (snd p)) rows -> table_ok (purge (mkTable tf rows)).
Proof.
  intros Hs Hf. unfold purge. cbn [t_rows].
  change (fun (acc : table) (p : bytes * list family) => update_row acc (fst p) (snd p)) with purge_step.
  apply (purge_fold tf); auto.
  rewrite Forall_forall. intros p Hp. right. exact Hp.
Qed.

Lemma purge_fams t : t_fams (purge t) = t_fams t.
Proof.
  unfold purge. generalize (t_rows t) as rem. intros rem. revert t.
  induction rem as [|p rem IH]; intros t; cbn [fold_left]; auto.
  rewrite IH. apply update_row_fams.
Qed.

Lemma apply_mods_ok mods : forall t, table_ok t -> table_ok (apply_mods t mods).
Proof.
  induction mods as [|m r IH]; intros t Hok; cbn [apply_mods]; auto.
  destruct m as [id rule|id rule|id|id]; apply IH; auto.
  - apply table_ok_mono; auto. intros f. apply known_ainsert.
  - apply table_ok_mono; auto. intros f. apply known_ainsert.
  - destruct Hok as [Hs Hr]. apply purge_ok; auto.
    rewrite Forall_forall in *. intros p Hp. apply (Hr p Hp).
Qed.

Lemma drop_fold_ok (P : bytes * list family -> Prop) : forall ks rows,
  asorted rows -> Forall P rows ->
  asorted (fold_left (fun acc k => aremove k acc) ks rows) /\ Forall P (fold_left (fun acc k => aremove k acc) ks rows).
Proof.
  induction ks as [|k r IH]; intros rows Hs Hf; cbn [fold_left]; auto.
  apply IH; [apply aremove_sorted; exact Hs|apply aremove_forall; exact Hf].
Qed.

(* the big invariant: every request keeps every table well formed *)
Theorem step_preserves_server_ok : forall s c, server_ok s -> server_ok (fst (step s c)).
Proof.
  intros s [req now coins] Hs. unfold step. cbn [cl_req cl_now cl_coins].
  destruct req as [parent tid fams|name|name|parent|name mods|name all prefix|tbl key muts|tbl entries
                  |tbl key pred tm fm|tbl key rules|tbl keys ranges f limit|tbl|tbl].
  - (* CreateTable *)
    destruct (negb (valid_tid tid) || negb (valid_parent parent)); cbn [fst]; auto.
    destruct (alookup _ s); cbn [fst]; auto. apply set_table_ok; auto.
    split; cbn; constructor.
  - (* DeleteTable *)
    destruct (alookup name s); cbn [fst]; auto. apply aremove_forall. exact Hs.
  - destruct (alookup name s); auto.
  - auto.
  - (* ModifyFamilies *)
    destruct (alookup name s) as [t|] eqn:E; auto.
    destruct (N.eqb _ cOK); cbn [fst]; auto.
    apply set_table_ok; auto. apply apply_mods_ok. eapply server_ok_lookup; eauto.
  - (* DropRowRange *)
    destruct (alookup name s) as [t|] eqn:E; auto.
    pose proof (server_ok_lookup _ _ _ Hs E) as [Hsr Hr].
    destruct all; cbn [fst].
    + apply set_table_ok; auto. split; cbn; constructor.
    + destruct prefix as [p|]; cbn [fst]; auto. apply set_table_ok; auto.
      match goal with |- context [fold_left _ ?ks (t_rows t)] =>
        destruct (drop_fold_ok (fun p => stored_ok (t_fams t) (snd p) /\ snd p <> []) ks (t_rows t) Hsr Hr) as [H1 H2]
      end.
      split; cbn [t_rows t_fams]; assumption.
  - (* MutateRow *)
    destruct (alookup tbl s) as [t|] eqn:E; auto.
    pose proof (server_ok_lookup _ _ _ Hs E) as Ht.
    destruct (apply_mutations (t_fams t) now (get_row t key) muts) as [fs|] eqn:Em; cbn [fst]; auto.
    apply set_table_ok; auto. apply update_row_ok; auto.
    eapply apply_mutations_ok; [|exact Em]. apply table_ok_get_row_fams. exact Ht.
  - (* MutateRows *)
    destruct (alookup tbl s) as [t|] eqn:E; auto.
    pose proof (server_ok_lookup _ _ _ Hs E) as Ht.
    change (fold_left _ entries (t, [])) with (fold_left (mrows_step now) entries (t, [])).
    pose proof (mrows_fold_ok now entries (t, []) Ht) as Hf.
    destruct (fold_left (mrows_step now) entries (t, [])) as [t' codes]. cbn [fst] in *.
    apply set_table_ok; auto.
  - (* CheckAndMutateRow *)
    destruct (alookup tbl s) as [t|] eqn:E; auto.
    pose proof (server_ok_lookup _ _ _ Hs E) as Ht.
    destruct (match pred with Some p => negb (Filter.fvalid p) | None => false end); auto.
    destruct (apply_mutations (t_fams t) now (get_row t key) _) as [fs|] eqn:Em; cbn [fst]; auto.
    apply set_table_ok; auto. apply update_row_ok; auto.
    eapply apply_mutations_ok; [|exact Em]. apply table_ok_get_row_fams. exact Ht.
  - (* ReadModifyWriteRow *)
    destruct (alookup tbl s) as [t|] eqn:E; auto.
    pose proof (server_ok_lookup _ _ _ Hs E) as Ht.
    destruct (rmw_rules (t_fams t) now rules (get_row t key) []) as [[fs res]|] eqn:Er; cbn [fst]; auto.
    apply set_table_ok; auto. apply update_row_ok; auto.
    eapply (rmw_rules_ok _ _ _ _ _ _ _ (table_ok_get_row_fams t key Ht) fams_ok_nil Er).
  - (* ReadRows *)
    destruct (alookup tbl s); auto. destruct (negb _); auto. destruct (match f with Some _ => _ | None => _ end); auto.
  - destruct (alookup tbl s); auto.
  - (* RunGC *)
    destruct (alookup tbl s) as [t|] eqn:E; cbn [fst]; auto.
    apply set_table_ok; auto. apply (gc_pass_spec t now). eapply server_ok_lookup; eauto.
Qed.

Lemma run_fst s cs c : fst (run s (c :: cs)) = fst (run (fst (step s c)) cs).
Proof. cbn [run]. destruct (step s c) as [s1 r]. cbn [fst]. destruct (run s1 cs) as [s2 rs]. reflexivity. Qed.

Theorem run_preserves_server_ok : forall cs s, server_ok s -> server_ok (fst (run s cs)).
Proof.
  induction cs as [|c r IH]; intros s Hs; [exact Hs|].
  rewrite run_fst. apply IH. apply step_preserves_server_ok. exact Hs.
Qed.

(* C01_history: whatever the clients send, starting from the empty server, every stored row of every
   table is well formed: each family once, columns once and in ascending qualifier order, cells in
   strictly descending timestamp order (one per timestamp), no empty column / family / row, only
   families of the table's schema, rows in ascending key order *)
Theorem C01_history : forall cs, server_ok (fst (run [] cs)).
Proof. intros cs. apply run_preserves_server_ok. apply server_ok_nil. Qed.

(* read-after-write for MutateRow *)
Theorem mutate_row_then_get : forall s tbl key muts now coins, server_ok s ->
  let '(s', rsp) := step s (mkCall (BMutateRow tbl key muts) now coins) in
  if N.eqb (br_code rsp) cOK then
    exists t t' cm',
      alookup tbl s = Some t
      /\ spec_mutations (t_fams t) now muts (abs_fams (get_row t key)) = Some cm'
      /\ alookup tbl s' = Some t' /\ t_fams t' = t_fams t
      /\ cm_eq (abs_fams (get_row t' key)) cm'
      /\ stored_ok (t_fams t) (get_row t' key)
      /\ (forall k, k <> key -> alookup k (t_rows t') = alookup k (t_rows t))
      /\ (forall n, n <> tbl -> alookup n s' = alookup n s)
  else
    s' = s
    /\ (alookup tbl s = None
        \/ exists t, alookup tbl s = Some t
                     /\ spec_mutations (t_fams t) now muts (abs_fams (get_row t key)) = None).
Proof.
  intros s tbl key muts now coins Hs. unfold step. cbn [cl_req cl_now cl_coins].
  destruct (alookup tbl s) as [t|] eqn:E; [|cbn; auto].
  pose proof (server_ok_lookup _ _ _ Hs E) as Ht.
  pose proof (table_ok_get_row t key Ht) as Hrow.
  pose proof (apply_mutations_refines (t_fams t) now muts (get_row t key) (proj1 Hrow)) as Hr.
  destruct (apply_mutations (t_fams t) now (get_row t key) muts) as [fs|] eqn:Em.
  - cbn [ok br_code]. change (N.eqb cOK cOK) with true. cbn iota.
    destruct Hr as [Hok [cm' [Hsp Hcm]]].
    pose proof (apply_mutations_known _ _ _ _ _ (stored_all_known _ _ Hrow) Em) as Hk.
    exists t, (update_row t key fs), cm'.
    split; [reflexivity|]. split; [exact Hsp|]. split; [apply alookup_ainsert_same|].
    split; [apply update_row_fams|]. rewrite get_row_update_same by apply Ht.
    destruct (scrub_preserves_content (t_fams t) fs Hok Hk) as [Hc Hst].
    split; [intros f q ts; rewrite Hc; apply Hcm|]. split; [exact Hst|]. split.
    + intros k Hne. apply lookup_update_other. exact Hne.
    + intros n Hne. apply alookup_ainsert_other. exact Hne.
  - cbn. split; auto. right. exists t. auto.
Qed.

(* MutateRows: per entry either code OK and the row rewritten per the spec, or code Internal and
   the table exactly as before (nothing of that entry is stored) *)
Theorem mrows_step_spec : forall now ta cs e, table_ok ta ->
  let '(ta', cs') := mrows_step now (ta, cs) e in
  match spec_mutations (t_fams ta) now (snd e) (abs_fams (get_row ta (fst e))) with
  | Some cm' => cs' = cs ++ [cOK] /\ t_fams ta' = t_fams ta
                /\ cm_eq (abs_fams (get_row ta' (fst e))) cm'
                /\ (forall k, k <> fst e -> alookup k (t_rows ta') = alookup k (t_rows ta))
  | None => cs' = cs ++ [cInternal] /\ ta' = ta
  end.
Proof.
  intros now ta cs e Ht. cbn [mrows_step].
  pose proof (table_ok_get_row ta (fst e) Ht) as Hrow.
  pose proof (apply_mutations_refines (t_fams ta) now (snd e) (get_row ta (fst e)) (proj1 Hrow)) as Hr.
  destruct (apply_mutations (t_fams ta) now (get_row ta (fst e)) (snd e)) as [fs|] eqn:Em.
  - destruct Hr as [Hok [cm' [-> Hcm]]].
    pose proof (apply_mutations_known _ _ _ _ _ (stored_all_known _ _ Hrow) Em) as Hk.
    split; auto. split; [apply update_row_fams|]. split.
    + rewrite get_row_update_same by apply Ht. intros f q ts.
      rewrite (proj1 (scrub_preserves_content (t_fams ta) fs Hok Hk)). apply Hcm.
    + intros k Hne. apply lookup_update_other. exact Hne.
  - rewrite Hr. auto.
Qed.

Example C01_example :
  let tf := [([102%N], None)] in
  let fs := [mkFam [102%N] [mkCol [113%N] [mkCell 5000 [1%N] []; mkCell 3000 [2%N] []; mkCell 1000 [3%N] []]]] in
  fams_ok fs
  /\ apply_mutations tf 7777 fs [SetCell [102%N] [97%N] (-1) [9%N]; DeleteFromColumn [102%N] [113%N] (Some (3000, 5000))]
     = Some [mkFam [102%N] [mkCol [113%N] [mkCell 5000 [1%N] []; mkCell 1000 [3%N] []];
                            mkCol [97%N] [mkCell 7000 [9%N] []]]]
  /\ scrub_fams tf [mkFam [102%N] [mkCol [113%N] [mkCell 5000 [1%N] []; mkCell 1000 [3%N] []];
                                   mkCol [97%N] [mkCell 7000 [9%N] []]]]
     = [mkFam [102%N] [mkCol [97%N] [mkCell 7000 [9%N] []];
                       mkCol [113%N] [mkCell 5000 [1%N] []; mkCell 1000 [3%N] []]]]
  /\ apply_mutations tf 7777 fs [SetCell [102%N] [97%N] 1500 [9%N]] = None.
Proof. split; [apply fams_okb_sound; reflexivity|]. vm_compute. auto. Qed.

(* a concrete client history, used by the non-vacuity examples of Props/C01.v *)
Definition ex_tbl : bytes := [112; 114; 111; 106; 101; 99; 116; 115; 47; 112; 47; 105; 110; 115; 116; 97; 110; 99; 101; 115; 47; 105; 47; 116; 97; 98; 108; 101; 115; 47; 116]%N.   (* "projects/p/instances/i/tables/t" *)
Definition ex_history : list call :=
  [ mkCall (BCreateTable [112; 114; 111; 106; 101; 99; 116; 115; 47; 112; 47; 105; 110; 115; 116; 97; 110; 99; 101; 115; 47; 105]%N [116%N] [([102%N], Some (GMaxVersions 1))]) 0 [];
    mkCall (BMutateRow ex_tbl [114%N] [SetCell [102%N] [113%N] (-1) [1%N]; SetCell [102%N] [97%N] 2000 [2%N]]) 5500 [];
    mkCall (BReadModifyWrite ex_tbl [114%N] [RAppend [102%N] [113%N] [7%N]]) 9999 [];
    mkCall (BMutateRow ex_tbl [115%N] [SetCell [103%N] [113%N] 1000 [1%N]]) 9999 [];
    mkCall (BRunGC ex_tbl) 10000 [] ].


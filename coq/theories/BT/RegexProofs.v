(* Correctness of the derivative matcher (BT/Regex.v) against the denotational language of the
   regex AST: "regexes match the whole field, bytewise". *)
From Coq Require Import List NArith Bool Lia.
Import ListNotations.
From Emu.Common Require Import Bytes Str.
From Emu.BT Require Import Types Regex.

(* the language of a regular expression, as a set of byte strings *)
Inductive lang : re -> bytes -> Prop :=
| LEmpty : lang REmpty []
| LLit b : lang (RLit b) [b]
| LAny c : c <> 10%N -> lang RAnyNoNL [c]
| LClass neg rs c : xorb neg (in_ranges c rs) = true -> lang (RClass neg rs) [c]
| LCat a b s t : lang a s -> lang b t -> lang (RCat a b) (s ++ t)
| LAltL a b s : lang a s -> lang (RAlt a b) s
| LAltR a b s : lang b s -> lang (RAlt a b) s
| LStarNil a : lang (RStar a) []
| LStarCons a s t : lang a s -> lang (RStar a) t -> lang (RStar a) (s ++ t).

(* in_ranges is membership in the union of the closed intervals *)
Lemma in_ranges_spec c rs :
  in_ranges c rs = true <-> exists lo hi, In (lo, hi) rs /\ (lo <= c)%N /\ (c <= hi)%N.
Proof.
  induction rs as [|[lo hi] rs IH]; simpl.
  - split; [discriminate|]. intros (lo & hi & [] & _).
  - rewrite orb_true_iff, andb_true_iff, IH, !N.leb_le. split.
    + intros [[H1 H2]|(lo' & hi' & Hin & H)].
      * exists lo, hi. auto.
      * exists lo', hi'. auto.
    + intros (lo' & hi' & [Heq|Hin] & H).
      * inversion Heq. subst. left. exact H.
      * right. exists lo', hi'. auto.
Qed.

Lemma nullable_spec r : nullable r = true <-> lang r [].
Proof.
  induction r as [| |b| |neg rs|a IHa b IHb|a IHa b IHb|a IHa]; simpl.
  - split; [constructor|reflexivity].
  - split; [discriminate|]. intros H. inversion H.
  - split; [discriminate|]. intros H. inversion H.
  - split; [discriminate|]. intros H. inversion H.
  - split; [discriminate|]. intros H. inversion H.
  - rewrite andb_true_iff, IHa, IHb. split.
    + intros [Ha Hb]. change (@nil N) with (@nil N ++ []). constructor; assumption.
    + intros H. inversion H as [| | | |a' b' s t Hs Ht Eab Est| | | |]. subst.
      apply app_eq_nil in Est. destruct Est as [-> ->]. auto.
  - rewrite orb_true_iff, IHa, IHb. split.
    + intros [H|H]; [apply LAltL|apply LAltR]; assumption.
    + intros H. inversion H; subst; auto.
  - split; [constructor|reflexivity].
Qed.

(* a non-empty word of a star starts with a non-empty word of the body *)
Lemma star_cons_inv a w : lang (RStar a) w -> forall c s, w = c :: s ->
  exists s1 t, s = s1 ++ t /\ lang a (c :: s1) /\ lang (RStar a) t.
Proof.
  intros H. remember (RStar a) as r eqn:Er. revert Er.
  induction H as [| | | | | | | a0 | a0 s0 t0 H1 _ H2 IH2]; intros Er; try discriminate.
  inversion Er. subst a0. intros c s Hw. destruct s0 as [|c0 s1].
  - simpl in Hw. apply (IH2 eq_refl c s Hw).
  - simpl in Hw. inversion Hw. subst. exists s1, t0. auto.
Qed.

Lemma deriv_spec r : forall c s, lang (deriv c r) s <-> lang r (c :: s).
Proof.
  induction r as [| |b| |neg rs|a IHa b IHb|a IHa b IHb|a IHa]; intros c s; simpl.
  - split; intros H; inversion H.
  - split; intros H; inversion H.
  - destruct (N.eqb b c) eqn:E.
    + apply N.eqb_eq in E. subst. split; intros H; inversion H; constructor.
    + apply N.eqb_neq in E. split; intros H; inversion H. subst. congruence.
  - destruct (N.eqb c 10) eqn:E.
    + apply N.eqb_eq in E. split; intros H; inversion H. congruence.
    + apply N.eqb_neq in E. split; intros H; inversion H; constructor; assumption.
  - destruct (xorb neg (in_ranges c rs)) eqn:E.
    + split; intros H; inversion H; constructor; assumption.
    + split; intros H; inversion H. congruence.
  - assert (Hcat : lang (RCat (deriv c a) b) s <-> exists s1 t, s = s1 ++ t /\ lang a (c :: s1) /\ lang b t).
    { split.
      - intros H. inversion H as [| | | |a' b' s1 t Hs Ht Eab Est| | | |]. subst.
        exists s1, t. rewrite <- IHa. auto.
      - intros (s1 & t & -> & Ha & Hb). constructor; [apply IHa|]; assumption. }
    assert (Hgoal : lang (RCat a b) (c :: s) <->
                    (exists s1 t, s = s1 ++ t /\ lang a (c :: s1) /\ lang b t) \/ (lang a [] /\ lang b (c :: s))).
    { split.
      - intros H. inversion H as [| | | |a' b' s1 t Hs Ht Eab Est| | | |]. subst.
        destruct s1 as [|c1 s1]; simpl in Est.
        + subst t. right. auto.
        + inversion Est. subst. left. exists s1, t. auto.
      - intros [(s1 & t & -> & Ha & Hb)|[Ha Hb]].
        + change (c :: s1 ++ t) with ((c :: s1) ++ t). constructor; assumption.
        + change (c :: s) with ([] ++ c :: s). constructor; assumption. }
    rewrite Hgoal. destruct (nullable a) eqn:En.
    + apply nullable_spec in En. split.
      * intros H. inversion H; subst.
        -- left. apply Hcat. assumption.
        -- right. split; [assumption|]. apply IHb. assumption.
      * intros [H|[_ H]].
        -- apply LAltL. apply Hcat. exact H.
        -- apply LAltR. apply IHb. exact H.
    + rewrite Hcat. split; [auto|]. intros [H|[Ha _]]; [exact H|].
      apply nullable_spec in Ha. congruence.
  - split; intros H; inversion H; subst.
    + apply LAltL, IHa. assumption.
    + apply LAltR, IHb. assumption.
    + apply LAltL, IHa. assumption.
    + apply LAltR, IHb. assumption.
  - split.
    + intros H. inversion H as [| | | |a' b' s1 t Hs Ht Eab Est| | | |]. subst.
      change (c :: s1 ++ t) with ((c :: s1) ++ t). constructor; [apply IHa|]; assumption.
    + intros H. destruct (star_cons_inv a _ H c s eq_refl) as (s1 & t & -> & Ha & Ht).
      constructor; [apply IHa|]; assumption.
Qed.

(* C05/regex: the matcher accepts exactly the words of the language, i.e. the pattern must match
   the whole field, byte by byte (no partial / substring match, no rune decoding) *)
Theorem regex_matcher_correct : forall r s, re_match r s = true <-> lang r s.
Proof.
  intros r s. revert r. induction s as [|c s IH]; intros r; simpl.
  - apply nullable_spec.
  - rewrite IH. apply deriv_spec.
Qed.

(* corollaries used by the filter spec *)
Lemma rx_match_spec r s : rx_match (RxOk r) s = Some true <-> lang r s.
Proof. simpl. rewrite <- regex_matcher_correct. split; [intros H; inversion H; auto|intros ->; auto]. Qed.

Lemma lang_lit_word w : forall s, lang (fold_right (fun b acc => RCat (RLit b) acc) REmpty w) s <-> s = w.
Proof.
  induction w as [|b w IH]; intros s; simpl.
  - split; [intros H; inversion H; auto|intros ->; constructor].
  - split.
    + intros H. inversion H as [| | | |a' b' s1 t Hs Ht Eab Est| | | |]. subst.
      inversion Hs. subst. apply IH in Ht. subst. reflexivity.
    + intros ->. change (b :: w) with ([b] ++ w). constructor; [constructor|apply IH; reflexivity].
Qed.

(* non-vacuity: "a[^b-c].*" matches "axyz\0" bytewise but not its prefix-extended / newline forms *)
Example regex_nonvacuous :
  let r := RCat (RLit 97) (RCat (RClass true [(98, 99)%N]) (RStar RAnyNoNL)) in
  re_match r [97; 120; 121; 0]%N = true /\ lang r [97; 120; 121; 0]%N
  /\ re_match r [97; 98]%N = false /\ ~ lang r [97; 120; 10]%N.
Proof.
  cbv zeta. split; [reflexivity|]. split; [apply regex_matcher_correct; reflexivity|].
  split; [reflexivity|]. intros H. apply regex_matcher_correct in H. discriminate.
Qed.

(* The emulator as a sequential state machine: one step per RPC (inmem.go handlers).
   One model for all three storage engines (rows = sorted association list). *)
From Coq Require Import List NArith ZArith Bool.
Import ListNotations.
From Emu.Common Require Import Bytes Str.
From Emu.Gen Require Import Consts.
From Emu.BT Require Import Types Regex Mutate Filter Gc RowSet.
Local Open Scope Z_scope.

Record table := mkTable {
  t_fams : list (bytes * option gcrule);     (* column families, keyed by name *)
  t_rows : list (bytes * list family) }.     (* rows sorted by key; a stored row has >= 1 cell *)

Definition server := list (bytes * table).   (* keyed by fully qualified table name *)

Definition s_tables_sep : bytes := [47; 116; 97; 98; 108; 101; 115; 47]%N.   (* "/tables/" *)

Definition ok (b : bbody) := mkBResp cOK b.
Definition fail (c : N) := mkBResp c YNone.

(* updateRow: scrub, delete the row if nothing is left *)
Definition update_row (t : table) (key : bytes) (fs : list family) : table :=
  let fs' := scrub_fams (t_fams t) fs in
  match fs' with
  | [] => mkTable (t_fams t) (aremove key (t_rows t))
  | _ => mkTable (t_fams t) (ainsert key fs' (t_rows t))
  end.

Definition get_row (t : table) (key : bytes) : list family :=
  match alookup key (t_rows t) with Some fs => fs | None => [] end.

(* ---- row sets ---- *)
Definition bound_nonempty (b : bound) : option bytes :=
  match b with BClosed k | BOpen k => match k with [] => None | _ => Some k end | BUnset => None end.

Definition range_ok (rr : rowrange) : bool :=
  match bound_nonempty (rr_start rr), bound_nonempty (rr_end rr) with
  | Some s, Some e => negb (lex_gtb s e)
  | _, _ => true
  end.

Definition encode_range (rr : rowrange) : srange :=
  {| rs := match rr_start rr with BClosed k => k | BOpen k => k ++ [0%N] | BUnset => [] end;
     re := match rr_end rr with
           | BClosed [] => []          (* an empty closed end is "unset", as the validation reads it *)
           | BClosed k => k ++ [0%N] | BOpen k => k | BUnset => [] end |}.
Definition key_range (k : bytes) : srange := {| rs := k; re := k ++ [0%N] |}.

Definition in_srange_b (r : srange) (k : bytes) : bool :=
  lex_leb (rs r) k && (match re r with [] => true | e => lex_ltb k e end).

Definition scan_ranges (keys : list bytes) (ranges : list rowrange) : list srange :=
  match keys, ranges with
  | [], [] => [ {| rs := []; re := [] |} ]
  | _, _ => merge_simple_ranges (map key_range keys ++ map encode_range ranges)
  end.

(* the ReadRows scan: ranges in order, rows of each range in key order, limit on output rows *)
Fixpoint scan_rows (t : table) (f : option rfilter) (limit : Z) (rows : list (bytes * list family))
         (count : Z) (coins : list bool) (acc : list row) : Z * list bool * list row * bool (* stop *) :=
  match rows with
  | [] => (count, coins, acc, false)
  | (k, fs) :: rest =>
      if (0 <? limit) && (limit <=? count) then (count, coins, acc, true)
      else
        match fs with
        | [] => scan_rows t f limit rest count coins acc
        | _ =>
          let '(m, fs', coins') := match f with
                                   | Some flt => feval k flt fs coins
                                   | None => (true, fs, coins)
                                   end in
          if negb m then scan_rows t f limit rest count coins' acc
          else
            let out := scrub_fams (t_fams t) fs' in
            match out with
            | [] => scan_rows t f limit rest count coins' acc
            | _ => scan_rows t f limit rest (count + 1) coins' (mkRow k out :: acc)
            end
        end
  end.

Fixpoint scan_all (t : table) (f : option rfilter) (limit : Z) (srs : list srange)
         (count : Z) (coins : list bool) (acc : list row) : list row :=
  match srs with
  | [] => rev acc
  | sr :: rest =>
      let rows := filter (fun p => in_srange_b sr (fst p)) (t_rows t) in
      let '(count', coins', acc', _) := scan_rows t f limit rows count coins acc in
      scan_all t f limit rest count' coins' acc'
  end.

(* ---- ReadModifyWrite ---- *)
Fixpoint be64_digits (n : nat) (z : Z) (acc : bytes) : bytes :=
  match n with
  | O => acc
  | S k => be64_digits k (z / 256) (Z.to_N (z mod 256) :: acc)
  end.
Definition be64_encode (z : Z) : bytes := be64_digits 8 (z mod 18446744073709551616) [].
Definition be64_decode (b : bytes) : Z :=
  wrap64 (fold_left (fun acc x => acc * 256 + Z.of_N x) b 0).

(* (row families, result families) after the rules; None = error *)
Fixpoint rmw_rules (tf : list (bytes * option gcrule)) (now : Z) (rules : list rmwrule)
         (fs res : list family) : option (list family * list family) :=
  match rules with
  | [] => Some (fs, res)
  | rule :: rest =>
      let '(fam, q) := match rule with RAppend f q _ | RIncrement f q _ | RUnset f q => (f, q) end in
      if negb (known_family tf fam) then None else
      let cells := match get_family fs fam with
                   | Some fm => match get_column (fam_cols fm) q with Some c => col_cells c | None => [] end
                   | None => []
                   end in
      let ts0 := trunc_ms now in
      let '(has_prev, prev, ts) := match cells with
                                   | c :: _ => (true, c_val c, Z.max ts0 (c_ts c))
                                   | [] => (false, [], ts0)
                                   end in
      let newval :=
        match rule with
        | RUnset _ _ => None
        | RAppend _ _ v => Some (prev ++ v)
        | RIncrement _ _ amt =>
            if has_prev && negb (Nat.eqb (length prev) 8) then None
            else Some (be64_encode (wrap64 ((if has_prev then be64_decode prev else 0) + amt)))
        end in
      match newval with
      | None => None
      | Some v =>
          let nc := mkCell ts v [] in
          let fs' := upd_col fs fam q (fun cs => insert_cell cs nc) in
          let res' := upd_col res fam q (fun _ => [nc]) in
          rmw_rules tf now rest fs' res'
      end
  end.

(* ---- admin ---- *)
Fixpoint validate_mods (ex : list bytes) (mods : list fmod) : N :=
  match mods with
  | [] => cOK
  | MCreate id _ :: r => if existsb (beqb id) ex then cAlreadyExists else validate_mods (id :: ex) r
  | MDrop id :: r => if existsb (beqb id) ex then validate_mods (filter (fun x => negb (beqb id x)) ex) r else cUnknown
  | MUpdate id _ :: r => if existsb (beqb id) ex then validate_mods ex r else cUnknown
  | MNone _ :: r => validate_mods ex r
  end.

Definition purge (t : table) : table :=
  fold_left (fun acc p => update_row acc (fst p) (snd p)) (t_rows t) t.

Fixpoint apply_mods (t : table) (mods : list fmod) : table :=
  match mods with
  | [] => t
  | MCreate id rule :: r => apply_mods (mkTable (ainsert id rule (t_fams t)) (t_rows t)) r
  | MUpdate id rule :: r => apply_mods (mkTable (ainsert id rule (t_fams t)) (t_rows t)) r
  | MDrop id :: r => apply_mods (purge (mkTable (aremove id (t_fams t)) (t_rows t))) r
  | MNone _ :: r => apply_mods t r
  end.

Definition set_table (s : server) (name : bytes) (t : table) : server := ainsert name t s.

(* SampleRowKeys is checked relationally (its coins are not injectable): the observed samples must
   be an ascending subsequence of the stored keys ending with the last key, offsets non-decreasing *)
Fixpoint sample_subseq (keys : list bytes) (obs : list (bytes * Z)) (last_off : Z) : bool :=
  match obs with
  | [] => true
  | (k, off) :: r =>
      (last_off <=? off) &&
      (fix find (keys : list bytes) :=
         match keys with
         | [] => false
         | k' :: ks => if beqb k k' then sample_subseq ks r off else find ks
         end) keys
  end.
Definition sample_ok (t : table) (obs : list (bytes * Z)) : bool :=
  let keys := map fst (t_rows t) in
  match keys with
  | [] => match obs with [] => true | _ => false end
  | _ => sample_subseq keys obs 0
         && match rev obs, rev keys with
            | (k, _) :: _, lastk :: _ => beqb k lastk
            | _, _ => false
            end
  end.

Definition gc_pass (t : table) (now : Z) : table :=
  if forallb (fun p => match snd p with None => true | Some _ => false end) (t_fams t) then t else
  fold_left (fun acc p =>
               match alookup (fst p) (t_rows acc) with
               | None => acc
               | Some fs => let '(changed, fs') := gc_fams (t_fams acc) now fs in
                            if changed then update_row acc (fst p) fs' else acc
               end) (t_rows t) t.


(* CreateTable's validation: a table id has the documented format [_a-zA-Z0-9][-_.a-zA-Z0-9]{0,49} and is
   not a definition-file name, and
   the parent has the form projects/<project>/instances/<instance> *)
Definition tid_first (b : N) : bool :=
  (N.eqb b 95) || ((48 <=? b) && (b <=? 57))%N || ((65 <=? b) && (b <=? 90))%N || ((97 <=? b) && (b <=? 122))%N.
Definition tid_rest (b : N) : bool := tid_first b || N.eqb b 45 || N.eqb b 46.
Definition s_table_proto : bytes := [46;116;97;98;108;101;46;112;114;111;116;111]%N.                 (* .table.proto *)
Definition s_table_proto_tmp : bytes := [46;116;97;98;108;101;46;112;114;111;116;111;46;116;109;112]%N. (* .table.proto.tmp *)
(* at most 50 characters, and not the name persistent storage gives to a definition file *)
Definition valid_tid (t : bytes) : bool :=
  match t with
  | [] => false
  | b :: r => tid_first b && forallb tid_rest r
              && (length t <=? 50)%nat
              && negb (has_suffix t s_table_proto) && negb (has_suffix t s_table_proto_tmp)
  end.
Definition s_dot : bytes := [46]%N.
Definition s_dotdot : bytes := [46; 46]%N.
Definition s_slash1 : bytes := [47]%N.
Definition s_projects : bytes := [112;114;111;106;101;99;116;115]%N.          (* projects *)
Definition s_instances : bytes := [105;110;115;116;97;110;99;101;115]%N.     (* instances *)
Definition plain_seg (seg : bytes) : bool := negb (beqb seg []) && negb (beqb seg s_dot) && negb (beqb seg s_dotdot).
(* projects/<project>/instances/<instance>, the two names non-empty, slash-free and not "." / ".." *)
Definition valid_parent (p : bytes) : bool :=
  match split p s_slash1 with
  | [a; pr; b; inst] => beqb a s_projects && beqb b s_instances && plain_seg pr && plain_seg inst
  | _ => false
  end.

Definition step (s : server) (c : call) : server * bresp :=
  let now := cl_now c in
  let coins := cl_coins c in
  match cl_req c with
  | BCreateTable parent tid fams =>
      let name := parent ++ s_tables_sep ++ tid in
      if negb (valid_tid tid) || negb (valid_parent parent) then (s, fail cInvalidArgument) else
      match alookup name s with
      | Some _ => (s, fail cAlreadyExists)
      | None => let tf := fold_left (fun acc p => ainsert (fst p) (snd p) acc) fams [] in
                (set_table s name (mkTable tf []), ok (YTable name tf))
      end
  | BDeleteTable name =>
      match alookup name s with
      | Some _ => (aremove name s, ok YNone)
      | None => (s, fail cNotFound)
      end
  | BGetTable name =>
      match alookup name s with
      | Some t => (s, ok (YTable name (t_fams t)))
      | None => (s, fail cNotFound)
      end
  | BListTables parent =>
      (s, ok (YTables (filter (fun n => has_prefix n (parent ++ s_tables_sep)) (map fst s))))
  | BModifyFamilies name mods =>
      match alookup name s with
      | None => (s, fail cNotFound)
      | Some t =>
          let code := validate_mods (map fst (t_fams t)) mods in
          if N.eqb code cOK
          then let t' := apply_mods t mods in (set_table s name t', ok (YTable name (t_fams t')))
          else (s, fail code)
      end
  | BDropRowRange name all prefix =>
      match alookup name s with
      | None => (s, fail cNotFound)
      | Some t =>
          if all then (set_table s name (mkTable (t_fams t) []), ok YNone)
          else match prefix with
               | None => (s, fail cUnknown)
               | Some p =>
                   (* AscendGreaterOrEqual(p), stop at the first key without the prefix *)
                   let ge := filter (fun r => lex_leb p (fst r)) (t_rows t) in
                   let doomed := (fix take (l : list (bytes * list family)) :=
                                    match l with
                                    | [] => []
                                    | r :: rest => if has_prefix (fst r) p then fst r :: take rest else []
                                    end) ge in
                   let rows' := fold_left (fun acc k => aremove k acc) doomed (t_rows t) in
                   (set_table s name (mkTable (t_fams t) rows'), ok YNone)
               end
      end
  | BMutateRow tbl key muts =>
      match alookup tbl s with
      | None => (s, fail cNotFound)
      | Some t =>
          match apply_mutations (t_fams t) now (get_row t key) muts with
          | None => (s, fail cUnknown)
          | Some fs => (set_table s tbl (update_row t key fs), ok YNone)
          end
      end
  | BMutateRows tbl entries =>
      match alookup tbl s with
      | None => (s, fail cNotFound)
      | Some t =>
          let '(t', codes) :=
            fold_left (fun (acc : table * list N) (e : bytes * list mutation) =>
                         let '(ta, cs) := acc in
                         match apply_mutations (t_fams ta) now (get_row ta (fst e)) (snd e) with
                         | None => (ta, cs ++ [cInternal])
                         | Some fs => (update_row ta (fst e) fs, cs ++ [cOK])
                         end) entries (t, []) in
          (set_table s tbl t', ok (YEntries codes))
      end
  | BCheckAndMutate tbl key pred tm fm =>
      match alookup tbl s with
      | None => (s, fail cNotFound)
      | Some t =>
          if match pred with Some p => negb (fvalid p) | None => false end then (s, fail cInvalidArgument) else
          let fs := get_row t key in
          let which := match pred with
                       | None => negb (is_empty_fams fs)
                       | Some p => let '(m, nfs, _) := feval key p fs coins in m && negb (is_empty_fams nfs)
                       end in
          match apply_mutations (t_fams t) now fs (if which then tm else fm) with
          | None => (s, fail cUnknown)
          | Some fs' => (set_table s tbl (update_row t key fs'), ok (YMatched which))
          end
      end
  | BReadModifyWrite tbl key rules =>
      match alookup tbl s with
      | None => (s, fail cNotFound)
      | Some t =>
          match rmw_rules (t_fams t) now rules (get_row t key) [] with
          | None => (s, fail cUnknown)
          | Some (fs, res) =>
              (set_table s tbl (update_row t key fs), ok (YRows [mkRow key (scrub_fams (t_fams t) res)]))
          end
      end
  | BReadRows tbl keys ranges f limit =>
      match alookup tbl s with
      | None => (s, fail cNotFound)
      | Some t =>
          if negb (forallb range_ok ranges) then (s, fail cInvalidArgument)
          else if match f with Some p => negb (fvalid p) | None => false end then (s, fail cInvalidArgument)
          else (s, ok (YRows (scan_all t f limit (scan_ranges keys ranges) 0 coins [])))
      end
  | BSampleRowKeys tbl =>
      match alookup tbl s with
      | None => (s, fail cNotFound)
      | Some t => (s, ok (YSample []))
      end
  | BRunGC tbl =>
      match alookup tbl s with
      | None => (s, fail cNotFound)
      | Some t => (set_table s tbl (gc_pass t now), ok YNone)
      end
  end.

Fixpoint run (s : server) (cs : list call) : server * list bresp :=
  match cs with
  | [] => (s, [])
  | c :: rest => let '(s1, r) := step s c in
                 let '(s2, rs) := run s1 rest in (s2, r :: rs)
  end.

(* Derivative-based matcher for the regex AST; models binaryregexp on the patterns the harness
   prints ("^(?:" ++ pattern ++ ")$": whole-string match, bytes as Latin-1). *)
From Coq Require Import List NArith Bool.
Import ListNotations.
From Emu.Common Require Import Bytes Str.
From Emu.BT Require Import Types.

Fixpoint in_ranges (c : N) (rs : list (N * N)) : bool :=
  match rs with
  | [] => false
  | (lo, hi) :: r => ((lo <=? c)%N && (c <=? hi)%N) || in_ranges c r
  end.

Fixpoint nullable (r : re) : bool :=
  match r with
  | REmpty => true
  | RNone => false
  | RLit _ | RAnyNoNL | RClass _ _ => false
  | RCat a b => nullable a && nullable b
  | RAlt a b => nullable a || nullable b
  | RStar _ => true
  end.

Fixpoint deriv (c : N) (r : re) : re :=
  match r with
  | REmpty | RNone => RNone
  | RLit b => if N.eqb b c then REmpty else RNone
  | RAnyNoNL => if N.eqb c 10 then RNone else REmpty
  | RClass neg rs => if xorb neg (in_ranges c rs) then REmpty else RNone
  | RCat a b => if nullable a then RAlt (RCat (deriv c a) b) (deriv c b) else RCat (deriv c a) b
  | RAlt a b => RAlt (deriv c a) (deriv c b)
  | RStar a => RCat (deriv c a) (RStar a)
  end.

Fixpoint re_match (r : re) (s : bytes) : bool :=
  match s with
  | [] => nullable r
  | c :: s' => re_match (deriv c r) s'
  end.

(* newRegexp + Match: a bad pattern is an error *)
Definition rx_match (r : regex) (s : bytes) : option bool :=
  match r with RxBad => None | RxOk x => Some (re_match x s) end.
Definition rx_valid (r : regex) : bool := match r with RxBad => false | RxOk _ => true end.

(* validateRowFilter / filterRow / filterCells / includeCell / modifyCell (inmem.go, validation.go).
   Evaluation is written for filters accepted by the validator (errors cannot occur then). *)
From Coq Require Import List NArith ZArith Bool.
Import ListNotations.
From Emu.Common Require Import Bytes Str.
From Emu.BT Require Import Types Regex Mutate.
Local Open Scope Z_scope.

Definition is_label_char (c : N) : bool :=
  ((97 <=? c) && (c <=? 122))%N || ((48 <=? c) && (c <=? 57))%N || N.eqb c 45.

Fixpoint fvalid (f : rfilter) : bool :=
  match f with
  | FPass b | FBlock b => b
  | FChain l => (2 <=? length l)%nat && (fix all (l : list rfilter) := match l with [] => true | x :: r => fvalid x && all r end) l
  | FInterleave l => (2 <=? length l)%nat && (fix all (l : list rfilter) := match l with [] => true | x :: r => fvalid x && all r end) l
  | FCondition p t e =>
      fvalid p && match t with Some x => fvalid x | None => true end
               && match e with Some x => fvalid x | None => true end
  | FRowKeyRegex r | FFamilyRegex r | FQualRegex r | FValueRegex r => rx_valid r
  | FColRange _ _ _ | FValueRange _ _ => true
  | FTsRange s e => Z.eqb (Z.rem s 1000) 0 && Z.eqb (Z.rem e 1000) 0
  | FCellsPerRowLimit n | FCellsPerRowOffset n | FCellsPerColLimit n => 0 <=? n
  | FStrip => true
  | FLabel l => existsb is_label_char l
  | FSample v => v
  end.

Definition in_lower (b : bound) (x : bytes) : bool :=
  match b with BUnset => true | BClosed k => lex_geb x k | BOpen k => lex_gtb x k end.
Definition in_upper (b : bound) (x : bytes) : bool :=
  match b with BUnset => true | BClosed k => lex_leb x k | BOpen k => lex_ltb x k end.

Definition opt_true (o : option bool) : bool := match o with Some b => b | None => false end.

(* includeCell for the per-cell filters; every other filter includes every cell *)
Definition include_cell (f : rfilter) (fam q : bytes) (c : cell) : bool :=
  match f with
  | FFamilyRegex r => opt_true (rx_match r fam)
  | FQualRegex r => opt_true (rx_match r q)
  | FValueRegex r => opt_true (rx_match r (c_val c))
  | FColRange fm s e => beqb fam fm && in_lower s q && in_upper e q
  | FValueRange s e => in_lower s (c_val c) && in_upper e (c_val c)
  | FTsRange s e => (s <=? c_ts c) && (Z.eqb e 0 || (c_ts c <? e))
  | _ => true
  end.

Definition modify_cell (f : rfilter) (c : cell) : cell :=
  match f with
  | FStrip => mkCell (c_ts c) [] []
  | FLabel l => mkCell (c_ts c) (c_val c) [l]
  | _ => c
  end.

Definition count_cells (fs : list family) : nat :=
  fold_right (fun f acc => fold_right (fun c a => (length (col_cells c) + a)%nat) acc (fam_cols f)) O fs.

Definition map_cols (g : bytes -> column -> column) (fs : list family) : list family :=
  map (fun f => mkFam (fam_name f) (map (g (fam_name f)) (fam_cols f))) fs.

(* cells-per-row limit: walk the columns in row order with the remaining budget *)
Fixpoint limit_cols (lim : nat) (cs : list column) : nat * list column :=
  match cs with
  | [] => (lim, [])
  | c :: r =>
      let n := length (col_cells c) in
      if (lim <? n)%nat
      then let '(l', r') := limit_cols O r in (l', mkCol (col_q c) (firstn lim (col_cells c)) :: r')
      else let '(l', r') := limit_cols (lim - n) r in (l', c :: r')
  end.
Fixpoint limit_fams (lim : nat) (fs : list family) : list family :=
  match fs with
  | [] => []
  | f :: r => let '(l', cs') := limit_cols lim (fam_cols f) in mkFam (fam_name f) cs' :: limit_fams l' r
  end.

(* cells-per-row offset: drop the first n cells of the row; None = the budget is used up (the
   remaining columns and families are left alone) *)
Fixpoint offset_cols (off : nat) (cs : list column) : option nat * list column :=
  match cs with
  | [] => (Some off, [])
  | c :: r =>
      let n := length (col_cells c) in
      if (off <? n)%nat then (None, mkCol (col_q c) (skipn off (col_cells c)) :: r)
      else let '(o', r') := offset_cols (off - n) r in (o', mkCol (col_q c) [] :: r')
  end.
Fixpoint offset_fams (off : nat) (fs : list family) : list family :=
  match fs with
  | [] => []
  | f :: r => match offset_cols off (fam_cols f) with
              | (None, cs') => mkFam (fam_name f) cs' :: r
              | (Some o', cs') => mkFam (fam_name f) cs' :: offset_fams o' r
              end
  end.

(* interleave: concatenate the branches' cells per (family, column) in first-appearance order,
   then order each column by descending timestamp (stable) *)
Fixpoint insert_desc (c : cell) (l : list cell) : list cell :=
  match l with
  | [] => [c]
  | d :: r => if c_ts d <? c_ts c then c :: l else d :: insert_desc c r
  end.
Definition sort_desc (l : list cell) : list cell := fold_left (fun acc c => insert_desc c acc) l [].

Definition ensure_family (fs : list family) (name : bytes) : list family :=
  match get_family fs name with Some _ => fs | None => fs ++ [mkFam name []] end.

Definition merge_branch (acc : list family) (br : list family) : list family :=
  fold_left (fun a f =>
               fold_left (fun a' c => upd_col a' (fam_name f) (col_q c) (fun cs => cs ++ col_cells c))
                         (fam_cols f) (ensure_family a (fam_name f)))
            br acc.

Definition merge_branches (brs : list (list family)) : list family :=
  map_cols (fun _ c => mkCol (col_q c) (sort_desc (col_cells c))) (fold_left merge_branch brs []).

Definition per_cell (f : rfilter) (fs : list family) : list family :=
  map_cols (fun fam c => mkCol (col_q c)
                          (map (modify_cell f) (filter (include_cell f fam (col_q c)) (col_cells c)))) fs.

(* filterRow: (matched, modified families, remaining coins) *)
Fixpoint feval (key : bytes) (f : rfilter) (fs : list family) (coins : list bool)
  : bool * list family * list bool :=
  match f with
  | FBlock _ => (false, fs, coins)
  | FPass _ => (true, fs, coins)
  | FChain l =>
      (fix go (l : list rfilter) (fs : list family) (coins : list bool) :=
         match l with
         | [] => (true, fs, coins)
         | x :: r => let '(m, fs', c') := feval key x fs coins in
                     if m then go r fs' c' else (false, fs', c')
         end) l fs coins
  | FInterleave l =>
      let '(brs, coins') :=
        (fix go (l : list rfilter) (coins : list bool) : list (list family) * list bool :=
           match l with
           | [] => ([], coins)
           | x :: r => let '(m, fs', c') := feval key x fs coins in
                       let '(rest, c'') := go r c' in
                       ((if m then [fs'] else []) ++ rest, c'')
           end) l coins in
      let merged := merge_branches brs in
      ((0 <? count_cells merged)%nat, merged, coins')
  | FCellsPerColLimit n => (true, map_cols (fun _ c => mkCol (col_q c) (firstn (Z.to_nat n) (col_cells c))) fs, coins)
  | FCondition p t e =>
      let '(m, pfs, c') := feval key p fs coins in
      if m && negb (is_empty_fams pfs)
      then match t with Some x => feval key x fs c' | None => (false, fs, c') end
      else match e with Some x => feval key x fs c' | None => (false, fs, c') end
  | FRowKeyRegex r =>
      if opt_true (rx_match r key) then ((0 <? count_cells fs)%nat, fs, coins) else (false, fs, coins)
  | FCellsPerRowLimit n => (true, limit_fams (Z.to_nat n) fs, coins)
  | FCellsPerRowOffset n => (true, offset_fams (Z.to_nat n) fs, coins)
  | FSample _ => match coins with c :: r => (c, fs, r) | [] => (false, fs, []) end
  | _ => let fs' := per_cell f fs in ((0 <? count_cells fs')%nat, fs', coins)
  end.

(* On-disk state of the leveldb disk engine (store_leveldb_disk.go) and what a server started on a
   point-in-time image of the directory serves.
     <root>/<table>.table.proto   the table definition, written as temp file + rename
     <root>/<table>/              a leveldb directory: row key -> serialised row
   Every row write of a live table is one leveldb Put/Delete (atomic and durable against a process
   kill), so the directory of a live table always holds exactly the table's rows.  DeleteTable
   removes the definition file and then the directory.
   image  = what is on disk; restart = GetTables + Open at server start.
   points = the images at the instrumented crash points inside a request, in code order. *)
From Coq Require Import List NArith ZArith Bool.
Import ListNotations.
From Emu.Common Require Import Bytes Str.
From Emu.BT Require Import Types Mutate Server.

Definition rows_t := list (bytes * list family).
Definition fams_t := list (bytes * option gcrule).

Record image := mkImage {
  im_meta : list (bytes * fams_t);          (* <name>.table.proto files *)
  im_dirs : list (bytes * rows_t) }.        (* leveldb directories (possibly without any DB yet: []) *)

(* GetTables + Open: a table per definition file; a missing or empty directory opens as an empty DB *)
Definition restart (im : image) : server :=
  map (fun p => (fst p, mkTable (snd p) (match alookup (fst p) (im_dirs im) with Some r => r | None => [] end)))
      (im_meta im).

Record dstate := mkDState {
  ds_mem : server;                          (* the running server *)
  ds_meta : list (bytes * fams_t);          (* definition files on disk *)
  ds_orphans : list (bytes * rows_t) }.     (* directories of tables the server no longer knows *)

Definition init_dstate := mkDState [] [] [].

(* the image at a quiescent point: live tables' directories hold their rows *)
Definition image_of (d : dstate) : image :=
  mkImage (ds_meta d)
          (fold_left (fun acc p => ainsert (fst p) (t_rows (snd p)) acc) (ds_mem d) (ds_orphans d)).

(* start a server on an image: everything with a definition becomes live again *)
Definition boot (im : image) : dstate :=
  mkDState (restart im) (im_meta im)
           (filter (fun p => match alookup (fst p) (im_meta im) with Some _ => false | None => true end) (im_dirs im)).

Definition s_meta_tmp : bytes := [100;105;115;107;46;109;101;116;97;46;116;109;112]%N.                  (* disk.meta.tmp *)
Definition s_meta_renamed : bytes := [100;105;115;107;46;109;101;116;97;46;114;101;110;97;109;101;100]%N. (* disk.meta.renamed *)
Definition s_db_removed : bytes := [100;105;115;107;46;100;98;46;114;101;109;111;118;101;100]%N.          (* disk.db.removed *)

Definition s_create_cleaned : bytes := [100;105;115;107;46;99;114;101;97;116;101;46;99;108;101;97;110;101;100]%N.  (* disk.create.cleaned *)
Definition s_delete_undefined : bytes := [100;105;115;107;46;100;101;108;101;116;101;46;117;110;100;101;102;105;110;101;100]%N.  (* disk.delete.undefined *)

Definition unset_meta (im : image) (name : bytes) : image :=
  mkImage (aremove name (im_meta im)) (im_dirs im).

Definition set_dir (im : image) (name : bytes) (r : option rows_t) : image :=
  mkImage (im_meta im) (match r with Some x => ainsert name x (im_dirs im) | None => aremove name (im_dirs im) end).
Definition set_meta (im : image) (name : bytes) (f : fams_t) : image :=
  mkImage (ainsert name f (im_meta im)) (im_dirs im).

(* one request: new state, response, and the images at the crash points passed on the way *)
Definition dstep (d : dstate) (c : call) : dstate * bresp * list (bytes * image) :=
  let '(mem', rsp) := step (ds_mem d) c in
  let im0 := image_of d in
  match cl_req c with
  | BCreateTable parent tid fams =>
      let name := parent ++ s_tables_sep ++ tid in
      if N.eqb (br_code rsp) cOK then
        let tf := match alookup name mem' with Some t => t_fams t | None => [] end in
        (* RemoveAll(dir) (what an earlier table of this name left behind); SetTableMeta: MkdirAll(dir);
           write temp; rename.  Then RemoveAll(dir); open a fresh DB *)
        let imc := set_dir im0 name None in
        let im1 := set_dir imc name (Some []) in
        let im2 := set_meta im1 name tf in
        let im3 := set_dir im2 name None in
        (mkDState mem' (ainsert name tf (ds_meta d)) (aremove name (ds_orphans d)), rsp,
         [(s_create_cleaned, imc); (s_meta_tmp, im1); (s_meta_renamed, im2); (s_db_removed, im3)])
      else (d, rsp, [])
  | BDeleteTable name =>
      if N.eqb (br_code rsp) cOK then
        (* os.Remove(<name>.table.proto); os.RemoveAll(<name>/) *)
        (mkDState mem' (aremove name (ds_meta d)) (aremove name (ds_orphans d)), rsp,
         [(s_delete_undefined, unset_meta im0 name)])
      else (d, rsp, [])
  | BModifyFamilies name mods =>
      if N.eqb (br_code rsp) cOK then
        (* the purge of dropped families has already rewritten the rows when the definition is persisted *)
        let tf := match alookup name mem' with Some t => t_fams t | None => [] end in
        let d1 := mkDState mem' (ds_meta d) (ds_orphans d) in
        (mkDState mem' (ainsert name tf (ds_meta d)) (ds_orphans d), rsp,
         [(s_meta_tmp, image_of d1); (s_meta_renamed, set_meta (image_of d1) name tf)])
      else (d, rsp, [])
  | _ => (mkDState mem' (ds_meta d) (ds_orphans d), rsp, [])
  end.

Fixpoint drun (d : dstate) (cs : list call) : dstate * list (bresp * list (bytes * image)) :=
  match cs with
  | [] => (d, [])
  | c :: rest => let '(d1, r, pts) := dstep d c in
                 let '(d2, rs) := drun d1 rest in (d2, (r, pts) :: rs)
  end.

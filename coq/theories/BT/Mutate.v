(* applyMutations, scrubRow/scrubFam, appendOrReplaceCell, validTimestamp (inmem.go). *)
From Coq Require Import List NArith ZArith Bool.
Import ListNotations.
From Emu.Common Require Import Bytes Str.
From Emu.Gen Require Import Consts.
From Emu.BT Require Import Types.
Local Open Scope Z_scope.

(* bigtable.Timestamp.TruncateToMilliseconds: leaves -1 alone, Go's truncating % *)
Definition trunc_ms (t : Z) : Z := if Z.eqb t (-1) then t else t - Z.rem t 1000.

Definition valid_timestamp (ts : Z) : bool :=
  negb ((ts <? btMinValidTs) || (ts >? btMaxValidTs)) && Z.eqb (Z.rem ts btTsGranularity) 0.

Definition known_family (tf : list (bytes * option gcrule)) (f : bytes) : bool :=
  existsb (fun p => beqb (fst p) f) tf.

Fixpoint get_family (fs : list family) (name : bytes) : option family :=
  match fs with
  | [] => None
  | f :: r => if beqb (fam_name f) name then Some f else get_family r name
  end.

Fixpoint get_column (cs : list column) (q : bytes) : option column :=
  match cs with
  | [] => None
  | c :: r => if beqb (col_q c) q then Some c else get_column r q
  end.

(* replace the first family / column with that name, or append at the end (getOrCreate...) *)
Fixpoint set_family (fs : list family) (f : family) : list family :=
  match fs with
  | [] => [f]
  | g :: r => if beqb (fam_name g) (fam_name f) then f :: r else g :: set_family r f
  end.
Fixpoint set_column (cs : list column) (c : column) : list column :=
  match cs with
  | [] => [c]
  | d :: r => if beqb (col_q d) (col_q c) then c :: r else d :: set_column r c
  end.

(* appendOrReplaceCell on cells in descending timestamp order *)
Fixpoint insert_cell (cs : list cell) (n : cell) : list cell :=
  match cs with
  | [] => [n]
  | c :: r => if Z.eqb (c_ts c) (c_ts n) then n :: r
              else if c_ts c <? c_ts n then n :: cs
              else c :: insert_cell r n
  end.

(* sort.Search over descending cells: first index whose timestamp is < bound *)
Fixpoint search_lt (cs : list cell) (bound : Z) : nat :=
  match cs with
  | [] => O
  | c :: r => if c_ts c <? bound then O else S (search_lt r bound)
  end.

Definition delete_range (cs : list cell) (s e : Z) : list cell :=
  let ei := if 0 <? s then search_lt cs s else length cs in
  let si := if 0 <? e then search_lt cs e else O in
  if (si <? ei)%nat then firstn si cs ++ skipn ei cs else cs.

Definition range_valid (s e : Z) : bool :=
  valid_timestamp s && (valid_timestamp e || Z.eqb e 0) && negb ((e <=? s) && negb (Z.eqb e 0)).

Definition upd_col (fs : list family) (fam q : bytes) (f : list cell -> list cell) : list family :=
  let fm := match get_family fs fam with Some x => x | None => mkFam fam [] end in
  let cl := match get_column (fam_cols fm) q with Some x => x | None => mkCol q [] end in
  set_family fs (mkFam fam (set_column (fam_cols fm) (mkCol q (f (col_cells cl))))).

(* one mutation on the row's family list; None = error *)
Definition apply_mutation (tf : list (bytes * option gcrule)) (now : Z) (fs : list family) (m : mutation)
  : option (list family) :=
  match m with
  | MutUnset => None
  | SetCell fam q ts v =>
      if negb (known_family tf fam) then None else
      let ts' := if Z.eqb ts (-1) then trunc_ms now else ts in
      if negb (valid_timestamp ts') then None else
      Some (upd_col fs fam q (fun cs => insert_cell cs (mkCell ts' v [])))
  | DeleteFromColumn fam q tr =>
      if negb (known_family tf fam) then None else
      match tr with
      | Some (s, e) =>
          if negb (range_valid s e) then None else
          match get_family fs fam with
          | None => Some fs
          | Some fm => match get_column (fam_cols fm) q with
                       | None => Some fs
                       | Some _ => Some (upd_col fs fam q (fun cs => delete_range cs s e))
                       end
          end
      | None =>
          match get_family fs fam with
          | None => Some fs
          | Some fm => match get_column (fam_cols fm) q with
                       | None => Some fs
                       | Some _ => Some (upd_col fs fam q (fun _ => []))
                       end
          end
      end
  | DeleteFromFamily fam =>
      if negb (known_family tf fam) then None else
      match get_family fs fam with
      | None => Some fs
      | Some _ => Some (set_family fs (mkFam fam []))
      end
  | DeleteFromRow => Some []
  end.

Fixpoint apply_mutations (tf : list (bytes * option gcrule)) (now : Z) (fs : list family) (ms : list mutation)
  : option (list family) :=
  match ms with
  | [] => Some fs
  | m :: r => match apply_mutation tf now fs m with
              | Some fs' => apply_mutations tf now fs' r
              | None => None
              end
  end.

(* scrubFam: drop empty columns, sort by qualifier *)
Fixpoint insert_col (c : column) (l : list column) : list column :=
  match l with
  | [] => [c]
  | d :: r => if lex_ltb (col_q c) (col_q d) then c :: l else d :: insert_col c r
  end.
Definition sort_cols (l : list column) : list column := fold_right insert_col [] l.

Definition scrub_fam (f : family) : family :=
  mkFam (fam_name f) (sort_cols (filter (fun c => match col_cells c with [] => false | _ => true end) (fam_cols f))).

(* scrubRow: drop families unknown to the table or without columns *)
Definition scrub_fams (tf : list (bytes * option gcrule)) (fs : list family) : list family :=
  filter (fun f => match fam_cols f with [] => false | _ => true end)
         (map scrub_fam (filter (fun f => known_family tf (fam_name f)) fs)).

Definition is_empty_fams (fs : list family) : bool :=
  forallb (fun f => forallb (fun c => match col_cells c with [] => true | _ => false end) (fam_cols f)) fs.

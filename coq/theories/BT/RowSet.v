From Coq Require Import List NArith Lia Bool Sorting Permutation.
Import ListNotations.
From Emu.Common Require Import Bytes.

Record srange := { rs : bytes; re : bytes }.   (* re = [] : unbounded *)

Definition is_nil (b : bytes) : bool := match b with [] => true | _ => false end.

Definition end_cmp (a b : srange) : comparison :=
  match re a, re b with
  | [], [] => Eq
  | _, [] => Lt
  | [], _ => Gt
  | x, y => lex_cmp x y
  end.

(* less(i,j) of the Go comparator *)
Definition range_less (a b : srange) : bool :=
  match lex_cmp (rs a) (rs b) with
  | Lt => true | Gt => false
  | Eq => match end_cmp a b with Lt => true | _ => false end
  end.
Definition range_leb (a b : srange) : bool := negb (range_less b a).

Fixpoint insert (x : srange) (l : list srange) : list srange :=
  match l with
  | [] => [x]
  | y :: ys => if range_leb x y then x :: l else y :: insert x ys
  end.
Fixpoint isort (l : list srange) : list srange :=
  match l with [] => [] | x :: xs => insert x (isort xs) end.

Definition merge2 (a b : srange) : option srange :=
  if negb (is_nil (re a)) && (match lex_cmp (re a) (rs b) with Lt => true | _ => false end)
  then None
  else Some {| rs := rs a; re := match end_cmp a b with Lt => re b | _ => re a end |}.

Fixpoint coalesce (last : srange) (rest : list srange) : list srange :=
  match rest with
  | [] => [last]
  | b :: rest' => match merge2 last b with
                  | Some m => coalesce m rest'
                  | None => last :: coalesce b rest'
                  end
  end.

Definition merge_simple_ranges (l : list srange) : list srange :=
  match isort l with [] => [] | a :: rest => coalesce a rest end.

Definition in_srange (r : srange) (k : bytes) : Prop :=
  lex_le (rs r) k /\ (re r = [] \/ lex_lt k (re r)).
Definition in_any (l : list srange) (k : bytes) : Prop := exists r, In r l /\ in_srange r k.

Definition start_le (a b : srange) : Prop := lex_le (rs a) (rs b).


(* Correspondence check for the crash/restart scenarios of the disk engine. *)
From Coq Require Import List NArith ZArith Bool.
Import ListNotations.
From Emu.Common Require Import Bytes Str.
From Emu.BT Require Import Types Mutate Server Check Disk.

(* what a server started on an image answers for a list of table names: GetTable and a full read each *)
Definition probe (s : server) (names : list bytes) : list bresp :=
  flat_map (fun n => [snd (step s (mkCall (BGetTable n) 0%Z [])); snd (step s (mkCall (BReadRows n [] [] None 0%Z) 0%Z []))]) names.

Definition resp_eqb (m o : bresp) : bool := N.eqb (br_code m) (br_code o) && body_eqb (br_body m) (br_body o).

Fixpoint resps_eqb (ms os : list bresp) : bool :=
  match ms, os with
  | [], [] => true
  | m :: ms', o :: os' => resp_eqb m o && resps_eqb ms' os'
  | _, _ => false
  end.

(* observed for one request: its response, the probes of the image taken at each crash point passed
   (with the point's name), and the probes of the image taken after the request returned *)
Definition dobs : Type := bresp * list (bytes * list bresp) * list bresp.

Fixpoint points_eqb (names : list bytes) (ms : list (bytes * image)) (os : list (bytes * list bresp)) : bool :=
  match ms, os with
  | [], [] => true
  | (pn, im) :: ms', (on, pr) :: os' => beqb pn on && resps_eqb (probe (restart im) names) pr && points_eqb names ms' os'
  | _, _ => false
  end.

(* returns the state after the segment, the crash-point images of its LAST request, the verdict *)
Fixpoint dcheck_segment (names : list bytes) (d : dstate) (i : N) (last : list (bytes * image)) (cs : list call) (obs : list dobs)
  : dstate * list (bytes * image) * option N :=
  match cs, obs with
  | [], [] => (d, last, None)
  | c :: cs', (r, pts, after) :: obs' =>
      let '(d1, rsp, mpts) := dstep d c in
      if resp_eqb rsp r && points_eqb names mpts pts && resps_eqb (probe (restart (image_of d1)) names) after
      then dcheck_segment names d1 (i + 1)%N mpts cs' obs'
      else (d1, mpts, Some i)
  | _, _ => (d, last, Some i)
  end.

(* the state the next segment's server starts in: normally the directory as the stopped server left
   it; with a crash marker the server was killed inside the segment's last request at the (first)
   crash point of that name, and the next server starts on the image taken there *)
Definition next_boot (d1 : dstate) (last : list (bytes * image)) (crash : option bytes) : dstate :=
  match crash with
  | None => boot (image_of d1)
  | Some p => match find (fun q => beqb (fst q) p) last with
              | Some q => boot (snd q)
              | None => boot (image_of d1)
              end
  end.

(* a case: table names to probe, and segments (request list + observations + crash marker); between
   two segments the real server is stopped (or killed at the marked point) and a new one started on
   the directory (on the image taken at that point) *)
Definition dseg : Type := list call * list dobs * option bytes.
Definition dcase : Type := list bytes * list dseg.

Fixpoint dcheck_segments (names : list bytes) (d : dstate) (base : N) (segs : list dseg) : option N :=
  match segs with
  | [] => None
  | (cs, obs, crash) :: rest =>
      match dcheck_segment names d base [] cs obs with
      | (_, _, Some k) => Some k
      | (d1, last, None) => dcheck_segments names (next_boot d1 last crash) (base + N.of_nat (length cs))%N rest
      end
  end.

Definition check_dcase (c : dcase) : option N := dcheck_segments (fst c) init_dstate 0%N (snd c).

Fixpoint check_disk_from (i : N) (cs : list dcase) : list (N * N) :=
  match cs with
  | [] => []
  | c :: r => match check_dcase c with
              | Some k => (i, k) :: check_disk_from (i + 1)%N r
              | None => check_disk_from (i + 1)%N r
              end
  end.
Definition check_disk := check_disk_from 0%N.

(* ---- Layer B oracle on the OBSERVED probes: durability and crash atomicity ----
   code 1: the image taken after an acknowledged request does not serve the acknowledged state
           (what the running server itself answers: the model's in-memory server)
   code 2: the image taken at a crash point inside a request serves neither the state before nor
           the state after the request *)
Fixpoint obs_resps_eqb (a b : list bresp) : bool :=
  match a, b with
  | [], [] => true
  | x :: xs, y :: ys => N.eqb (br_code x) (br_code y)
                        && (match br_body x, br_body y with
                            | YRows r1, YRows r2 => list_eqb row_eqb r1 r2
                            | YTable n1 f1, YTable n2 f2 => beqb n1 n2 && list_eqb famdef_eqb f1 f2
                            | YNone, YNone => true
                            | _, _ => false
                            end)
                        && obs_resps_eqb xs ys
  | _, _ => false
  end.

Fixpoint doracle_segment (names : list bytes) (d : dstate) (prev : list bresp) (i : N) (cs : list call) (obs : list dobs)
  : dstate * list bresp * list (N * N) :=
  match cs, obs with
  | c :: cs', (r, pts, after) :: obs' =>
      let '(d1, _, _) := dstep d c in
      let acked := probe (ds_mem d1) names in
      let bad1 := if resps_eqb acked after then [] else [(i, 1%N)] in
      let bad2 := if forallb (fun p => obs_resps_eqb (snd p) prev || obs_resps_eqb (snd p) after) pts then [] else [(i, 2%N)] in
      let '(d2, last, rest) := doracle_segment names d1 after (i + 1)%N cs' obs' in
      (d2, last, bad1 ++ bad2 ++ rest)
  | _, _ => (d, prev, [])
  end.

(* the observed probes of the crash point the segment was killed at (the "before" of what follows) *)
Definition crash_prev (obs : list dobs) (crash : option bytes) (dflt : list bresp) : list bresp :=
  match crash, rev obs with
  | Some p, (_, pts, _) :: _ => match find (fun q => beqb (fst q) p) pts with Some q => snd q | None => dflt end
  | _, _ => dflt
  end.

Definition last_points (d : dstate) (cs : list call) : list (bytes * image) :=
  match rev (snd (drun d cs)) with
  | (_, pts) :: _ => pts
  | [] => []
  end.

Fixpoint doracle_segments (names : list bytes) (d : dstate) (prev : list bresp) (base : N) (segs : list dseg) : list (N * N) :=
  match segs with
  | [] => []
  | (cs, obs, crash) :: rest =>
      let '(d1, last, bad) := doracle_segment names d prev base cs obs in
      bad ++ doracle_segments names (next_boot d1 (last_points d cs) crash) (crash_prev obs crash last) (base + N.of_nat (length cs))%N rest
  end.

Definition oracle_dcase (c : dcase) : list (N * N) :=
  doracle_segments (fst c) init_dstate (probe [] (fst c)) 0%N (snd c).

Fixpoint oracle_disk_from (i : N) (cs : list dcase) : list (N * N) :=
  match cs with
  | [] => []
  | c :: r => map (fun p => (i * 1000 + fst p, snd p)%N) (oracle_dcase c) ++ oracle_disk_from (i + 1)%N r
  end.
Definition oracle_disk := oracle_disk_from 0%N.

(* Data types of the Bigtable emulator model (bigtable/bttest). *)
From Coq Require Import List NArith ZArith Bool.
Import ListNotations.
From Emu.Common Require Import Bytes Str.

Record cell := mkCell { c_ts : Z; c_val : bytes; c_labels : list bytes }.
Record column := mkCol { col_q : bytes; col_cells : list cell }.
Record family := mkFam { fam_name : bytes; fam_cols : list column }.
Record row := mkRow { row_key : bytes; row_fams : list family }.

Inductive gcrule :=
| GMaxVersions (n : Z)
| GMaxAge (secs nanos : Z)
| GUnion (rules : list gcrule)
| GOther.                        (* intersection / empty rule: not supported, keeps everything *)

Inductive mutation :=
| SetCell (fam q : bytes) (ts : Z) (v : bytes)
| DeleteFromColumn (fam q : bytes) (tr : option (Z * Z))
| DeleteFromFamily (fam : bytes)
| DeleteFromRow
| MutUnset.

Inductive rmwrule :=
| RAppend (fam q : bytes) (v : bytes)
| RIncrement (fam q : bytes) (amount : Z)
| RUnset (fam q : bytes).

(* regular expressions over bytes (the subset the harness generates, printed to RE2 syntax) *)
Inductive re :=
| REmpty                         (* matches only the empty string *)
| RNone                          (* matches nothing *)
| RLit (b : N)
| RAnyNoNL                       (* "." : any byte except newline *)
| RClass (neg : bool) (ranges : list (N * N))
| RCat (a b : re)
| RAlt (a b : re)
| RStar (a : re).

Inductive regex := RxBad | RxOk (r : re).

Inductive bound := BUnset | BClosed (k : bytes) | BOpen (k : bytes).

Inductive rfilter :=
| FPass (flag : bool)
| FBlock (flag : bool)
| FChain (l : list rfilter)
| FInterleave (l : list rfilter)
| FCondition (p : rfilter) (t f : option rfilter)
| FRowKeyRegex (r : regex)
| FFamilyRegex (r : regex)
| FQualRegex (r : regex)
| FValueRegex (r : regex)
| FColRange (fam : bytes) (s e : bound)
| FValueRange (s e : bound)
| FTsRange (s e : Z)
| FCellsPerRowLimit (n : Z)
| FCellsPerRowOffset (n : Z)
| FCellsPerColLimit (n : Z)
| FStrip
| FLabel (l : bytes)
| FSample (valid : bool).        (* probability inside (0,1)?; the coin is an input *)

Record rowrange := mkRange { rr_start : bound; rr_end : bound }.

Inductive fmod :=
| MCreate (id : bytes) (rule : option gcrule)
| MUpdate (id : bytes) (rule : option gcrule)
| MDrop (id : bytes)
| MNone (id : bytes).

(* gRPC status codes used by the emulator *)
Definition cOK : N := 0.  Definition cUnknown : N := 2.  Definition cInvalidArgument : N := 3.
Definition cNotFound : N := 5.  Definition cAlreadyExists : N := 6.  Definition cInternal : N := 13.

Inductive breq :=
| BCreateTable (parent tid : bytes) (fams : list (bytes * option gcrule))
| BDeleteTable (name : bytes)
| BGetTable (name : bytes)
| BListTables (parent : bytes)
| BModifyFamilies (name : bytes) (mods : list fmod)
| BDropRowRange (name : bytes) (all : bool) (prefix : option bytes)
| BMutateRow (tbl key : bytes) (muts : list mutation)
| BMutateRows (tbl : bytes) (entries : list (bytes * list mutation))
| BCheckAndMutate (tbl key : bytes) (pred : option rfilter) (tm fm : list mutation)
| BReadModifyWrite (tbl key : bytes) (rules : list rmwrule)
| BReadRows (tbl : bytes) (keys : list bytes) (ranges : list rowrange) (f : option rfilter) (limit : Z)
| BSampleRowKeys (tbl : bytes)
| BRunGC (tbl : bytes).

(* a request with its nondeterministic inputs: the server clock and the row-sample coins *)
Record call := mkCall { cl_req : breq; cl_now : Z; cl_coins : list bool }.

Inductive bbody :=
| YNone
| YRows (rows : list row)
| YMatched (m : bool)
| YEntries (codes : list N)
| YTable (name : bytes) (fams : list (bytes * option gcrule))
| YTables (names : list bytes)
| YSample (samples : list (bytes * Z)).

Record bresp := mkBResp { br_code : N; br_body : bbody }.

(* C16, hand-over half: a GC pass that hands the table lock over between batches, racing with
   writers — theorems about the interleaving model BT/Conc.v, for all schedules. *)
From Coq Require Import List NArith ZArith Bool Lia Arith Sorting.
Import ListNotations.
From Emu.Common Require Import Bytes Str StrProofs.
From Emu.Gen Require Import Consts.
From Emu.BT Require Import Types Regex Mutate Filter Gc RowSet Server Conc.
From Emu.BT Require Import CellSpec CellProofs MutateProofs GcProofs ScanProofs AdminProofs ConcProofs.
Local Open Scope Z_scope.

(* ------------------------------------------------------------------ *)
(* one batch                                                           *)
(* ------------------------------------------------------------------ *)
Lemma nodup_app_l {A} (l l' : list A) : NoDup (l ++ l') -> NoDup l.
Proof.
  induction l as [|x l IH]; cbn; intros H; [constructor|]. inversion H as [|? ? Hn Hd]; subst.
  constructor; auto. intros Hin. apply Hn. apply in_or_app. auto.
Qed.

Definition gc_batch (keys : list bytes) : list bytes := firstn (Z.to_nat btGcBatch) keys.

(* the batch loop is the per-row step of the sequential pass ([gc_row_step], GcProofs.v), which
   looks the row up in the table AS IT IS when the row is visited *)
Lemma gc_section_fold t now keys :
  gc_section t now keys
  = (fold_left (gc_row_step now) (map (fun k => (k, @nil family)) (gc_batch keys)) t, skipn (Z.to_nat btGcBatch) keys).
Proof.
  unfold gc_section, gc_batch. f_equal. generalize (firstn (Z.to_nat btGcBatch) keys) as l. intros l. revert t.
  induction l as [|k l IH]; intros t; cbn [fold_left map]; auto.
Qed.

Lemma gc_batch_length keys : (length (gc_batch keys) <= Z.to_nat btGcBatch)%nat.
Proof. unfold gc_batch. rewrite firstn_length. lia. Qed.

Lemma gc_row_step_sorted now acc p : asorted (t_rows acc) -> asorted (t_rows (gc_row_step now acc p)).
Proof.
  intros H. unfold gc_row_step. destruct (alookup (fst p) (t_rows acc)) as [fs|]; auto.
  destruct (gc_fams (t_fams acc) now fs) as [ch fs']. destruct ch; auto. apply update_row_sorted. exact H.
Qed.

(* the outcome for row k depends only on the families and on row k itself *)
Lemma gc_row_step_local now a b k x : asorted (t_rows a) -> asorted (t_rows b) ->
  t_fams a = t_fams b -> alookup k (t_rows a) = alookup k (t_rows b) ->
  alookup k (t_rows (gc_row_step now a (k, x))) = alookup k (t_rows (gc_row_step now b (k, x))).
Proof.
  intros Ha Hb Hf Hk. unfold gc_row_step. cbn [fst]. rewrite Hk, Hf.
  destruct (alookup k (t_rows b)) as [fs|] eqn:Eb; [|congruence].
  destruct (gc_fams (t_fams b) now fs) as [ch fs']. destruct ch; [|congruence].
  rewrite !update_row_lookup by auto. rewrite beqb_refl, Hf. reflexivity.
Qed.

Lemma gc_keys_fold now : forall ks acc, asorted (t_rows acc) -> NoDup ks ->
  let acc' := fold_left (gc_row_step now) (map (fun k => (k, @nil family)) ks) acc in
  asorted (t_rows acc') /\ t_fams acc' = t_fams acc
  /\ (forall k, ~ In k ks -> alookup k (t_rows acc') = alookup k (t_rows acc))
  /\ (forall k, In k ks -> alookup k (t_rows acc') = alookup k (t_rows (gc_row_step now acc (k, [])))).
Proof.
  induction ks as [|k0 ks IH]; intros acc Hs Hnd; cbn [fold_left map].
  - split; auto. split; auto. split; auto. intros k [].
  - inversion Hnd as [|? ? Hnotin Hnd']; subst.
    pose proof (gc_row_step_sorted now acc (k0, []) Hs) as Hs1.
    destruct (IH (gc_row_step now acc (k0, [])) Hs1 Hnd') as [H1 [H2 [H3 H4]]].
    split; [exact H1|]. split; [rewrite H2; apply gc_row_step_fams|]. split.
    + intros k Hk. rewrite H3 by (intros G; apply Hk; right; exact G).
      apply gc_row_step_other. cbn [fst]. intros ->. apply Hk. left. reflexivity.
    + intros k [<-|Hk].
      * apply H3. exact Hnotin.
      * rewrite (H4 k Hk). assert (Hne : k <> k0) by (intros ->; contradiction).
        apply gc_row_step_local; auto.
        -- apply gc_row_step_fams.
        -- apply gc_row_step_other. exact Hne.
Qed.

(* C16 (hand-over): one batch changes only rows among the first btGcBatch keys; each of them
   becomes what the per-row step makes of its CURRENT value in t (the pass re-reads the row under
   the lock: nothing is carried over from the key listing); other rows and the schema are
   untouched; the keys left are the rest of the list *)
Theorem gc_section_pointwise : forall t now keys, asorted (t_rows t) -> NoDup keys ->
  let t' := fst (gc_section t now keys) in
  snd (gc_section t now keys) = skipn (Z.to_nat btGcBatch) keys
  /\ (length (gc_batch keys) <= Z.to_nat btGcBatch)%nat
  /\ t_fams t' = t_fams t
  /\ asorted (t_rows t')
  /\ (forall k, ~ In k (gc_batch keys) -> alookup k (t_rows t') = alookup k (t_rows t))
  /\ (forall k, In k (gc_batch keys) ->
        alookup k (t_rows t') =
        match alookup k (t_rows t) with
        | None => None
        | Some fs => if fst (gc_fams (t_fams t) now fs)
                     then nonempty_opt (scrub_fams (t_fams t) (snd (gc_fams (t_fams t) now fs)))
                     else Some fs
        end).
Proof.
  intros t now keys Hs Hnd. cbn zeta. rewrite gc_section_fold. cbn [fst snd].
  assert (Hnd' : NoDup (gc_batch keys)).
  { unfold gc_batch. rewrite <- (firstn_skipn (Z.to_nat btGcBatch) keys) in Hnd. apply nodup_app_l in Hnd. exact Hnd. }
  destruct (gc_keys_fold now (gc_batch keys) t Hs Hnd') as [H1 [H2 [H3 H4]]].
  split; auto. split; [apply gc_batch_length|]. split; auto. split; auto. split; auto.
  intros k Hk. rewrite (H4 k Hk). unfold gc_row_step. cbn [fst].
  destruct (alookup k (t_rows t)) as [fs|] eqn:E; [|exact E].
  destruct (gc_fams (t_fams t) now fs) as [ch fs']. cbn [fst snd]. destruct ch; [|exact E].
  rewrite update_row_lookup by auto. rewrite beqb_refl. reflexivity.
Qed.

(* the same in terms of contents (for well-formed tables): per visited row exactly the cells the
   rules condemn NOW are removed *)
Theorem gc_section_content : forall t now keys, table_ok t -> NoDup keys ->
  let t' := fst (gc_section t now keys) in
  table_ok t' /\ t_fams t' = t_fams t
  /\ (forall k, In k (gc_batch keys) -> gc_content (t_fams t) now (get_row t k) (get_row t' k))
  /\ (forall k, ~ In k (gc_batch keys) -> alookup k (t_rows t') = alookup k (t_rows t)).
Proof.
  intros t now keys Hok Hnd. cbn zeta. rewrite gc_section_fold. cbn [fst].
  assert (Hnd' : NoDup (map fst (map (fun k => (k, @nil family)) (gc_batch keys)))).
  { rewrite map_map. cbn [fst]. rewrite map_id. unfold gc_batch.
    rewrite <- (firstn_skipn (Z.to_nat btGcBatch) keys) in Hnd. apply nodup_app_l in Hnd. exact Hnd. }
  pose proof (gc_fold now _ t Hok Hnd') as G. cbn zeta in G. rewrite map_map in G. cbn [fst] in G. rewrite map_id in G. exact G.
Qed.

Lemma gc_section_ok t now keys : table_ok t -> table_ok (fst (gc_section t now keys)).
Proof.
  intros H. rewrite gc_section_fold. cbn [fst]. generalize (map (fun k => (k, @nil family)) (gc_batch keys)) as l.
  intros l. revert t H. induction l as [|p l IH]; intros t H; cbn [fold_left]; auto. apply IH, gc_row_step_ok, H.
Qed.

(* ------------------------------------------------------------------ *)
(* the invariant of the data model survives every interleaving         *)
(* ------------------------------------------------------------------ *)
Lemma apply_effect_ok s e : server_ok s -> server_ok (apply_effect s e).
Proof.
  intros H. destruct e as [|c|tbl now keys]; cbn [apply_effect]; auto.
  - apply step_preserves_server_ok. exact H.
  - destruct (alookup tbl s) as [t|] eqn:E; auto. apply set_table_ok; auto. apply gc_section_ok.
    eapply server_ok_lookup; eauto.
Qed.

Theorem crun_server_ok : forall sched st, server_ok (cs_server st) -> server_ok (cs_server (fst (crun st sched))).
Proof.
  induction sched as [|i sched IH]; intros st H; [exact H|]. rewrite crun_cons. cbn [fst]. apply IH.
  rewrite cstep_effect. apply apply_effect_ok. exact H.
Qed.

(* ------------------------------------------------------------------ *)
(* gc_sections_bounded                                                 *)
(* ------------------------------------------------------------------ *)
(* the keys a parked GC thread still has to visit *)
Definition gc_keys_left (p : progress) : option (list bytes) := match p with PGc keys _ => Some keys | _ => None end.

(* one scheduler step of a GC thread = ONE batch: the server changes by one [EGc] effect, which
   visits at most btGcBatch rows, all of them among the keys it had left; then the thread is
   parked again at the hand-over with exactly the other keys left, or it has answered *)
Theorem gc_step_one_batch : forall st i c rest keys now tbl,
  thread_at st i c rest (PGc keys now) -> Conc.req_table (cl_req c) = Some tbl ->
  snd (cstep st i) <> OBlocked ->
  cs_server (fst (cstep st i)) = apply_effect (cs_server st) (EGc tbl now keys)
  /\ (length (gc_batch keys) <= Z.to_nat btGcBatch)%nat
  /\ ((snd (cstep st i) = OAt /\ prog_at (fst (cstep st i)) i = PGc (skipn (Z.to_nat btGcBatch) keys) now)
      \/ (snd (cstep st i) = ODone (ok YNone) /\ prog_at (fst (cstep st i)) i = PNew)).
Proof.
  intros st i c rest keys now tbl Hat Hrt Hnb.
  split; [|split; [apply gc_batch_length|]].
  - rewrite cstep_effect. unfold step_effect. unfold thread_at in Hat. rewrite Hat. rewrite Hrt.
    destruct (snd (cstep st i)) eqn:Eo; try reflexivity; try congruence.
    (* OIdle: nothing changed; but a GC thread at PGc with a table name is never idle *)
    exfalso. revert Eo. unfold cstep. rewrite Hat. cbn [th_todo th_prog]. cbv zeta. rewrite Hrt.
    destruct (match cs_holder st with Some j => negb (Nat.eqb j i) | None => false end); [discriminate|].
    destruct (alookup tbl (cs_server st)); [|discriminate].
    destruct (gc_section t now keys). destruct (Z.to_nat btGcBatch <=? length keys)%nat; discriminate.
  - revert Hnb. unfold cstep, prog_at. unfold thread_at in Hat. rewrite Hat. cbn [th_todo th_prog]. cbv zeta. rewrite Hrt.
    destruct (match cs_holder st with Some j => negb (Nat.eqb j i) | None => false end); [intros H; exfalso; apply H; reflexivity|].
    intros _. destruct (alookup tbl (cs_server st)) as [t|].
    + rewrite gc_section_fold. destruct (Z.to_nat btGcBatch <=? length keys)%nat; cbn [fst snd cs_threads].
      * left. split; auto. rewrite (nth_error_upd_same _ _ _ _ Hat). reflexivity.
      * right. split; auto. rewrite (nth_error_upd_same _ _ _ _ Hat). reflexivity.
    + right. cbn [fst snd cs_threads]. split; auto. rewrite (nth_error_upd_same _ _ _ _ Hat). reflexivity.
Qed.

(* a parked GC thread never keeps anybody out: whoever is blocked is blocked by a WRITER parked
   inside its write section (progress PMid), never by the GC thread (progress PGc) *)
Theorem gc_parked_never_blocks : forall st i g keys now,
  conc_inv st -> prog_at st g = PGc keys now ->
  cs_holder st <> Some g
  /\ (snd (cstep st i) = OBlocked -> exists j k, cs_holder st = Some j /\ j <> g /\ prog_at st j = PMid k).
Proof.
  intros st i g keys now Hinv Hg.
  assert (Hng : cs_holder st <> Some g).
  { intros Hh. destruct Hinv as [Hi _]. apply Hi in Hh. destruct Hh as [th [E M]]. unfold prog_at in Hg. rewrite E in Hg.
    rewrite Hg in M. discriminate. }
  split; auto. intros Hb. destruct (blocked_spec st i Hb) as [_ [c [rest [p [j [_ [_ [Hj [_ Hm]]]]]]]]].
  destruct (Hm Hinv) as [th [E M]]. destruct (th_prog th) as [| |k| |] eqn:Ep; try discriminate.
  exists j, k. split; auto. split; [congruence|]. unfold prog_at. rewrite E. exact Ep.
Qed.

(* ------------------------------------------------------------------ *)
(* gc_no_lost_write                                                    *)
(* ------------------------------------------------------------------ *)
(* cell (fam, q, ts) of row [key] of table [tbl] holds v *)
Definition has_cell (s : server) (tbl key fam q : bytes) (ts : Z) (v : bytes) : Prop :=
  exists t, alookup tbl s = Some t /\ abs_fams (get_row t key) fam q ts = Some v.

(* the rule in force for the family does not condemn a cell of that timestamp at clock [now],
   wherever the cell stands in its column *)
Definition uncondemned (s : server) (tbl fam : bytes) (ts now : Z) : Prop :=
  forall t rule, alookup tbl s = Some t -> alookup fam (t_fams t) = Some (Some rule) ->
  forall idx c, c_ts c = ts -> condemned rule now idx c = false.

Lemma filter_idx_lookup p : forall cs i ts v, desc cs -> cell_lookup cs ts = Some v ->
  (forall j c, c_ts c = ts -> p j c = true) -> cell_lookup (filter_idx p i cs) ts = Some v.
Proof.
  induction cs as [|c cs IH]; intros i ts v Hd Hl Hp; [discriminate|]. cbn [filter_idx]. cbn [cell_lookup] in Hl.
  destruct (Z.eqb (c_ts c) ts) eqn:E.
  - pose proof E as E'. apply Z.eqb_eq in E'. rewrite (Hp i c E'). cbn [cell_lookup]. rewrite E. exact Hl.
  - destruct (p i c); [cbn [cell_lookup]; rewrite E|]; apply IH; auto; apply (desc_tail _ _ Hd).
Qed.

(* a batch keeps every cell that the rule in force does not condemn now — whatever the writers
   did to the row before the batch, since the row is re-read *)
Lemma gc_effect_keeps s tbl' now keys tbl key fam q ts v : server_ok s ->
  has_cell s tbl key fam q ts v -> (tbl' = tbl -> uncondemned s tbl fam ts now) ->
  has_cell (apply_effect s (EGc tbl' now keys)) tbl key fam q ts v.
Proof.
  intros Hok [t [Ht Hc]] Hun. cbn [apply_effect]. destruct (alookup tbl' s) as [t0|] eqn:Et0; [|exists t; auto].
  destruct (beqb tbl tbl') eqn:E.
  - apply beqb_eq in E. subst tbl'. rewrite Ht in Et0. injection Et0 as <-. specialize (Hun eq_refl).
    exists (fst (gc_section t now keys)). split; [apply alookup_ainsert_same|].
    pose proof (server_ok_lookup _ _ _ Hok Ht) as Htok.
    rewrite gc_section_fold. cbn [fst].
    (* generalise over the rows already processed: the cell survives every per-row step *)
    assert (G : forall l acc, table_ok acc -> t_fams acc = t_fams t -> abs_fams (get_row acc key) fam q ts = Some v ->
                abs_fams (get_row (fold_left (gc_row_step now) l acc) key) fam q ts = Some v).
    { induction l as [|p l IH]; intros acc Hacc Hf Hv; cbn [fold_left]; auto.
      apply IH; [apply gc_row_step_ok; auto|rewrite gc_row_step_fams; auto|].
      destruct (beqb key (fst p)) eqn:Ek.
      - apply beqb_eq in Ek. subst key. rewrite (gc_row_step_same now acc p Hacc fam q ts). rewrite Hf.
        destruct (alookup fam (t_fams t)) as [[rule|]|] eqn:Er; auto.
        rewrite abs_cells_of in Hv. pose proof (fams_ok_cells_desc _ fam q (table_ok_get_row_fams acc (fst p) Hacc)) as Hd.
        rewrite apply_gc_is_filter by exact Hd. apply filter_idx_lookup; auto.
        intros j c Hts. rewrite (Hun t rule Ht Er j c Hts). reflexivity.
      - apply beqb_neq in Ek. unfold get_row. rewrite gc_row_step_other by exact Ek. exact Hv. }
    apply G; auto.
  - apply beqb_neq in E. exists t. split; auto. unfold set_table. rewrite alookup_ainsert_other; auto.
Qed.

(* what it means for the effects of a schedule to respect the cell: a commit does not delete it
   (a hypothesis about the writers' requests: "no later request deletes the cell"), a GC batch
   runs under a rule that does not condemn it *)
Definition effect_keeps (s : server) (e : effect) (tbl key fam q : bytes) (ts : Z) (v : bytes) : Prop :=
  match e with
  | ENone => True
  | ECommit c => has_cell s tbl key fam q ts v -> has_cell (fst (step s c)) tbl key fam q ts v
  | EGc tbl' now _ => tbl' = tbl -> uncondemned s tbl fam ts now
  end.

Fixpoint effects_keep (s : server) (es : list effect) (tbl key fam q : bytes) (ts : Z) (v : bytes) : Prop :=
  match es with
  | [] => True
  | e :: r => effect_keeps s e tbl key fam q ts v /\ effects_keep (apply_effect s e) r tbl key fam q ts v
  end.

Lemma effects_keep_cell tbl key fam q ts v : forall es s, server_ok s -> has_cell s tbl key fam q ts v ->
  effects_keep s es tbl key fam q ts v -> has_cell (fold_left apply_effect es s) tbl key fam q ts v.
Proof.
  induction es as [|e es IH]; intros s Hok Hc Hk; cbn [fold_left]; auto. destruct Hk as [Hk1 Hk2].
  apply IH; auto; [apply apply_effect_ok; auto|].
  destruct e as [|c|tbl' now keys]; cbn [apply_effect effect_keeps] in *; auto.
  apply gc_effect_keeps; auto.
Qed.

(* C16 (hand-over): no lost write.  From any state in which the cell is stored (e.g. right after
   the commit of the write that set it), through ANY schedule of any threads — GC passes handing
   the lock over between batches, writers committing in between: if no committed request deletes
   the cell and the GC rule in force at each batch does not condemn it at the pass's clock, the
   cell is still there at the end.  A GC batch never reverts a row to an older content. *)
Theorem gc_no_lost_write : forall sched st tbl key fam q ts v,
  server_ok (cs_server st) -> has_cell (cs_server st) tbl key fam q ts v ->
  effects_keep (cs_server st) (effects st sched) tbl key fam q ts v ->
  has_cell (cs_server (fst (crun st sched))) tbl key fam q ts v.
Proof.
  intros sched st tbl key fam q ts v Hok Hc Hk. rewrite crun_is_serial_effects. apply effects_keep_cell; auto.
Qed.

(* the write itself: a MutateRow [SetCell] answered OK has stored its cell *)
Theorem setcell_ok_has_cell : forall s tbl key fam q ts v now coins, server_ok s -> ts <> -1 ->
  snd (step s (mkCall (BMutateRow tbl key [SetCell fam q ts v]) now coins)) = ok YNone ->
  has_cell (fst (step s (mkCall (BMutateRow tbl key [SetCell fam q ts v]) now coins))) tbl key fam q ts v.
Proof.
  intros s tbl key fam q ts v now coins Hok Hts Hr.
  pose proof (mutate_row_then_get s tbl key [SetCell fam q ts v] now coins Hok) as G.
  destruct (step s (mkCall (BMutateRow tbl key [SetCell fam q ts v]) now coins)) as [s' rsp]. cbn [fst snd] in *. subst rsp.
  cbn in G. destruct G as [t [t' [cm' [Ht [Hs [Ht' [_ [Hcm _]]]]]]]].
  exists t'. split; auto. rewrite (Hcm fam q ts). cbn [spec_mutations spec_mutation] in Hs.
  destruct (known_family (t_fams t) fam); [|discriminate].
  assert (E : (ts =? -1) = false) by (apply Z.eqb_neq; exact Hts). rewrite E in Hs.
  destruct (valid_timestamp ts); [|discriminate]. injection Hs as <-. unfold cm_set. rewrite !beqb_refl, Z.eqb_refl. reflexivity.
Qed.

(* ------------------------------------------------------------------ *)
(* commits that cannot delete the cell: sufficient conditions for the  *)
(* ECommit clauses of [effects_keep]                                   *)
(* ------------------------------------------------------------------ *)
(* any request that does not name the cell's table *)
Theorem commit_other_table_keeps : forall s c tbl key fam q ts v,
  affected (cl_req c) <> Some tbl -> has_cell s tbl key fam q ts v -> has_cell (fst (step s c)) tbl key fam q ts v.
Proof.
  intros s c tbl key fam q ts v Hne [t [Ht Hc]]. exists t. split; auto. rewrite step_frame; auto.
Qed.

(* a MutateRow on another row *)
Theorem commit_other_row_keeps : forall s tbl key' muts now coins key fam q ts v, server_ok s -> key' <> key ->
  has_cell s tbl key fam q ts v ->
  has_cell (fst (step s (mkCall (BMutateRow tbl key' muts) now coins))) tbl key fam q ts v.
Proof.
  intros s tbl key' muts now coins key fam q ts v Hok Hne [t [Ht Hc]].
  pose proof (mutate_row_then_get s tbl key' muts now coins Hok) as G.
  destruct (step s (mkCall (BMutateRow tbl key' muts) now coins)) as [s' rsp]. cbn [fst].
  destruct (N.eqb (br_code rsp) cOK).
  - destruct G as [t0 [t' [cm' [Ht0 [_ [Ht' [_ [_ [_ [Hrows _]]]]]]]]]]. rewrite Ht in Ht0. injection Ht0 as <-.
    exists t'. split; auto. unfold get_row. rewrite Hrows by auto. exact Hc.
  - destruct G as [-> _]. exists t. auto.
Qed.

Definition sets_other_column (fam q : bytes) (m : mutation) : Prop :=
  match m with SetCell f' q' _ _ => f' <> fam \/ q' <> q | _ => False end.

Lemma spec_mutations_other_columns tf now fam q ts : forall muts cm cm',
  Forall (sets_other_column fam q) muts -> spec_mutations tf now muts cm = Some cm' -> cm' fam q ts = cm fam q ts.
Proof.
  induction muts as [|m muts IH]; intros cm cm' Hall H; cbn [spec_mutations] in H; [injection H as <-; reflexivity|].
  inversion Hall as [|? ? Hm Hall']; subst.
  destruct (spec_mutation tf now m cm) as [cm1|] eqn:E; [|discriminate]. rewrite (IH _ _ Hall' H).
  destruct m as [f' q' ts' v'| | | |]; cbn [sets_other_column] in Hm; try contradiction. cbn [spec_mutation] in E.
  destruct (known_family tf f'); [|discriminate]. destruct (valid_timestamp _); [|discriminate]. injection E as <-.
  unfold cm_set. destruct Hm as [Hm|Hm].
  - assert (Eb : beqb fam f' = false) by (apply beqb_neq; congruence). rewrite Eb. reflexivity.
  - assert (Eb : beqb q q' = false) by (apply beqb_neq; congruence). rewrite Eb, andb_false_r. reflexivity.
Qed.

(* a MutateRow on the same row that only sets cells of other columns *)
Theorem commit_other_columns_keeps : forall s tbl key muts now coins fam q ts v, server_ok s ->
  Forall (sets_other_column fam q) muts ->
  has_cell s tbl key fam q ts v ->
  has_cell (fst (step s (mkCall (BMutateRow tbl key muts) now coins))) tbl key fam q ts v.
Proof.
  intros s tbl key muts now coins fam q ts v Hok Hall [t [Ht Hc]].
  pose proof (mutate_row_then_get s tbl key muts now coins Hok) as G.
  destruct (step s (mkCall (BMutateRow tbl key muts) now coins)) as [s' rsp]. cbn [fst].
  destruct (N.eqb (br_code rsp) cOK).
  - destruct G as [t0 [t' [cm' [Ht0 [Hs [Ht' [_ [Hcm _]]]]]]]]. rewrite Ht in Ht0. injection Ht0 as <-.
    exists t'. split; auto. rewrite (Hcm fam q ts). rewrite (spec_mutations_other_columns _ _ _ _ _ _ _ _ Hall Hs). exact Hc.
  - destruct G as [-> _]. exists t. auto.
Qed.

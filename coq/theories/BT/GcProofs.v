(* C16 (policy half) — applyGC removes exactly the cells the rule condemns. *)
From Coq Require Import List NArith ZArith Bool Lia ZifyBool ZifyNat ZifyN Arith.
Import ListNotations.
From Emu.Common Require Import Bytes Str StrProofs.
From Emu.BT Require Import Types Mutate Gc Server CellSpec CellProofs.
Local Open Scope Z_scope.

(* ------------------------------------------------------------------ *)
(* the policy, cell by cell.  idx is the position of the cell in its column (0 = newest). *)

(* "now minus max-age", with the emulator's int64 arithmetic: seconds -> micros, nanos -> micros
   (Go's truncating division) *)
Definition gc_cutoff (secs nanos now : Z) : Z :=
  wrap64 (wrap64 (now - wrap64 (secs * 1000000)) - Z.quot nanos 1000).

(* A union condemns what any member condemns.  The members are applied one after the other, each
   on what the previous ones left; because every member removes a suffix of the column (see
   apply_gc_prefix) the position of a surviving cell never changes, so "position in the reduced
   list" and "position in the original list" coincide and a plain disjunction is exact. *)
Fixpoint condemned (rule : gcrule) (now : Z) (idx : nat) (c : cell) : bool :=
  match rule with
  | GMaxVersions n => (0 <=? n) && (Z.to_nat n <=? idx)%nat
  | GMaxAge secs nanos => c_ts c <? gc_cutoff secs nanos now
  | GUnion rules => (fix any (rs : list gcrule) : bool :=
                       match rs with [] => false | r :: rest => condemned r now idx c || any rest end) rules
  | GOther => false
  end.

Lemma condemned_union rs now idx c :
  condemned (GUnion rs) now idx c = existsb (fun r => condemned r now idx c) rs.
Proof. induction rs as [|r rest IH]; [reflexivity|]. cbn [existsb]. rewrite <- IH. reflexivity. Qed.

(* induction principle through the nested list *)
Fixpoint gcrule_ind' (P : gcrule -> Prop)
  (Hv : forall n, P (GMaxVersions n)) (Ha : forall s n, P (GMaxAge s n))
  (Hu : forall rs, Forall P rs -> P (GUnion rs)) (Ho : P GOther) (r : gcrule) : P r :=
  match r with
  | GMaxVersions n => Hv n
  | GMaxAge s n => Ha s n
  | GOther => Ho
  | GUnion rs => Hu rs ((fix go (l : list gcrule) : Forall P l :=
                           match l with
                           | [] => Forall_nil P
                           | x :: t => Forall_cons x (gcrule_ind' P Hv Ha Hu Ho x) (go t)
                           end) rs)
  end.

(* keep the longest prefix whose cells satisfy p (p sees the position) *)
Fixpoint take_idx (p : nat -> cell -> bool) (i : nat) (cs : list cell) : list cell :=
  match cs with
  | [] => []
  | c :: r => if p i c then c :: take_idx p (S i) r else []
  end.

(* keep every cell that satisfies p *)
Fixpoint filter_idx (p : nat -> cell -> bool) (i : nat) (cs : list cell) : list cell :=
  match cs with
  | [] => []
  | c :: r => if p i c then c :: filter_idx p (S i) r else filter_idx p (S i) r
  end.

Definition retained (rule : gcrule) (now : Z) : nat -> cell -> bool :=
  fun i c => negb (condemned rule now i c).

Lemma take_idx_ext p q i cs : (forall j c, p j c = q j c) -> take_idx p i cs = take_idx q i cs.
Proof.
  intros H. revert i. induction cs as [|c r IH]; intros i; cbn; auto.
  rewrite H, IH. reflexivity.
Qed.

Lemma take_idx_compose p q i cs :
  take_idx q i (take_idx p i cs) = take_idx (fun j c => p j c && q j c) i cs.
Proof.
  revert i. induction cs as [|c r IH]; intros i; cbn; auto.
  destruct (p i c); cbn; auto. destruct (q i c); cbn; auto. rewrite IH. reflexivity.
Qed.

Lemma take_idx_true i cs : take_idx (fun _ _ => true) i cs = cs.
Proof. revert i. induction cs as [|c r IH]; intros i; cbn; auto. rewrite IH. reflexivity. Qed.

Lemma take_idx_lt m i cs : take_idx (fun j _ => (j <? m)%nat) i cs = firstn (m - i) cs.
Proof.
  revert i. induction cs as [|c r IH]; intros i; cbn [take_idx].
  - rewrite firstn_nil. reflexivity.
  - destruct (i <? m)%nat eqn:E.
    + replace (m - i)%nat with (S (m - S i)) by lia. cbn [firstn]. rewrite IH. reflexivity.
    + replace (m - i)%nat with O by lia. reflexivity.
Qed.

Lemma take_idx_search b i cs :
  take_idx (fun _ c => negb (c_ts c <? b)) i cs = firstn (search_lt cs b) cs.
Proof.
  revert i. induction cs as [|c r IH]; intros i; cbn; auto.
  destruct (c_ts c <? b); cbn; auto. rewrite IH. reflexivity.
Qed.

Lemma take_idx_prefix p i cs : take_idx p i cs = firstn (length (take_idx p i cs)) cs.
Proof.
  revert i. induction cs as [|c r IH]; intros i; cbn; auto.
  destruct (p i c); cbn; auto. rewrite <- IH. reflexivity.
Qed.

Lemma apply_gc_union cells rs now :
  apply_gc cells (GUnion rs) now = fold_left (fun cs r => apply_gc cs r now) rs cells.
Proof.
  revert cells. induction rs as [|r rest IH]; intros cells; [reflexivity|].
  cbn [fold_left]. rewrite <- IH. reflexivity.
Qed.

(* applyGC = "cut the column at the first condemned cell" — for every list, sorted or not *)
Theorem apply_gc_take : forall rule now cells,
  apply_gc cells rule now = take_idx (retained rule now) 0 cells.
Proof.
  intros rule now. induction rule as [n|s n|rs IH|] using gcrule_ind'; intros cells.
  - cbn [apply_gc]. unfold retained. cbn [condemned].
    destruct (0 <=? n) eqn:E0; cbn [andb].
    + rewrite (take_idx_ext _ (fun j _ => (j <? Z.to_nat n)%nat)) by (intros; lia).
      rewrite take_idx_lt, Nat.sub_0_r.
      destruct (Z.to_nat n <? length cells)%nat eqn:E1; auto.
      rewrite firstn_all2 by lia. reflexivity.
    + rewrite (take_idx_ext _ (fun _ _ => true)) by (intros; reflexivity).
      rewrite take_idx_true. reflexivity.
  - cbn [apply_gc]. fold (gc_cutoff s n now). unfold retained. cbn [condemned].
    rewrite take_idx_search. reflexivity.
  - rewrite apply_gc_union. unfold retained.
    rewrite (take_idx_ext _ (fun j c => forallb (fun r => retained r now j c) rs)).
    2:{ intros j c. rewrite condemned_union. unfold retained.
        induction rs as [|r rest IHr]; cbn; auto. rewrite negb_orb.
        inversion IH; subst. rewrite IHr; auto. }
    revert cells. induction rs as [|r rest IHr]; intros cells; cbn [fold_left forallb].
    + rewrite take_idx_true. reflexivity.
    + inversion IH as [|x l Hr Hrest]; subst. rewrite IHr by exact Hrest.
      rewrite Hr, take_idx_compose. reflexivity.
  - cbn [apply_gc]. unfold retained. cbn [condemned]. cbn [negb]. rewrite take_idx_true. reflexivity.
Qed.

(* monotone condemnation: further down a descending column everything stays condemned *)
Lemma condemned_mono rule now : forall i j c d,
  (i <= j)%nat -> c_ts d <= c_ts c -> condemned rule now i c = true -> condemned rule now j d = true.
Proof.
  induction rule as [n|s n|rs IH|] using gcrule_ind'; intros i j c d Hij Hts H.
  - cbn [condemned] in *. lia.
  - cbn [condemned] in *. lia.
  - rewrite condemned_union in *. rewrite existsb_exists in *.
    destruct H as [r [Hin Hr]]. exists r. split; auto.
    rewrite Forall_forall in IH. eapply IH; eauto.
  - cbn in H. discriminate.
Qed.

Lemma filter_idx_none p i cs : (forall j c, In c cs -> (i <= j)%nat -> p j c = false) -> filter_idx p i cs = [].
Proof.
  revert i. induction cs as [|c r IH]; intros i H; cbn; auto.
  rewrite (H i c) by (auto; left; reflexivity). apply IH. intros j d Hd Hj. apply H; [right; exact Hd|lia].
Qed.

Lemma take_is_filter rule now : forall i cells, desc cells ->
  take_idx (retained rule now) i cells = filter_idx (retained rule now) i cells.
Proof.
  intros i cells. revert i. induction cells as [|c r IH]; intros i Hd; cbn; auto.
  destruct Hd as [Hc Hr]. destruct (retained rule now i c) eqn:E.
  - rewrite IH by exact Hr. reflexivity.
  - symmetry. apply filter_idx_none. intros j d Hd Hj. unfold retained in *.
    assert (Hcd : condemned rule now i c = true) by (destruct (condemned rule now i c); auto; discriminate).
    assert (Hts : c_ts d <= c_ts c) by (specialize (Hc d Hd); lia).
    assert (Hij : (i <= j)%nat) by lia.
    rewrite (condemned_mono rule now i j c d Hij Hts Hcd). reflexivity.
Qed.

(* apply_gc_is_filter: on a descending column the result is exactly the cells that are not condemned *)
Theorem apply_gc_is_filter : forall rule now cells, desc cells ->
  apply_gc cells rule now = filter_idx (fun i c => negb (condemned rule now i c)) 0 cells.
Proof. intros rule now cells Hd. rewrite apply_gc_take. apply take_is_filter. exact Hd. Qed.

(* ... and a prefix of the column: retained cells keep value, labels, order and position *)
Theorem apply_gc_prefix : forall rule now cells,
  apply_gc cells rule now = firstn (length (apply_gc cells rule now)) cells.
Proof. intros. rewrite apply_gc_take. apply take_idx_prefix. Qed.

Theorem apply_gc_subset : forall rule now cells c, In c (apply_gc cells rule now) -> In c cells.
Proof.
  intros rule now cells c H. rewrite apply_gc_prefix in H.
  rewrite <- (firstn_skipn (length (apply_gc cells rule now)) cells). apply in_or_app. left. exact H.
Qed.

Theorem apply_gc_desc : forall rule now cells, desc cells -> desc (apply_gc cells rule now).
Proof. intros rule now cells Hd. rewrite apply_gc_prefix. apply desc_firstn. exact Hd. Qed.

Theorem apply_gc_length : forall rule now cells, (length (apply_gc cells rule now) <= length cells)%nat.
Proof. intros. rewrite apply_gc_prefix. rewrite firstn_length. lia. Qed.

(* boundary: a cell exactly at the cut-off is retained by max-age; one microsecond older is not *)
Theorem max_age_boundary : forall secs nanos now idx c,
  condemned (GMaxAge secs nanos) now idx c = (c_ts c <? gc_cutoff secs nanos now).
Proof. reflexivity. Qed.

Theorem max_age_cutoff_retained : forall secs nanos now idx c,
  c_ts c = gc_cutoff secs nanos now -> condemned (GMaxAge secs nanos) now idx c = false.
Proof. intros secs nanos now idx c H. cbn [condemned]. lia. Qed.

Theorem max_versions_exact : forall n now idx c, 0 <= n ->
  condemned (GMaxVersions n) now idx c = (Z.to_nat n <=? idx)%nat.
Proof. intros n now idx c H. cbn [condemned]. lia. Qed.

(* a negative max-versions keeps everything; unsupported rules keep everything *)
Theorem max_versions_negative : forall n now cells, n < 0 -> apply_gc cells (GMaxVersions n) now = cells.
Proof. intros n now cells H. cbn [apply_gc]. replace (0 <=? n) with false by lia. reflexivity. Qed.

Theorem gc_other_keeps : forall now cells, apply_gc cells GOther now = cells.
Proof. reflexivity. Qed.

(* ------------------------------------------------------------------ *)
(* one row *)
Lemma apply_gc_nil rule now : apply_gc [] rule now = [].
Proof. rewrite apply_gc_take. reflexivity. Qed.

Lemma apply_gc_same_length rule now cells :
  length (apply_gc cells rule now) = length cells -> apply_gc cells rule now = cells.
Proof. intros H. rewrite apply_gc_prefix, H. apply firstn_all. Qed.

Definition gc_col (rule : gcrule) (now : Z) (c : column) : column :=
  mkCol (col_q c) (apply_gc (col_cells c) rule now).

Definition gc_fam (tf : list (bytes * option gcrule)) (now : Z) (f : family) : family :=
  match alookup (fam_name f) tf with
  | Some (Some rule) => mkFam (fam_name f) (map (gc_col rule now) (fam_cols f))
  | _ => f
  end.

Lemma gc_fams_snd tf now fs : snd (gc_fams tf now fs) = map (gc_fam tf now) fs.
Proof. reflexivity. Qed.

Lemma gc_fam_name tf now f : fam_name (gc_fam tf now f) = fam_name f.
Proof. unfold gc_fam. destruct (alookup (fam_name f) tf) as [[rule|]|]; reflexivity. Qed.

Lemma gc_fams_names tf now fs : map fam_name (map (gc_fam tf now) fs) = map fam_name fs.
Proof. rewrite map_map. apply map_ext. intros f. apply gc_fam_name. Qed.

Lemma gc_cols_names rule now cs : map col_q (map (gc_col rule now) cs) = map col_q cs.
Proof. rewrite map_map. reflexivity. Qed.

Lemma get_family_gc tf now fs n :
  get_family (map (gc_fam tf now) fs) n = option_map (gc_fam tf now) (get_family fs n).
Proof.
  induction fs as [|f r IH]; cbn; auto. rewrite gc_fam_name. destruct (beqb (fam_name f) n); auto.
Qed.

Lemma get_column_gc rule now cs q :
  get_column (map (gc_col rule now) cs) q = option_map (gc_col rule now) (get_column cs q).
Proof. induction cs as [|c r IH]; cbn; auto. destruct (beqb (col_q c) q); auto. Qed.

(* families without a rule, or with an unsupported rule, are returned as they are *)
Lemma gc_col_other now c : gc_col GOther now c = c.
Proof. destruct c. reflexivity. Qed.

Theorem gc_fam_untouched : forall tf now f,
  match alookup (fam_name f) tf with Some (Some GOther) | Some None | None => True | _ => False end ->
  gc_fam tf now f = f.
Proof.
  intros tf now f H. unfold gc_fam. destruct (alookup (fam_name f) tf) as [[rule|]|]; auto.
  destruct rule; try contradiction. destruct f as [n cs]. cbn. f_equal.
  induction cs as [|c r IH]; cbn; auto. rewrite gc_col_other, IH. reflexivity.
Qed.

(* column by column: the cells after the pass *)
Theorem gc_cells_of : forall tf now fs f q,
  cells_of (map (gc_fam tf now) fs) f q
  = match alookup f tf with
    | Some (Some rule) => apply_gc (cells_of fs f q) rule now
    | _ => cells_of fs f q
    end.
Proof.
  intros tf now fs f q. unfold cells_of. rewrite get_family_gc.
  destruct (get_family fs f) as [fm|] eqn:Ef; cbn [option_map].
  - apply get_family_some in Ef. destruct Ef as [Hn _]. unfold gc_fam. rewrite Hn.
    destruct (alookup f tf) as [[rule|]|]; auto. cbn [fam_cols]. rewrite get_column_gc.
    destruct (get_column (fam_cols fm) q); cbn; auto. rewrite apply_gc_nil. reflexivity.
  - destruct (alookup f tf) as [[rule|]|]; auto. rewrite apply_gc_nil. reflexivity.
Qed.

Theorem gc_fams_ok : forall tf now fs, fams_ok fs -> fams_ok (map (gc_fam tf now) fs).
Proof.
  intros tf now fs [Hn Hf]. split.
  - rewrite gc_fams_names. exact Hn.
  - rewrite Forall_forall in *. intros g Hg. apply in_map_iff in Hg. destruct Hg as [f [<- Hin]].
    destruct (Hf f Hin) as [Hcn Hcf]. unfold gc_fam.
    destruct (alookup (fam_name f) tf) as [[rule|]|]; try (split; assumption).
    split; cbn [fam_cols].
    + rewrite gc_cols_names. exact Hcn.
    + rewrite Forall_forall in *. intros c Hc. apply in_map_iff in Hc. destruct Hc as [c0 [<- Hc0]].
      unfold col_ok, gc_col. cbn [col_cells]. apply apply_gc_desc. apply (Hcf c0 Hc0).
Qed.

Lemma gc_fams_known tf tf' now fs : all_known tf fs -> all_known tf (map (gc_fam tf' now) fs).
Proof.
  unfold all_known. rewrite !Forall_forall. intros H g Hg. apply in_map_iff in Hg.
  destruct Hg as [f [<- Hin]]. rewrite gc_fam_name. auto.
Qed.

(* the "changed" flag: false only if nothing was removed *)
Lemma combine_app {A B} (l1 l2 : list A) (m1 m2 : list B) : length l1 = length m1 ->
  combine (l1 ++ l2) (m1 ++ m2) = combine l1 m1 ++ combine l2 m2.
Proof.
  revert m1. induction l1 as [|a l IH]; intros [|b m] H; cbn in *; try discriminate; auto.
  rewrite IH by lia. reflexivity.
Qed.

Definition len_differs (p : column * column) : bool :=
  negb (Nat.eqb (length (col_cells (fst p))) (length (col_cells (snd p)))).

Lemma gc_fam_cols_length tf now f : length (fam_cols (gc_fam tf now f)) = length (fam_cols f).
Proof. unfold gc_fam. destruct (alookup (fam_name f) tf) as [[rule|]|]; auto. cbn. apply map_length. Qed.

Lemma gc_fam_unchanged tf now f :
  existsb len_differs (combine (fam_cols f) (fam_cols (gc_fam tf now f))) = false -> gc_fam tf now f = f.
Proof.
  unfold gc_fam. destruct (alookup (fam_name f) tf) as [[rule|]|]; auto.
  destruct f as [n cs]. cbn [fam_cols fam_name]. intros H. f_equal.
  induction cs as [|c r IH]; cbn in *; auto.
  apply orb_false_elim in H. destruct H as [H1 H2]. rewrite IH by exact H2. f_equal.
  unfold len_differs in H1. cbn [fst snd gc_col col_cells] in H1.
  rewrite negb_false_iff in H1. apply Nat.eqb_eq in H1.
  destruct c as [q cells]. unfold gc_col. cbn in *. f_equal. apply apply_gc_same_length. symmetry. exact H1.
Qed.

Theorem gc_unchanged : forall tf now fs, fst (gc_fams tf now fs) = false -> snd (gc_fams tf now fs) = fs.
Proof.
  intros tf now fs. rewrite gc_fams_snd. unfold gc_fams. cbn [fst].
  fold (gc_fam tf now). change (fun p : column * column => negb (Nat.eqb (length (col_cells (fst p))) (length (col_cells (snd p))))) with len_differs.
  induction fs as [|f r IH]; cbn [map flat_map]; auto.
  intros H. rewrite combine_app in H by (symmetry; apply gc_fam_cols_length).
  rewrite existsb_app in H. apply orb_false_elim in H. destruct H as [H1 H2].
  rewrite gc_fam_unchanged by exact H1. rewrite IH by exact H2. reflexivity.
Qed.

(* ------------------------------------------------------------------ *)
(* the pass over a table *)
Definition gc_row_step (now : Z) (acc : table) (p : bytes * list family) : table :=
  match alookup (fst p) (t_rows acc) with
  | None => acc
  | Some fs => let '(changed, fs') := gc_fams (t_fams acc) now fs in
               if changed then update_row acc (fst p) fs' else acc
  end.

Lemma gc_pass_unfold t now :
  gc_pass t now = if forallb (fun p => match snd p with None => true | Some _ => false end) (t_fams t)
                  then t else fold_left (gc_row_step now) (t_rows t) t.
Proof. reflexivity. Qed.

(* content of a row after the pass, in terms of the row before *)
Definition gc_content (tf : list (bytes * option gcrule)) (now : Z) (before after : list family) : Prop :=
  forall f q ts,
    abs_fams after f q ts
    = match alookup f tf with
      | Some (Some rule) => cell_lookup (apply_gc (cells_of before f q) rule now) ts
      | _ => abs_fams before f q ts
      end.

Lemma gc_content_map tf now fs : gc_content tf now fs (map (gc_fam tf now) fs).
Proof.
  intros f q ts. rewrite abs_cells_of, gc_cells_of.
  destruct (alookup f tf) as [[rule|]|]; auto; symmetry; apply abs_cells_of.
Qed.

Lemma gc_content_cm_eq tf now a b b' : gc_content tf now a b -> cm_eq (abs_fams b') (abs_fams b) -> gc_content tf now a b'.
Proof. intros H Heq f q ts. rewrite Heq. apply H. Qed.

Lemma gc_row_step_fams now acc p : t_fams (gc_row_step now acc p) = t_fams acc.
Proof.
  unfold gc_row_step. destruct (alookup (fst p) (t_rows acc)); auto.
  destruct (gc_fams (t_fams acc) now l) as [ch fs']. destruct ch; auto. apply update_row_fams.
Qed.

Lemma gc_row_step_ok now acc p : table_ok acc -> table_ok (gc_row_step now acc p).
Proof.
  intros Hok. unfold gc_row_step. destruct (alookup (fst p) (t_rows acc)) as [fs|] eqn:E; auto.
  destruct (gc_fams (t_fams acc) now fs) as [ch fs'] eqn:Eg. destruct ch; auto.
  apply update_row_ok; auto.
  assert (Hfs : fs' = snd (gc_fams (t_fams acc) now fs)) by (rewrite Eg; reflexivity).
  rewrite Hfs, gc_fams_snd. apply gc_fams_ok.
  destruct Hok as [_ Hr]. rewrite Forall_forall in Hr. apply alookup_in in E. apply (Hr _ E).
Qed.

Lemma gc_row_step_other now acc p k : k <> fst p ->
  alookup k (t_rows (gc_row_step now acc p)) = alookup k (t_rows acc).
Proof.
  intros Hne. unfold gc_row_step. destruct (alookup (fst p) (t_rows acc)) as [fs|]; auto.
  destruct (gc_fams (t_fams acc) now fs) as [ch fs']. destruct ch; auto.
  apply lookup_update_other. exact Hne.
Qed.

Lemma gc_row_step_same now acc p : table_ok acc ->
  gc_content (t_fams acc) now (get_row acc (fst p)) (get_row (gc_row_step now acc p) (fst p)).
Proof.
  intros Hok. unfold gc_row_step, get_row at 1.
  destruct (alookup (fst p) (t_rows acc)) as [fs|] eqn:E.
  - assert (Hst : stored_ok (t_fams acc) fs).
    { destruct Hok as [_ Hr]. rewrite Forall_forall in Hr. apply alookup_in in E. apply (Hr _ E). }
    pose proof (gc_unchanged (t_fams acc) now fs) as Hun.
    pose proof (gc_fams_snd (t_fams acc) now fs) as Hsnd.
    destruct (gc_fams (t_fams acc) now fs) as [ch fs'] eqn:Eg. cbn [fst snd] in *. destruct ch.
    + rewrite get_row_update_same by apply Hok. subst fs'.
      eapply gc_content_cm_eq; [apply gc_content_map|].
      apply scrub_preserves_content.
      * apply gc_fams_ok. apply Hst.
      * apply gc_fams_known. apply stored_all_known. exact Hst.
    + unfold get_row. rewrite E. rewrite <- (Hun eq_refl) at 2. rewrite Hsnd. apply gc_content_map.
  - unfold get_row. rewrite E. intros f q ts. unfold cells_of, abs_fams. cbn.
    destruct (alookup f (t_fams acc)) as [[rule|]|]; auto. rewrite apply_gc_nil. reflexivity.
Qed.

Lemma gc_fold now : forall rem acc, table_ok acc -> NoDup (map fst rem) ->
  let acc' := fold_left (gc_row_step now) rem acc in
  table_ok acc' /\ t_fams acc' = t_fams acc
  /\ (forall k, In k (map fst rem) -> gc_content (t_fams acc) now (get_row acc k) (get_row acc' k))
  /\ (forall k, ~ In k (map fst rem) -> alookup k (t_rows acc') = alookup k (t_rows acc)).
Proof.
  induction rem as [|p rem IH]; intros acc Hok Hnd; cbn [fold_left map].
  - split; auto. split; auto. split; [intros k []|auto].
  - inversion Hnd as [|x l Hnotin Hnd']; subst.
    pose proof (gc_row_step_ok now acc p Hok) as Hok1.
    destruct (IH (gc_row_step now acc p) Hok1 Hnd') as [H1 [H2 [H3 H4]]].
    split; [exact H1|]. split; [rewrite H2; apply gc_row_step_fams|]. split.
    + intros k [Hk|Hk].
      * subst k. unfold get_row at 2. rewrite (H4 _ Hnotin).
        apply (gc_row_step_same now acc p Hok).
      * assert (Hne : k <> fst p) by (intros ->; contradiction).
        specialize (H3 k Hk). rewrite gc_row_step_fams in H3.
        unfold get_row at 1 in H3. rewrite gc_row_step_other in H3 by exact Hne. exact H3.
    + intros k Hk. rewrite H4 by (intros H; apply Hk; right; exact H).
      apply gc_row_step_other. intros ->. apply Hk. left. reflexivity.
Qed.

Lemma asorted_nodup_keys {V} (l : list (bytes * V)) : asorted l -> NoDup (map fst l).
Proof.
  induction l as [|[k v] r IH]; intros Hs; cbn; [constructor|].
  constructor; [|apply IH; eapply asorted_tail; eauto].
  intros Hin. apply in_map_iff in Hin. destruct Hin as [[k' v'] [Hk Hin]]. cbn in Hk. subst k'.
  pose proof (asorted_head_lt _ _ _ Hs k v' Hin) as Hlt. unfold lex_lt in Hlt. rewrite lex_refl in Hlt. discriminate.
Qed.

Lemma alookup_not_in {V} (l : list (bytes * V)) k : ~ In k (map fst l) -> alookup k l = None.
Proof.
  induction l as [|[k0 v0] r IH]; intros H; cbn; auto.
  destruct (beqb k k0) eqn:E.
  - apply beqb_eq in E. subst. exfalso. apply H. left. reflexivity.
  - apply IH. intros Hin. apply H. right. exact Hin.
Qed.

Lemma no_rules_lookup tf f :
  forallb (fun p : bytes * option gcrule => match snd p with None => true | Some _ => false end) tf = true ->
  match alookup f tf with Some (Some _) => False | _ => True end.
Proof.
  intros H. destruct (alookup f tf) as [[rule|]|] eqn:E; auto.
  apply alookup_in in E. rewrite forallb_forall in H. specialize (H _ E). cbn in H. discriminate.
Qed.

(* a stored row always has content; so "the row is gone" = "no cell is left" *)
Lemma stored_row_has_cell tf fs : stored_ok tf fs -> fs <> [] -> exists f q ts, abs_fams fs f q ts <> None.
Proof.
  intros [_ Hst] Hne. destruct fs as [|f r]; [contradiction|].
  inversion Hst as [|x l [_ [Hc [Hcells _]]] _]; subst.
  destruct (fam_cols f) as [|c cs] eqn:Ec; [contradiction|].
  inversion Hcells as [|y l' Hcne _]; subst.
  destruct (col_cells c) as [|d ds] eqn:Ed; [contradiction|].
  exists (fam_name f), (col_q c), (c_ts d). unfold abs_fams. cbn. rewrite beqb_refl, Ec. cbn.
  rewrite beqb_refl, Ed. cbn. rewrite Z.eqb_refl. discriminate.
Qed.

Theorem row_absent_iff_empty : forall t key, table_ok t ->
  (alookup key (t_rows t) = None <-> forall f q ts, abs_fams (get_row t key) f q ts = None).
Proof.
  intros t key [_ Hr]. unfold get_row. destruct (alookup key (t_rows t)) as [fs|] eqn:E.
  - split; [discriminate|]. intros H. apply alookup_in in E. rewrite Forall_forall in Hr.
    destruct (Hr _ E) as [Hst Hne]. destruct (stored_row_has_cell _ _ Hst Hne) as [f [q [ts Hc]]].
    exfalso. apply Hc. apply H.
  - split; auto.
Qed.

(* gc_pass_spec: the pass keeps the table well formed (rows without cells are gone), does not
   change the schema, and the content of every row afterwards is the content before with each
   column of a family that has a supported rule reduced by apply_gc; families without a rule or
   with GOther are untouched. *)
Theorem gc_pass_spec : forall t now, table_ok t ->
  let t' := gc_pass t now in
  table_ok t' /\ t_fams t' = t_fams t
  /\ (forall key, gc_content (t_fams t) now (get_row t key) (get_row t' key))
  /\ (forall key, alookup key (t_rows t') = None <-> forall f q ts, abs_fams (get_row t' key) f q ts = None).
Proof.
  intros t now Hok. cbv zeta. rewrite gc_pass_unfold.
  destruct (forallb _ (t_fams t)) eqn:Enone.
  - split; auto. split; auto. split; [|intros key; apply row_absent_iff_empty; exact Hok].
    intros key f q ts. pose proof (no_rules_lookup (t_fams t) f Enone) as H.
    destruct (alookup f (t_fams t)) as [[rule|]|]; auto; contradiction.
  - destruct (gc_fold now (t_rows t) t Hok (asorted_nodup_keys _ (proj1 Hok))) as [H1 [H2 [H3 H4]]].
    split; auto. split; auto. split; [|intros key; apply row_absent_iff_empty; exact H1].
    intros key. destruct (in_dec (list_eq_dec N.eq_dec) key (map fst (t_rows t))) as [Hin|Hnin]; auto.
    specialize (H4 key Hnin). unfold get_row. rewrite H4, (alookup_not_in _ _ Hnin).
    intros f q ts. unfold cells_of, abs_fams. cbn.
    destruct (alookup f (t_fams t)) as [[rule|]|]; auto. rewrite apply_gc_nil. reflexivity.
Qed.

(* at server level: only the named table changes, and the invariant is kept *)
Theorem gc_step_spec : forall s tbl now coins, server_ok s ->
  let '(s', rsp) := step s (mkCall (BRunGC tbl) now coins) in
  server_ok s'
  /\ (forall n, n <> tbl -> alookup n s' = alookup n s)
  /\ match alookup tbl s with
     | Some t => alookup tbl s' = Some (gc_pass t now) /\ rsp = ok YNone
     | None => s' = s /\ rsp = fail cNotFound
     end.
Proof.
  intros s tbl now coins Hs. unfold step. cbn [cl_req cl_now cl_coins].
  destruct (alookup tbl s) as [t|] eqn:E.
  - split; [|split].
    + apply set_table_ok; auto. apply (gc_pass_spec t now). eapply server_ok_lookup; eauto.
    + intros n Hn. apply alookup_ainsert_other. exact Hn.
    + split; auto. apply alookup_ainsert_same.
  - split; auto.
Qed.

Example gc_example :
  let cells := [mkCell 9000 [1%N] []; mkCell 7000 [2%N] []; mkCell 5000 [3%N] []; mkCell 1000 [4%N] []] in
  desc cells
  /\ gc_cutoff 0 3000000 8000 = 5000
  (* max-age with the cut-off exactly at 5000: that cell stays, the older one goes *)
  /\ apply_gc cells (GMaxAge 0 3000000) 8000 = firstn 3 cells
  /\ apply_gc cells (GMaxVersions 2) 8000 = firstn 2 cells
  /\ apply_gc cells (GUnion [GMaxVersions 3; GMaxAge 0 1000000]) 8000 = firstn 2 cells
  /\ apply_gc cells (GUnion [GOther; GMaxVersions (-1)]) 8000 = cells.
Proof. split; [apply descb_sound; reflexivity|]. vm_compute. auto 10. Qed.

(* a concrete client history, used by the non-vacuity examples of Props/C16.v *)
Definition gc_tbl : bytes := [112; 114; 111; 106; 101; 99; 116; 115; 47; 112; 47; 105; 110; 115; 116; 97; 110; 99; 101; 115; 47; 105; 47; 116; 97; 98; 108; 101; 115; 47; 116]%N.   (* "projects/p/instances/i/tables/t" *)
Definition gc_history : list call :=
  [ mkCall (BCreateTable [112; 114; 111; 106; 101; 99; 116; 115; 47; 112; 47; 105; 110; 115; 116; 97; 110; 99; 101; 115; 47; 105]%N [116%N] [([102%N], Some (GMaxAge 0 0)); ([103%N], None)]) 0 [];
    mkCall (BMutateRow gc_tbl [97%N] [SetCell [102%N] [113%N] 1000 [1%N]]) 0 [];
    mkCall (BMutateRow gc_tbl [98%N] [SetCell [102%N] [113%N] 9000 [1%N]; SetCell [102%N] [113%N] 2000 [2%N];
                                      SetCell [103%N] [113%N] 1000 [5%N]]) 0 [] ].


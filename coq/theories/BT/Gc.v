(* applyGC (inmem.go) *)
From Coq Require Import List NArith ZArith Bool.
Import ListNotations.
From Emu.Common Require Import Bytes Str.
From Emu.BT Require Import Types Mutate.
Local Open Scope Z_scope.

Fixpoint apply_gc (cells : list cell) (rule : gcrule) (now : Z) : list cell :=
  match rule with
  | GOther => cells
  | GUnion rules => (fix go (rs : list gcrule) (cells : list cell) :=
                       match rs with [] => cells | r :: rest => go rest (apply_gc cells r now) end) rules cells
  | GMaxAge secs nanos =>
      let cutoff := wrap64 (wrap64 (now - wrap64 (secs * 1000000)) - Z.quot nanos 1000) in
      firstn (search_lt cells cutoff) cells
  | GMaxVersions n =>
      if (0 <=? n) && (Z.to_nat n <? length cells)%nat then firstn (Z.to_nat n) cells else cells
  end.

(* one row of a GC pass: (changed, new families) *)
Definition gc_fams (tf : list (bytes * option gcrule)) (now : Z) (fs : list family) : bool * list family :=
  let fs' := map (fun f =>
                    match alookup (fam_name f) tf with
                    | Some (Some rule) => mkFam (fam_name f) (map (fun c => mkCol (col_q c) (apply_gc (col_cells c) rule now)) (fam_cols f))
                    | _ => f
                    end) fs in
  (existsb (fun p => negb (Nat.eqb (length (col_cells (fst p))) (length (col_cells (snd p)))))
              (combine (flat_map fam_cols fs) (flat_map fam_cols fs')),
   fs').

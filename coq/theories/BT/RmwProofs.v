(* C13 — ReadModifyWriteRow: big-endian 64-bit codec, increment wrap-around, per-rule semantics,
   atomic failure. *)
From Coq Require Import List NArith ZArith Bool Lia ZifyBool ZifyNat ZifyN Arith.
Import ListNotations.
From Emu.Common Require Import Bytes Str StrProofs.
From Emu.BT Require Import Types Mutate Server CellSpec CellProofs.
Local Open Scope Z_scope.

(* ------------------------------------------------------------------ *)
(* wrap64: two's-complement reduction to int64 *)
Definition two64 : Z := 18446744073709551616.
Definition two63 : Z := 9223372036854775808.

Lemma wrap64_range z : - two63 <= wrap64 z < two63.
Proof. unfold wrap64, two63. pose proof (Z.mod_pos_bound (z + 9223372036854775808) 18446744073709551616). lia. Qed.

Lemma wrap64_id z : - two63 <= z < two63 -> wrap64 z = z.
Proof. unfold wrap64, two63. intros H. rewrite Z.mod_small by lia. lia. Qed.

Lemma wrap64_mod z : wrap64 z mod two64 = z mod two64.
Proof.
  unfold wrap64, two64. rewrite Zminus_mod_idemp_l. f_equal. lia.
Qed.

Lemma wrap64_of_mod z : wrap64 (z mod two64) = wrap64 z.
Proof. unfold wrap64, two64. rewrite Zplus_mod_idemp_l. reflexivity. Qed.

Lemma wrap64_idem z : wrap64 (wrap64 z) = wrap64 z.
Proof. apply wrap64_id. apply wrap64_range. Qed.

(* wrap64 z is THE int64 congruent to z modulo 2^64 *)
Lemma wrap64_congr z : exists k, wrap64 z = z + k * two64.
Proof.
  unfold wrap64, two64. exists (- ((z + 9223372036854775808) / 18446744073709551616)).
  pose proof (Z.div_mod (z + 9223372036854775808) 18446744073709551616). lia.
Qed.

(* ------------------------------------------------------------------ *)
(* big-endian codec *)
Definition be_val (b : bytes) : Z := fold_left (fun acc x => acc * 256 + Z.of_N x) b 0.

Lemma be_val_snoc b x : be_val (b ++ [x]) = be_val b * 256 + Z.of_N x.
Proof. unfold be_val. rewrite fold_left_app. reflexivity. Qed.

Lemma be64_digits_app n : forall z acc, be64_digits n z acc = be64_digits n z [] ++ acc.
Proof.
  induction n as [|k IH]; intros z acc; cbn [be64_digits]; auto.
  rewrite (IH (z / 256) (_ :: acc)), (IH (z / 256) [_]). rewrite <- app_assoc. reflexivity.
Qed.

Lemma be64_digits_length n : forall z acc, length (be64_digits n z acc) = (n + length acc)%nat.
Proof.
  induction n as [|k IH]; intros z acc; cbn [be64_digits]; auto.
  rewrite IH. cbn [length]. lia.
Qed.

Lemma be64_digits_val n : forall z, be_val (be64_digits n z []) = z mod 256 ^ Z.of_nat n.
Proof.
  induction n as [|k IH]; intros z.
  - cbn. rewrite Z.mod_1_r. reflexivity.
  - cbn [be64_digits]. rewrite be64_digits_app, be_val_snoc, IH.
    rewrite Nat2Z.inj_succ, Z.pow_succ_r by lia.
    assert (Hp : 0 < 256 ^ Z.of_nat k) by (apply Z.pow_pos_nonneg; lia).
    rewrite Z.rem_mul_r by lia.
    pose proof (Z.mod_pos_bound z 256). rewrite Z2N.id by lia. lia.
Qed.

Lemma be64_digits_bytes n : forall z acc x, In x (be64_digits n z acc) -> (x < 256)%N \/ In x acc.
Proof.
  induction n as [|k IH]; intros z acc x Hin; cbn [be64_digits] in Hin; auto.
  apply IH in Hin. destruct Hin as [H|[H|H]]; auto.
  left. subst x. pose proof (Z.mod_pos_bound z 256). lia.
Qed.

Theorem be64_length : forall z, length (be64_encode z) = 8%nat.
Proof. intros z. unfold be64_encode. rewrite be64_digits_length. reflexivity. Qed.

Theorem be64_bytes : forall z x, In x (be64_encode z) -> (x < 256)%N.
Proof. intros z x H. apply be64_digits_bytes in H. destruct H as [H|[]]. exact H. Qed.

Theorem be64_roundtrip : forall z, be64_decode (be64_encode z) = wrap64 z.
Proof.
  intros z. unfold be64_decode, be64_encode. fold (be_val (be64_digits 8 (z mod 18446744073709551616) [])).
  rewrite be64_digits_val. change (256 ^ Z.of_nat 8) with two64. change 18446744073709551616 with two64.
  rewrite Z.mod_mod by (unfold two64; lia). apply wrap64_of_mod.
Qed.

Lemma be_val_bound b : (forall x, In x b -> (x < 256)%N) -> 0 <= be_val b < 256 ^ Z.of_nat (length b).
Proof.
  induction b as [|x b IH] using rev_ind; intros Hb.
  - cbn. lia.
  - rewrite be_val_snoc, app_length. cbn [length]. rewrite Nat.add_1_r, Nat2Z.inj_succ, Z.pow_succ_r by lia.
    assert (Hx : (x < 256)%N) by (apply Hb; apply in_or_app; right; left; reflexivity).
    assert (IH' : 0 <= be_val b < 256 ^ Z.of_nat (length b)).
    { apply IH. intros y Hy. apply Hb. apply in_or_app. left. exact Hy. }
    lia.
Qed.

Lemma be64_digits_of_val b : (forall x, In x b -> (x < 256)%N) ->
  be64_digits (length b) (be_val b) [] = b.
Proof.
  induction b as [|x b IH] using rev_ind; intros Hb; [reflexivity|].
  rewrite app_length. cbn [length]. rewrite Nat.add_1_r. cbn [be64_digits].
  rewrite be64_digits_app, be_val_snoc.
  assert (Hx : (x < 256)%N) by (apply Hb; apply in_or_app; right; left; reflexivity).
  replace ((be_val b * 256 + Z.of_N x) / 256) with (be_val b)
    by (apply Z.div_unique with (r := Z.of_N x); lia).
  replace ((be_val b * 256 + Z.of_N x) mod 256) with (Z.of_N x)
    by (apply Z.mod_unique with (q := be_val b); lia).
  rewrite N2Z.id, IH; auto. intros y Hy. apply Hb. apply in_or_app. left. exact Hy.
Qed.

Theorem be64_encode_decode : forall b, length b = 8%nat -> (forall x, In x b -> (x < 256)%N) ->
  be64_encode (be64_decode b) = b.
Proof.
  intros b Hl Hb. unfold be64_encode, be64_decode. fold (be_val b). fold two64.
  rewrite wrap64_mod. pose proof (be_val_bound b Hb) as Hv. rewrite Hl in Hv.
  change (256 ^ Z.of_nat 8) with two64 in Hv. rewrite Z.mod_small by exact Hv.
  rewrite <- Hl. apply be64_digits_of_val. exact Hb.
Qed.

(* the increment: decode, add, wrap at 64 bits, encode *)
Definition incr_value (prev : bytes) (amt : Z) : bytes := be64_encode (wrap64 (be64_decode prev + amt)).

Theorem rmw_increment_wraps : forall prev amt,
  be64_decode (incr_value prev amt) = wrap64 (be64_decode prev + amt)
  /\ length (incr_value prev amt) = 8%nat
  /\ - two63 <= be64_decode (incr_value prev amt) < two63
  /\ exists k, be64_decode (incr_value prev amt) = be64_decode prev + amt + k * two64.
Proof.
  intros prev amt. unfold incr_value. rewrite be64_roundtrip, wrap64_idem.
  split; [reflexivity|]. split; [apply be64_length|]. split; [apply wrap64_range|apply wrap64_congr].
Qed.

Example be64_examples :
  be64_encode (-1) = [255; 255; 255; 255; 255; 255; 255; 255]%N
  /\ be64_decode [127; 255; 255; 255; 255; 255; 255; 255]%N = 9223372036854775807
  /\ be64_decode (incr_value [127; 255; 255; 255; 255; 255; 255; 255]%N 1) = - 9223372036854775808.
Proof. vm_compute. auto. Qed.

(* ------------------------------------------------------------------ *)
(* one rule, described directly: the cell it writes (None = the request fails) *)
Definition rule_target (r : rmwrule) : bytes * bytes :=
  match r with RAppend f q _ | RIncrement f q _ | RUnset f q => (f, q) end.

Definition rmw_ts (now : Z) (cells : list cell) : Z :=
  match cells with c :: _ => Z.max (trunc_ms now) (c_ts c) | [] => trunc_ms now end.

Definition rmw_value (rule : rmwrule) (cells : list cell) : option bytes :=
  match rule with
  | RUnset _ _ => None
  | RAppend _ _ v => Some (match cells with c :: _ => c_val c | [] => [] end ++ v)
  | RIncrement _ _ amt =>
      match cells with
      | [] => Some (be64_encode (wrap64 amt))                       (* missing cell counts as 0 *)
      | c :: _ => if Nat.eqb (length (c_val c)) 8 then Some (incr_value (c_val c) amt) else None
      end
  end.

Definition rmw_new_cell (tf : list (bytes * option gcrule)) (now : Z) (rule : rmwrule) (fs : list family) : option cell :=
  let '(fam, q) := rule_target rule in
  if known_family tf fam then
    match rmw_value rule (cells_of fs fam q) with
    | Some v => Some (mkCell (rmw_ts now (cells_of fs fam q)) v [])
    | None => None
    end
  else None.

Definition rmw_write (fs : list family) (rule : rmwrule) (nc : cell) : list family :=
  upd_col fs (fst (rule_target rule)) (snd (rule_target rule)) (fun cs => insert_cell cs nc).
Definition rmw_note (res : list family) (rule : rmwrule) (nc : cell) : list family :=
  upd_col res (fst (rule_target rule)) (snd (rule_target rule)) (fun _ => [nc]).

(* the model's loop body is exactly that *)
Lemma rmw_rules_cons tf now rule rest fs res :
  rmw_rules tf now (rule :: rest) fs res
  = match rmw_new_cell tf now rule fs with
    | None => None
    | Some nc => rmw_rules tf now rest (rmw_write fs rule nc) (rmw_note res rule nc)
    end.
Proof.
  unfold rmw_new_cell, rmw_write, rmw_note, cells_of, incr_value.
  destruct rule as [fam q v|fam q amt|fam q]; cbn [rmw_rules rule_target fst snd rmw_value];
    destruct (known_family tf fam); cbn [negb]; try reflexivity.
  - destruct (get_family fs fam) as [fm|]; [destruct (get_column (fam_cols fm) q) as [c|]|];
      try reflexivity; destruct (col_cells c); reflexivity.
  - destruct (get_family fs fam) as [fm|]; [destruct (get_column (fam_cols fm) q) as [c|]|];
      try reflexivity; destruct (col_cells c) as [|d ds]; cbn [andb negb rmw_ts]; try reflexivity.
    destruct (Nat.eqb (length (c_val d)) 8); reflexivity.
  - destruct (get_family fs fam) as [fm|]; [destruct (get_column (fam_cols fm) q) as [c|]|];
      try reflexivity; destruct (col_cells c); reflexivity.
Qed.

Lemma rmw_rules_nil tf now fs res : rmw_rules tf now [] fs res = Some (fs, res).
Proof. reflexivity. Qed.

(* the new cell is at least as new as everything in the column, so it becomes the head *)
Lemma insert_cell_newest c r n : desc (c :: r) -> c_ts c <= c_ts n ->
  insert_cell (c :: r) n = n :: (if c_ts c =? c_ts n then r else c :: r).
Proof.
  intros _ H. cbn [insert_cell]. destruct (c_ts c =? c_ts n) eqn:E; auto.
  replace (c_ts c <? c_ts n) with true by lia. reflexivity.
Qed.

Lemma rmw_new_cell_ts tf now rule fs nc : rmw_new_cell tf now rule fs = Some nc ->
  c_ts nc = rmw_ts now (cells_of fs (fst (rule_target rule)) (snd (rule_target rule))) /\ c_labels nc = [].
Proof.
  unfold rmw_new_cell. destruct (rule_target rule) as [fam q]. cbn [fst snd].
  destruct (known_family tf fam); [|discriminate].
  destruct (rmw_value rule (cells_of fs fam q)); [|discriminate]. intros H. injection H as <-. auto.
Qed.

Lemma rmw_write_head tf now rule fs nc : fams_ok fs -> rmw_new_cell tf now rule fs = Some nc ->
  exists r, cells_of (rmw_write fs rule nc) (fst (rule_target rule)) (snd (rule_target rule)) = nc :: r.
Proof.
  intros Hok Hn. destruct (rmw_new_cell_ts _ _ _ _ _ Hn) as [Hts _].
  unfold rmw_write. rewrite cells_of_upd_col, !beqb_refl. cbn [andb].
  pose proof (fams_ok_cells_desc fs (fst (rule_target rule)) (snd (rule_target rule)) Hok) as Hd.
  destruct (cells_of fs (fst (rule_target rule)) (snd (rule_target rule))) as [|c r] eqn:E.
  - exists []. reflexivity.
  - rewrite insert_cell_newest; auto; [eexists; reflexivity|]. rewrite Hts. cbn [rmw_ts]. lia.
Qed.

(* rmw_rule_spec: what one rule does to a well-formed row *)
Theorem rmw_rule_spec : forall tf now rule fs nc,
  fams_ok fs -> rmw_new_cell tf now rule fs = Some nc ->
  let fam := fst (rule_target rule) in
  let q := snd (rule_target rule) in
  let old := cells_of fs fam q in
  let fs' := rmw_write fs rule nc in
  fams_ok fs'
  /\ known_family tf fam = true
  (* timestamp: the larger of the truncated server time and the newest existing timestamp *)
  /\ c_ts nc = match old with c :: _ => Z.max (trunc_ms now) (c_ts c) | [] => trunc_ms now end
  (* value *)
  /\ match rule with
     | RAppend _ _ v => c_val nc = match old with c :: _ => c_val c | [] => [] end ++ v
     | RIncrement _ _ amt =>
         be64_decode (c_val nc) = wrap64 (match old with c :: _ => be64_decode (c_val c) | [] => 0 end + amt)
         /\ length (c_val nc) = 8%nat
         /\ match old with c :: _ => length (c_val c) = 8%nat | [] => True end
     | RUnset _ _ => False
     end
  (* the written cell is the newest cell of the column afterwards, older versions are kept *)
  /\ (exists r, cells_of fs' fam q = nc :: r)
  /\ abs_fams fs' fam q (c_ts nc) = Some (c_val nc)
  /\ (forall f q' t, (f, q', t) <> (fam, q, c_ts nc) -> abs_fams fs' f q' t = abs_fams fs f q' t).
Proof.
  intros tf now rule fs nc Hok Hn fam q old fs'.
  pose proof (rmw_new_cell_ts _ _ _ _ _ Hn) as [Hts _].
  split; [|split; [|split; [|split; [|split; [|split]]]]].
  - unfold fs', rmw_write. apply upd_col_ok; auto. apply insert_cell_desc. apply fams_ok_cells_desc. exact Hok.
  - unfold rmw_new_cell in Hn. fold fam in Hn. destruct (rule_target rule) as [a b]. cbn in fam. subst fam.
    destruct (known_family tf a); [reflexivity|discriminate].
  - exact Hts.
  - unfold rmw_new_cell in Hn. subst old fam q. destruct (rule_target rule) as [a b] eqn:Et. cbn [fst snd] in *.
    destruct (known_family tf a); [|discriminate].
    destruct rule as [f0 q0 v|f0 q0 amt|f0 q0]; cbn [rmw_value] in Hn.
    + injection Hn as <-. reflexivity.
    + destruct (cells_of fs a b) as [|c r].
      * injection Hn as <-. cbn [c_val]. rewrite be64_roundtrip, wrap64_idem, be64_length. auto.
      * destruct (Nat.eqb (length (c_val c)) 8) eqn:E8; [|discriminate]. injection Hn as <-. cbn [c_val].
        destruct (rmw_increment_wraps (c_val c) amt) as [H1 [H2 _]]. rewrite H1, H2.
        apply Nat.eqb_eq in E8. auto.
    + discriminate.
  - apply (rmw_write_head tf now); auto.
  - unfold fs', rmw_write. rewrite abs_upd_col, !beqb_refl. cbn [andb].
    rewrite insert_cell_lookup, Z.eqb_refl. reflexivity.
  - intros f q' t Hne. unfold fs', rmw_write. rewrite abs_upd_col, insert_cell_lookup.
    destruct (beqb f (fst (rule_target rule))) eqn:E1; cbn [andb]; auto.
    destruct (beqb q' (snd (rule_target rule))) eqn:E2; cbn [andb]; auto.
    apply beqb_eq in E1. apply beqb_eq in E2. subst f q'.
    destruct (t =? c_ts nc) eqn:E3.
    + exfalso. apply Hne. f_equal. lia.
    + symmetry. apply abs_cells_of.
Qed.

(* ------------------------------------------------------------------ *)
(* the whole rule list *)
Lemma known_upd_col tf fs fam q g : all_known tf fs -> known_family tf fam = true -> all_known tf (upd_col fs fam q g).
Proof. intros Hk Hf. unfold upd_col, all_known. apply set_family_forall; auto. Qed.

Lemma rmw_new_cell_known tf now rule fs nc : rmw_new_cell tf now rule fs = Some nc ->
  known_family tf (fst (rule_target rule)) = true.
Proof.
  unfold rmw_new_cell. destruct (rule_target rule) as [a b]. cbn [fst].
  destruct (known_family tf a); [reflexivity|discriminate].
Qed.

Theorem rmw_rules_ok : forall tf now rules fs res fs' res',
  fams_ok fs -> fams_ok res -> rmw_rules tf now rules fs res = Some (fs', res') ->
  fams_ok fs' /\ fams_ok res'.
Proof.
  intros tf now rules. induction rules as [|rule rest IH]; intros fs res fs' res' Hfs Hres H.
  - cbn in H. injection H as <- <-. auto.
  - rewrite rmw_rules_cons in H. destruct (rmw_new_cell tf now rule fs) as [nc|] eqn:En; [|discriminate].
    apply IH in H; auto.
    + apply (rmw_rule_spec tf now rule fs nc Hfs En).
    + unfold rmw_note. apply upd_col_ok; auto. cbn. split; auto. intros d [].
Qed.

Theorem rmw_rules_known : forall tf now rules fs res fs' res',
  all_known tf fs -> all_known tf res -> rmw_rules tf now rules fs res = Some (fs', res') ->
  all_known tf fs' /\ all_known tf res'.
Proof.
  intros tf now rules. induction rules as [|rule rest IH]; intros fs res fs' res' Hfs Hres H.
  - cbn in H. injection H as <- <-. auto.
  - rewrite rmw_rules_cons in H. destruct (rmw_new_cell tf now rule fs) as [nc|] eqn:En; [|discriminate].
    pose proof (rmw_new_cell_known _ _ _ _ _ En) as Hk.
    apply IH in H; auto; apply known_upd_col; auto.
Qed.

(* the response: per touched column exactly one cell, the last one written there = the newest
   cell of that column in the new row; untouched columns do not appear *)
Definition targets (f q : bytes) (r : rmwrule) : bool :=
  beqb f (fst (rule_target r)) && beqb q (snd (rule_target r)).

Lemma rmw_response_gen tf now rules : forall fs res fs' res',
  fams_ok fs ->
  (forall f q, cells_of res f q = [] \/ cells_of res f q = firstn 1 (cells_of fs f q) /\ cells_of fs f q <> []) ->
  rmw_rules tf now rules fs res = Some (fs', res') ->
  forall f q,
    cells_of res' f q =
      if existsb (targets f q) rules then firstn 1 (cells_of fs' f q)
      else cells_of res f q.
Proof.
  induction rules as [|rule rest IH]; intros fs res fs' res' Hok Hinv H f q.
  - cbn in H. injection H as <- <-. reflexivity.
  - rewrite rmw_rules_cons in H. destruct (rmw_new_cell tf now rule fs) as [nc|] eqn:En; [|discriminate].
    destruct (rmw_rule_spec tf now rule fs nc Hok En) as [Hok1 [_ [_ [_ [[r Hhead] _]]]]].
    assert (Hinv1 : forall f q, cells_of (rmw_note res rule nc) f q = []
              \/ cells_of (rmw_note res rule nc) f q = firstn 1 (cells_of (rmw_write fs rule nc) f q)
                 /\ cells_of (rmw_write fs rule nc) f q <> []).
    { intros f0 q0. unfold rmw_note. rewrite cells_of_upd_col.
      destruct (beqb f0 (fst (rule_target rule)) && beqb q0 (snd (rule_target rule))) eqn:E.
      - apply andb_prop in E. destruct E as [E1 E2]. apply beqb_eq in E1. apply beqb_eq in E2. subst f0 q0.
        right. rewrite Hhead. split; [reflexivity|discriminate].
      - unfold rmw_write. rewrite cells_of_upd_col, E. apply Hinv. }
    specialize (IH _ _ _ _ Hok1 Hinv1 H f q). rewrite IH. cbn [existsb].
    destruct (existsb (targets f q) rest) eqn:Er; [rewrite orb_true_r; reflexivity|].
    rewrite orb_false_r. unfold targets at 1.
    unfold rmw_note. rewrite cells_of_upd_col.
    destruct (beqb f (fst (rule_target rule)) && beqb q (snd (rule_target rule))) eqn:E; auto.
    (* this was the last rule for the column: nothing later touches it *)
    apply andb_prop in E. destruct E as [E1 E2]. apply beqb_eq in E1. apply beqb_eq in E2. subst f q.
    assert (Hsame : forall rules fs0 res0 fs1 res1 f q, rmw_rules tf now rules fs0 res0 = Some (fs1, res1) ->
              existsb (targets f q) rules = false -> cells_of fs1 f q = cells_of fs0 f q).
    { clear. induction rules as [|a l IHl]; intros fs0 res0 fs1 res1 f q H Hex.
      - cbn in H. injection H as <- <-. reflexivity.
      - rewrite rmw_rules_cons in H. destruct (rmw_new_cell tf now a fs0) as [nc|]; [|discriminate].
        cbn [existsb] in Hex. apply orb_false_elim in Hex. destruct Hex as [Ha Hl].
        rewrite (IHl _ _ _ _ f q H Hl). unfold rmw_write. rewrite cells_of_upd_col.
        unfold targets in Ha. rewrite Ha. reflexivity. }
    rewrite (Hsame _ _ _ _ _ _ _ H Er), Hhead. reflexivity.
Qed.

Theorem rmw_response_spec : forall tf now rules fs fs' res,
  fams_ok fs -> rmw_rules tf now rules fs [] = Some (fs', res) ->
  fams_ok res /\ all_known tf res /\
  forall f q, cells_of res f q = if existsb (targets f q) rules then firstn 1 (cells_of fs' f q) else [].
Proof.
  intros tf now rules fs fs' res Hok H. split; [|split].
  - eapply (rmw_rules_ok tf now rules fs [] fs' res); eauto. apply fams_ok_nil.
  - assert (Hk : forall rules fs res fs' res', all_known tf res -> rmw_rules tf now rules fs res = Some (fs', res') -> all_known tf res').
    { clear. induction rules as [|a l IH]; intros fs res fs' res' Hk H.
      - cbn in H. injection H as <- <-. exact Hk.
      - rewrite rmw_rules_cons in H. destruct (rmw_new_cell tf now a fs) as [nc|] eqn:En; [|discriminate].
        eapply IH; [|exact H]. apply known_upd_col; auto. eapply rmw_new_cell_known; eauto. }
    eapply Hk; [|exact H]. constructor.
  - intros f q. rewrite (rmw_response_gen tf now rules fs [] fs' res Hok); auto.
Qed.

(* ------------------------------------------------------------------ *)
(* the whole request: columns no rule names keep their cells; in every column every version that
   existed before still exists afterwards (a version is only ever replaced at the very timestamp
   a rule writes) *)
Theorem rmw_rules_untouched : forall tf now rules fs res fs' res' f q,
  rmw_rules tf now rules fs res = Some (fs', res') ->
  existsb (targets f q) rules = false -> cells_of fs' f q = cells_of fs f q.
Proof.
  intros tf now rules. induction rules as [|a l IHl]; intros fs0 res0 fs1 res1 f q H Hex.
  - cbn in H. injection H as <- <-. reflexivity.
  - rewrite rmw_rules_cons in H. destruct (rmw_new_cell tf now a fs0) as [nc|]; [|discriminate].
    cbn [existsb] in Hex. apply orb_false_elim in Hex. destruct Hex as [Ha Hl].
    rewrite (IHl _ _ _ _ f q H Hl). unfold rmw_write. rewrite cells_of_upd_col.
    unfold targets in Ha. rewrite Ha. reflexivity.
Qed.

Theorem rmw_rules_keep_versions : forall tf now rules fs res fs' res',
  fams_ok fs -> rmw_rules tf now rules fs res = Some (fs', res') ->
  forall f q t, abs_fams fs f q t <> None -> abs_fams fs' f q t <> None.
Proof.
  intros tf now rules. induction rules as [|rule rest IH]; intros fs res fs' res' Hok H f q t Hin.
  - cbn in H. injection H as <- <-. exact Hin.
  - rewrite rmw_rules_cons in H. destruct (rmw_new_cell tf now rule fs) as [nc|] eqn:En; [|discriminate].
    destruct (rmw_rule_spec tf now rule fs nc Hok En) as [Hok1 [_ [_ [_ [_ [Hnew Hframe]]]]]].
    apply (IH _ _ _ _ Hok1 H f q t).
    destruct (list_eq_dec N.eq_dec f (fst (rule_target rule))) as [Ef|Nf];
    [destruct (list_eq_dec N.eq_dec q (snd (rule_target rule))) as [Eq|Nq];
     [destruct (Z.eq_dec t (c_ts nc)) as [Et|Nt]|]|].
    + subst f q t. rewrite Hnew. discriminate.
    + rewrite Hframe; [exact Hin|]. intros E. injection E as _ _ E. contradiction.
    + rewrite Hframe; [exact Hin|]. intros E. injection E as _ E _. contradiction.
    + rewrite Hframe; [exact Hin|]. intros E. injection E as E _ _. contradiction.
Qed.

(* ------------------------------------------------------------------ *)
(* failure is atomic *)
Theorem rmw_unknown_family_fails : forall tf now rules fs res rule,
  In rule rules -> known_family tf (fst (rule_target rule)) = false ->
  rmw_rules tf now rules fs res = None.
Proof.
  intros tf now rules. induction rules as [|a l IH]; intros fs res rule Hin Hk; [destruct Hin|].
  rewrite rmw_rules_cons. destruct (rmw_new_cell tf now a fs) as [nc|] eqn:En; auto.
  destruct Hin as [->|Hin]; [|eapply IH; eauto].
  apply rmw_new_cell_known in En. congruence.
Qed.

Lemma rmw_rules_app tf now r1 r2 fs res :
  rmw_rules tf now (r1 ++ r2) fs res
  = match rmw_rules tf now r1 fs res with Some (fs1, res1) => rmw_rules tf now r2 fs1 res1 | None => None end.
Proof.
  revert fs res. induction r1 as [|a l IH]; intros fs res; [reflexivity|].
  cbn [app]. rewrite !rmw_rules_cons. destruct (rmw_new_cell tf now a fs); auto.
Qed.

(* an increment whose column's newest value — as left by the preceding rules — is not 8 bytes
   long (an existing EMPTY value included) fails the whole list *)
Theorem rmw_bad_increment_fails : forall tf now pre fam q amt post fs res fs1 res1 c r,
  rmw_rules tf now pre fs res = Some (fs1, res1) ->
  cells_of fs1 fam q = c :: r -> length (c_val c) <> 8%nat ->
  rmw_rules tf now (pre ++ RIncrement fam q amt :: post) fs res = None.
Proof.
  intros tf now pre fam q amt post fs res fs1 res1 c r Hpre Hc Hlen.
  rewrite rmw_rules_app, Hpre, rmw_rules_cons. unfold rmw_new_cell. cbn [rule_target rmw_value].
  destruct (known_family tf fam); auto. rewrite Hc.
  apply Nat.eqb_neq in Hlen. rewrite Hlen. reflexivity.
Qed.

Theorem rmw_unset_fails : forall tf now pre fam q post fs res,
  rmw_rules tf now (pre ++ RUnset fam q :: post) fs res = None.
Proof.
  intros. rewrite rmw_rules_app. destruct (rmw_rules tf now pre fs res) as [[fs1 res1]|]; auto.
  rewrite rmw_rules_cons. unfold rmw_new_cell. cbn [rule_target rmw_value].
  destruct (known_family tf fam); reflexivity.
Qed.

(* ... and a failed request changes nothing on the server *)
Theorem rmw_error_atomic : forall s tbl key rules now coins t,
  alookup tbl s = Some t ->
  rmw_rules (t_fams t) now rules (get_row t key) [] = None ->
  step s (mkCall (BReadModifyWrite tbl key rules) now coins) = (s, fail cUnknown).
Proof. intros s tbl key rules now coins t Ht Hr. unfold step. cbn [cl_req cl_now cl_coins]. rewrite Ht, Hr. reflexivity. Qed.

Theorem rmw_step_unchanged_unless_ok : forall s tbl key rules now coins,
  br_code (snd (step s (mkCall (BReadModifyWrite tbl key rules) now coins))) <> cOK ->
  fst (step s (mkCall (BReadModifyWrite tbl key rules) now coins)) = s.
Proof.
  intros s tbl key rules now coins. unfold step. cbn [cl_req cl_now cl_coins].
  destruct (alookup tbl s) as [t|]; [|reflexivity].
  destruct (rmw_rules (t_fams t) now rules (get_row t key) []) as [[fs res]|]; [|reflexivity].
  cbn. intros H. exfalso. apply H. reflexivity.
Qed.

(* a successful request: the row is rewritten with the rules' result, the response is the scrubbed
   list of newly written cells *)
Theorem rmw_step_ok : forall s tbl key rules now coins t fs res,
  server_ok s -> alookup tbl s = Some t ->
  rmw_rules (t_fams t) now rules (get_row t key) [] = Some (fs, res) ->
  let '(s', rsp) := step s (mkCall (BReadModifyWrite tbl key rules) now coins) in
  server_ok s'
  /\ rsp = ok (YRows [mkRow key (scrub_fams (t_fams t) res)])
  /\ cm_eq (abs_fams (scrub_fams (t_fams t) res)) (abs_fams res)
  /\ (exists t', alookup tbl s' = Some t' /\ t_fams t' = t_fams t
                 /\ cm_eq (abs_fams (get_row t' key)) (abs_fams fs)
                 /\ forall k, k <> key -> alookup k (t_rows t') = alookup k (t_rows t))
  /\ (forall n, n <> tbl -> alookup n s' = alookup n s).
Proof.
  intros s tbl key rules now coins t fs res Hs Ht Hr. unfold step. cbn [cl_req cl_now cl_coins].
  rewrite Ht, Hr.
  pose proof (server_ok_lookup _ _ _ Hs Ht) as Htok.
  pose proof (table_ok_get_row t key Htok) as Hrow.
  destruct (rmw_rules_ok _ _ _ _ _ _ _ (proj1 Hrow) fams_ok_nil Hr) as [Hfs Hres].
  assert (Hk0 : all_known (t_fams t) []) by constructor.
  destruct (rmw_rules_known _ _ _ _ _ _ _ (stored_all_known _ _ Hrow) Hk0 Hr) as [Hkfs Hkres].
  split; [|split; [|split; [|split]]].
  - apply set_table_ok; auto. apply update_row_ok; auto.
  - reflexivity.
  - apply scrub_preserves_content; auto.
  - exists (update_row t key fs). split; [apply alookup_ainsert_same|]. split; [apply update_row_fams|]. split.
    + rewrite get_row_update_same by apply Htok. apply scrub_preserves_content; auto.
    + intros k Hk. apply lookup_update_other. exact Hk.
  - intros n Hn. apply alookup_ainsert_other. exact Hn.
Qed.

Example rmw_example :
  let tf := [([102%N], None)] in
  let fs := [mkFam [102%N] [mkCol [113%N] [mkCell 5000 [0;0;0;0;0;0;0;1]%N []; mkCell 1000 [7%N] []]]] in
  fams_ok fs
  /\ rmw_rules tf 3500 [RIncrement [102%N] [113%N] 2; RAppend [102%N] [120%N] [1%N]] fs []
     = Some ([mkFam [102%N] [mkCol [113%N] [mkCell 5000 [0;0;0;0;0;0;0;3]%N []; mkCell 1000 [7%N] []];
                             mkCol [120%N] [mkCell 3000 [1%N] []]]],
             [mkFam [102%N] [mkCol [113%N] [mkCell 5000 [0;0;0;0;0;0;0;3]%N []];
                             mkCol [120%N] [mkCell 3000 [1%N] []]]])
  /\ rmw_rules tf 9000 [RAppend [102%N] [113%N] [9%N]; RIncrement [102%N] [113%N] 1] fs [] = None.
Proof. split; [apply fams_okb_sound; reflexivity|]. vm_compute. auto. Qed.
